#!/bin/sh
# usage: tools/seedtest.sh [--full] <patch.diff> <Cxx> [<Cyy> ...]
# default: the patch is applied to a scratch copy of /repo/src under /tmp and the checks run with
#          VERIF_SRC=<copy> --no-build (correspondence/oracle path only; /repo is not touched).
# --full : the patch is applied to /repo itself, the complete checks run (translator, proofs, correspondence),
#          and /repo is ALWAYS restored afterwards.  Use only when nothing else is using /repo.
set -u
# a broken correspondence starts the search for a failing input; for seed trials a small budget is enough
export VERIF_SEARCH_SCALE="${VERIF_SEARCH_SCALE:-2}"
FULL=0
GEN=0
if [ "$1" = "--full" ]; then FULL=1; shift; fi
# --gen : like the default (scratch copy, /repo untouched) but WITH regeneration and proof build from the scratch copy
if [ "$1" = "--gen" ]; then GEN=1; shift; fi
PATCH="$(readlink -f "$1")"; shift
if [ $FULL = 1 ]; then
  cd /repo || exit 2
  if ! git diff --quiet; then echo "refusing: /repo has uncommitted changes"; exit 2; fi
  git apply "$PATCH" || { echo "patch does not apply"; exit 2; }
  trap 'git -C /repo checkout -- . ; echo "[seedtest] /repo restored"' EXIT
  cd /verif
  for p in "$@"; do
    echo "=== $p (full) with $PATCH"
    ./check "$p" --tier quick 2>&1 | grep -E "^\[|VIOLATION|KNOWN-FINDING|broken|disagreement" | cut -c1-400 | head -12
  done
else
  D=$(mktemp -d /tmp/seedsrc.XXXXXX)
  trap 'rm -rf "$D"' EXIT
  mkdir -p "$D/w" && cp -r /repo/src "$D/w/src" && (cd "$D/w" && git init -q . && git apply "$PATCH") || { echo "patch does not apply"; exit 2; }
  cd /verif
  for p in "$@"; do
    echo "=== $p (harness path) with $PATCH"
    if [ $GEN = 1 ]; then NB=""; export VERIF_REPO="$D/w"; else NB="--no-build"; fi
    export VERIF_EVIDENCE_DIR="$D/evidence"     # the committed evidence of the real tree is not overwritten
    VERIF_SRC="$D/w/src" ./check "$p" --tier quick $NB 2>&1 | grep -E "^\[|VIOLATION|KNOWN-FINDING|broken|disagreement" | cut -c1-400 | head -12
  done
fi
