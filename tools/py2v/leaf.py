"""Fail-closed translator for small "leaf" functions: Python ast -> Gallina text.

Subset: straight-line code over integers, byte strings (list Z) and booleans:
  x = e, x += e, x |= e, self._a = e, if/elif/else, while (-> fuelled Fixpoint),
  return e, raise Exc(...), `with ...:` (transparent), list.append, break, continue.
Expressions: int literals, names, self attributes, + - * // % | & << >>, comparisons,
  and/or/not, len(), min(), max(), single/multi-byte `in` tests on bytes, .split(b'/'),
  any(<genexpr>), True/False/None, a < b < c on names/constants, x in (1, 2, 3) on integers,
  a if c else b.  With types["#checked_index"] set, `x = seq[<const>]` raises IndexError when the
  sequence is too short (and every other integer subscript is refused); without it seq[i] is nth with
  default 0 (callers must then know the index is in range).

Every function becomes
    Definition <name> (fuel : nat) (<state attrs> <params>) : res (<state tuple> * <ret>)
where `res` is Base.Prelude's  Ok | Raise kind | OutOfFuel.  Anything outside the subset
raises Untranslatable (the caller records it; the tie falls back to correspondence).
"""
from __future__ import annotations
import ast

EXC_CODES = {"ValueError": 1, "TypeError": 2, "MQTTException": 3, "MalformedPacket": 4,
             "RuntimeError": 5, "IndexError": 6, "KeyError": 7, "AssertionError": 8}


class Untranslatable(Exception):
    pass


class Ctx:
    def __init__(self, fname, state, params, types, ret_default, consts):
        self.fname = fname
        self.state = state            # list of self attribute names carried in/out
        self.params = params          # list of parameter names
        self.types = types            # name -> 'Z' | 'bool' | 'bytes' | 'zlist'
        self.ret_default = ret_default
        self.consts = consts          # global names -> Coq text
        self.loops = []               # emitted Fixpoints (text)
        self.nloops = 0
        self.locals = []              # ordered local names (assigned somewhere)


def coq_name(n):
    return n.lstrip("_") + "_v" if n in ("max", "min", "length", "at", "mod", "fix", "end", "as", "in") else n.lstrip("_")


BINOPS = {ast.Add: "Z.add", ast.Sub: "Z.sub", ast.Mult: "Z.mul", ast.FloorDiv: "Z.div",
          ast.Mod: "Z.modulo", ast.BitOr: "Z.lor", ast.BitAnd: "Z.land",
          ast.LShift: "Z.shiftl", ast.RShift: "Z.shiftr"}
CMPOPS = {ast.Eq: "Z.eqb", ast.Lt: "Z.ltb", ast.LtE: "Z.leb", ast.Gt: "Z.gtb", ast.GtE: "Z.geb"}


def bytes_lit(b):
    return "[" + "; ".join(str(x) for x in b) + "]"


class Tr:
    def __init__(self, ctx: Ctx):
        self.c = ctx

    # ---------------------------------------------------------------- expressions
    def typ(self, e):
        if isinstance(e, ast.Constant):
            if isinstance(e.value, bool):
                return "bool"
            if isinstance(e.value, int):
                return "Z"
            if isinstance(e.value, bytes):
                return "bytes"
            if e.value is None:
                return "none"
        if isinstance(e, ast.Name):
            return self.c.types.get(e.id, "Z")
        if isinstance(e, ast.Attribute) and isinstance(e.value, ast.Name) and e.value.id == "self":
            return self.c.types.get(e.attr, "Z")
        if isinstance(e, (ast.Compare, ast.BoolOp)):
            return "bool"
        if isinstance(e, ast.UnaryOp) and isinstance(e.op, ast.Not):
            return "bool"
        if isinstance(e, ast.Call) and isinstance(e.func, ast.Name) and e.func.id == "any":
            return "bool"
        if isinstance(e, ast.Call) and isinstance(e.func, ast.Attribute) and e.func.attr == "split":
            return "byteslist"
        if isinstance(e, ast.Subscript):
            if isinstance(e.slice, ast.Slice):
                return self.typ(e.value)
            return "Z"
        if isinstance(e, ast.List):
            return "zlist"
        if isinstance(e, ast.IfExp):
            return self.typ(e.body)
        return "Z"

    def expr(self, e, env):
        c = self.c
        if isinstance(e, ast.Constant):
            if isinstance(e.value, bool):
                return "true" if e.value else "false"
            if isinstance(e.value, int):
                return f"({e.value})" if e.value < 0 else str(e.value)
            if isinstance(e.value, bytes):
                return bytes_lit(e.value)
            raise Untranslatable(f"constant {e.value!r}")
        if isinstance(e, ast.Name):
            if e.id in env:
                return env[e.id]
            if e.id in c.consts:
                return c.consts[e.id]
            raise Untranslatable(f"unknown name {e.id}")
        if isinstance(e, ast.Attribute):
            if isinstance(e.value, ast.Name) and e.value.id == "self":
                key = "self." + e.attr
                if key in env:
                    return env[key]
                raise Untranslatable(f"self attribute {e.attr} not declared")
            full = ast.unparse(e)
            if full in c.consts:
                return c.consts[full]
            raise Untranslatable(f"attribute {full}")
        if isinstance(e, ast.BinOp):
            if type(e.op) not in BINOPS:
                raise Untranslatable(f"binop {type(e.op).__name__}")
            if isinstance(e.op, ast.Add) and self.typ(e.left) in ("bytes", "zlist"):
                return f"({self.expr(e.left, env)} ++ {self.expr(e.right, env)})"
            return f"({BINOPS[type(e.op)]} {self.expr(e.left, env)} {self.expr(e.right, env)})"
        if isinstance(e, ast.UnaryOp):
            if isinstance(e.op, ast.Not):
                return f"(negb {self.bexpr(e.operand, env)})"
            if isinstance(e.op, ast.USub):
                return f"(Z.opp {self.expr(e.operand, env)})"
            raise Untranslatable("unaryop")
        if isinstance(e, ast.Compare):
            return self.compare(e, env)
        if isinstance(e, ast.BoolOp):
            op = "andb" if isinstance(e.op, ast.And) else "orb"
            parts = [self.bexpr(v, env) for v in e.values]
            out = parts[-1]
            for p in reversed(parts[:-1]):
                out = f"({op} {p} {out})"
            return out
        if isinstance(e, ast.Call):
            return self.call(e, env)
        if isinstance(e, ast.Subscript):
            v = self.expr(e.value, env)
            if isinstance(e.slice, ast.Slice):
                lo = e.slice.lower
                hi = e.slice.upper
                if e.slice.step is not None:
                    raise Untranslatable("slice step")
                r = v
                if hi is not None:
                    r = f"(firstn (Z.to_nat {self.expr(hi, env)}) {r})"
                if lo is not None:
                    if hi is not None:
                        raise Untranslatable("two-sided slice")
                    r = f"(skipn (Z.to_nat {self.expr(lo, env)}) {r})"
                return r
            if self.c.types.get("#checked_index"):
                raise Untranslatable("subscript outside `x = seq[const]` while checked indexing is on")
            return f"(nth (Z.to_nat {self.expr(e.slice, env)}) {v} 0)"
        if isinstance(e, ast.List):
            return "[" + "; ".join(self.expr(x, env) for x in e.elts) + "]"
        if isinstance(e, ast.IfExp):
            if self.typ(e.body) != self.typ(e.orelse):
                raise Untranslatable("conditional expression with branches of different types")
            return f"(if {self.bexpr(e.test, env)} then {self.expr(e.body, env)} else {self.expr(e.orelse, env)})"
        if isinstance(e, ast.Tuple):
            return "(" + ", ".join(self.expr(x, env) for x in e.elts) + ")"
        raise Untranslatable(f"expression {type(e).__name__}: {ast.unparse(e)}")

    def bexpr(self, e, env):
        t = self.typ(e)
        if t == "bool":
            return self.expr(e, env)
        if t == "Z":  # Python truthiness of an int
            return f"(negb (Z.eqb {self.expr(e, env)} 0))"
        if t in ("bytes", "zlist"):
            return f"(negb (Nat.eqb (length {self.expr(e, env)}) 0))"
        raise Untranslatable(f"truthiness of {t}")

    def compare(self, e, env):
        if len(e.ops) != 1:
            # a < b < c  ==  a < b and b < c ; only for operands without side effects (names, constants)
            operands = [e.left] + list(e.comparators)
            if not all(isinstance(o, (ast.Name, ast.Constant)) for o in operands):
                raise Untranslatable("chained comparison of compound operands")
            parts = [self.compare(ast.Compare(left=operands[i], ops=[e.ops[i]], comparators=[operands[i + 1]]), env)
                     for i in range(len(e.ops))]
            out = parts[-1]
            for p in reversed(parts[:-1]):
                out = f"(andb {p} {out})"
            return out
        op, l, r = e.ops[0], e.left, e.comparators[0]
        if isinstance(op, (ast.In, ast.NotIn)) and isinstance(r, (ast.Tuple, ast.List)) and r.elts \
                and all(isinstance(x, ast.Constant) and type(x.value) is int for x in r.elts) \
                and self.typ(l) == "Z":
            # x in (0, 1, 2) on integers
            t = f"(existsb (Z.eqb {self.expr(l, env)}) [{'; '.join(self.expr(x, env) for x in r.elts)}])"
            return t if isinstance(op, ast.In) else f"(negb {t})"
        if isinstance(op, ast.In):
            if isinstance(l, ast.Constant) and isinstance(l.value, bytes):
                if len(l.value) == 1:
                    return f"(existsb (Z.eqb {l.value[0]}) {self.expr(r, env)})"
                return f"(infixb {bytes_lit(l.value)} {self.expr(r, env)})"
            raise Untranslatable("in")
        if isinstance(op, ast.NotEq):
            return f"(negb (Z.eqb {self.expr(l, env)} {self.expr(r, env)}))"
        if isinstance(op, ast.Is) and isinstance(r, ast.Constant) and r.value is None:
            return f"(is_none {self.expr(l, env)})"
        if isinstance(op, ast.IsNot) and isinstance(r, ast.Constant) and r.value is None:
            return f"(negb (is_none {self.expr(l, env)}))"
        if type(op) not in CMPOPS:
            raise Untranslatable(f"cmpop {type(op).__name__}")
        return f"({CMPOPS[type(op)]} {self.expr(l, env)} {self.expr(r, env)})"

    def call(self, e, env):
        f = e.func
        if isinstance(f, ast.Name):
            if f.id == "len" and len(e.args) == 1:
                return f"(Z.of_nat (length {self.expr(e.args[0], env)}))"
            if f.id in ("min", "max") and len(e.args) == 2:
                return f"(Z.{f.id} {self.expr(e.args[0], env)} {self.expr(e.args[1], env)})"
            if f.id == "any" and len(e.args) == 1 and isinstance(e.args[0], ast.GeneratorExp):
                g = e.args[0]
                if len(g.generators) != 1 or not isinstance(g.generators[0].target, ast.Name):
                    raise Untranslatable("genexpr shape")
                gen = g.generators[0]
                v = gen.target.id
                env2 = dict(env)
                env2[v] = coq_name(v)
                self.c.types[v] = "bytes"
                body = self.bexpr(g.elt, env2)
                for cond in gen.ifs:
                    body = f"(andb {self.bexpr(cond, env2)} {body})"
                return f"(existsb (fun {coq_name(v)} => {body}) {self.expr(gen.iter, env)})"
            if f.id == "int" and len(e.args) == 1:
                return self.expr(e.args[0], env)
            if f.id == "bytes" and len(e.args) == 1:
                return self.expr(e.args[0], env)
        if isinstance(f, ast.Attribute) and f.attr == "split" and len(e.args) == 1 \
                and isinstance(e.args[0], ast.Constant) and isinstance(e.args[0].value, bytes) \
                and len(e.args[0].value) == 1:
            return f"(split_on {e.args[0].value[0]} {self.expr(f.value, env)})"
        raise Untranslatable(f"call {ast.unparse(e)}")

    # ---------------------------------------------------------------- statements
    def result_tuple(self, env, retv):
        st = [env["self." + a] for a in self.c.state]
        parts = st + [retv]
        return "Ok (" + ", ".join(parts) + ")" if len(parts) > 1 else f"Ok {parts[0]}"

    def target_key(self, t):
        if isinstance(t, ast.Name):
            return t.id
        if isinstance(t, ast.Attribute) and isinstance(t.value, ast.Name) and t.value.id == "self":
            if t.attr not in self.c.state:
                raise Untranslatable(f"assignment to undeclared self.{t.attr}")
            return "self." + t.attr
        raise Untranslatable(f"assignment target {ast.unparse(t)}")

    def fresh(self, key, env):
        base = coq_name(key.replace("self.", "s_"))
        n = env.get("#n", 0) + 1
        env["#n"] = n
        return f"{base}{n}"

    def stmts(self, body, env, k_end, loop):
        """Translate a statement list. k_end(env) gives the text for falling off the end.
        loop = None | (continue_fn(env), break_fn(env))."""
        if not body:
            return k_end(env)
        s, rest = body[0], body[1:]
        if isinstance(s, ast.Expr) and isinstance(s.value, ast.Constant):
            return self.stmts(rest, env, k_end, loop)            # docstring
        if isinstance(s, ast.Pass):
            return self.stmts(rest, env, k_end, loop)
        if isinstance(s, ast.With):
            return self.stmts(list(s.body) + rest, env, k_end, loop)
        if isinstance(s, (ast.Assign, ast.AugAssign, ast.AnnAssign)):
            if isinstance(s, ast.Assign) and self.c.types.get("#checked_index") and len(s.targets) == 1 \
                    and isinstance(s.value, ast.Subscript) and not isinstance(s.value.slice, ast.Slice):
                idx = s.value.slice
                if not (isinstance(idx, ast.Constant) and type(idx.value) is int and idx.value >= 0):
                    raise Untranslatable("checked index must be a non-negative constant")
                if self.typ(s.value.value) not in ("bytes", "zlist"):
                    raise Untranslatable("checked index into a non-list")
                key = self.target_key(s.targets[0])
                seq = self.expr(s.value.value, env)
                env = dict(env)
                nm = self.fresh(key, env)
                if isinstance(s.targets[0], ast.Name) and s.targets[0].id not in self.c.types:
                    self.c.types[s.targets[0].id] = "Z"
                env[key] = nm
                return (f"match nth_error {seq} {idx.value} with\n| None => Raise {EXC_CODES['IndexError']}\n"
                        f"| Some {nm} =>\n{self.stmts(rest, env, k_end, loop)}\nend")
            if isinstance(s, ast.Assign):
                if len(s.targets) != 1:
                    raise Untranslatable("multi-assign")
                tgt, val = s.targets[0], self.expr(s.value, env)
                ty = self.typ(s.value)
            elif isinstance(s, ast.AnnAssign):
                tgt, val = s.target, self.expr(s.value, env)
                ty = self.typ(s.value)
            else:
                tgt = s.target
                val = self.expr(ast.BinOp(left=s.target, op=s.op, right=s.value), env)
                ty = self.typ(s.target)
            key = self.target_key(tgt)
            env = dict(env)
            nm = self.fresh(key, env)
            if isinstance(tgt, ast.Name) and tgt.id not in self.c.types:
                self.c.types[tgt.id] = ty
            env[key] = nm
            return f"let {nm} := {val} in\n{self.stmts(rest, env, k_end, loop)}"
        if isinstance(s, ast.Expr) and isinstance(s.value, ast.Call):
            f = s.value.func
            if isinstance(f, ast.Attribute) and f.attr in ("append", "extend") and len(s.value.args) == 1:
                key = self.target_key(f.value)
                if key not in env:
                    raise Untranslatable(f"append to unknown {key}")
                env = dict(env)
                nm = self.fresh(key, env)
                arg = self.expr(s.value.args[0], env)
                val = f"({env[key]} ++ [{arg}])" if f.attr == "append" else f"({env[key]} ++ {arg})"
                env[key] = nm
                return f"let {nm} := {val} in\n{self.stmts(rest, env, k_end, loop)}"
            if isinstance(f, ast.Attribute) and f.attr == "_easy_log":
                return self.stmts(rest, env, k_end, loop)
            raise Untranslatable(f"expression statement {ast.unparse(s)}")
        if isinstance(s, ast.Return):
            rv = self.expr(s.value, env) if s.value is not None else self.c.ret_default
            return self.result_tuple(env, rv)
        if isinstance(s, ast.Raise):
            exc = s.exc
            name = exc.func.id if isinstance(exc, ast.Call) and isinstance(exc.func, ast.Name) else \
                (exc.id if isinstance(exc, ast.Name) else None)
            if name not in EXC_CODES:
                raise Untranslatable(f"raise {ast.unparse(s)}")
            return f"Raise {EXC_CODES[name]}"
        if isinstance(s, ast.If):
            cond = self.bexpr(s.test, env)
            a = self.stmts(list(s.body) + rest, env, k_end, loop)
            b = self.stmts(list(s.orelse) + rest, env, k_end, loop)
            return f"if {cond} then (\n{a}\n) else (\n{b})"
        if isinstance(s, ast.Break):
            if loop is None:
                raise Untranslatable("break outside loop")
            return loop[1](env)
        if isinstance(s, ast.Continue):
            if loop is None:
                raise Untranslatable("continue outside loop")
            return loop[0](env)
        if isinstance(s, ast.While):
            if s.orelse:
                raise Untranslatable("while-else")
            return self.while_loop(s, rest, env, k_end, loop)
        raise Untranslatable(f"statement {type(s).__name__}: {ast.unparse(s)[:60]}")

    def while_loop(self, s, rest, env, k_end, outer_loop):
        if outer_loop is not None:
            raise Untranslatable("nested loop")
        c = self.c
        c.nloops += 1
        lname = f"{c.fname}_loop{c.nloops}"
        keys = [k for k in env if k != "#n"]
        formals = [coq_name(k.replace("self.", "s_")) + "_" for k in keys]
        env_in = {k: f for k, f in zip(keys, formals)}
        env_in["#n"] = 0

        def call(e):
            # a variable first assigned inside the loop body is not loop-carried
            return f"{lname} fuel' " + " ".join(e[k] for k in keys)

        def after(e):
            e2 = {k: e[k] for k in keys}
            e2["#n"] = e.get("#n", 0)
            return self.stmts(rest, e2, k_end, None)

        body = list(s.body)
        is_true = isinstance(s.test, ast.Constant) and (s.test.value is True or
                                                        (type(s.test.value) is int and s.test.value == 1))
        inner = self.stmts(body, env_in, call, (call, after))
        if not is_true:
            inner = f"if {self.bexpr(s.test, env_in)} then (\n{inner}\n) else (\n{after(env_in)})"
        tys = []
        for k in keys:
            t = c.types.get(k.replace("self.", ""), "Z")
            tys.append({"Z": "Z", "bool": "bool", "bytes": "list Z", "zlist": "list Z",
                        "byteslist": "list (list Z)"}[t])
        binders = " ".join(f"({f} : {t})" for f, t in zip(formals, tys))
        c.loops.append(
            f"Fixpoint {lname} (fuel : nat) {binders} {{struct fuel}} : res ({c.ret_type}) :=\n"
            f"  match fuel with\n  | O => OutOfFuel\n  | S fuel' =>\n{inner}\n  end.\n")
        return f"{lname} fuel " + " ".join(env[k] for k in keys)


def translate(fn: ast.FunctionDef, name, state, params, types, ret_type, ret_default="0", consts=None):
    """state: list of self attrs (without 'self.'), params: list of (pyname) in order.
    types: name -> type tag; ret_type: Coq text of (state tuple * return) type."""
    ctx = Ctx(name, state, params, dict(types), ret_default, consts or {})
    ctx.ret_type = ret_type
    tr = Tr(ctx)
    env = {"#n": 0}
    binders = ["(fuel : nat)"]
    tymap = {"Z": "Z", "bool": "bool", "bytes": "list Z", "zlist": "list Z"}
    for a in state:
        env["self." + a] = "s_" + a.lstrip("_")
        binders.append(f"(s_{a.lstrip('_')} : {tymap[ctx.types.get(a, 'Z')]})")
    for p in params:
        env[p] = coq_name(p)
        binders.append(f"({coq_name(p)} : {tymap[ctx.types.get(p, 'Z')]})")

    def k_end(e):
        return tr.result_tuple(e, ret_default)

    body = tr.stmts(list(fn.body), env, k_end, None)
    out = "".join(ctx.loops)
    out += f"Definition {name} {' '.join(binders)} : res ({ret_type}) :=\n{body}.\n"
    return out


def find_function(tree, qual):
    parts = qual.split(".")
    node = tree
    for p in parts:
        found = None
        for ch in ast.iter_child_nodes(node):
            if isinstance(ch, (ast.ClassDef, ast.FunctionDef)) and ch.name == p:
                found = ch
                break
        if found is None:
            raise Untranslatable(f"{qual}: not found")
        node = found
    return node
