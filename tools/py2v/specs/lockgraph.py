"""C18 (and C07): lock / call / callback graph of paho.mqtt.client.Client, read from the AST of the
CURRENT client.py.  generate(repo) -> [("GenLockGraph.v", coq_text, problems)].

Per method of `Client` (property getters/setters are methods `get_<p>` / `set_<p>`) and of
`MQTTMessageInfo` (methods `info_<m>`), the tree of actions

  Acq l body          with self._<lock>: body
  TryAcq l body       if self._<lock>.acquire(False): self._<lock>.release(); body      (_packet_queue)
  IfCb c body         if <local holding callback c>: body   /  if self.on_c is not None: body
  Call m              self.m(...), property load/store on self, <x>.<MQTTMessageInfo method>(...)
  UserCb c            call of a local variable / attribute that holds user callback c
  JoinLoopUnlessSelf  if threading.current_thread() != self._thread: self._thread.join()     (loop_stop)
  Block w             an operation that may wait for another thread for ever (Condition.wait, unguarded join)

Control flow is over-approximated: every branch / handler / loop body "may execute" (the Coq semantics has a
skip rule for every action), statements are emitted in source order.  FAIL CLOSED: every call whose target is
reached through `self`, every use of a lock attribute, every use of bare `self`, every call of a local name and
every `with` item is classified; anything not classified is reported as a problem (`untranslatable: lockgraph: ...`)
and also written into the generated file (`translation_problems`), which makes Conc/LockGraphCheck.v fail.
"""
import ast, builtins, os

# ------------------------------------------------------------------ explicit allow-lists (printed into the output)
# data attributes of Client whose method calls cannot touch the client's locks or callbacks
DATA_ATTRS = {
    "_sock": "socket-like object (socket / SSLSocket / _WebsocketWrapper; the latter is checked to hold no lock)",
    "_sockpairR": "wake-up socket pair", "_sockpairW": "wake-up socket pair",
    "_out_packet": "collections.deque", "_out_messages": "OrderedDict", "_in_messages": "OrderedDict",
    "_in_packet": "dict of ints/bytearray", "_logger": "logging.Logger (standard logging; user handlers are outside the model)",
    "_ssl_context": "ssl.SSLContext", "_username": "bytes", "_password": "bytes", "_client_id": "bytes",
    "_will_topic": "bytes", "_will_payload": "bytes", "_connect_properties": "Properties", "_will_properties": "Properties",
    "_host": "str", "_proxy": "dict", "_protocol": "enum", "_callback_api_version": "enum", "_transport": "str",
    "_state": "enum", "_keepalive": "int", "_websocket_extra_headers": "dict or callable given to _WebsocketWrapper",
    "_published": "bool",
}
# (attribute, method) pairs with a special meaning
THREAD_ATTR = "_thread"
THREAD_IGNORED_METHODS = {"start": "starts the loop thread (runs _thread_main, an entry point of the model)"}
# bound methods of self that may be used as a value (not called)
BOUND_METHOD_VALUES = {"_thread_main": "Thread(target=self._thread_main): body runs on the new thread; _thread_main is an entry point"}
# method names on NON-self objects that are synchronisation primitives: never ignorable
SYNC_METHOD_NAMES = {"acquire", "release", "wait", "wait_for", "join", "notify", "notify_all", "__enter__", "__exit__", "locked"}
CONDITION_IGNORED = {"notify": "Condition.notify never blocks", "notify_all": "Condition.notify_all never blocks"}
# the wake-up socket pair: send/recv on it must be non-blocking (see Translator.check_socketpair)
PAIR_ATTRS = ("_sockpairR", "_sockpairW")
PAIR_IO_METHODS = {"send", "sendall", "recv", "recv_into", "sendto", "recvfrom"}
PAIR_FACTORY = "_socketpair_compat"
TOPIC_CB = "topic_callback"          # callbacks stored in self._on_message_filtered
FILTERED_ATTR = "_on_message_filtered"
FILTERED_IGNORED_METHODS = {"iter_match": "MQTTMatcher.iter_match returns the stored per-topic callbacks (taints the result)"}


def _is_self_attr(e, name=None):
    return (isinstance(e, ast.Attribute) and isinstance(e.value, ast.Name) and e.value.id == "self"
            and (name is None or e.attr == name))


def _root_and_first(e):
    """For an attribute/subscript/call chain return (root expr, first attribute name after the root or None)."""
    first = None
    while True:
        if isinstance(e, ast.Attribute):
            first = e.attr
            e = e.value
        elif isinstance(e, ast.Subscript):
            e = e.value
        elif isinstance(e, ast.Call):
            e = e.func
        else:
            return e, first


def _str_join(attr):
    """'sep'.join(...) on a string literal is not a thread join"""
    return attr.attr == "join" and isinstance(attr.value, (ast.Constant, ast.JoinedStr)) and \
        (isinstance(attr.value, ast.JoinedStr) or isinstance(attr.value.value, (str, bytes)))


class ClassInfo:
    def __init__(self, cdef, prefix, problems):
        self.cdef, self.prefix = cdef, prefix
        self.methods = {}          # model method name -> FunctionDef
        self.plain = {}            # python name -> model name for ordinary methods
        self.getter, self.setter = {}, {}
        self.static = set()
        for m in cdef.body:
            if not isinstance(m, ast.FunctionDef):
                continue
            decs = [ast.unparse(d) for d in m.decorator_list]
            if "property" in decs:
                self.getter[m.name] = prefix + "get_" + m.name
                self.methods[prefix + "get_" + m.name] = m
            elif any(d.endswith(".setter") for d in decs):
                self.setter[m.name] = prefix + "set_" + m.name
                self.methods[prefix + "set_" + m.name] = m
            elif decs and decs != ["staticmethod"]:
                problems.append(f"{cdef.name}.{m.name}: unknown decorator {decs}")
            else:
                if decs == ["staticmethod"]:
                    self.static.add(m.name)
                self.plain[m.name] = prefix + m.name
                self.methods[prefix + m.name] = m
        # locks and callback attributes from __init__
        self.locks = {}            # attr -> "Plain" | "Reentrant"
        self.cb_attrs = {}         # attr -> callback name
        init = next((m for m in cdef.body if isinstance(m, ast.FunctionDef) and m.name == "__init__"), None)
        if init is not None:
            for st in ast.walk(init):
                tgt = val = ann = None
                if isinstance(st, ast.Assign) and len(st.targets) == 1:
                    tgt, val = st.targets[0], st.value
                elif isinstance(st, ast.AnnAssign):
                    tgt, val, ann = st.target, st.value, ast.unparse(st.annotation)
                if tgt is None or not _is_self_attr(tgt) or val is None:
                    continue
                src = ast.unparse(val)
                if "threading." in src:
                    kind = {"threading.Lock()": "Plain", "threading.RLock()": "Reentrant",
                            "threading.Condition()": "Reentrant", "threading.Condition(threading.RLock())": "Reentrant",
                            "threading.Condition(threading.Lock())": "Plain"}.get(src)
                    if kind is None:
                        problems.append(f"{cdef.name}.__init__: unclassified threading object {tgt.attr} = {src}")
                    else:
                        self.locks[tgt.attr] = kind
                if ann is not None and "Callback" in ann and tgt.attr.startswith("_on_"):
                    self.cb_attrs[tgt.attr] = tgt.attr[1:]
                if src == "MQTTMatcher()" and tgt.attr == FILTERED_ATTR:
                    self.cb_attrs[tgt.attr] = TOPIC_CB
        # callback properties: getter is `return self._on_x`
        self.cb_props = {}
        for p, mname in self.getter.items():
            body = [s for s in self.methods[mname].body
                    if not (isinstance(s, ast.Expr) and isinstance(s.value, ast.Constant))]
            if len(body) == 1 and isinstance(body[0], ast.Return) and _is_self_attr(body[0].value) \
                    and body[0].value.attr in self.cb_attrs:
                self.cb_props[p] = self.cb_attrs[body[0].value.attr]


class Translator:
    def __init__(self, module, problems):
        self.problems = problems
        self.module = module
        self.ignored_used = {}     # description -> count  (printed)
        self.module_names = set(dir(builtins))
        for n in ast.walk(module):
            if isinstance(n, (ast.Import, ast.ImportFrom)):
                for a in n.names:
                    self.module_names.add((a.asname or a.name).split(".")[0])
        for n in module.body:
            if isinstance(n, (ast.FunctionDef, ast.ClassDef)):
                self.module_names.add(n.name)
            elif isinstance(n, ast.Assign):
                for t in n.targets:
                    if isinstance(t, ast.Name):
                        self.module_names.add(t.id)
            elif isinstance(n, ast.AnnAssign) and isinstance(n.target, ast.Name):
                self.module_names.add(n.target.id)
            elif isinstance(n, (ast.Try, ast.If)):
                for s in ast.walk(n):
                    if isinstance(s, ast.Assign):
                        for t in s.targets:
                            if isinstance(t, ast.Name):
                                self.module_names.add(t.id)
                    elif isinstance(s, (ast.FunctionDef, ast.ClassDef)):
                        self.module_names.add(s.name)
        classes = {n.name: n for n in module.body if isinstance(n, ast.ClassDef)}
        self.client = ClassInfo(classes["Client"], "", problems)
        self.info = ClassInfo(classes["MQTTMessageInfo"], "info_", problems)
        # MQTTMessageInfo methods that take a lock or wait: calls `<x>.<name>()` on any object are resolved to them
        self.info_sync_methods = set()
        for pyname, mname in self.info.plain.items():
            fn = self.info.methods[mname]
            if any(isinstance(s, ast.With) for s in ast.walk(fn)) or \
               any(isinstance(s, ast.Attribute) and s.attr in SYNC_METHOD_NAMES for s in ast.walk(fn)):
                self.info_sync_methods.add(pyname)
        self.check_lock_free(classes)
        self.pair_nonblocking, self.pair_note = self.check_socketpair()

    # -------------------------------------------------------------- helpers outside the two classes must be lock-free
    def check_lock_free(self, classes):
        for n in self.module.body:
            if isinstance(n, ast.ClassDef) and n.name in ("Client", "MQTTMessageInfo"):
                continue
            if isinstance(n, (ast.ClassDef, ast.FunctionDef)):
                for s in ast.walk(n):
                    if isinstance(s, ast.Name) and s.id in ("threading", "Client"):
                        self.problems.append(f"{n.name}: refers to {s.id} (helper outside the model is not lock-free)")
                    if isinstance(s, ast.Attribute) and s.attr in SYNC_METHOD_NAMES and not _str_join(s):
                        self.problems.append(f"{n.name}: uses .{s.attr} (helper outside the model is not lock-free)")
                    if isinstance(s, ast.With):
                        self.problems.append(f"{n.name}: contains a with statement at line {s.lineno}")

    # -------------------------------------------------------------- wake-up socket pair must be non-blocking
    def check_socketpair(self):
        """SYNTACTIC check: `_socketpair_compat` ends with `return (a, b)` (two local names, the only return) and, for
        each of them, a top-level statement `<name>.setblocking(False)` follows the last top-level assignment of that
        name, with no other setblocking/settimeout call on it anywhere.  Also every assignment of self._sockpairR/W
        in Client is `None` or the unpacking of `_socketpair_compat()`.  Anything else: (False, reason) - a send/recv
        on the pair is then emitted as a Block action (fail closed)."""
        fn = next((n for n in self.module.body if isinstance(n, ast.FunctionDef) and n.name == PAIR_FACTORY), None)
        if fn is None:
            self.problems.append(f"{PAIR_FACTORY}: function not found")
            return False, "factory not found"
        returns = [n for n in ast.walk(fn) if isinstance(n, ast.Return)]
        last = fn.body[-1]
        if len(returns) != 1 or returns[0] is not last or not isinstance(last.value, ast.Tuple) \
                or len(last.value.elts) != 2 or not all(isinstance(x, ast.Name) for x in last.value.elts):
            self.problems.append(f"{PAIR_FACTORY}: shape not recognised (expected a single final `return (a, b)`)")
            return False, "shape not recognised"
        for nm in [x.id for x in last.value.elts]:
            assigned_at, set_at = None, None
            for i, st in enumerate(fn.body):
                tg = []
                if isinstance(st, ast.Assign):
                    for t in st.targets:
                        tg += [x.id for x in ast.walk(t) if isinstance(x, ast.Name)]
                if nm in tg:
                    assigned_at = i
                if isinstance(st, ast.Expr) and ast.unparse(st.value) == f"{nm}.setblocking(False)":
                    set_at = i
            others = [n for n in ast.walk(fn) if isinstance(n, ast.Call) and isinstance(n.func, ast.Attribute)
                      and n.func.attr in ("setblocking", "settimeout") and isinstance(n.func.value, ast.Name)
                      and n.func.value.id == nm and ast.unparse(n) != f"{nm}.setblocking(False)"]
            nested_assign = [n for n in ast.walk(fn) if isinstance(n, (ast.Assign, ast.AugAssign, ast.NamedExpr, ast.For, ast.With))
                             and n not in fn.body and nm in [x.id for x in ast.walk(n) if isinstance(x, ast.Name) and isinstance(x.ctx, ast.Store)]]
            if assigned_at is None or set_at is None or set_at < assigned_at or others or nested_assign:
                return False, f"returned socket `{nm}` is not made non-blocking by a top-level `{nm}.setblocking(False)` after its assignment"
        # where the pair is stored
        for n in ast.walk(self.client.cdef):
            if isinstance(n, (ast.Assign, ast.AnnAssign)):
                targets = n.targets if isinstance(n, ast.Assign) else [n.target]
                val = n.value
                for t in targets:
                    names = [x.attr for x in ast.walk(t) if _is_self_attr(x) and x.attr in PAIR_ATTRS]
                    if not names or val is None:
                        continue
                    src = ast.unparse(val)
                    ok = src == "None" or (src == f"{PAIR_FACTORY}()" and isinstance(t, ast.Tuple)
                                           and [ast.unparse(e) for e in t.elts] == [f"self.{a}" for a in PAIR_ATTRS])
                    if not ok:
                        self.problems.append(f"Client: line {n.lineno}: wake-up pair assigned from something else: {ast.unparse(n)[:80]}")
                        return False, "pair assigned from an unrecognised expression"
        return True, "both sockets returned by _socketpair_compat are set non-blocking (syntactic check)"

    def note(self, what):
        self.ignored_used[what] = self.ignored_used.get(what, 0) + 1

    def prob(self, where, node, why):
        self.problems.append(f"{where}: line {getattr(node, 'lineno', '?')}: {why}: {ast.unparse(node)[:90]}")

    # -------------------------------------------------------------- taint: which local names hold user callbacks
    def taints(self, ci, fn):
        t = {}

        def of_expr(e):
            if _is_self_attr(e):
                if e.attr in ci.cb_attrs:
                    return {ci.cb_attrs[e.attr]}
                if e.attr in ci.cb_props:
                    return {ci.cb_props[e.attr]}
                return set()
            if isinstance(e, ast.Name):
                return set(t.get(e.id, ()))
            if isinstance(e, ast.Call):
                f = e.func
                if isinstance(f, ast.Name) and f.id == "cast" and len(e.args) == 2:
                    return of_expr(e.args[1])
                if isinstance(f, ast.Name) and f.id in ("list", "tuple", "iter", "sorted", "reversed") and e.args:
                    return of_expr(e.args[0])
                if isinstance(f, ast.Attribute):
                    r, first = _root_and_first(f)
                    if isinstance(r, ast.Name) and r.id == "self" and first in ci.cb_attrs:
                        return {ci.cb_attrs[first]}
                return set()
            if isinstance(e, ast.IfExp):
                return of_expr(e.body) | of_expr(e.orelse)
            if isinstance(e, (ast.BoolOp,)):
                out = set()
                for v in e.values:
                    out |= of_expr(v)
                return out
            return set()

        changed = True
        while changed:
            changed = False
            for s in ast.walk(fn):
                pairs = []
                if isinstance(s, ast.Assign):
                    for tg in s.targets:
                        pairs.append((tg, s.value))
                elif isinstance(s, ast.AnnAssign) and s.value is not None:
                    pairs.append((s.target, s.value))
                elif isinstance(s, (ast.For, ast.comprehension)):
                    pairs.append((s.target, s.iter))
                elif isinstance(s, ast.NamedExpr):
                    pairs.append((s.target, s.value))
                for tg, val in pairs:
                    if isinstance(tg, ast.Name):
                        new = of_expr(val)
                        if not new <= t.get(tg.id, set()):
                            t[tg.id] = t.get(tg.id, set()) | new
                            changed = True
        self._of_expr = of_expr
        return {k: v for k, v in t.items() if v}

    # -------------------------------------------------------------- one function
    def translate_function(self, ci, mname, fn):
        self.ci, self.where, self.fn = ci, f"{ci.cdef.name}.{fn.name}", fn
        self.is_init = fn.name == "__init__"
        self.taint = self.taints(ci, fn)
        # local aliases of the loop thread object: names whose every assignment in this function is `= self._thread`
        assigns = {}
        for st in ast.walk(fn):
            if isinstance(st, ast.Assign):
                for t in st.targets:
                    for x in ast.walk(t):
                        if isinstance(x, ast.Name):
                            assigns.setdefault(x.id, []).append(
                                isinstance(t, ast.Name) and _is_self_attr(st.value, THREAD_ATTR))
            elif isinstance(st, (ast.AugAssign, ast.AnnAssign, ast.NamedExpr, ast.For)) :
                tgt = st.target
                for x in ast.walk(tgt):
                    if isinstance(x, ast.Name):
                        assigns.setdefault(x.id, []).append(False)
        self.thread_aliases = {n for n, oks in assigns.items() if oks and all(oks)}
        self.local_funcs = {s.name for s in ast.walk(fn) if isinstance(s, ast.FunctionDef) and s is not fn}
        self.params = {a.arg for a in fn.args.args + fn.args.kwonlyargs}
        if fn.args.vararg:
            self.params.add(fn.args.vararg.arg)
        if fn.args.kwarg:
            self.params.add(fn.args.kwarg.arg)
        self.locals = set(self.params)
        for s in ast.walk(fn):
            if isinstance(s, ast.Name) and isinstance(s.ctx, ast.Store):
                self.locals.add(s.id)
            elif isinstance(s, ast.ExceptHandler) and s.name:
                self.locals.add(s.name)
            elif isinstance(s, ast.arg):
                self.locals.add(s.arg)
        if fn.name in ci.static:
            # static methods have no self: nothing reachable through self
            pass
        return self.stmts(fn.body)

    def stmts(self, body):
        out = []
        for s in body:
            out += self.stmt(s)
        return out

    def cb_of_test(self, test):
        """`if x:` / `if x is not None:` where x holds exactly one user callback -> its name, else None"""
        e = test
        if isinstance(e, ast.Compare) and len(e.ops) == 1 and isinstance(e.ops[0], ast.IsNot) \
                and isinstance(e.comparators[0], ast.Constant) and e.comparators[0].value is None:
            e = e.left
        if isinstance(e, ast.Name) or _is_self_attr(e):
            ts = self._of_expr(e)
            if len(ts) == 1:
                return next(iter(ts))
        return None

    def lock_of(self, e):
        if _is_self_attr(e) and e.attr in self.ci.locks:
            return e.attr
        return None

    def stmt(self, s):
        ci = self.ci
        if isinstance(s, ast.With):
            acts_items, locks = [], []
            for it in s.items:
                l = self.lock_of(it.context_expr)
                if l is None:
                    self.prob(self.where, it.context_expr, "with item is not a lock attribute of self")
                    acts_items += self.expr(it.context_expr)
                else:
                    locks.append(l)
                if it.optional_vars is not None:
                    self.prob(self.where, s, "with ... as ... on a lock")
            body = self.stmts(s.body)
            for l in reversed(locks):
                body = [("Acq", l, body)]
            return acts_items + body
        if isinstance(s, ast.If):
            # try-lock guard
            t = s.test
            if isinstance(t, ast.Call) and isinstance(t.func, ast.Attribute) and t.func.attr == "acquire" \
                    and self.lock_of(t.func.value) is not None:
                l = self.lock_of(t.func.value)
                nonblocking = (len(t.args) == 1 and isinstance(t.args[0], ast.Constant) and t.args[0].value is False
                               and not t.keywords) or \
                              (not t.args and len(t.keywords) == 1 and t.keywords[0].arg == "blocking"
                               and isinstance(t.keywords[0].value, ast.Constant) and t.keywords[0].value.value is False)
                first = s.body[0] if s.body else None
                released = (isinstance(first, ast.Expr) and isinstance(first.value, ast.Call)
                            and isinstance(first.value.func, ast.Attribute) and first.value.func.attr == "release"
                            and self.lock_of(first.value.func.value) == l and not first.value.args)
                if nonblocking and released:
                    return [("TryAcq", l, self.stmts(s.body[1:]))] + self.stmts(s.orelse)
                self.prob(self.where, t, "lock acquire outside the recognised `if l.acquire(False): l.release(); ...` guard")
                return self.stmts(s.body) + self.stmts(s.orelse)
            # self-join guard
            if isinstance(t, ast.Compare) and len(t.ops) == 1 and isinstance(t.ops[0], ast.NotEq) \
                    and ast.unparse(t.left) == "threading.current_thread()" and len(s.body) == 1 and not s.orelse:
                who = t.comparators[0]
                # the thread object compared is the one joined: self._thread, or a local alias of it
                if (_is_self_attr(who, THREAD_ATTR) or (isinstance(who, ast.Name) and who.id in self.thread_aliases)) \
                        and ast.unparse(s.body[0]) == f"{ast.unparse(who)}.join()":
                    return [("JoinLoopUnlessSelf",)]
            c = self.cb_of_test(t)
            if c is not None:
                return self.expr(t) + [("IfCb", c, self.stmts(s.body))] + self.stmts(s.orelse)
            return self.expr(t) + self.stmts(s.body) + self.stmts(s.orelse)
        if isinstance(s, (ast.For, ast.While)):
            head = self.expr(s.iter) + self.target(s.target) if isinstance(s, ast.For) else self.expr(s.test)
            return head + self.stmts(s.body) + self.stmts(s.orelse)
        if isinstance(s, ast.Try):
            out = self.stmts(s.body)
            for h in s.handlers:
                if h.type is not None:
                    out += self.expr(h.type)
                out += self.stmts(h.body)
            return out + self.stmts(s.orelse) + self.stmts(s.finalbody)
        if isinstance(s, ast.FunctionDef):
            # nested helper (decorator closures, should_exit, timed_out): body "may execute" here
            out = []
            for d in s.args.defaults + s.args.kw_defaults:
                if d is not None:
                    out += self.expr(d)
            return out + self.stmts(s.body)
        if isinstance(s, ast.Return):
            if isinstance(s.value, ast.Name) and s.value.id == "self":
                self.note("`return self` (handed back to the caller, who already has it)")
                return []
            return self.expr(s.value) if s.value is not None else []
        if isinstance(s, ast.Expr):
            return self.expr(s.value)
        if isinstance(s, ast.Assign):
            out = self.expr(s.value)
            for t in s.targets:
                out += self.target(t)
            return out
        if isinstance(s, ast.AugAssign):
            return self.expr(s.value) + self.expr_load_of_target(s.target) + self.target(s.target)
        if isinstance(s, ast.AnnAssign):
            return (self.expr(s.value) if s.value is not None else []) + self.target(s.target)
        if isinstance(s, ast.Raise):
            return (self.expr(s.exc) if s.exc is not None else []) + (self.expr(s.cause) if s.cause is not None else [])
        if isinstance(s, ast.Assert):
            return self.expr(s.test) + (self.expr(s.msg) if s.msg is not None else [])
        if isinstance(s, ast.Delete):
            out = []
            for t in s.targets:
                out += self.target(t)
            return out
        if isinstance(s, (ast.Pass, ast.Break, ast.Continue, ast.Global, ast.Nonlocal, ast.Import, ast.ImportFrom)):
            return []
        self.prob(self.where, s, f"statement kind {type(s).__name__} not handled")
        return []

    def expr_load_of_target(self, t):
        if _is_self_attr(t) and t.attr in self.ci.getter:
            return [("Call", self.ci.getter[t.attr])]
        return []

    def target(self, t):
        """assignment / deletion / loop target"""
        ci = self.ci
        if isinstance(t, ast.Name):
            return []
        if isinstance(t, (ast.Tuple, ast.List)):
            out = []
            for e in t.elts:
                out += self.target(e)
            return out
        if isinstance(t, ast.Starred):
            return self.target(t.value)
        if _is_self_attr(t):
            if t.attr in ci.locks:
                if not self.is_init:
                    self.prob(self.where, t, "lock attribute assigned outside __init__")
                return []
            if t.attr in ci.setter:
                return [("Call", ci.setter[t.attr])]
            if t.attr in ci.getter:
                self.prob(self.where, t, "store to a read-only property")
                return []
            if t.attr in ci.plain:
                self.prob(self.where, t, "method attribute overwritten")
            return []
        if isinstance(t, ast.Attribute):
            return self.expr(t.value)
        if isinstance(t, ast.Subscript):
            return self.expr(t.value) + self.expr(t.slice)
        self.prob(self.where, t, "assignment target not handled")
        return []

    def expr(self, e):
        ci = self.ci
        if e is None:
            return []
        if isinstance(e, ast.Call):
            return self.call(e)
        if isinstance(e, ast.Name):
            if e.id == "self" and self.fn.name not in ci.static:
                self.prob(self.where, e, "bare `self` escapes")
            return []
        if _is_self_attr(e):
            a = e.attr
            if a in ci.locks:
                self.prob(self.where, e, "lock attribute used outside with / try-lock guard")
                return []
            if a in ci.getter:
                return [("Call", ci.getter[a])]
            if a in ci.plain:
                if a in BOUND_METHOD_VALUES:
                    self.note(f"self.{a} used as a value: {BOUND_METHOD_VALUES[a]}")
                else:
                    self.prob(self.where, e, "bound method of self used as a value")
            return []
        if isinstance(e, ast.Lambda):
            return self.expr(e.body)
        if isinstance(e, (ast.ListComp, ast.SetComp, ast.GeneratorExp, ast.DictComp)):
            out = []
            for g in e.generators:
                out += self.expr(g.iter)
                for c in g.ifs:
                    out += self.expr(c)
            if isinstance(e, ast.DictComp):
                return out + self.expr(e.key) + self.expr(e.value)
            return out + self.expr(e.elt)
        if isinstance(e, (ast.Await, ast.Yield, ast.YieldFrom)):
            self.prob(self.where, e, "await/yield")
            return []
        out = []
        for ch in ast.iter_child_nodes(e):
            if isinstance(ch, ast.expr):
                out += self.expr(ch)
            elif isinstance(ch, ast.keyword):
                out += self.expr(ch.value)
        return out

    def call(self, e):
        ci = self.ci
        f = e.func
        argacts = []
        self_args = 0
        for a in list(e.args) + [k.value for k in e.keywords]:
            if isinstance(a, ast.Name) and a.id == "self":
                self_args += 1
            else:
                argacts += self.expr(a)

        def done(acts, allows_self=False):
            if self_args and not allows_self:
                self.prob(self.where, e, "`self` passed to something that is not a user callback")
            return argacts + acts

        # ---- self.<name>(...)
        if _is_self_attr(f):
            a = f.attr
            if a in ci.plain:
                return done([("Call", ci.plain[a])])
            if a in ci.cb_props:
                return done([("Call", ci.getter[a]), ("UserCb", ci.cb_props[a])], allows_self=True)
            if a in ci.cb_attrs and ci.cb_attrs[a] != TOPIC_CB:
                return done([("UserCb", ci.cb_attrs[a])], allows_self=True)
            self.prob(self.where, e, "call through self that is neither a method nor a callback")
            return done([])
        # ---- plain name
        if isinstance(f, ast.Name):
            n = f.id
            if n in self.taint:
                return done([("UserCb", c) for c in sorted(self.taint[n])], allows_self=True)
            if n in self.local_funcs:
                return done([])            # body already emitted at the definition
            if n in self.locals:
                self.prob(self.where, e, "call of a local name that is not a recognised user callback")
                return done([])
            if n in self.module_names:
                self.note("module-level function / class / builtin called by name")
                return done([])
            self.prob(self.where, e, "call of an unknown name")
            return done([])
        # ---- attribute chains
        if isinstance(f, ast.Attribute):
            m = f.attr
            root, first = _root_and_first(f.value)
            recv = self.expr_receiver(f.value)
            if isinstance(root, ast.Name) and root.id == "self" and self.fn.name not in ci.static:
                # self.<first>....<m>(...)
                if first in ci.locks:
                    if _is_self_attr(f.value) and m in CONDITION_IGNORED and ci is self.info:
                        self.note(f"self.{first}.{m}: {CONDITION_IGNORED[m]}")
                        return done([])
                    if _is_self_attr(f.value) and m in ("wait", "wait_for"):
                        return done([("Block", "condition_wait")])
                    self.prob(self.where, e, "lock operation outside the recognised patterns")
                    return done([])
                if first == THREAD_ATTR:
                    if _is_self_attr(f.value) and m in THREAD_IGNORED_METHODS:
                        self.note(f"self.{first}.{m}: {THREAD_IGNORED_METHODS[m]}")
                        return done([])
                    if _is_self_attr(f.value) and m == "join":
                        return done([("Block", "unguarded_join")])
                    self.prob(self.where, e, "operation on the loop thread object")
                    return done([])
                if first in ci.cb_attrs:
                    if first == FILTERED_ATTR and m in FILTERED_IGNORED_METHODS and _is_self_attr(f.value):
                        self.note(f"self.{first}.{m}: {FILTERED_IGNORED_METHODS[m]}")
                        return done(recv)
                    self.prob(self.where, e, "method call on a callback attribute")
                    return done(recv)
                if first in ci.cb_props or first in ci.plain or first in ci.getter:
                    # e.g. self.on_log.__name__() or self.method().x() : evaluate the receiver, then an opaque call
                    if m in SYNC_METHOD_NAMES or m in self.info_sync_methods:
                        self.prob(self.where, e, "synchronisation call on a value obtained through self")
                    self.note("method call on a value returned by a method/property of self")
                    return done(recv)
                if first in PAIR_ATTRS and m in PAIR_IO_METHODS:
                    if _is_self_attr(f.value) and self.pair_nonblocking:
                        self.note(f"self.{first}.{m}: Send/Recv on the wake-up pair, non-blocking: {self.pair_note}")
                        return done(recv)
                    return done(recv + [("Block", "wakeup_pipe_io")])
                if first in DATA_ATTRS:
                    if m in SYNC_METHOD_NAMES:
                        self.prob(self.where, e, "synchronisation primitive on a data attribute")
                    if m in self.info_sync_methods:
                        return done(recv + [("Call", self.info.plain[m])])
                    self.note(f"self.{first}.*: {DATA_ATTRS[first]}")
                    return done(recv)
                self.prob(self.where, e, f"call through unclassified attribute self.{first}")
                return done(recv)
            # receiver is not self
            if isinstance(f.value, ast.Name) and f.value.id in self.thread_aliases:
                if m == "join":
                    return done([("Block", "unguarded_join")])      # a join outside the recognised self-join guard
                self.prob(self.where, e, "operation on the loop thread object (local alias)")
                return done([])
            if m in self.info_sync_methods:
                return done(recv + [("Call", self.info.plain[m])])
            if m in SYNC_METHOD_NAMES and not _str_join(f):
                self.prob(self.where, e, "synchronisation primitive on a non-self object")
                return done(recv)
            if isinstance(root, ast.Name) and root.id in self.taint:
                self.prob(self.where, e, "method call on a value holding a user callback")
                return done(recv)
            self.note("method of a local / module object (struct, time, socket, ssl, bytes, Properties, ReasonCode, ...)")
            return done(recv)
        # ---- anything else (call of a call result, subscript ...)
        self.prob(self.where, e, "call target form not handled")
        return done(self.expr(f))

    def expr_receiver(self, e):
        """actions of evaluating the receiver of a method call (property loads, nested calls)"""
        if _is_self_attr(e):
            a = e.attr
            if a in self.ci.getter:
                return [("Call", self.ci.getter[a])]
            return []          # data / lock / callback attribute: classified by the caller
        if isinstance(e, ast.Name):
            return []
        return self.expr(e)


# ---------------------------------------------------------------------- emission
def sanitize(n):
    """Coq identifier part for a python name; `__` is reserved by Coq's extraction, so a leading underscore
    becomes `priv_` and a dunder name `dunder_<name>`."""
    pre = ""
    if n.startswith("info_"):
        pre, n = "info_", n[5:]
    for acc in ("get_", "set_"):
        if n.startswith(acc):
            pre, n = pre + acc, n[len(acc):]
    if n.startswith("__") and n.endswith("__") and len(n) > 4:
        n = "dunder_" + n[2:-2]
    elif n.startswith("_"):
        n = "priv_" + n[1:]
    return (pre + n).replace(".", "_").replace("__", "_x_")


def emit_acts(acts, ids, indent):
    pad = " " * indent
    parts = []
    for a in acts:
        k = a[0]
        if k in ("Acq", "TryAcq", "IfCb"):
            ident = ("l_" if k != "IfCb" else "cb_") + sanitize(a[1])
            inner = emit_acts(a[2], ids, indent + 2)
            parts.append(f"{pad}{k} {ident} [\n{inner}\n{pad}]" if a[2] else f"{pad}{k} {ident} []")
        elif k == "Call":
            parts.append(f"{pad}Call m_{sanitize(a[1])}")
        elif k == "UserCb":
            parts.append(f"{pad}UserCb cb_{sanitize(a[1])}")
        elif k == "JoinLoopUnlessSelf":
            parts.append(f"{pad}JoinLoopUnlessSelf")
        elif k == "Block":
            parts.append(f"{pad}Block w_{a[1]}")
        else:
            raise ValueError(k)
    return ";\n".join(parts)


def collect(acts, kind, out):
    for a in acts:
        if a[0] == kind:
            out.add(a[1])
        if a[0] in ("Acq", "TryAcq", "IfCb"):
            if kind == "lock" and a[0] != "IfCb":
                out.add(a[1])
            if kind == "cb" and a[0] == "IfCb":
                out.add(a[1])
            collect(a[2], kind, out)
        if kind == "cb" and a[0] == "UserCb":
            out.add(a[1])


def generate(repo):
    path = os.path.join(repo, "src", "paho", "mqtt", "client.py")
    problems = []
    module = ast.parse(open(path).read())
    tr = Translator(module, problems)
    methods = []           # (model name, acts, public?)
    for ci in (tr.client, tr.info):
        for mname, fn in ci.methods.items():
            try:
                acts = tr.translate_function(ci, mname, fn)
            except Exception as ex:          # fail closed
                problems.append(f"{ci.cdef.name}.{fn.name}: translator error {type(ex).__name__}: {ex}")
                acts = [("Block", "translator_error")]
            public = ci is tr.client and not fn.name.startswith("_") and mname in ci.plain.values()
            methods.append((mname, acts, public))
    # every Call target must be a translated method
    names = {m for m, _, _ in methods}
    for m, acts, _ in methods:
        called = set()
        collect(acts, "Call", called)
        for c in called - names:
            problems.append(f"{m}: call of unknown method {c}")
    # identifiers
    locks = {}
    for ci, pre in ((tr.client, ""), (tr.info, "info")):
        for l, kind in ci.locks.items():
            locks[pre + l] = kind
    # lock names inside acts are python attribute names; MQTTMessageInfo's are prefixed in place
    def rename_locks(acts, pre):
        out = []
        for a in acts:
            if a[0] in ("Acq", "TryAcq"):
                out.append((a[0], pre + a[1], rename_locks(a[2], pre)))
            elif a[0] == "IfCb":
                out.append((a[0], a[1], rename_locks(a[2], pre)))
            else:
                out.append(a)
        return out
    methods = [(m, rename_locks(a, "info") if m.startswith("info_") else a, p) for m, a, p in methods]
    cbs = sorted(set(tr.client.cb_attrs.values()))
    blocks = set()
    for _, acts, _ in methods:
        collect(acts, "Block", blocks)
    lock_list = sorted(locks)
    L = []
    L.append("(* Lock / call / callback graph of paho.mqtt.client (Client, MQTTMessageInfo), generated from client.py.")
    L.append("   Ignored calls (explicit allow-list; everything else reachable through `self` is classified or reported):")
    for k in sorted(tr.ignored_used):
        L.append(f"     {tr.ignored_used[k]:4d} x {k}".replace("(*", "( *").replace("*)", "* )"))
    L.append("   Data attributes on the allow-list: " + ", ".join(sorted(DATA_ATTRS)))
    L.append("   Wake-up socket pair (self._sockpairR/_sockpairW send/recv): " +
             ("treated as non-blocking - " if tr.pair_nonblocking else "treated as BLOCKING (Block action) - ") + tr.pair_note +
             ". This is a syntactic check of _socketpair_compat's AST, not a semantic one.")
    L.append("*)")
    L.append("From Coq Require Import String.")
    L.append("From PahoV Require Import Conc.LockGraph.")
    L.append("Open Scope N_scope.")
    L.append("")
    for i, l in enumerate(lock_list):
        L.append(f"Definition l_{sanitize(l)} : N := {i}.")
    L.append("(* true = Plain (threading.Lock), false = Reentrant (threading.RLock / Condition()) *)")
    L.append("Definition lock_kinds : list (N * bool) := [" +
             "; ".join(f"(l_{sanitize(l)}, {'true' if locks[l] == 'Plain' else 'false'})" for l in lock_list) + "].")
    L.append("Definition lock_names : list (N * string) := [" +
             "; ".join(f'(l_{sanitize(l)}, "{l}"%string)' for l in lock_list) + "].")
    L.append("")
    for i, c in enumerate(cbs):
        L.append(f"Definition cb_{sanitize(c)} : N := {i + 1}.")
    L.append("Definition cb_names : list (N * string) := [" +
             "; ".join(f'(cb_{sanitize(c)}, "{c}"%string)' for c in cbs) + "].")
    L.append("Definition all_callbacks : list N := [" + "; ".join(f"cb_{sanitize(c)}" for c in cbs) + "].")
    L.append("")
    for i, w in enumerate(sorted(blocks)):
        L.append(f"Definition w_{w} : N := {i + 1}.")
    L.append("")
    for i, (m, _, _) in enumerate(methods):
        L.append(f"Definition m_{sanitize(m)} : N := {i + 1}.")
    L.append("Definition method_names : list (N * string) := [" +
             "; ".join(f'(m_{sanitize(m)}, "{m}"%string)' for m, _, _ in methods) + "].")
    L.append("Definition public_methods : list N := [" +
             "; ".join(f"m_{sanitize(m)}" for m, _, p in methods if p) + "].")
    L.append("")
    L.append("Definition prog : program := [")
    rows = []
    for m, acts, _ in methods:
        body = emit_acts(acts, None, 4)
        rows.append(f"  (m_{sanitize(m)}, [\n{body}\n  ])" if acts else f"  (m_{sanitize(m)}, [])")
    L.append(";\n".join(rows))
    L.append("].")
    L.append("")
    L.append("Definition translation_problems : list string := [" +
             "; ".join('"' + p.replace('"', "'") + '"%string' for p in problems) + "].")
    text = "\n".join(L) + "\n"
    return [("GenLockGraph.v", text, [("lockgraph", p) for p in problems])]


if __name__ == "__main__":
    import sys
    for fname, text, probs in generate(sys.argv[1] if len(sys.argv) > 1 else "/repo"):
        sys.stdout.write(text)
        for q, p in probs:
            sys.stderr.write(f"untranslatable: {q}: {p}\n")
