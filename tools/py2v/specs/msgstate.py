"""C01 C02 C03 C12 C13: the message-state methods of Client, translated by msgstate.py into Gen/GenMsgState.v.

One generated definition per method fragment (Session/MsgStateBridge.v proves each equal to the hand model):

  gen_check_clean_session   Client._check_clean_session            whole body
  gen_reset_out             Client._messages_reconnect_reset_out   whole body
  gen_reset_in              Client._messages_reconnect_reset_in    whole body
  gen_update_inflight       Client._update_inflight                whole body
  gen_connack_loop          Client._handle_connack                 body of the `if result == 0:` that holds the loop
  gen_handle_pubrec         Client._handle_pubrec                  from `with self._out_message_mutex:` to the end
  gen_do_on_publish         Client._do_on_publish                  callback block (summarised as GCbPublish mid) + the rest
  gen_handle_pubackcomp     Client._handle_pubackcomp              from `with self._out_message_mutex:` to the end
  gen_publish_qos12         Client.publish                         the else-branch of `if qos == 0:`
  gen_ack                   Client.ack                             whole body
  gen_handle_pubrel         Client._handle_pubrel                  from `message = None` to the end
  gen_handle_publish_tail   Client._handle_publish                 the final `if message.qos == 0: ... else: ...`

A fragment that leaves the subset is reported as `untranslatable: msgstate:<qualified method>: <reason>`.
"""
import ast
import collections
import os
import sys

sys.path.insert(0, os.path.dirname(os.path.dirname(os.path.abspath(__file__))))
import importlib.util  # noqa: E402
import leaf  # noqa: E402
from leaf import Untranslatable  # noqa: E402

# the translator lives in tools/py2v/msgstate.py; this spec module has the same name, so load it by path
_sp = importlib.util.spec_from_file_location(
    "py2v_msgstate", os.path.join(os.path.dirname(os.path.dirname(os.path.abspath(__file__))), "msgstate.py"))
ms = importlib.util.module_from_spec(_sp)
sys.modules["py2v_msgstate"] = ms
_sp.loader.exec_module(ms)

OUTFILE = "GenMsgState.v"


# ------------------------------------------------------------------------------------------------ slices
def mentions(node, *attrs):
    return any(isinstance(n, ast.Attribute) and n.attr in attrs for n in ast.walk(node))


def whole(fn):
    return list(fn.body)


def from_with(lock):
    def sl(fn):
        idx = [i for i, s in enumerate(fn.body) if isinstance(s, ast.With)
               and any(ms.is_self_attr(it.context_expr, lock) for it in s.items)]
        if len(idx) != 1:
            raise Untranslatable(f"{len(idx)} top-level `with self.{lock}:` blocks")
        return list(fn.body[idx[0]:])
    return sl


def connack_block(fn):
    hits = [s for s in fn.body if isinstance(s, ast.If) and ast.unparse(s.test) == "result == 0"
            and any(isinstance(n, ast.For) for n in ast.walk(s))]
    if len(hits) != 1:
        raise Untranslatable(f"{len(hits)} top-level `if result == 0:` blocks with a loop")
    return list(hits[0].body)


STORE_ATTRS = ("_out_messages", "_in_messages", "_inflight_messages")


def do_on_publish_body(fn):
    """callback block (everything before the first statement that touches the stores) -> marker call"""
    first = next((i for i, s in enumerate(fn.body) if mentions(s, *STORE_ATTRS)), None)
    if first is None:
        raise Untranslatable("no statement touches _out_messages")
    prefix = fn.body[:first]
    calls = [n for s in prefix for n in ast.walk(s)
             if isinstance(n, ast.Call) and isinstance(n.func, ast.Name) and n.func.id == "on_publish"]
    if not calls:
        raise Untranslatable("callback block: no call of on_publish")
    for c in calls:
        if len(c.args) < 3 or ast.unparse(c.args[2]) != "mid" or c.keywords:
            raise Untranslatable(f"callback block: {ast.unparse(c)} does not pass `mid` as third argument")
    for s in prefix:
        for n in ast.walk(s):
            if isinstance(n, ast.Return):
                raise Untranslatable("callback block: return")
            if isinstance(n, (ast.Assign, ast.AugAssign)):
                for t in (n.targets if isinstance(n, ast.Assign) else [n.target]):
                    if not (isinstance(t, ast.Name) and t.id == "on_publish"):
                        raise Untranslatable(f"callback block: assignment to {ast.unparse(t)}")
    marker = ast.Expr(value=ast.Call(func=ast.Name(id="__callback_on_publish__", ctx=ast.Load()),
                                     args=[ast.Name(id="mid", ctx=ast.Load())], keywords=[]))
    return [ast.fix_missing_locations(marker)] + list(fn.body[first:])


def publish_else(fn):
    hits = [s for s in fn.body if isinstance(s, ast.If) and ast.unparse(s.test) == "qos == 0"]
    if len(hits) != 1 or not hits[0].orelse:
        raise Untranslatable("`if qos == 0: ... else: ...` not found exactly once")
    if fn.body[-1] is not hits[0]:
        raise Untranslatable("statements after `if qos == 0: ... else: ...`")
    return list(hits[0].orelse)


def pubrel_tail(fn):
    idx = [i for i, s in enumerate(fn.body) if isinstance(s, ast.Assign) and ast.unparse(s) == "message = None"]
    if len(idx) != 1:
        raise Untranslatable("`message = None` not found exactly once")
    return list(fn.body[idx[0]:])


def publish_dispatch(fn):
    last = fn.body[-1]
    if not (isinstance(last, ast.If) and ast.unparse(last.test) == "message.qos == 0"):
        raise Untranslatable("the method does not end in `if message.qos == 0: ...`")
    return [last]


def frame_check(fn, body):
    """nothing outside the translated statements of the method may touch the stores or the counter"""
    inside = {id(n) for s in body for n in ast.walk(s)}
    for n in ast.walk(fn):
        if isinstance(n, ast.Attribute) and n.attr in STORE_ATTRS and id(n) not in inside:
            raise Untranslatable(f"line {n.lineno}: self.{n.attr} is used outside the translated fragment")


# ------------------------------------------------------------------------------------------------ fragments
MAX = ("max", "Z", "self._max_inflight_messages")
SOCK = ("sock", "bool", "sock")               # self._sock is not None (read by _send_publish)
MID = ("mid", "Z", "mid")
MANUAL = ("manual", "bool", "self._manual_ack")
SUPP = ("suppress", "bool", "suppress")       # self.suppress_exceptions (read by _handle_on_message)
RAISES = ("raises", "bool", "raises")         # does the user callback raise

FRAGMENTS = [
    dict(name="gen_check_clean_session", method="_check_clean_session", slice=whole,
         params=[("protocol", "Z", "self._protocol"), ("clean_start", "Z", "self._clean_start"),
                 ("first", "bool", "self._mqttv5_first_connect"), ("clean_session", "bool", "self._clean_session")],
         state=[], ret="bool"),
    dict(name="gen_reset_out", method="_messages_reconnect_reset_out", slice=whole,
         params=[MAX, ("clean", "bool", "call:_check_clean_session")], state=["out", "infl"], ret="unit"),
    dict(name="gen_reset_in", method="_messages_reconnect_reset_in", slice=whole,
         params=[("clean", "bool", "call:_check_clean_session")], state=["inm"], ret="unit"),
    dict(name="gen_update_inflight", method="_update_inflight", slice=whole,
         params=[MAX, SOCK], state=["out", "infl", "calls"], ret="Z"),
    dict(name="gen_connack_loop", method="_handle_connack", slice=connack_block,
         params=[SOCK], state=["out", "calls"], ret="Z"),
    dict(name="gen_handle_pubrec", method="_handle_pubrec", slice=from_with("_out_message_mutex"),
         params=[MID], state=["out", "calls"], ret="Z"),
    dict(name="gen_do_on_publish", method="_do_on_publish", slice=do_on_publish_body,
         params=[MAX, SOCK, MID], state=["out", "infl", "calls"], ret="Z", callee_args={"mid": 0}),
    dict(name="gen_handle_pubackcomp", method="_handle_pubackcomp", slice=from_with("_out_message_mutex"),
         params=[MAX, SOCK, MID], state=["out", "infl", "calls"], ret="Z"),
    dict(name="gen_publish_qos12", method="publish", slice=publish_else,
         params=[MAX, ("maxq", "Z", "self._max_queued_messages"), SOCK, ("local_mid", "Z", "local_mid"),
                 ("qos", "Z", "qos"), ("local_payload", "Z", "local_payload"), ("blank", "omsg", "blank")],
         state=["out", "infl", "calls"], ret="Z"),
    dict(name="gen_ack", method="ack", slice=whole,
         params=[MANUAL, MID, ("qos", "Z", "qos")], state=["calls"], ret="Z"),
    dict(name="gen_handle_pubrel", method="_handle_pubrel", slice=pubrel_tail,
         params=[MANUAL, SUPP, RAISES, MID], state=["inm", "calls"], ret="Z"),
    dict(name="gen_handle_publish_tail", method="_handle_publish", slice=publish_dispatch,
         params=[MANUAL, SUPP, RAISES, ("message", "imsg", "message")], state=["inm", "calls"], ret="Z"),
]
CALLABLE = ("_update_inflight", "_do_on_publish")      # generated fragments other fragments may call


# ------------------------------------------------------------------------------------------------ summaries
def last_return_call(fn, callee):
    last = fn.body[-1]
    if not (isinstance(last, ast.Return) and isinstance(last.value, ast.Call)
            and ms.is_self_attr(last.value.func, callee)):
        raise Untranslatable(f"{fn.name} does not end in `return self.{callee}(...)`")
    return last.value


def check_summaries(tree):
    """the assumptions the translation makes about functions it does not translate; -> list of problems"""
    probs = []

    def chk(qual, f):
        try:
            f(leaf.find_function(tree, qual))
        except Untranslatable as e:
            probs.append((f"msgstate:summary {qual}", str(e)))
        except Exception as e:  # fail closed
            probs.append((f"msgstate:summary {qual}", f"translator error {type(e).__name__}: {e}"))

    def send_publish(fn):
        names = [a.arg for a in fn.args.args][1:]
        if names != ["mid", "topic", "payload", "qos", "retain", "dup", "info", "properties"]:
            raise Untranslatable(f"signature changed: {names}")
        guard = [i for i, s in enumerate(fn.body) if isinstance(s, ast.If)
                 and ast.unparse(s.test) == "self._sock is None" and len(s.body) == 1 and not s.orelse
                 and ast.unparse(s.body[0]) == "return MQTTErrorCode.MQTT_ERR_NO_CONN"]
        if len(guard) != 1:
            raise Untranslatable("`if self._sock is None: return MQTT_ERR_NO_CONN` not found exactly once")
        for s in fn.body[:guard[0]]:
            if mentions(s, "_packet_queue", "_out_packet") or any(isinstance(n, ast.Return) for n in ast.walk(s)):
                raise Untranslatable("something is queued or returned before the socket test")
        c = last_return_call(fn, "_packet_queue")
        if [ast.unparse(a) for a in c.args[2:4]] != ["mid", "qos"]:
            raise Untranslatable("_packet_queue is not given mid, qos")
        if mentions(fn, *STORE_ATTRS):
            raise Untranslatable("touches the message stores")

    def simple(cmd):
        def f(fn):
            c = last_return_call(fn, "_send_command_with_mid")
            if len(c.args) != 3 or cmd not in [n.id for n in ast.walk(c.args[0]) if isinstance(n, ast.Name)] \
                    or ast.unparse(c.args[1]) != "mid":
                raise Untranslatable(f"does not send {cmd} with `mid`")
            if any(isinstance(n, ast.Return) for s in fn.body[:-1] for n in ast.walk(s)) or mentions(fn, *STORE_ATTRS, "_sock"):
                raise Untranslatable("extra return / touches stores or socket")
        return f

    def with_mid(fn):
        c = last_return_call(fn, "_packet_queue")
        if ast.unparse(c.args[2]) != "mid":
            raise Untranslatable("_packet_queue is not given mid")
        if any(isinstance(n, ast.Return) for s in fn.body[:-1] for n in ast.walk(s)) or mentions(fn, *STORE_ATTRS, "_sock"):
            raise Untranslatable("extra return / touches stores or socket")

    def msg_init(fn):
        names = [a.arg for a in fn.args.args]
        if names[:2] != ["self", "mid"]:
            raise Untranslatable(f"first argument is not mid: {names}")
        if not any(isinstance(s, ast.Assign) and ast.unparse(s) == "self.mid = mid" for s in fn.body):
            raise Untranslatable("`self.mid = mid` not found")

    chk("Client._send_publish", send_publish)
    for name, cmd in (("_send_pubrel", "PUBREL"), ("_send_puback", "PUBACK"), ("_send_pubrec", "PUBREC"),
                      ("_send_pubcomp", "PUBCOMP")):
        chk("Client." + name, simple(cmd))
    chk("Client._send_command_with_mid", with_mid)
    chk("MQTTMessage.__init__", msg_init)
    return probs


MUTATORS = ("pop", "popitem", "clear", "update", "setdefault", "move_to_end", "__setitem__", "__delitem__")


def store_writers(tree):
    """every method of Client that assigns or mutates a message store, the in-flight counter, or the state / dup
    attribute of some object: ["method:what", ...] in source order"""
    cls = next(n for n in tree.body if isinstance(n, ast.ClassDef) and n.name == "Client")
    rows = []
    for fn in [n for n in cls.body if isinstance(n, ast.FunctionDef)]:
        what = []

        def tgt(t):
            if isinstance(t, (ast.Tuple, ast.List)):
                for x in t.elts:
                    tgt(x)
                return
            base = t.value if isinstance(t, ast.Subscript) else t
            if ms.is_self_attr(base) and base.attr in STORE_ATTRS:
                what.append(base.attr)
            elif isinstance(t, ast.Attribute) and t.attr in ("state", "dup") and not ms.is_self_attr(t):
                what.append("." + t.attr)

        for n in ast.walk(fn):
            if isinstance(n, ast.Assign):
                for t in n.targets:
                    tgt(t)
            elif isinstance(n, (ast.AugAssign, ast.AnnAssign)):
                tgt(n.target)
            elif isinstance(n, ast.Delete):
                for t in n.targets:
                    tgt(t)
            elif isinstance(n, ast.Call) and isinstance(n.func, ast.Attribute) and n.func.attr in MUTATORS \
                    and ms.is_self_attr(n.func.value) and n.func.value.attr in STORE_ATTRS[:2]:
                what.append(n.func.value.attr)
        for w in sorted(set(what)):
            rows.append(f"{fn.name}:{w}")
    return rows


# ------------------------------------------------------------------------------------------------ driver
HEADER = """(* Message-state methods of paho.mqtt.client.Client, translated statement by statement by tools/py2v/msgstate.py.
   Session/MsgStateBridge.v proves every definition below equal to the hand-written Session model.

   Standing assumptions (the Session model makes the same ones; C06 is about the transport):
   * self._send_publish(...) returns MQTT_ERR_NO_CONN and queues nothing when there is no socket (`sock = false`),
     otherwise it queues the packet and returns MQTT_ERR_SUCCESS: a send on an open socket succeeds.  The tests
     `if rc != MQTT_ERR_SUCCESS: return rc` after a send are translated as they stand, on top of this summary.
   * self._send_pubrel/_send_puback/_send_pubrec/_send_pubcomp(mid) and self.loop_write() queue/write and return
     MQTT_ERR_SUCCESS (they do not look at the socket).
   * self._handle_on_message(message) invokes the user callback once (GOnMessage); the exception of a raising
     callback leaves the method iff suppress_exceptions is off (`raises && negb suppress`; result `Raise 0`).
   * the on_publish callback block of _do_on_publish is summarised as the call GCbPublish mid (the translator checks
     that the block passes `mid` on, assigns nothing but `on_publish`, and does not touch the message stores).
   * MQTTMessage(mid, topic) yields an object whose mid is `mid`; its other fields are the binder `blank`.
   [gen_summaries_ok] says whether the syntactic checks behind these summaries passed on the current source.
   Result `Raise 7` = KeyError of a dictionary lookup, `OutOfFuel` = a path the translation makes no claim about,
   `Raise (-1)` = the fragment could not be translated. *)
"""


def coq_string_list(name, rows, comment):
    body = ";\n   ".join(f'"{r}"%string' for r in rows)
    return f"(* {comment} *)\nDefinition {name} : list string :=\n  [{body}].\n"


def generate(repo):
    problems = []
    try:
        consts = ms.Consts(repo)
        tree = consts.client
    except Exception as e:  # cannot even parse: everything falls back
        consts, tree = None, None
        problems.append(("msgstate:source", f"translator error {type(e).__name__}: {e}"))

    # constants the bridge file mentions by name are emitted whether or not a fragment happens to use them
    always = ("MQTT_ERR_SUCCESS", "MQTT_ERR_NO_CONN", "MQTT_ERR_QUEUE_SIZE", "MQTTv5", "MQTT_CLEAN_START_FIRST_ONLY")
    missing = []
    for name in always:
        try:
            if consts is None or consts.lookup(ast.Name(id=name)) is None:
                missing.append(name)
        except Untranslatable:
            missing.append(name)
    if missing:
        problems.append(("msgstate:constants", "not found or ambiguous: " + ", ".join(missing)))

    ignored = collections.OrderedDict()
    registry = {}
    defs = []
    try:
        sp_sig = [a.arg for a in leaf.find_function(tree, "Client._send_publish").args.args][1:]
    except Exception:
        sp_sig = []
    for spec in FRAGMENTS:
        spec = dict(spec)
        spec["qual"] = "Client." + spec["method"]
        fr = ms.Frag(spec, consts, registry, sp_sig, ignored)
        try:
            if tree is None:
                raise Untranslatable("source not parsed")
            fn = leaf.find_function(tree, spec["qual"])
            body = spec["slice"](fn)
            frame_check(fn, body)
            text = fr.translate(body)
        except Untranslatable as e:
            problems.append((f"msgstate:{spec['qual']}", str(e)))
            text = fr.fallback()
        except Exception as e:  # fail closed on anything unexpected
            problems.append((f"msgstate:{spec['qual']}", f"translator error {type(e).__name__}: {e}"))
            text = fr.fallback()
        defs.append(f"(* ---- {spec['qual']} ---- *)\n{text}")
        if spec["method"] in CALLABLE:
            registry[spec["method"]] = spec

    out = HEADER
    out += "From Coq Require Import String.\nFrom PahoV Require Import Codec.Mid Session.Model Session.MsgStateLib.\n\n"

    # ---- the ignore-list
    out += "(* Ignore-list: statements and arguments dropped by the translation (what: why)\n"
    for what, why in ignored.items():
        out += f"     {what}: {why}\n"
    out += "*)\n\n"

    # ---- constants
    state_ok = True
    try:
        sc = consts.state_consts()
    except Exception as e:
        problems.append(("msgstate:MessageState", str(e)))
        sc, state_ok = [(py, -1) for py in ms.STATE_CTORS], False
    out += "(* constants, read from client.py / enums.py *)\n"
    emitted = set()
    for py, v in sc:
        out += f"Definition {py} : Z := {v if v >= 0 else f'({v})'}.\n"
        emitted.add(py)
    if consts is not None:
        for name, v in consts.used.items():
            if name not in emitted:
                out += f"Definition {name} : Z := {v if v >= 0 else f'({v})'}.\n"
                emitted.add(name)
    for name in missing:
        if name not in emitted:
            out += f"Definition {name} : Z := (-1).   (* not found in the source *)\n"
    out += "\nDefinition st_code (s : mstate) : Z :=\n  match s with\n"
    for py, ctor in ms.STATE_CTORS.items():
        out += f"  | {ctor} => {py}\n"
    out += "  end.\n\n"

    # ---- summaries
    sprobs = check_summaries(tree) if tree is not None else [("msgstate:summary", "source not parsed")]
    problems.extend(sprobs)
    out += f"Definition gen_summaries_ok : bool := {'true' if not sprobs and state_ok else 'false'}.\n\n"

    # ---- who writes the stores
    try:
        rows = store_writers(tree)
    except Exception as e:
        problems.append(("msgstate:store writers", f"translator error {type(e).__name__}: {e}"))
        rows = ["?"]
    out += coq_string_list("gen_store_writers", rows,
                           "every method of Client that assigns/mutates _out_messages, _in_messages, _inflight_messages, "
                           "or the .state/.dup attribute of an object (method:what)") + "\n"

    out += "\n".join(defs)
    return [(OUTFILE, out, problems)]
