"""C04: the flag bytes computed inside _send_publish and _send_connect (the clean-flag selection included).

Both are statement slices of larger methods, so they are cut out of the AST here and handed to the
leaf translator as small synthetic functions:
  GenPubCmd.v     gen_publish_command  : the right-hand side of `command = PUBLISH | ... | retain`
  GenConnFlags.v  gen_connect_flags    : every statement of _send_connect that assigns `connect_flags`,
                                         from `connect_flags = 0` up to the struct.pack that consumes it
Attribute reads `self._x` become parameters.  Three source idioms outside leaf.py's expression subset
are rewritten first (and only these; anything else fails closed as `untranslatable`):
  self._clean_start is True      ->  clean_start == 1        (True is modelled as 1, False 0, FIRST_ONLY 3)
  self._username is not None     ->  has_username            (a boolean parameter)
  self._password is not None     ->  has_password
"""
import ast
import os
import sys

sys.path.insert(0, os.path.dirname(os.path.dirname(os.path.abspath(__file__))))
import leaf  # noqa: E402

CONSTS = {"PUBLISH": "48", "MQTTv5": "5", "MQTTv311": "4", "MQTTv31": "3", "MQTT_CLEAN_START_FIRST_ONLY": "3"}


class SelfToName(ast.NodeTransformer):
    """self._x -> x ; the three idioms listed in the module docstring"""

    def visit_Compare(self, node):
        if len(node.ops) == 1 and isinstance(node.left, ast.Attribute) and isinstance(node.left.value, ast.Name) \
                and node.left.value.id == "self":
            attr, op, rhs = node.left.attr, node.ops[0], node.comparators[0]
            if isinstance(op, ast.Is) and isinstance(rhs, ast.Constant) and rhs.value is True and attr == "_clean_start":
                return ast.Compare(left=ast.Name(id="clean_start", ctx=ast.Load()), ops=[ast.Eq()],
                                   comparators=[ast.Constant(value=1)])
            if isinstance(op, ast.IsNot) and isinstance(rhs, ast.Constant) and rhs.value is None \
                    and attr in ("_username", "_password"):
                return ast.Name(id="has" + attr, ctx=ast.Load())
        return self.generic_visit(node)

    def visit_Attribute(self, node):
        if isinstance(node.value, ast.Name) and node.value.id == "self" and node.attr.startswith("_"):
            return ast.Name(id=node.attr[1:], ctx=node.ctx)
        return self.generic_visit(node)


def assigns(stmt, name):
    for n in ast.walk(stmt):
        if isinstance(n, (ast.Assign, ast.AugAssign)):
            tgts = n.targets if isinstance(n, ast.Assign) else [n.target]
            if any(isinstance(t, ast.Name) and t.id == name for t in tgts):
                return True
    return False


def keep_only(stmts, name):
    """drop every statement that does not (transitively) assign `name`; keep the control structure"""
    out = []
    for s in stmts:
        if isinstance(s, ast.If):
            body, orelse = keep_only(s.body, name), keep_only(s.orelse, name)
            if body or orelse:
                out.append(ast.If(test=s.test, body=body or [ast.Pass()], orelse=orelse))
        elif isinstance(s, (ast.Assign, ast.AugAssign)) and assigns(s, name):
            out.append(s)
    return out


def synth(name, params, body):
    fn = ast.FunctionDef(name=name, args=ast.arguments(posonlyargs=[], args=[ast.arg(arg=p) for p in params], kwonlyargs=[],
                                                        kw_defaults=[], defaults=[]), body=body, decorator_list=[])
    return ast.fix_missing_locations(fn)


def fallback(cname, binders):
    return f"Definition {cname} {binders} : res (Z) := OutOfFuel.\n"


SEND_PUBLISH_PARAMS = ["mid", "topic", "payload", "qos", "retain", "dup", "info", "properties"]
# the local names publish() itself hands to _send_publish for a QoS 0 message
PUBLISH_LOCALS = {"mid": "local_mid", "topic": "topic_bytes", "payload": "local_payload", "qos": "qos", "retain": "retain",
                  "dup": "False", "info": "info", "properties": "properties"}


def arg_class(param, node):
    """0 absent; 1 the stored message's attribute of the same name (m.<param>, topic: m.topic.encode('utf-8'));
    2 publish()'s own local for that parameter; 3 anything else"""
    if node is None:
        return 0
    text = ast.unparse(node)
    for obj in ("m", "message"):
        if text == f"{obj}.{param}" or (param == "topic" and text == f"{obj}.topic.encode('utf-8')"):
            return 1
    if text == PUBLISH_LOCALS[param]:
        return 2
    return 3


def send_publish_calls(tree):
    """every call self._send_publish(...) in class Client: (enclosing function, [class per parameter])"""
    rows = []
    cls = next(n for n in tree.body if isinstance(n, ast.ClassDef) and n.name == "Client")
    sig = leaf.find_function(tree, "Client._send_publish")
    names = [a.arg for a in sig.args.args][1:]
    if names != SEND_PUBLISH_PARAMS:
        raise leaf.Untranslatable(f"_send_publish signature changed: {names}")
    for fn in [n for n in cls.body if isinstance(n, ast.FunctionDef)]:
        for node in ast.walk(fn):
            if isinstance(node, ast.Call) and isinstance(node.func, ast.Attribute) and node.func.attr == "_send_publish" \
                    and isinstance(node.func.value, ast.Name) and node.func.value.id == "self":
                if any(isinstance(a, ast.Starred) for a in node.args) or any(k.arg is None for k in node.keywords):
                    raise leaf.Untranslatable(f"{fn.name}: _send_publish called with * or ** arguments")
                bound = dict(zip(names, node.args))
                if len(node.args) > len(names):
                    raise leaf.Untranslatable(f"{fn.name}: too many positional arguments")
                for k in node.keywords:
                    if k.arg in bound or k.arg not in names:
                        raise leaf.Untranslatable(f"{fn.name}: bad keyword {k.arg}")
                    bound[k.arg] = k.value
                rows.append((fn.name, [arg_class(p, bound.get(p)) for p in names]))
    return rows


def generate(repo):
    src = os.path.join(repo, "src", "paho", "mqtt", "client.py")
    tree = ast.parse(open(src).read())
    out = []

    # ---- every call site of _send_publish: which value each parameter receives
    try:
        rows = send_publish_calls(tree)
        text = "(* one row per call self._send_publish(...) in class Client, in source order; columns = parameters\n" \
               "   mid topic payload qos retain dup info properties; 0 absent, 1 the stored message's attribute of the same name,\n" \
               "   2 publish()'s own local for that parameter, 3 anything else *)\n" \
               "Definition gen_send_publish_calls : list (list Z) :=\n  [ " + \
               ";\n    ".join("[" + "; ".join(str(c) for c in cls_) + "]  (* " + fn + " *)" for fn, cls_ in rows) + " ].\n"
        out.append(("GenSendPublishCalls.v", text, []))
    except leaf.Untranslatable as e:
        out.append(("GenSendPublishCalls.v", "Definition gen_send_publish_calls : list (list Z) := [].\n",
                    [("Client._send_publish call sites", str(e))]))
    except Exception as e:
        out.append(("GenSendPublishCalls.v", "Definition gen_send_publish_calls : list (list Z) := [].\n",
                    [("Client._send_publish call sites", f"translator error {type(e).__name__}: {e}")]))

    # ---- _send_publish: command = PUBLISH | ((dup & 0x1) << 3) | (qos << 1) | retain
    binders = "(fuel : nat) (dup qos retain : Z)"
    try:
        fn = leaf.find_function(tree, "Client._send_publish")
        cmd = [s for s in fn.body if isinstance(s, ast.Assign) and assigns(s, "command")]
        if len(cmd) != 1:
            raise leaf.Untranslatable(f"_send_publish: {len(cmd)} assignments to `command`")
        body = [cmd[0], ast.Return(value=ast.Name(id="command", ctx=ast.Load()))]
        text = leaf.translate(synth("publish_command", ["dup", "qos", "retain"], body), "gen_publish_command", [],
                              ["dup", "qos", "retain"], {}, "Z", "0", CONSTS)
        out.append(("GenPubCmd.v", text, []))
    except leaf.Untranslatable as e:
        out.append(("GenPubCmd.v", fallback("gen_publish_command", binders), [("Client._send_publish flag byte", str(e))]))
    except Exception as e:  # fail closed
        out.append(("GenPubCmd.v", fallback("gen_publish_command", binders),
                    [("Client._send_publish flag byte", f"translator error {type(e).__name__}: {e}")]))

    # ---- _send_connect: everything that assigns connect_flags
    params = ["protocol", "clean_start", "mqttv5_first_connect", "clean_session", "will", "will_qos", "will_retain",
              "has_username", "has_password"]
    types = {"mqttv5_first_connect": "bool", "clean_session": "bool", "will": "bool", "has_username": "bool", "has_password": "bool"}
    binders = ("(fuel : nat) (protocol clean_start : Z) (mqttv5_first_connect clean_session will : bool) "
               "(will_qos will_retain : Z) (has_username has_password : bool)")
    try:
        fn = leaf.find_function(tree, "Client._send_connect")
        start = next((i for i, s in enumerate(fn.body) if isinstance(s, ast.Assign) and assigns(s, "connect_flags")), None)
        if start is None:
            raise leaf.Untranslatable("_send_connect: `connect_flags = ...` not found")
        # stop at the first use of connect_flags as a struct.pack argument
        end = next((i for i, s in enumerate(fn.body) if i > start and isinstance(s, ast.Expr)
                    and any(isinstance(n, ast.Name) and n.id == "connect_flags" for n in ast.walk(s))), len(fn.body))
        sl = keep_only(fn.body[start:end], "connect_flags")
        later = [s for s in fn.body[end:] if assigns(s, "connect_flags")]
        if later:
            raise leaf.Untranslatable("_send_connect: connect_flags assigned after it was packed")
        sl = [SelfToName().visit(s) for s in sl]
        body = sl + [ast.Return(value=ast.Name(id="connect_flags", ctx=ast.Load()))]
        text = leaf.translate(synth("connect_flags", params, body), "gen_connect_flags", [], params, types, "Z", "0", CONSTS)
        out.append(("GenConnFlags.v", text, []))
    except leaf.Untranslatable as e:
        out.append(("GenConnFlags.v", fallback("gen_connect_flags", binders), [("Client._send_connect flags", str(e))]))
    except Exception as e:
        out.append(("GenConnFlags.v", fallback("gen_connect_flags", binders),
                    [("Client._send_connect flags", f"translator error {type(e).__name__}: {e}")]))
    return out
