"""C17: MQTT 5 property / reason-code tables and the VBI / SubscribeOptions leaves.

DATA (generate): the tables are read from the CURRENT source on every run:
  * values that exist at run time (Properties().names/.properties/.types, ReasonCode().names,
    PacketTypes) by importing paho.mqtt.{properties,reasoncodes,packettypes} from <repo>/src in a
    subprocess and dumping them as JSON (dict order preserved);
  * what exists only as code (the range-check groups of Properties.__setattr__, its privateVars,
    the literal list of allowsMultiple) by a strict `ast` match.
Anything unexpected is reported as `untranslatable: C17 tables ...` and EMPTY tables are emitted, so
that the table theorems (prop_table_eq_spec, reason_table_eq_spec, ...) cannot be proved: fail closed.

LEAVES: VariableByteIntegers.encode/decode and SubscribeOptions.pack/unpack go through leaf.py.
"""
import ast, json, os, subprocess, sys

# (output file, python source file, qualified name, coq name, state attrs, params, types, result type, default return, fallback binders)
_SO_STATE = ["retainHandling", "QoS", "noLocal", "retainAsPublished"]
_SO_TYPES = {"noLocal": "bool", "retainAsPublished": "bool", "buffer": "bytes", "#checked_index": True}
LEAVES = [
    ("GenVBIEnc.v", "properties.py", "VariableByteIntegers.encode", "gen_vbi_encode",
     [], ["x"], {}, "list Z", "[]", "(fuel : nat) (x : Z)"),
    ("GenVBIDec.v", "properties.py", "VariableByteIntegers.decode", "gen_vbi_decode",
     [], ["buffer"], {"buffer": "bytes", "#checked_index": True}, "Z * Z", "(0, 0)",
     "(fuel : nat) (buffer : list Z)"),
    ("GenSubOptsPack.v", "subscribeoptions.py", "SubscribeOptions.pack", "gen_subopts_pack",
     _SO_STATE, [], dict(_SO_TYPES), "Z * Z * bool * bool * list Z", "[]",
     "(fuel : nat) (s_retainHandling : Z) (s_QoS : Z) (s_noLocal : bool) (s_retainAsPublished : bool)"),
    ("GenSubOptsUnpack.v", "subscribeoptions.py", "SubscribeOptions.unpack", "gen_subopts_unpack",
     _SO_STATE, ["buffer"], dict(_SO_TYPES), "Z * Z * bool * bool * Z", "0",
     "(fuel : nat) (s_retainHandling : Z) (s_QoS : Z) (s_noLocal : bool) (s_retainAsPublished : bool) (buffer : list Z)"),
]

_DUMP = r'''
import json, sys
sys.path.insert(0, sys.argv[1])
from paho.mqtt.packettypes import PacketTypes
from paho.mqtt.properties import Properties
from paho.mqtt.reasoncodes import ReasonCode
def ints(l):
    out = []
    for x in l:
        if type(x) is not int: raise SystemExit("non-int in list: %r" % (x,))
        out.append(x)
    return out
p = Properties(PacketTypes.CONNECT)
r = ReasonCode(PacketTypes.CONNACK)
pt = [(k, v) for k, v in vars(PacketTypes).items()
      if k.isupper() and type(v) is int]
if type(p.names) is not dict or type(p.properties) is not dict or type(r.names) is not dict:
    raise SystemExit("tables are not dicts")
out = {
  "packet_types": pt,
  "packet_names": list(PacketTypes.Names),
  "packet_indexes": ints(list(PacketTypes.indexes)),
  "prop_types": list(p.types),
  "prop_names": [(k, v) for k, v in p.names.items()],
  "prop_table": [(k, ints([v[0]])[0], ints(v[1])) for k, v in p.properties.items()],
  "reason_table": [(k, [(n, ints(pl)) for n, pl in d.items()]) for k, d in r.names.items()],
}
for k, v in out["prop_names"] + out["packet_types"]:
    if type(k) is not str or type(v) is not int: raise SystemExit("bad name table entry %r" % ((k, v),))
for k, t, pl in out["prop_table"]:
    if type(k) is not int: raise SystemExit("bad properties key %r" % (k,))
for k, d in out["reason_table"]:
    if type(k) is not int or any(type(n) is not str for n, _ in d): raise SystemExit("bad reason entry %r" % (k,))
json.dump(out, sys.stdout)
'''


class Bad(Exception):
    pass


def _runtime_tables(repo):
    src = os.path.join(repo, "src")
    if not os.path.isdir(os.path.join(src, "paho", "mqtt")):
        raise Bad(f"{src}/paho/mqtt not found")
    env = {"PATH": os.environ.get("PATH", ""), "PYTHONHASHSEED": "0", "PYTHONDONTWRITEBYTECODE": "1"}
    p = subprocess.run([sys.executable, "-B", "-I", "-c", _DUMP, src], stdout=subprocess.PIPE,
                       stderr=subprocess.PIPE, text=True, timeout=120, env=env)
    if p.returncode != 0:
        raise Bad("import/dump failed: " + (p.stderr.strip() or p.stdout.strip())[-300:])
    return json.loads(p.stdout)


def _const_int(n):
    if isinstance(n, ast.Constant) and type(n.value) is int:
        return n.value
    if isinstance(n, ast.UnaryOp) and isinstance(n.op, ast.USub) and isinstance(n.operand, ast.Constant) \
            and type(n.operand.value) is int:
        return -n.operand.value
    raise Bad(f"integer literal expected, got {ast.unparse(n)}")


def _str_list(n):
    if not isinstance(n, (ast.List, ast.Tuple)) or not all(isinstance(x, ast.Constant) and type(x.value) is str for x in n.elts):
        raise Bad(f"list of string literals expected, got {ast.unparse(n)}")
    return [x.value for x in n.elts]


def _is_name(n, ident):
    return isinstance(n, ast.Name) and n.id == ident


def _range_cond(n, var="value"):
    """(v < lo or v > hi) -> (0, [lo, hi]);  (v != a and v != b ...) -> (1, [a, b, ...])   (v = the checked variable)"""
    if isinstance(n, ast.BoolOp) and isinstance(n.op, ast.Or) and len(n.values) == 2:
        a, b = n.values
        if isinstance(a, ast.Compare) and isinstance(b, ast.Compare) and len(a.ops) == 1 and len(b.ops) == 1 \
                and _is_name(a.left, var) and _is_name(b.left, var) \
                and isinstance(a.ops[0], ast.Lt) and isinstance(b.ops[0], ast.Gt):
            return 0, [_const_int(a.comparators[0]), _const_int(b.comparators[0])]
    if isinstance(n, ast.BoolOp) and isinstance(n.op, ast.And):
        vals = []
        for c in n.values:
            if not (isinstance(c, ast.Compare) and len(c.ops) == 1 and isinstance(c.ops[0], ast.NotEq)
                    and _is_name(c.left, var)):
                raise Bad(f"unrecognised value test {ast.unparse(n)}")
            vals.append(_const_int(c.comparators[0]))
        return 1, vals
    raise Bad(f"unrecognised value test {ast.unparse(n)}")


def _find(cls, name):
    for ch in cls.body:
        if isinstance(ch, ast.FunctionDef) and ch.name == name:
            return ch
    raise Bad(f"Properties.{name} not found")


def _code_tables(repo):
    path = os.path.join(repo, "src", "paho", "mqtt", "properties.py")
    tree = ast.parse(open(path).read())
    cls = next((c for c in tree.body if isinstance(c, ast.ClassDef) and c.name == "Properties"), None)
    if cls is None:
        raise Bad("class Properties not found")
    # allowsMultiple: return self.getIdentFromName(compressedName) in [11, 38]
    am = _find(cls, "allowsMultiple")
    body = [s for s in am.body if not (isinstance(s, ast.Expr) and isinstance(s.value, ast.Constant))]
    if len(body) != 1 or not isinstance(body[0], ast.Return):
        raise Bad("allowsMultiple: single return expected")
    r = body[0].value
    if not (isinstance(r, ast.Compare) and len(r.ops) == 1 and isinstance(r.ops[0], ast.In)
            and ast.unparse(r.left) == f"self.getIdentFromName({am.args.args[1].arg})"
            and isinstance(r.comparators[0], (ast.List, ast.Tuple))):
        raise Bad(f"allowsMultiple: unexpected shape {ast.unparse(r)}")
    multi = [_const_int(x) for x in r.comparators[0].elts]

    # __setattr__
    sa = _find(cls, "__setattr__")
    if [a.arg for a in sa.args.args] != ["self", "name", "value"]:
        raise Bad("__setattr__: unexpected parameters")
    private = None
    guards = []
    for node in ast.walk(sa):
        if isinstance(node, ast.Assign) and len(node.targets) == 1 and _is_name(node.targets[0], "privateVars"):
            private = _str_list(node.value)
        # older shape: `if not isinstance(value, list): <chain on value>`  (lists are not checked)
        if isinstance(node, ast.If) and ast.unparse(node.test) == "not isinstance(value, list)" \
                and not (len(node.body) == 1 and isinstance(node.body[0], ast.Assign)):
            guards.append((node, "value", False))
        # current shape: `for item in (value if isinstance(value, list) else [value]): <chain on item>`
        if isinstance(node, ast.For) and isinstance(node.target, ast.Name) \
                and ast.unparse(node.iter) == "value if isinstance(value, list) else [value]":
            guards.append((node, node.target.id, True))
    if private is None:
        raise Bad("__setattr__: privateVars not found")
    if len(guards) != 1:
        raise Bad(f"__setattr__: expected exactly one block of value checks (for item in (value if isinstance(value, list) "
                  f"else [value]) / if not isinstance(value, list)), found {len(guards)}")
    g, var, each = guards[0]
    if g.orelse or len(g.body) != 1 or not isinstance(g.body[0], ast.If):
        raise Bad("__setattr__: the block of value checks is not a single if/elif chain")
    for node in ast.walk(g):
        if isinstance(node, (ast.Break, ast.Continue, ast.Return)):
            raise Bad("__setattr__: break/continue/return inside the value checks")
    groups = []
    link = g.body[0]
    while True:
        t = link.test
        if not (isinstance(t, ast.BoolOp) and isinstance(t.op, ast.And) and len(t.values) == 2):
            raise Bad(f"__setattr__: unexpected check {ast.unparse(t)}")
        memb, cond = t.values
        if not (isinstance(memb, ast.Compare) and len(memb.ops) == 1 and isinstance(memb.ops[0], ast.In)
                and _is_name(memb.left, "name")):
            raise Bad(f"__setattr__: unexpected name test {ast.unparse(memb)}")
        names = _str_list(memb.comparators[0])
        kind, params = _range_cond(cond, var)
        if len(link.body) != 1 or not isinstance(link.body[0], ast.Raise) \
                or not ast.unparse(link.body[0].exc).startswith("MQTTException("):
            raise Bad("__setattr__: a check does not raise MQTTException")
        groups.append((names, kind, params))
        if not link.orelse:
            break
        if len(link.orelse) != 1 or not isinstance(link.orelse[0], ast.If):
            raise Bad("__setattr__: else branch in the value checks")
        link = link.orelse[0]
    return multi, private, groups, each


def _b(s):
    return "[" + "; ".join(str(c) for c in s.encode("utf-8")) + "]"


def _zl(l):
    return "[" + "; ".join(str(x) if x >= 0 else f"({x})" for x in l) + "]"


def _cmt(s):
    return s.replace("(*", "( *").replace("*)", "* )")


def _emit(rt, multi, private, groups, each):
    P = []
    P.append("(* PacketTypes: (name, value) of every upper-case integer attribute; Names; indexes *)")
    P.append("Definition gen_packet_types : list (list Z * Z) :=\n  [ " +
             ";\n    ".join(f"({_b(k)}, {v}) (* {_cmt(k)} *)" for k, v in rt["packet_types"]) + " ].")
    P.append("Definition gen_packet_names : list (list Z) :=\n  [ " +
             ";\n    ".join(f"{_b(k)} (* {_cmt(k)} *)" for k in rt["packet_names"]) + " ].")
    P.append(f"Definition gen_packet_indexes : list Z := {_zl(rt['packet_indexes'])}.")
    P.append("(* Properties.types, in list order (the wire-type index is the position) *)")
    P.append("Definition gen_prop_types : list (list Z) :=\n  [ " +
             ";\n    ".join(f"{_b(k)} (* {_cmt(k)} *)" for k in rt["prop_types"]) + " ].")
    P.append("(* Properties.names in dict order: (name, identifier) *)")
    P.append("Definition gen_prop_names : list (list Z * Z) :=\n  [ " +
             ";\n    ".join(f"({_b(k)}, {v}) (* {_cmt(k)} *)" for k, v in rt["prop_names"]) + " ].")
    P.append("(* Properties.properties in dict order: (identifier, (wire type index, packet types)) *)")
    P.append("Definition gen_prop_table : list (Z * (Z * list Z)) :=\n  [ " +
             ";\n    ".join(f"({k}, ({t}, {_zl(pl)}))" for k, t, pl in rt["prop_table"]) + " ].")
    P.append("(* the literal list in Properties.allowsMultiple *)")
    P.append(f"Definition gen_multi_ids : list Z := {_zl(multi)}.")
    P.append("(* privateVars of Properties.__setattr__ *)")
    P.append("Definition gen_private_vars : list (list Z) :=\n  [ " +
             "; ".join(f"{_b(k)} (* {_cmt(k)} *)" for k in private) + " ].")
    P.append("(* the if/elif chain of value checks in Properties.__setattr__, in order:\n"
             "   (compressed names, kind, params); kind 0: raise when value < p0 or value > p1;\n"
             "   kind 1: raise when value differs from every listed p *)")
    P.append("Definition gen_range_groups : list (list (list Z) * Z * list Z) :=\n  [ " +
             ";\n    ".join("([" + "; ".join(f"{_b(n)} (* {_cmt(n)} *)" for n in names) + f"], {kind}, {_zl(params)})"
                            for names, kind, params in groups) + " ].")
    P.append("(* true: the chain runs for every element of an assigned list (for item in ...); "
             "false: it is skipped for lists (if not isinstance(value, list)) *)")
    P.append(f"Definition gen_range_each : bool := {'true' if each else 'false'}.")
    R = []
    R.append("(* ReasonCode.names in dict order: (value, [(name, packet types)]) *)")
    R.append("Definition gen_reason_table : list (Z * list (list Z * list Z)) :=\n  [ " +
             ";\n    ".join(f"({k}, [" + "; ".join(f"({_b(n)} (* {_cmt(n)} *), {_zl(pl)})" for n, pl in d) + "])"
                            for k, d in rt["reason_table"]) + " ].")
    return "\n".join(P) + "\n", "\n".join(R) + "\n"


_EMPTY = {"packet_types": [], "packet_names": [], "packet_indexes": [], "prop_types": [], "prop_names": [],
          "prop_table": [], "reason_table": []}


def generate(repo):
    problems = []
    try:
        rt = _runtime_tables(repo)
    except Exception as e:  # fail closed
        problems.append(("C17 tables (Properties/ReasonCode/PacketTypes data)", f"{type(e).__name__}: {e}"))
        rt = _EMPTY
    try:
        multi, private, groups, each = _code_tables(repo)
    except Exception as e:
        problems.append(("C17 tables (Properties.__setattr__ checks / allowsMultiple)", f"{type(e).__name__}: {e}"))
        multi, private, groups, each = [], [], [], False
    ptext, rtext = _emit(rt, multi, private, groups, each)
    return [("GenPropTable.v", ptext, problems), ("GenReasonTable.v", rtext, [])]
