"""C14: _mid_generate"""
# (output file, python source file, qualified name, coq name, state attrs, params, types, result type, default return, fallback binders)
LEAVES = [
    ("GenMid.v", "client.py", "Client._mid_generate", "mid_generate",
     ["_last_mid"], [], {}, "Z * Z", "0", "(fuel : nat) (s_last_mid : Z)"),
]
