"""C08 / C09: the timing decisions of client.py, translated on every run into Gen/GenTiming.v.

Whole functions are outside leaf.py's subset here (_reconnect_wait sleeps in a loop on time.sleep /
time_func; _check_keepalive and loop_misc call methods, use try/except and callbacks), so the
*decisions* are cut out of their AST and translated with leaf.py's expression/statement translator:

  reconnect_delay_update   the `if self._reconnect_delay is None: ... else: ...` statement of _reconnect_wait
  ka_due_gen               test of the outer `if` of _check_keepalive (socket present and K elapsed since
                           the last outbound OR inbound stamp)
  ka_may_ping_gen          test of the inner `if` (state CONNECTED and no ping outstanding -> ping, else close)
  ka_ping_expired_gen      test of loop_misc's `if self._ping_t > 0 and now - self._ping_t >= self._keepalive`

Fail-closed: each cut must match exactly one node of the expected shape, otherwise the definition is
emitted as OutOfFuel (its bridge lemma in Link/TimingBridge.v then fails) and the item is reported
untranslatable.  The sleep loop of _reconnect_wait, the order of loop_misc's statements and everything
else is hand-modelled (Link/Keepalive.v, Link/Backoff.v) and tied by the correspondence runs.

`_reconnect_delay` is None-or-number: leaf.py has no option type, the small subclass below adds it
(type tag 'optZ': `is None` tests see the option, arithmetic sees the value, assignments wrap in Some)."""
import ast, os, re
import leaf

FILE = "GenTiming.v"


class TrT(leaf.Tr):
    def zval(self, e, env):
        s = self.expr(e, env)
        return f"(match {s} with Some v_ => v_ | None => 0 end)" if self.typ(e) == "optZ" else s

    def expr(self, e, env):
        if isinstance(e, ast.Constant) and e.value is None:
            return "None"
        if isinstance(e, ast.BinOp) and type(e.op) in leaf.BINOPS \
                and "optZ" in (self.typ(e.left), self.typ(e.right)):
            return f"({leaf.BINOPS[type(e.op)]} {self.zval(e.left, env)} {self.zval(e.right, env)})"
        if isinstance(e, ast.Call) and isinstance(e.func, ast.Name) and e.func.id in ("min", "max") \
                and len(e.args) == 2 and not e.keywords and "optZ" in [self.typ(a) for a in e.args]:
            return f"(Z.{e.func.id} {self.zval(e.args[0], env)} {self.zval(e.args[1], env)})"
        return super().expr(e, env)

    def stmts(self, body, env, k_end, loop):
        if body and isinstance(body[0], ast.Assign) and len(body[0].targets) == 1:
            tgt = body[0].targets[0]
            tname = tgt.attr if isinstance(tgt, ast.Attribute) else getattr(tgt, "id", None)
            if self.c.types.get(tname) == "optZ":
                s, rest = body[0], body[1:]
                vt = self.typ(s.value)
                val = self.expr(s.value, env)
                if vt == "Z":
                    val = f"(Some {val})"
                elif vt not in ("none", "optZ"):
                    raise leaf.Untranslatable(f"assignment of a {vt} to an optional number")
                key = self.target_key(tgt)
                env = dict(env)
                nm = self.fresh(key, env)
                env[key] = nm
                return f"let {nm} := {val} in\n{self.stmts(rest, env, k_end, loop)}"
        return super().stmts(body, env, k_end, loop)


def enum_values(tree, cls):
    """values of an enum class whose members are all `NAME = enum.auto()` (1, 2, ...) or int literals"""
    out = {}
    for node in ast.walk(tree):
        if isinstance(node, ast.ClassDef) and node.name == cls:
            n = 0
            for st in node.body:
                if isinstance(st, ast.Assign) and len(st.targets) == 1 and isinstance(st.targets[0], ast.Name):
                    if isinstance(st.value, ast.Call) and ast.unparse(st.value.func) == "enum.auto":
                        n += 1
                    elif isinstance(st.value, ast.Constant) and type(st.value.value) is int:
                        n = st.value.value
                    else:
                        raise leaf.Untranslatable(f"{cls}.{st.targets[0].id}: value shape")
                    out[f"{cls}.{st.targets[0].id}"] = str(n)
    if not out:
        raise leaf.Untranslatable(f"enum {cls} not found")
    return out


def ifs_matching(fn, pred):
    return [n for n in ast.walk(fn) if isinstance(n, ast.If) and pred(n)]


def one(nodes, what):
    if len(nodes) != 1:
        raise leaf.Untranslatable(f"{what}: expected exactly one matching `if`, found {len(nodes)}")
    return nodes[0]


def fallback(name, binders, rty):
    return f"Definition {name} {binders} : res ({rty}) := OutOfFuel.\n"


def test_def(name, binders, test, env, types, consts):
    ctx = leaf.Ctx(name, [], [], dict(types), "0", consts)
    ctx.ret_type = "bool"
    tr = TrT(ctx)
    return f"Definition {name} {binders} : res bool :=\nOk {tr.bexpr(test, dict(env))}.\n"


def generate(repo):
    src = os.path.join(repo, "src", "paho", "mqtt")
    tree = ast.parse(open(os.path.join(src, "client.py")).read())
    etree = ast.parse(open(os.path.join(src, "enums.py")).read())
    problems, parts = [], []

    def item(qual, name, binders, rty, build):
        try:
            parts.append(build())
        except leaf.Untranslatable as e:
            problems.append((qual, f"{name}: {e}"))
            parts.append(fallback(name, binders, rty))
        except Exception as e:            # fail closed on anything unexpected
            problems.append((qual, f"{name}: translator error {type(e).__name__}: {e}"))
            parts.append(fallback(name, binders, rty))

    # ---- _reconnect_wait: the delay update
    def delay_update():
        fn = leaf.find_function(tree, "Client._reconnect_wait")
        node = one(ifs_matching(fn, lambda n: ast.unparse(n.test) == "self._reconnect_delay is None"),
                   "_reconnect_wait delay update")
        # the sleep must be computed from the updated delay: target_time = now + self._reconnect_delay
        if not any(isinstance(s, ast.Assign) and ast.unparse(s) == "target_time = now + self._reconnect_delay"
                   for s in ast.walk(fn)):
            raise leaf.Untranslatable("_reconnect_wait: `target_time = now + self._reconnect_delay` not found")
        types = {"_reconnect_delay": "optZ", "_reconnect_min_delay": "Z", "_reconnect_max_delay": "Z"}
        ctx = leaf.Ctx("reconnect_delay_update", ["_reconnect_delay"], [], types, "0", {})
        ctx.ret_type = "option Z"
        tr = TrT(ctx)
        env = {"#n": 0, "self._reconnect_delay": "s_reconnect_delay",
               "self._reconnect_min_delay": "s_reconnect_min_delay", "self._reconnect_max_delay": "s_reconnect_max_delay"}
        body = tr.stmts([node], env, lambda e: f"Ok {e['self._reconnect_delay']}", None)
        if ctx.loops:
            raise leaf.Untranslatable("unexpected loop")
        return ("Definition reconnect_delay_update (s_reconnect_delay : option Z) "
                "(s_reconnect_min_delay s_reconnect_max_delay : Z) : res (option Z) :=\n" + body + ".\n")
    item("Client._reconnect_wait", "reconnect_delay_update",
         "(s_reconnect_delay : option Z) (s_reconnect_min_delay s_reconnect_max_delay : Z)", "option Z", delay_update)

    # ---- _check_keepalive: the two tests
    ka_binders = "(s_sock : option unit) (now last_msg_out last_msg_in s_keepalive : Z)"
    ka_env = {"self._sock": "s_sock", "now": "now", "last_msg_out": "last_msg_out", "last_msg_in": "last_msg_in",
              "self._keepalive": "s_keepalive"}

    def ka_nodes():
        fn = leaf.find_function(tree, "Client._check_keepalive")
        outer = one(ifs_matching(fn, lambda n: "last_msg_out" in ast.unparse(n.test)), "_check_keepalive outer test")
        inner = one(ifs_matching(fn, lambda n: "_ping_t" in ast.unparse(n.test)), "_check_keepalive inner test")
        if not (outer.body and outer.body[0] is inner and not outer.orelse and inner.orelse):
            raise leaf.Untranslatable("_check_keepalive: the ping/close `if` is no longer the body of the elapsed-time `if`")
        # the early return for keepalive 0 and the stamps read under the lock
        first = [s for s in fn.body if not (isinstance(s, ast.Expr) and isinstance(s.value, ast.Constant))][0]
        if not (isinstance(first, ast.If) and ast.unparse(first.test) == "self._keepalive == 0"
                and isinstance(first.body[0], ast.Return)):
            raise leaf.Untranslatable("_check_keepalive: `if self._keepalive == 0: return` is not the first statement")
        src_txt = ast.unparse(fn)
        for needle in ("last_msg_out = self._last_msg_out", "last_msg_in = self._last_msg_in", "now = time_func()"):
            if needle not in src_txt:
                raise leaf.Untranslatable(f"_check_keepalive: `{needle}` not found")
        # after a successful ping both stamps are set to now
        ok_branch = ast.unparse(inner.body[0]) if inner.body else ""
        if "self._last_msg_out = now" not in ok_branch or "self._last_msg_in = now" not in ok_branch:
            raise leaf.Untranslatable("_check_keepalive: stamps are not both set to `now` after the PINGREQ")
        return outer, inner

    def ka_due():
        outer, _ = ka_nodes()
        return test_def("ka_due_gen", ka_binders, outer.test, ka_env, {}, {})
    item("Client._check_keepalive", "ka_due_gen", ka_binders, "bool", ka_due)

    mp_binders = "(s_state s_ping_t : Z)"

    def ka_may_ping():
        _, inner = ka_nodes()
        consts = enum_values(etree, "_ConnectionState")
        return test_def("ka_may_ping_gen", mp_binders, inner.test,
                        {"self._state": "s_state", "self._ping_t": "s_ping_t"}, {}, consts)
    item("Client._check_keepalive", "ka_may_ping_gen", mp_binders, "bool", ka_may_ping)

    def cs_connected():
        consts = enum_values(etree, "_ConnectionState")
        return f"Definition cs_connected_code : res Z := Ok {consts['_ConnectionState.MQTT_CS_CONNECTED']}.\n"
    item("_ConnectionState", "cs_connected_code", "", "Z", cs_connected)

    # ---- loop_misc: the ping-expired test
    pe_binders = "(s_ping_t now s_keepalive : Z)"

    def ping_expired():
        fn = leaf.find_function(tree, "Client.loop_misc")
        node = one(ifs_matching(fn, lambda n: "_ping_t" in ast.unparse(n.test)), "loop_misc ping-expired test")
        calls = [ast.unparse(s) for s in fn.body]
        i_check = next((i for i, s in enumerate(calls) if s == "self._check_keepalive()"), None)
        i_test = fn.body.index(node) if node in fn.body else None
        if i_check is None or i_test is None or not i_check < i_test:
            raise leaf.Untranslatable("loop_misc: _check_keepalive() no longer precedes the ping-expired test")
        return test_def("ka_ping_expired_gen", pe_binders, node.test,
                        {"self._ping_t": "s_ping_t", "now": "now", "self._keepalive": "s_keepalive"}, {}, {})
    item("Client.loop_misc", "ka_ping_expired_gen", pe_binders, "bool", ping_expired)

    # ---- _handle_pingresp clears _ping_t; _send_pingreq sets it
    def ping_t_updates():
        h = ast.unparse(leaf.find_function(tree, "Client._handle_pingresp"))
        s = ast.unparse(leaf.find_function(tree, "Client._send_pingreq"))
        if "self._ping_t = 0" not in h:
            raise leaf.Untranslatable("_handle_pingresp: `self._ping_t = 0` not found")
        if "self._ping_t = time_func()" not in s:
            raise leaf.Untranslatable("_send_pingreq: `self._ping_t = time_func()` not found")
        return "Definition ping_t_updates_present : res bool := Ok true.\n"
    item("Client._handle_pingresp", "ping_t_updates_present", "", "bool", ping_t_updates)

    return [(FILE, "\n".join(parts), problems)]
