"""Leaf functions shared by several properties (C04 remaining length, C19 predicates)."""
CONSTS = {"MQTTErrorCode.MQTT_ERR_INVAL": "3", "MQTTErrorCode.MQTT_ERR_SUCCESS": "0"}
LEAVES = [
    ("GenRL.v", "client.py", "Client._pack_remaining_length", "pack_remaining_length",
     [], ["packet", "remaining_length"], {"packet": "bytes", "remaining_bytes": "zlist"}, "list Z", "[]",
     "(fuel : nat) (packet : list Z) (remaining_length : Z)"),
    ("GenTopic.v", "client.py", "Client._raise_for_invalid_topic", "raise_for_invalid_topic",
     [], ["topic"], {"topic": "bytes"}, "Z", "0", "(fuel : nat) (topic : list Z)"),
    ("GenFilter.v", "client.py", "Client._filter_wildcard_len_check", "filter_wildcard_len_check",
     [], ["sub"], {"sub": "bytes"}, "Z", "0", "(fuel : nat) (sub : list Z)"),
]
