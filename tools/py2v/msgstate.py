"""Fail-closed translator for the message-state methods of paho's Client: Python ast -> Gallina text.

The methods walk and update the two message stores (`_out_messages`, `_in_messages`), the in-flight counter and
hand packets to the `_send_*` functions.  They are translated statement by statement, in continuation-passing
style (every control-flow path of the Python code becomes one leaf of a nest of `if`/`match`), into functions over
the Session model's own data (`omsg`, `mstate`; Session/Model.v) and the vocabulary of Session/MsgStateLib.v
(`gcall`, `out_set`, `imsg`, ...).  specs/msgstate.py says which statements of which method form a fragment.

Subset
  with self._<...>_mutex:            transparent
  for m in self._out_messages.values() / self._in_messages.values():
                                     structural Fixpoint over the list of stored messages.  The loop returns
                                     (updated list, carried state, option result); an early `return` gives
                                     (m' :: rest unchanged, state, Some result) so later iterations are skipped.
                                     No nested loops, no access to the iterated store inside the body.
  m.state = mqtt_ms_X                set_st m MsX  (X must have a constructor in the model)
  m.dup = e / m.qos = e / m.payload = e      g_set_dup / g_set_qos / g_set_tag (payload is represented by the ghost tag)
  m.<ignored attr> = ...             dropped (ignore-list, printed into the generated file)
  self._inflight_messages = e, += e, -= e ; x = e ; x += e
  if/elif/else over comparisons (== != < <= > >=) of integers, `a in (b, c)`, `not in`, and/or/not, truthiness of
                                     integers; `x is None` / `x is not None` are decided statically per path
  k in self._out_messages, self._out_messages[k] (KeyError -> Raise 7), self._out_messages.pop(k),
  self._out_messages[x.mid] = x, len(self._out_messages)       list operations in insertion order; after a store
                                     or lookup the variable stays an alias of the stored object: later attribute
                                     assignments are written back to the list
  self._in_messages = collections.OrderedDict()
  self._send_publish(...)            appended to the call list iff `sock`, result MQTT_ERR_SUCCESS / MQTT_ERR_NO_CONN
  self._send_pubrel/puback/pubrec/pubcomp(mid), self.loop_write()     appended to the call list, result MQTT_ERR_SUCCESS
  self._handle_on_message(x)         GOnMessage; the path ends in `Raise 0` iff `raises && negb suppress`
  x.info._set_as_published()         GSetPublished
  x.info.rc = e ; return x.info      the returned MQTTMessageInfo is represented by its rc
  self._check_clean_session()        the boolean binder `clean`
  self._update_inflight() / self._do_on_publish(mid, ..)      call of the generated definition of that method
  message = MQTTMessage(a, b)        g_set_mid blank a   (`blank` = the other fields as __init__ leaves them)
  return e / return

Every generated function returns (state..., res R): the state also when an exception leaves the method.
Anything else raises Untranslatable: the caller prints `untranslatable: msgstate:<method>: <node>` and emits a
definition that returns `Raise (-1)`, which no bridge lemma can match.
"""
from __future__ import annotations

import ast
import os
import sys

sys.path.insert(0, os.path.dirname(os.path.abspath(__file__)))
import leaf  # noqa: E402
from leaf import Untranslatable  # noqa: E402

COQ_TY = {"Z": "Z", "bool": "bool", "unit": "unit", "omsg": "omsg", "omsgs": "list omsg", "imsg": "imsg",
          "imsgs": "list imsg", "calls": "list gcall"}
DEFAULT = {"Z": "0", "bool": "false", "unit": "tt", "omsgs": "[]", "imsgs": "[]", "calls": "[]"}

# name of the source constant -> constructor of Session.Model.mstate
STATE_CTORS = {"mqtt_ms_publish": "MsPublish", "mqtt_ms_wait_for_puback": "MsWaitPuback",
               "mqtt_ms_wait_for_pubrec": "MsWaitPubrec", "mqtt_ms_resend_pubrel": "MsResendPubrel",
               "mqtt_ms_wait_for_pubcomp": "MsWaitPubcomp", "mqtt_ms_queued": "MsQueued"}

# state keys of a fragment: key -> (env key, type)
STATE_INFO = {"out": ("self._out_messages", "omsgs"), "infl": ("self._inflight_messages", "Z"),
              "inm": ("self._in_messages", "imsgs"), "calls": ("#calls", "calls")}
STORES = {"self._out_messages": ("omsg", "has_mid", "find_mid", "remove_mid", "out_set", "o_mid"),
          "self._in_messages": ("imsg", "i_has", "i_find", "i_remove", "i_set", "i_mid")}

MSG_READ = {"omsg": {"mid": ("o_mid", "Z"), "qos": ("o_qos", "Z"), "dup": ("o_dup", "bool"), "payload": ("o_tag", "Z")},
            "imsg": {"mid": ("i_mid", "Z"), "qos": ("i_qos", "Z"), "payload": ("i_tag", "Z")}}
MSG_WRITE = {"omsg": {"dup": ("g_set_dup", "bool"), "qos": ("g_set_qos", "Z"), "payload": ("g_set_tag", "Z")},
             "imsg": {}}

# ---- the ignore-list: what is dropped, and why that is sound for the model ----
IGNORED_ATTRS = {
    "omsg": {"timestamp": "not carried by the model (only used by nothing: there is no retry timer in this client)",
             "retain": "not carried by the Session model (C04 ties the _send_publish arguments, GenSendPublishCalls.v)",
             "properties": "not carried by the Session model (C04, GenSendPublishCalls.v)"},
    "imsg": {"timestamp": "not carried by the model",
             "state": "the state of a stored incoming message is never read by the client"},
}
IGNORED_CALLS = {"_easy_log": "logging"}
IGNORED_SEND_PUBLISH_ARGS = ("topic", "retain", "info", "properties")   # C04 / GenSendPublishCalls.v covers them
LOCKS = ("_out_message_mutex", "_in_message_mutex", "_in_callback_mutex", "_callback_mutex")

SIMPLE_SENDS = {"_send_puback": "GSendPuback", "_send_pubrec": "GSendPubrec", "_send_pubcomp": "GSendPubcomp"}
CMP = {ast.Eq: "=?", ast.Lt: "<?", ast.LtE: "<=?", ast.Gt: ">?", ast.GtE: ">=?"}


class Val:
    __slots__ = ("text", "ty", "none")

    def __init__(self, text, ty, none=False):
        self.text, self.ty, self.none = text, ty, none


def is_self_attr(e, attr=None):
    return isinstance(e, ast.Attribute) and isinstance(e.value, ast.Name) and e.value.id == "self" \
        and (attr is None or e.attr == attr)


# ------------------------------------------------------------------------------------------------ constants
class Consts:
    """integer constants of client.py / enums.py, resolved through the AST (nothing is imported or executed)"""

    def __init__(self, repo):
        base = os.path.join(repo, "src", "paho", "mqtt")
        self.client = ast.parse(open(os.path.join(base, "client.py")).read())
        enums = ast.parse(open(os.path.join(base, "enums.py")).read())
        self.enum = {}
        for cls in enums.body:
            if isinstance(cls, ast.ClassDef):
                members = {}
                for s in cls.body:
                    if isinstance(s, ast.Assign) and len(s.targets) == 1 and isinstance(s.targets[0], ast.Name):
                        v = self.intval(s.value)
                        if v is not None:
                            members[s.targets[0].id] = v
                self.enum[cls.name] = members
        self.mod = {}
        for s in self.client.body:
            tgt = val = None
            if isinstance(s, ast.Assign) and len(s.targets) == 1 and isinstance(s.targets[0], ast.Name):
                tgt, val = s.targets[0].id, s.value
            elif isinstance(s, ast.AnnAssign) and isinstance(s.target, ast.Name) and s.value is not None:
                tgt, val = s.target.id, s.value
            if tgt is None:
                continue
            v = self.intval(val)
            if v is None and isinstance(val, ast.Attribute) and isinstance(val.value, ast.Name) \
                    and val.value.id in self.enum:
                v = self.enum[val.value.id].get(val.attr)
            if v is not None:
                if tgt in self.mod and self.mod[tgt] != v:
                    self.mod[tgt] = "ambiguous"
                else:
                    self.mod[tgt] = v
        self.used = {}

    @staticmethod
    def intval(node):
        if isinstance(node, ast.Constant) and type(node.value) is int:
            return node.value
        if isinstance(node, ast.UnaryOp) and isinstance(node.op, ast.USub) and isinstance(node.operand, ast.Constant) \
                and type(node.operand.value) is int:
            return -node.operand.value
        return None

    def lookup(self, node):
        """-> Coq name of the constant, or None"""
        name = v = None
        if isinstance(node, ast.Name) and node.id in self.mod:
            name, v = node.id, self.mod[node.id]
        elif isinstance(node, ast.Attribute) and isinstance(node.value, ast.Name) and node.value.id in self.enum \
                and node.attr in self.enum[node.value.id]:
            name, v = node.attr, self.enum[node.value.id][node.attr]
            if name in self.mod and self.mod[name] != v:
                raise Untranslatable(f"constant {name}: enum member and module-level alias differ")
        if name is None:
            return None
        if v == "ambiguous":
            raise Untranslatable(f"constant {name} is assigned different values")
        if self.used.setdefault(name, v) != v:
            raise Untranslatable(f"constant {name} has two values")
        return name

    def state_consts(self):
        out = []
        for py in STATE_CTORS:
            if py not in self.mod or self.mod[py] == "ambiguous":
                raise Untranslatable(f"state constant {py} not found")
            out.append((py, self.mod[py]))
        return out


# ------------------------------------------------------------------------------------------------ translator
class Loop:
    def __init__(self, name, var, carried, call):
        self.name, self.var, self.carried, self.call = name, var, carried, call


def tuple_text(parts):
    if not parts:
        return "tt"
    return parts[0] if len(parts) == 1 else "(" + ", ".join(parts) + ")"


def tuple_type(tys):
    if not tys:
        return "unit"
    parts = [f"({t})" if " " in t else t for t in tys]
    return parts[0] if len(parts) == 1 else "(" + " * ".join(parts) + ")"


class Frag:
    """one fragment: spec = dict(name, qual, params=[(coq, ty, pykey)], state=[...], ret, callee_args={})"""

    def __init__(self, spec, consts, registry, send_publish_sig, ignored):
        self.spec = spec
        self.name = spec["name"]
        self.params = spec["params"]
        self.state = spec["state"]
        self.state_keys = [STATE_INFO[s][0] for s in self.state]
        self.ret = spec["ret"]
        self.consts = consts
        self.registry = registry                 # method name -> spec of an already generated fragment
        self.sp_sig = send_publish_sig
        self.ignored = ignored                   # ordered dict: text -> reason
        self.loops = []
        self.loop = None
        self.binder_keys = set()
        self.coq_names = {p[0] for p in self.params} | set(self.state)

    # ---------------------------------------------------------------- helpers
    def rtype(self):
        return f"res {COQ_TY[self.ret]}"

    def ftype(self):
        tys = [COQ_TY[STATE_INFO[s][1]] for s in self.state] + [self.rtype()]
        return " * ".join(f"({t})" if " " in t else t for t in tys) if len(tys) > 1 else tys[0]

    def binders_text(self):
        bs = [f"({c} : {COQ_TY[t]})" for c, t, _ in self.params]
        bs += [f"({s} : {COQ_TY[STATE_INFO[s][1]]})" for s in self.state]
        return " ".join(bs)

    def init_env(self):
        env = {"#n": {}, "#link": {}, "#iter": None}
        for c, t, key in self.params:
            env[key] = Val(c, t)
            self.binder_keys.add(key)
        for s in self.state:
            key, ty = STATE_INFO[s]
            env[key] = Val(s, ty)
        return env

    def fresh(self, base, env):
        n = dict(env["#n"])
        while True:
            n[base] = n.get(base, 0) + 1
            nm = f"{base}{n[base]}"
            if nm not in self.coq_names:
                break
        env["#n"] = n
        return nm

    def ignore(self, text, why):
        self.ignored.setdefault(f"{self.spec['qual']}: {text}", why)

    def result(self, env, res_text):
        """the value of a path that ends here with result `res_text` : res R"""
        if self.loop is None:
            return tuple_text([env[k].text for k in self.state_keys] + [res_text])
        lp = self.loop
        return f"({env[lp.var].text} :: l', {tuple_text([env[k].text for k in lp.carried])}, Some ({res_text}))"

    def need(self, env, key, what):
        if key not in env:
            raise Untranslatable(f"{what}: `{key}` is not available in this fragment")
        if env["#iter"] == key:
            raise Untranslatable(f"{what}: access to the store that is being iterated")
        return env[key]

    # ---------------------------------------------------------------- expressions
    def expr(self, e, env):
        if isinstance(e, ast.Constant):
            if isinstance(e.value, bool):
                return Val("true" if e.value else "false", "bool")
            if type(e.value) is int:
                return Val(f"({e.value})" if e.value < 0 else str(e.value), "Z")
            if e.value is None:
                return Val("", "none", none=True)
            raise Untranslatable(f"constant {e.value!r}")
        if isinstance(e, ast.Name):
            if e.id in env:
                return env[e.id]
            c = self.consts.lookup(e)
            if c is not None:
                return Val(c, "Z")
            raise Untranslatable(f"unknown name {e.id}")
        if isinstance(e, ast.Attribute):
            if is_self_attr(e):
                return self.need(env, "self." + e.attr, ast.unparse(e))
            full = ast.unparse(e)
            if full in env:                      # pseudo variable  x.info.rc
                return env[full]
            if isinstance(e.value, ast.Name) and e.value.id in env and env[e.value.id].ty in MSG_READ:
                v = env[e.value.id]
                if v.none:
                    raise Untranslatable(f"attribute of None: {full}")
                if e.attr == "state" and v.ty == "omsg":
                    return Val(f"(st_code (o_st {v.text}))", "Z")
                if e.attr in MSG_READ[v.ty]:
                    f, ty = MSG_READ[v.ty][e.attr]
                    return Val(f"({f} {v.text})", ty)
                raise Untranslatable(f"attribute {full}")
            c = self.consts.lookup(e)
            if c is not None:
                return Val(c, "Z")
            raise Untranslatable(f"attribute {full}")
        if isinstance(e, ast.BinOp) and isinstance(e.op, (ast.Add, ast.Sub)):
            a, b = self.expr(e.left, env), self.expr(e.right, env)
            if a.ty != "Z" or b.ty != "Z":
                raise Untranslatable(f"arithmetic on {a.ty}/{b.ty}: {ast.unparse(e)}")
            return Val(f"({a.text} {'+' if isinstance(e.op, ast.Add) else '-'} {b.text})", "Z")
        if isinstance(e, ast.UnaryOp) and isinstance(e.op, ast.Not):
            return Val(f"(negb {self.bexpr(e.operand, env)})", "bool")
        if isinstance(e, ast.BoolOp):
            op = "&&" if isinstance(e.op, ast.And) else "||"
            parts = [self.bexpr(v, env) for v in e.values]
            out = parts[-1]
            for p in reversed(parts[:-1]):
                out = f"({p} {op} {out})"
            return Val(out, "bool")
        if isinstance(e, ast.Compare):
            return self.compare(e, env)
        if isinstance(e, ast.Call):
            f = e.func
            if isinstance(f, ast.Name) and f.id == "len" and len(e.args) == 1 and not e.keywords \
                    and is_self_attr(e.args[0]) and "self." + e.args[0].attr in STORES:
                st = self.need(env, "self." + e.args[0].attr, ast.unparse(e))
                return Val(f"(Z.of_nat (List.length {st.text}))", "Z")
            if is_self_attr(f) and not e.args and not e.keywords and ("call:" + f.attr) in env:
                return env["call:" + f.attr]
            raise Untranslatable(f"call in expression position: {ast.unparse(e)}")
        raise Untranslatable(f"expression {type(e).__name__}: {ast.unparse(e)}")

    def zexpr(self, e, env):
        v = self.expr(e, env)
        if v.ty != "Z":
            raise Untranslatable(f"integer expected: {ast.unparse(e)} : {v.ty}")
        return v.text

    def bexpr(self, e, env):
        v = self.expr(e, env)
        if v.ty == "bool":
            return v.text
        if v.ty == "Z":
            return f"(negb ({v.text} =? 0))"
        raise Untranslatable(f"truth value of {v.ty}: {ast.unparse(e)}")

    def compare(self, e, env):
        if len(e.ops) != 1:
            raise Untranslatable(f"chained comparison {ast.unparse(e)}")
        op, l, r = e.ops[0], e.left, e.comparators[0]
        if isinstance(op, (ast.In, ast.NotIn)):
            if is_self_attr(r) and "self." + r.attr in STORES:
                st = self.need(env, "self." + r.attr, ast.unparse(e))
                t = f"({STORES['self.' + r.attr][1]} {self.zexpr(l, env)} {st.text})"
            elif isinstance(r, (ast.Tuple, ast.List)) and r.elts:
                t = f"(existsb (Z.eqb {self.zexpr(l, env)}) [{'; '.join(self.zexpr(x, env) for x in r.elts)}])"
            else:
                raise Untranslatable(f"membership test {ast.unparse(e)}")
            return Val(t if isinstance(op, ast.In) else f"(negb {t})", "bool")
        a, b = self.expr(l, env), self.expr(r, env)
        if isinstance(op, (ast.Eq, ast.NotEq)) and a.ty == "bool" and b.ty == "bool":
            t = f"(Bool.eqb {a.text} {b.text})"
            return Val(t if isinstance(op, ast.Eq) else f"(negb {t})", "bool")
        if a.ty != "Z" or b.ty != "Z":
            raise Untranslatable(f"comparison of {a.ty} and {b.ty}: {ast.unparse(e)}")
        if isinstance(op, ast.NotEq):
            return Val(f"(negb ({a.text} =? {b.text}))", "bool")
        if type(op) not in CMP:
            raise Untranslatable(f"comparison operator {type(op).__name__}")
        return Val(f"({a.text} {CMP[type(op)]} {b.text})", "bool")

    def static_test(self, test, env):
        """`x is None` / `x is not None` for a variable whose None-ness is known on this path -> True/False, else None"""
        if isinstance(test, ast.Compare) and len(test.ops) == 1 and isinstance(test.ops[0], (ast.Is, ast.IsNot)) \
                and isinstance(test.comparators[0], ast.Constant) and test.comparators[0].value is None:
            if not (isinstance(test.left, ast.Name) and test.left.id in env and test.left.id not in self.binder_keys):
                raise Untranslatable(f"None test on something that is not a local variable: {ast.unparse(test)}")
            isnone = env[test.left.id].none
            return isnone if isinstance(test.ops[0], ast.Is) else not isnone
        for n in ast.walk(test):
            if isinstance(n, (ast.Is, ast.IsNot)):
                raise Untranslatable(f"`is` inside a compound condition: {ast.unparse(test)}")
        return None

    # ---------------------------------------------------------------- effects
    def add_call(self, env, call_text):
        calls = self.need(env, "#calls", "a call that must be recorded")
        env = dict(env)
        nm = self.fresh("calls", env)
        env["#calls"] = Val(nm, "calls")
        return env, f"let {nm} := {calls.text} ++ [{call_text}] in\n"

    def msg_var_of_mid(self, arg, env, mid_text):
        """the message variable a packet id belongs to: `x.mid`, or the key under which x was looked up / stored"""
        if isinstance(arg, ast.Attribute) and arg.attr == "mid" and isinstance(arg.value, ast.Name) \
                and arg.value.id in env and env[arg.value.id].ty == "omsg" and not env[arg.value.id].none:
            return env[arg.value.id]
        for var, (_, key) in env["#link"].items():
            if key == mid_text and env[var].ty == "omsg":
                return env[var]
        raise Untranslatable(f"no message object in scope for packet id {ast.unparse(arg)}")

    def bind_args(self, call, names, what):
        if any(isinstance(a, ast.Starred) for a in call.args) or any(k.arg is None for k in call.keywords):
            raise Untranslatable(f"{what}: * or ** arguments")
        if len(call.args) > len(names):
            raise Untranslatable(f"{what}: too many arguments")
        bound = dict(zip(names, call.args))
        for k in call.keywords:
            if k.arg in bound or k.arg not in names:
                raise Untranslatable(f"{what}: bad keyword {k.arg}")
            bound[k.arg] = k.value
        return bound

    def effect(self, call, env, k):
        """translate an effectful call; k(env, Val or None) gives the text of what follows"""
        f = call.func
        text = ast.unparse(call)
        # --- calls on self
        if is_self_attr(f):
            name = f.attr
            if name == "_send_publish":
                bound = self.bind_args(call, self.sp_sig, "_send_publish")
                for p in ("mid", "payload", "qos", "dup"):
                    if p not in bound:
                        raise Untranslatable(f"_send_publish without explicit {p}: {text}")
                mid = self.zexpr(bound["mid"], env)
                mv = self.msg_var_of_mid(bound["mid"], env, mid)
                tag = self.zexpr(bound["payload"], env)
                if not (isinstance(bound["payload"], ast.Attribute) and bound["payload"].attr == "payload"):
                    raise Untranslatable(f"_send_publish payload is not a message's payload: {text}")
                qos = self.zexpr(bound["qos"], env)
                dup = self.expr(bound["dup"], env)
                if dup.ty != "bool":
                    raise Untranslatable(f"_send_publish dup is not a boolean: {text}")
                for p in IGNORED_SEND_PUBLISH_ARGS:
                    if p in bound:
                        self.ignore(f"_send_publish argument {p}={ast.unparse(bound[p])}",
                                    "not carried by the Session model (C04, GenSendPublishCalls.v)")
                sock = self.need(env, "sock", "_send_publish")
                calls = self.need(env, "#calls", "_send_publish")
                ok = self.consts.lookup(ast.Name(id="MQTT_ERR_SUCCESS"))
                nc = self.consts.lookup(ast.Name(id="MQTT_ERR_NO_CONN"))
                if ok is None or nc is None:
                    raise Untranslatable("MQTT_ERR_SUCCESS / MQTT_ERR_NO_CONN not found")
                env = dict(env)
                cn, rn = self.fresh("calls", env), self.fresh("rc", env)
                env["#calls"] = Val(cn, "calls")
                g = f"GSendPublish {mid} {qos} {dup.text} {tag} (o_st {mv.text})"
                return (f"let '({cn}, {rn}) := if {sock.text} then ({calls.text} ++ [{g}], {ok}) "
                        f"else ({calls.text}, {nc}) in\n" + k(env, Val(rn, "Z")))
            if name == "_send_pubrel" or name in SIMPLE_SENDS:
                if len(call.args) != 1 or call.keywords:
                    raise Untranslatable(f"arguments of {text}")
                mid = self.zexpr(call.args[0], env)
                if name == "_send_pubrel":
                    mv = self.msg_var_of_mid(call.args[0], env, mid)
                    g = f"GSendPubrel {mid} (o_tag {mv.text})"
                else:
                    g = f"{SIMPLE_SENDS[name]} {mid}"
                ok = self.consts.lookup(ast.Name(id="MQTT_ERR_SUCCESS"))
                if ok is None:
                    raise Untranslatable("MQTT_ERR_SUCCESS not found")
                env, pre = self.add_call(env, g)
                return pre + k(env, Val(ok, "Z"))
            if name == "loop_write" and not call.args and not call.keywords:
                ok = self.consts.lookup(ast.Name(id="MQTT_ERR_SUCCESS"))
                if ok is None:
                    raise Untranslatable("MQTT_ERR_SUCCESS not found")
                env, pre = self.add_call(env, "GLoopWrite")
                return pre + k(env, Val(ok, "Z"))
            if name == "_handle_on_message" and len(call.args) == 1 and not call.keywords \
                    and isinstance(call.args[0], ast.Name):
                v = env.get(call.args[0].id)
                if v is None or v.ty != "imsg" or v.none:
                    raise Untranslatable(f"{text}: argument is not an incoming message on this path")
                raises, supp = self.need(env, "raises", text), self.need(env, "suppress", text)
                env, pre = self.add_call(env, f"GOnMessage (i_mid {v.text}) (i_qos {v.text}) (i_tag {v.text})")
                return (pre + f"if {raises.text} && negb {supp.text} then {self.result(env, 'Raise 0')}\nelse (\n"
                        + k(env, None) + ")")
            if name in self.registry:
                return self.callee(call, self.registry[name], env, k)
            raise Untranslatable(f"call {text}")
        # --- the callback block marker inserted by the spec
        if isinstance(f, ast.Name) and f.id == "__callback_on_publish__":
            env, pre = self.add_call(env, f"GCbPublish {self.zexpr(call.args[0], env)}")
            return pre + k(env, None)
        # --- x.info._set_as_published()
        if isinstance(f, ast.Attribute) and f.attr == "_set_as_published" and isinstance(f.value, ast.Attribute) \
                and f.value.attr == "info" and isinstance(f.value.value, ast.Name) and not call.args and not call.keywords:
            v = env.get(f.value.value.id)
            if v is None or v.ty != "omsg" or v.none:
                raise Untranslatable(f"{text}: not a stored outgoing message")
            env, pre = self.add_call(env, f"GSetPublished (o_tag {v.text})")
            return pre + k(env, None)
        # --- self._out_messages.pop(k)
        if isinstance(f, ast.Attribute) and f.attr == "pop" and is_self_attr(f.value) and "self." + f.value.attr in STORES \
                and len(call.args) == 1 and not call.keywords:
            return self.lookup("self." + f.value.attr, call.args[0], env, k, remove=True)
        # --- MQTTMessage(mid, topic)
        if isinstance(f, ast.Name) and f.id == "MQTTMessage" and len(call.args) == 2 and not call.keywords:
            blank = self.need(env, "blank", text)
            self.ignore(f"MQTTMessage(.., {ast.unparse(call.args[1])}) topic argument",
                        "not carried by the Session model (C04, GenSendPublishCalls.v)")
            env = dict(env)
            nm = self.fresh("message", env)
            return f"let {nm} := g_set_mid {blank.text} {self.zexpr(call.args[0], env)} in\n" + k(env, Val(nm, "omsg"))
        raise Untranslatable(f"call {text}")

    def lookup(self, store, key_node, env, k, remove):
        elty, _, find, rem, _, _ = STORES[store]
        st = self.need(env, store, "lookup")
        if any(s == store for s, _ in env["#link"].values()) and remove:
            raise Untranslatable("pop while another variable aliases an object of the same store")
        key = self.zexpr(key_node, env)
        none_res = self.result(env, "Raise 7")      # KeyError: the state as it is before the lookup
        env = dict(env)
        base = "msg" if elty == "omsg" else "imsg"
        nm = self.fresh(base, env)
        inner = ""
        if remove:
            sn = self.fresh(STATE_INFO_REV[store], env)
            env[store] = Val(sn, st.ty)
            inner = f"let {sn} := {rem} {key} {st.text} in\n"
        else:
            link = dict(env["#link"])
            link["#pending"] = (store, key)      # the caller binds it to the assigned variable
            env["#link"] = link
        return (f"match {find} {key} {st.text} with\n| None => {none_res}\n"
                f"| Some {nm} =>\n{inner}" + k(env, Val(nm, elty)) + "\nend")

    def callee(self, call, cspec, env, k):
        if self.loop is not None:
            raise Untranslatable(f"call of {cspec['name']} inside a loop")
        args = []
        for c, t, key in cspec["params"]:
            idx = cspec.get("callee_args", {}).get(c)
            if idx is not None:
                if idx >= len(call.args):
                    raise Untranslatable(f"{ast.unparse(call)}: argument {idx} missing")
                v = self.expr(call.args[idx], env)
            elif key in env and key in self.binder_keys:
                v = env[key]
            else:
                raise Untranslatable(f"{ast.unparse(call)}: nothing to pass for `{c}`")
            if v.ty != t:
                raise Untranslatable(f"{ast.unparse(call)}: `{c}` has type {v.ty}, expected {t}")
            args.append(v.text if " " not in v.text or v.text.startswith("(") else f"({v.text})")
        used = set(cspec.get("callee_args", {}).values())
        for i, a in enumerate(call.args):
            if i not in used:
                self.ignore(f"{ast.unparse(call.func)} argument {ast.unparse(a)}", "only passed on to the user callback")
        if call.keywords:
            raise Untranslatable(f"{ast.unparse(call)}: keyword arguments")
        env = dict(env)
        outs = []
        for s in cspec["state"]:
            key, ty = STATE_INFO[s]
            cur = self.need(env, key, ast.unparse(call))
            if any(st == key for st, _ in env["#link"].values()):
                raise Untranslatable(f"{ast.unparse(call)} while a variable aliases an object of {key}")
            args.append(cur.text)
            nm = self.fresh(s, env)
            env[key] = Val(nm, ty)
            outs.append(nm)
        r = self.fresh("r", env)
        ex = self.fresh("exc", env)
        if cspec["ret"] == "unit":
            okpat, val = "Ok _", None
        else:
            v = self.fresh("rc", env)
            okpat, val = f"Ok {v}", Val(v, cspec["ret"])
        return (f"let '({', '.join(outs + [r])}) := {cspec['name']} {' '.join(args)} in\n"
                f"match {r} with\n| {okpat} =>\n" + k(env, val) +
                f"\n| Raise {ex} => {self.result(env, 'Raise ' + ex)}\n| OutOfFuel => {self.result(env, 'OutOfFuel')}\nend")

    def is_effect(self, e):
        if not isinstance(e, ast.Call):
            return False
        f = e.func
        if is_self_attr(f):
            return not (("call:" + f.attr) in self.pure_calls)
        if isinstance(f, ast.Name) and f.id in ("MQTTMessage", "__callback_on_publish__"):
            return True
        if isinstance(f, ast.Attribute) and f.attr in ("pop", "_set_as_published"):
            return True
        return False

    # ---------------------------------------------------------------- statements
    def bind_local(self, name, val, env):
        if name in self.binder_keys:
            raise Untranslatable(f"assignment to the binder {name}")
        env = dict(env)
        link = dict(env["#link"])
        link.pop(name, None)
        if "#pending" in link:
            pend = link.pop("#pending")
            if any(st == pend[0] for st, _ in link.values()):
                raise Untranslatable(f"{name}: a second variable would alias an object of {pend[0]}")
            link[name] = pend
        env["#link"] = link
        env[name] = val
        return env

    def coerce_ret(self, v):
        if v.ty == self.ret:
            return v.text
        if self.ret == "bool" and v.ty == "Z":
            return f"(negb ({v.text} =? 0))"
        raise Untranslatable(f"return value of type {v.ty} where {self.ret} is expected")

    def write_back(self, var, env):
        """var aliases a stored object: write its new value into the list"""
        if var not in env["#link"]:
            return env, ""
        store, key = env["#link"][var]
        st = self.need(env, store, "write-back")
        env = dict(env)
        sn = self.fresh(STATE_INFO_REV[store], env)
        env[store] = Val(sn, st.ty)
        return env, f"let {sn} := {STORES[store][4]} {key} {env[var].text} {st.text} in\n"

    def stmts(self, body, env, k):
        if not body:
            return k(env)
        s, rest = body[0], list(body[1:])
        if isinstance(s, ast.Pass) or (isinstance(s, ast.Expr) and isinstance(s.value, ast.Constant)):
            return self.stmts(rest, env, k)
        if isinstance(s, ast.With):
            for it in s.items:
                if it.optional_vars is not None or not (is_self_attr(it.context_expr) and it.context_expr.attr in LOCKS):
                    raise Untranslatable(f"with {ast.unparse(it)}")
            return self.stmts(list(s.body) + rest, env, k)
        if isinstance(s, ast.If):
            st = self.static_test(s.test, env)
            if st is True:
                return self.stmts(list(s.body) + rest, env, k)
            if st is False:
                return self.stmts(list(s.orelse) + rest, env, k)
            cond = self.bexpr(s.test, env)
            a = self.stmts(list(s.body) + rest, env, k)
            b = self.stmts(list(s.orelse) + rest, env, k)
            return f"if {cond} then (\n{a}\n) else (\n{b}\n)"
        if isinstance(s, ast.Return):
            return self.ret_stmt(s, env)
        if isinstance(s, ast.For):
            return self.for_loop(s, rest, env, k)
        if isinstance(s, ast.Expr) and isinstance(s.value, ast.Call):
            c = s.value
            if is_self_attr(c.func) and c.func.attr in IGNORED_CALLS:
                self.ignore(f"self.{c.func.attr}(...)", IGNORED_CALLS[c.func.attr])
                return self.stmts(rest, env, k)
            # the one declared approximation: mutation of the store that is being iterated
            if self.loop is not None and isinstance(c.func, ast.Attribute) and c.func.attr == "pop" \
                    and is_self_attr(c.func.value) and env["#iter"] == "self." + c.func.value.attr \
                    and len(c.args) == 1 and ast.unparse(c.args[0]) == f"{self.loop.var}.mid":
                return self.result(env, "OutOfFuel") + \
                    "  (* pop on the store being iterated: outside the model, this path carries no claim *)"
            if self.is_effect(c):
                return self.effect(c, env, lambda e, v: self.stmts(rest, e, k))
            raise Untranslatable(f"expression statement {ast.unparse(s)[:80]}")
        if isinstance(s, ast.AugAssign):
            if not isinstance(s.op, (ast.Add, ast.Sub)):
                raise Untranslatable(f"augmented assignment {ast.unparse(s)}")
            return self.assign(s.target, ast.BinOp(left=s.target, op=s.op, right=s.value), rest, env, k, s)
        if isinstance(s, ast.Assign):
            if len(s.targets) != 1:
                raise Untranslatable(f"multiple assignment {ast.unparse(s)}")
            return self.assign(s.targets[0], s.value, rest, env, k, s)
        raise Untranslatable(f"statement {type(s).__name__}: {ast.unparse(s)[:80]}")

    def ret_stmt(self, s, env):
        v = s.value
        if v is None or (isinstance(v, ast.Constant) and v.value is None):
            if self.ret != "unit":
                raise Untranslatable("return without a value")
            return self.result(env, "Ok tt")
        if self.ret == "unit":
            raise Untranslatable(f"return with a value: {ast.unparse(s)}")
        if isinstance(v, ast.Attribute) and v.attr == "info" and isinstance(v.value, ast.Name):
            key = f"{v.value.id}.info.rc"
            if key not in env:
                raise Untranslatable(f"{ast.unparse(s)}: info.rc was not set on this path")
            return self.result(env, f"Ok {self.coerce_ret(env[key])}")
        if self.is_effect(v):
            def fin(e, val):
                if val is None:
                    raise Untranslatable(f"{ast.unparse(s)}: the call has no modelled result")
                return self.result(e, f"Ok {self.coerce_ret(val)}")
            return self.effect(v, env, fin)
        return self.result(env, f"Ok {self.coerce_ret(self.expr(v, env))}")

    def assign(self, tgt, value, rest, env, k, stmt):
        text = ast.unparse(stmt)
        # ---- x = ...
        if isinstance(tgt, ast.Name):
            if isinstance(value, ast.Subscript) and is_self_attr(value.value) and "self." + value.value.attr in STORES:
                return self.lookup("self." + value.value.attr, value.slice, env,
                                   lambda e, v: self.stmts(rest, self.bind_local(tgt.id, v, e), k), remove=False)
            if self.is_effect(value):
                def cont(e, v):
                    if v is None:
                        raise Untranslatable(f"{text}: the call has no modelled result")
                    return self.stmts(rest, self.bind_local(tgt.id, v, e), k)
                return self.effect(value, env, cont)
            v = self.expr(value, env)
            if v.none:
                return self.stmts(rest, self.bind_local(tgt.id, v, env), k)
            if v.ty in MSG_READ:
                raise Untranslatable(f"{text}: second name for a message object (aliasing is not tracked)")
            env = self.bind_local(tgt.id, v, env)
            nm = self.fresh(tgt.id.lstrip("_"), env)
            env[tgt.id] = Val(nm, v.ty)
            return f"let {nm} := {v.text} in\n" + self.stmts(rest, env, k)
        # ---- self._x = ...
        if is_self_attr(tgt):
            key = "self." + tgt.attr
            if key not in self.state_keys:
                raise Untranslatable(f"assignment to self.{tgt.attr}")
            cur = self.need(env, key, text)
            if key in STORES:
                if not (isinstance(value, ast.Call) and ast.unparse(value) == "collections.OrderedDict()"):
                    raise Untranslatable(text)
                if any(st == key for st, _ in env["#link"].values()):
                    raise Untranslatable(f"{text} while a variable aliases an object of the store")
                vt = "[]"
            else:
                vt = self.zexpr(value, env)
            env = dict(env)
            nm = self.fresh(STATE_INFO_REV[key], env)
            env[key] = Val(nm, cur.ty)
            return f"let {nm} := {vt} in\n" + self.stmts(rest, env, k)
        # ---- self._out_messages[x.mid] = x
        if isinstance(tgt, ast.Subscript) and is_self_attr(tgt.value) and "self." + tgt.value.attr in STORES:
            store = "self." + tgt.value.attr
            elty, _, _, _, setter, midf = STORES[store]
            if not (isinstance(value, ast.Name) and value.id in env and env[value.id].ty == elty and not env[value.id].none):
                raise Untranslatable(f"{text}: stored value is not a message variable")
            if ast.unparse(tgt.slice) != f"{value.id}.mid":
                raise Untranslatable(f"{text}: key is not the message's own mid")
            st = self.need(env, store, text)
            key = f"({midf} {env[value.id].text})"
            env = dict(env)
            nm = self.fresh(STATE_INFO_REV[store], env)
            env[store] = Val(nm, st.ty)
            link = dict(env["#link"])
            if any(st_ == store for v_, (st_, _) in link.items() if v_ != value.id):
                raise Untranslatable(f"{text}: a second variable would alias an object of {store}")
            link[value.id] = (store, key)
            env["#link"] = link
            return f"let {nm} := {setter} {key} {env[value.id].text} {st.text} in\n" + self.stmts(rest, env, k)
        # ---- x.attr = ... / x.info.rc = ...
        if isinstance(tgt, ast.Attribute):
            if tgt.attr == "rc" and isinstance(tgt.value, ast.Attribute) and tgt.value.attr == "info" \
                    and isinstance(tgt.value.value, ast.Name) and tgt.value.value.id in env:
                v = self.zexpr(value, env)
                key = ast.unparse(tgt)
                env = dict(env)
                nm = self.fresh("info_rc", env)
                env[key] = Val(nm, "Z")
                return f"let {nm} := {v} in\n" + self.stmts(rest, env, k)
            if isinstance(tgt.value, ast.Name) and tgt.value.id in env and env[tgt.value.id].ty in MSG_READ:
                var = tgt.value.id
                cur = env[var]
                if cur.none:
                    raise Untranslatable(f"{text}: attribute assignment on None")
                if tgt.attr in IGNORED_ATTRS[cur.ty]:
                    self.ignore(f"{var}.{tgt.attr} = ...", IGNORED_ATTRS[cur.ty][tgt.attr])
                    return self.stmts(rest, env, k)
                if var in self.binder_keys:
                    raise Untranslatable(f"{text}: attribute assignment on a binder")
                if tgt.attr == "state" and cur.ty == "omsg":
                    if not (isinstance(value, ast.Name) and value.id in STATE_CTORS):
                        raise Untranslatable(f"{text}: not one of the model's message states")
                    self.consts.lookup(value)
                    new = f"set_st {cur.text} {STATE_CTORS[value.id]}"
                elif tgt.attr in MSG_WRITE[cur.ty]:
                    setter, ty = MSG_WRITE[cur.ty][tgt.attr]
                    v = self.expr(value, env)
                    if v.ty != ty:
                        raise Untranslatable(f"{text}: value of type {v.ty}")
                    new = f"{setter} {cur.text} {v.text}"
                else:
                    raise Untranslatable(f"assignment to attribute {tgt.attr}: {text}")
                env = dict(env)
                nm = self.fresh(var, env)
                env[var] = Val(nm, cur.ty)
                env, wb = self.write_back(var, env)
                return f"let {nm} := {new} in\n{wb}" + self.stmts(rest, env, k)
        raise Untranslatable(f"assignment {text[:80]}")

    # ---------------------------------------------------------------- loops
    def for_loop(self, s, rest, env, k):
        it = s.iter
        if not (isinstance(s.target, ast.Name) and isinstance(it, ast.Call) and not it.args and not it.keywords
                and isinstance(it.func, ast.Attribute) and it.func.attr == "values" and is_self_attr(it.func.value)
                and "self." + it.func.value.attr in STORES) or s.orelse:
            raise Untranslatable(f"loop header `for {ast.unparse(s.target)} in {ast.unparse(it)}`")
        if self.loop is not None:
            raise Untranslatable("nested loop")
        store = "self." + it.func.value.attr
        elty = STORES[store][0]
        lst = self.need(env, store, "loop")
        if env["#link"]:
            raise Untranslatable("loop while a variable aliases a stored object")
        var = s.target.id
        if var in env or var in ("r", "st", "ret", "l"):
            raise Untranslatable(f"loop variable {var} shadows another name")
        assigned = set()
        for n in ast.walk(s):
            if isinstance(n, (ast.Assign, ast.AugAssign)):
                for t in (n.targets if isinstance(n, ast.Assign) else [n.target]):
                    if isinstance(t, ast.Name):
                        assigned.add(t.id)
                    elif isinstance(t, ast.Attribute) and ast.unparse(t) in env:
                        assigned.add(ast.unparse(t))
        locals_ = [key for key in env if not key.startswith("#") and not key.startswith("self.")
                   and key not in self.binder_keys and not key.startswith("call:")]
        for key in locals_:
            if env[key].none and key in assigned:
                raise Untranslatable(f"None-valued local {key} assigned in a loop")
        carried = [key for key in self.state_keys if key != store] + \
                  [key for key in locals_ if key in assigned and not env[key].none]
        readonly = [key for key in locals_ if key not in assigned and not env[key].none]
        lname = f"{self.name}_loop{len(self.loops) + 1}"

        def formal(key):
            return (STATE_INFO_REV.get(key) or key.replace(".", "_").lstrip("_")) + "_i"

        env_in = {"#n": {}, "#link": {}, "#iter": store}
        for key in env:
            if key.startswith("#") and key != "#calls":
                continue
            if key in self.binder_keys or key.startswith("call:"):
                env_in[key] = env[key]
            elif key in carried or key in readonly:
                env_in[key] = Val(formal(key), env[key].ty)
            elif key in locals_ and env[key].none:
                env_in[key] = env[key]
        env_in[store] = lst          # present (so that `need` reports "being iterated"), but flagged by #iter
        env_in[var] = Val(var, elty)
        for f_ in [formal(key) for key in carried + readonly] + [var]:
            if f_ in self.coq_names:
                raise Untranslatable(f"name clash on {f_}")
        pass_ro = [c for c, _, _ in self.params]

        def call(e):
            args = pass_ro + [e[key].text for key in readonly] + [e[key].text for key in carried]
            return (f"let '(r, st, ret) := {lname} {' '.join(args)} l' in ({e[var].text} :: r, st, ret)")

        self.loop = Loop(lname, var, carried, call)
        try:
            body = self.stmts(list(s.body), env_in, call)
        finally:
            self.loop = None
        binders = [f"({c} : {COQ_TY[t]})" for c, t, _ in self.params]
        binders += [f"({formal(key)} : {COQ_TY[env[key].ty]})" for key in readonly + carried]
        ctype = tuple_type([COQ_TY[env[key].ty] for key in carried])
        self.loops.append(
            f"Fixpoint {lname} {' '.join(binders)} (l : list {elty}) {{struct l}}\n"
            f"  : list {elty} * {ctype} * option ({self.rtype()}) :=\n"
            f"  match l with\n  | [] => ([], {tuple_text([formal(key) for key in carried])}, None)\n"
            f"  | {var} :: l' =>\n{body}\n  end.\n\n")
        # ---- the call site
        env2 = dict(env)
        ln = self.fresh(STATE_INFO_REV[store], env2)
        env2[store] = Val(ln, lst.ty)
        outs = []
        for key in carried:
            nm = self.fresh(STATE_INFO_REV.get(key) or key.replace(".", "_").lstrip("_"), env2)
            env2[key] = Val(nm, env[key].ty)
            outs.append(nm)
        rn, vn = self.fresh("ret", env2), self.fresh("res", env2)
        args = pass_ro + [env[key].text for key in readonly] + [env[key].text for key in carried] + [lst.text]
        pat = tuple_text(outs) if outs else "_"
        return (f"let '({ln}, {pat}, {rn}) := {lname} {' '.join(args)} in\n"
                f"match {rn} with\n| Some {vn} => {self.result(env2, vn)}\n| None =>\n"
                + self.stmts(rest, env2, k) + "\nend")

    # ---------------------------------------------------------------- whole fragment
    def translate(self, body):
        self.pure_calls = {key for _, _, key in self.params if key.startswith("call:")}
        env = self.init_env()

        def k_end(e):
            if self.ret != "unit":
                raise Untranslatable("a path falls off the end without a return value")
            return self.result(e, "Ok tt")

        text = self.stmts(list(body), env, k_end)
        return "".join(self.loops) + f"Definition {self.name} {self.binders_text()}\n  : {self.ftype()} :=\n{text}.\n"

    def fallback(self):
        parts = [DEFAULT[STATE_INFO[s][1]] for s in self.state] + ["Raise (-1)"]
        return (f"Definition {self.name} {self.binders_text()}\n  : {self.ftype()} :=\n"
                f"  {tuple_text(parts)}.   (* untranslatable: no bridge lemma can match this *)\n")


STATE_INFO_REV = {v[0]: k for k, v in STATE_INFO.items()}


def env_without_pending(env):
    if "#pending" not in env["#link"]:
        return env
    env = dict(env)
    link = dict(env["#link"])
    link.pop("#pending")
    env["#link"] = link
    return env
