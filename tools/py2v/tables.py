"""Data tables of the MQTT 5 codec, read from /repo's current source and emitted as Coq lists."""
def generate(repo):
    return []
