#!/bin/sh
# usage: tools/goal.sh theories/X/Y.v LINE  -> prints the proof state after LINE (debug helper)
cd /verif/coq
mkdir -p /tmp/goal
head -n "$2" "$1" > /tmp/goal/G.v
printf '\nShow.\n' >> /tmp/goal/G.v
timeout 300 coqc -Q theories PahoV /tmp/goal/G.v 2>&1 | grep -v "^File\|Error: There are pending\|^$" | head -${3:-60}
rm -f /tmp/goal/G.vo /tmp/goal/G.glob /tmp/goal/.G.aux
