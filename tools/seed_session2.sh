#!/bin/sh
# usage: tools/seed_session2.sh [patch.diff]     (default: seeded/S-C01-1/patch.diff)
# Applies a seeded change to a scratch copy of /repo/src (never to /repo) and runs the Session2 correspondence and the
# extracted Session2 checkers (harness/session2.py, quick tier) against that copy.  If the patch no longer applies because
# the surrounding lines of reconnect() have changed, the equivalent edit of S-C01-1 is made instead (the `pkt["qos"] == 0`
# condition of the loop that marks queued packets as lost is removed).
PATCH="$(readlink -f "${1:-/verif/seeded/S-C01-1/patch.diff}")"
D=$(mktemp -d /tmp/seed2.XXXXXX)
trap 'rm -rf "$D"' EXIT
mkdir -p "$D/w" && cp -r /repo/src "$D/w/src" && cd "$D/w" && git init -q . || exit 2
if git apply "$PATCH" 2>/dev/null; then echo "[seed_session2] patch applied"
else
  echo "[seed_session2] patch does not apply to the current tree; making the equivalent edit of S-C01-1"
  /venv/bin/python - <<'PY' || exit 2
p = "src/paho/mqtt/client.py"
s = open(p).read()
a = 'if pkt["command"] & 0xF0 == PUBLISH and pkt["qos"] == 0 and pkt["info"] is not None:'
assert s.count(a) == 1, "the loop of reconnect() was not found"
open(p, "w").write(s.replace(a, 'if pkt["command"] & 0xF0 == PUBLISH and pkt["info"] is not None:'))
PY
fi
cd /verif
PYTHONPATH="$D/w/src:/verif" PYTHONHASHSEED=0 /venv/bin/python -B - <<'PY'
import sys, time
sys.path.insert(0, "/verif")
import paho.mqtt.client as mqtt
print("paho from", mqtt.__file__)
from vlib.main import Ctx, Outcome
from harness import session2 as S
name, cfg, ops = [x for x in S.corpus_cases() if x[0] == "S-C01-1"][0]
ir = S.run_impl(cfg, ops)
(mr, conf), = S.run_model_batch([(cfg, ops)])
d = S.first_diff(ir, mr, False)
print("corpus scenario S-C01-1: conforming =", conf, "| model/implementation differ at op", None if d is None else d["op_index"])
print("extracted checkers on the implementation trace:", S.check_traces([(cfg, [e for e, _ in ir])])[0])
ctx, out = Ctx("S2", "quick", 1), Outcome()
t0 = time.time()
S.standard_run(ctx, out, S.PROPS, "S2", conforming=True)
by = {}
for v in out.violations:
    by[v["checker"]] = by.get(v["checker"], 0) + 1
print("cases", out.cases, "| disagreements", len(out.disagreements), "| checker violations", by, "| %.0f s" % (time.time() - t0))
PY
