#!/bin/sh
# Runs every check registered in MANIFEST.json (tier from $1, default quick) on the current /repo,
# prints one line per property and validates manifest + evidence against the schemas.
TIER="${1:-quick}"
cd /verif
for p in $(python3 -c "import json; print(' '.join(c['property_id'] for c in json.load(open('MANIFEST.json'))['checks']))"); do
  s=$(date +%s)
  out=$(./check "$p" --tier "$TIER" 2>&1); rc=$?
  e=$(date +%s)
  echo "$p rc=$rc $((e-s))s :: $(echo "$out" | grep -E '^\[' | head -1)"
  echo "$out" | grep -E "VIOLATION|KNOWN-FINDING|broken:|harness error" | cut -c1-300 | head -6
done
python3-vt - <<'PY'
import json, jsonschema, os
m = json.load(open('/verif/MANIFEST.json'))
jsonschema.validate(m, json.load(open('/root/.vp/MANIFEST.schema.json')))
es = json.load(open('/root/.vp/EVIDENCE.schema.json'))
bad = 0
for c in m['checks']:
    f = c['evidence_file']
    try:
        ev = json.load(open(f)); jsonschema.validate(ev, es)
        cov = ev['coverage']
        if cov.get('obligations') != cov.get('discharged'):
            print('NOT ALL DISCHARGED', f, cov.get('obligations'), cov.get('discharged')); bad += 1
    except Exception as e:
        print('INVALID', f, str(e)[:200]); bad += 1
ids = {c['property_id'] for c in m['checks']} | {n['property_id'] for n in m.get('not_applicable', [])}
print('manifest valid; evidence problems:', bad, '; properties accounted for:', len(ids))
PY
