#!/usr/bin/env python3
"""Writes /verif/MANIFEST.json from the table below (kept in one place so it stays valid)."""
import json, os
ROOT = os.path.dirname(os.path.dirname(os.path.abspath(__file__)))

SESSION_NOTE = ("Trusted: Coq kernel, extraction+driver and harness for the correspondence. Two session models: M2 (Session/) assumes whole-packet "
                "never-blocking I/O; M2' (Session2/) adds the client's output queue, a transport that accepts writes, refuses them (BlockingIOError) or FAILS HARD "
                "(OSError: the connection is torn down inside the write, publish() takes its message out of the window again, the CONNACK retransmission loop stops), "
                "and reconnect() dropping the queue (events distinguish handed-over from written packets). On M2' every statement (C01, C02, C03, C12 window/handed/queue, "
                "C13 handed/written, the queue discipline, the structural invariant) is proved for EVERY conforming history, hard write failures included "
                "(Session2/Fail.v characterises the operations on a dead socket through the two-mode operations, Full.v lifts the per-operation lemmas). Both models assume a "
                "protocol-conforming broker (Model.conforming: acknowledgements only for written packets), callbacks on_publish/on_connect that do not raise, and "
                "top-level (not nested) API calls; partial writes are C06's subject.")
SESSION_TECH = "Coq proof: relational invariant between an executable session model and a trace checker, by induction over all operation histories; model validated by differential execution against the real client"

CLAIMED = {
 "C01": dict(
    text="Proof: for every configuration and every broker-conforming operation history (publishes while connected/offline/before CONNACK, acks in any order, stale/duplicate acks, connection failures anywhere incl. before CONNACK and repeatedly) the trace of the session model M2 satisfies c01_ok: owned until the final ack, completion (on_publish + published) exactly once and only in the operation processing that ack, and after every operation on an established connection every owned message was written on it or the window is full. M2 is tied to client.py by per-operation differential execution (events + internal state).",
    ref="4.1", technique=SESSION_TECH, note=SESSION_NOTE),
 "C02": dict(
    text="Proof: for every conforming history, persistent session (also MQTT 5 FIRST_ONLY), no PUBLISH is written for a message past PUBREC, PUBREL is resent in the operation of every accepting CONNACK, DUP=1 iff the message's PUBLISH was written before, QoS 0 never DUP (checker c02_ok over the model trace).",
    ref="4.2", technique=SESSION_TECH, note=SESSION_NOTE),
 "C03": dict(
    text="Proof: for ARBITRARY histories (no conformance hypothesis) and every configuration (manual ack, clean/persistent, raising callbacks, suppress_exceptions) the inbound-visible events of the model equal, operation by operation, the output of the abstract receiver spec_recv (state: map of half-received QoS 2 ids): exactly-once delivery at PUBREL, PUBREC/PUBCOMP always answered, PUBACK after the callback and never when its exception propagates, manual ack, clean session forgets / persistent keeps.",
    ref="4.3", technique="Coq proof: refinement of the session model to an abstract receiver over all histories; differential execution against the real client",
    note=SESSION_NOTE),
 "C12": dict(
    text="Proof: for every conforming history and every window/queue size the model trace satisfies c12_window_ok (written-and-unacknowledged QoS>0 messages on the current connection never exceed max_inflight) and c12_queue_ok (MQTT_ERR_QUEUE_SIZE exactly when max_queued messages are stored, nothing stored or sent); state theorem: on an established connection no message is queued while a slot is free. FIFO release is C13.",
    ref="4.12", technique=SESSION_TECH, note=SESSION_NOTE),
 "C13": dict(
    text="Proof: for every conforming history, on each connection the first transmissions of messages accepted earlier occur in publish() order and so do the first PUBLISHes of messages accepted while it is open (checker c13_ok over the model trace); completeness of retransmission is C01.",
    ref="4.13", technique=SESSION_TECH, note=SESSION_NOTE),
 "C14": dict(
    text="Proof: Coq theorems about mid_next (range, wrap 65535->1, closed form over any number of wraps, "
         "pairwise distinctness of 65535 consecutive allocations), with the source's _mid_generate translated on every run "
         "and proved equal to the model (bridge lemma); session-level invariant: live messages never share an id, a publish whose fresh id is in use is refused and changes nothing; correspondence run against the real client.",
    ref="4.14", technique="Coq proof (induction + lia) over a model translated from the source on every run; differential correspondence",
    note="Trusted: Coq kernel, py2v translator, harness. Thread-level exclusion (C14.3) rests on threading.Lock semantics; the threaded run is a test."),
 "C20": dict(
    text="Proof: the helper callback programs of publish.py/subscribe.py are modelled statement by statement over userdata; for message lists and inbound sequences of any length: under the client's interface guarantees (one on_publish per accepted publish - C01/C06; one on_message per delivery in order - C03/C15) multiple()/single() issue exactly the given publishes in list order then one disconnect; for ARBITRARY callback sequences the published messages are a prefix of the list, none twice, disconnect only after all; simple() returns firstn msg_count of the messages passing the retained filter (single object iff msg_count = 1), disconnects exactly at the msg_count-th, ignores the rest; callback() hands every message to the user callback once in order. The real helpers are run end to end (tcp and websockets, MQTT 3.1.1 and 5) against an in-memory conforming broker and compared with the extracted model.",
    ref="4.20", technique="Coq proof over a statement-level model of the helper callbacks (induction over lists); end-to-end differential execution of the real helpers",
    note="Trusted: Coq kernel, extraction+driver, harness incl. the in-memory broker. The theorems assume the client-level guarantees cited (C01, C03, C06, C09/C10, C15), which are other properties of this set; TLS/proxy options are passed through only."),
 "C04": dict(
    text="Proof: executable encoders of every packet the client emits (CONNECT, PUBLISH, acks, PING, DISCONNECT, SUBSCRIBE, UNSUBSCRIBE; MQTT 3.1/3.1.1/5; bridge mode) and an independent strict decoder written from the OASIS texts: spec_decode v (wire v args ++ rest) = Some (packet_of v args, rest) for every representable argument record (all byte strings and list lengths), remaining length round trip/minimality for ALL n in 0..268435455 by arithmetic, unrepresentable inputs raise with nothing queued, clean-flag theorems over arbitrary connect/reconnect/CONNACK histories. _pack_remaining_length, the PUBLISH flag byte and the connect_flags statements are regenerated from the source on every run (bridge lemmas). Full statement holds except for the open finding F-C04b (U+0000 in strings), excluded explicitly.",
    ref="4.4", technique="Coq proof: encode/spec-decode round trip for all inputs, arithmetic over all lengths; leaf functions translated from the source each run; byte-for-byte differential execution",
    note="Trusted: Coq kernel, py2v translator, extraction+driver, harness; Python's str.encode('utf-8') and str(int/float); v5 property blocks are opaque here (C17). Known finding F-C04b excluded."),
 "C05": dict(
    text="Proof: the resumable reader (_packet_read/loop_read) refines a byte-at-a-time automaton for EVERY recv schedule (chunk sizes, would-block, EOF, error at any offset), hence the frame sequence, protocol error and residual state are independent of fragmentation; framing round trip for all bodies <= 268435455; the values handed to callbacks equal the encoded ones for every inbound packet type, MQTT 3.1/3.1.1/5, callback API 1 and 2 (v2 is the documented lift of v1); the WebSocket reader delivers exactly the concatenated data payloads for every frame sequence and socket schedule.",
    ref="4.5", technique="Coq proof: refinement of the chunked reader to a byte automaton for all schedules; round trip against an independent encoder; differential execution incl. exhaustive recv schedules",
    note="Trusted: Coq kernel, extraction+driver, harness. Property blocks opaque and reason codes as byte values (C17); session effects of handlers are C01-C03's model; recv(n) returns 1..min(n, available) bytes or raises."),
 "C11": dict(
    text="Proof: topic_matches_sub equals the MQTT 4.7 specification spec_match for all valid filters and topics (any depth, any bytes); the trie refines a key-unique finite map under any sequence of set/overwrite/delete/get (well-formedness preserved, get = lookup, delete of an unstored key leaves the structure identical), and iter_match yields exactly the values of the stored filters that spec-match, each once.",
    ref="4.11", technique="Coq proof: equivalence with a specification matcher and refinement of the trie to a finite map (nested induction); exhaustive small-scope and random differential execution",
    note="Trusted: Coq kernel, extraction+driver, harness; str.split('/') agrees with byte-level splitting at 0x2F. matcher.py is tied by correspondence only."),
 "C15": dict(
    text="Proof: for every history of message_callback_add/replace/remove (also from inside running callbacks, snapshot semantics) and every delivered message with a valid topic name, handlers that raise included (with suppress_exceptions set, or when no invoked handler raises), the callbacks run are exactly the registered ones whose filter spec-matches, each once; on_message runs iff none matches; an undecodable topic runs on_message only (checker c15_ok, extracted and applied to logs of the real client). Without suppress_exceptions a raising handler propagates and cuts the dispatch short (stated and proved as such).",
    ref="4.15", technique="Coq proof: corollary of the trie refinement plus a dispatch lemma over all histories; differential execution through the real loop_read at QoS 0/1/2",
    note="Trusted as C11. Topic names containing wildcard levels (invalid per MQTT-3.3.2-2) are outside the statement; witnessed double dispatch recorded."),
 "C18": dict(
    text="Proof: the lock/call graph of Client (every `with self._lock`, try-lock guard, method call, user-callback site; lock kinds from __init__) is regenerated from client.py on every run by a fail-closed translator; a verified decision procedure (closed-set soundness theorem proved once for every program) applied to it by vm_compute shows that no execution of any length or callback->API->callback nesting depth re-acquires a held plain lock: publish/subscribe/unsubscribe/disconnect/reconnect/message_callback_add/remove/loop_stop (and connect/connect_async) called from inside any of the 14 callback kinds never self-deadlock, with all socket callbacks installed. Statement 3 (the packet is written by the enclosing or next loop iteration) is proved on a small model of _packet_queue's guard and checked on the implementation for the full product callback x API x loop variant x socket callbacks x version. Open findings F-C18d (reconnect inside on_disconnect: new socket closed) and F-C18e (loop_stop from an application-thread callback) are outside the one-thread lock model and reported as known findings.",
    ref="4.18", technique="Coq: verified reachability checker applied by vm_compute to a lock/call graph translated from the source on every run; instrumented-lock conversations on the real client",
    note="Trusted: Coq kernel, the lockgraph translator (fail closed; cross-checked against observed lock sets), harness. One-thread model: Thread.join in loop_stop is exact only on the loop thread; control flow over-approximated; threading.Lock/RLock semantics."),
 "C19": dict(
    text="Proof: the filter predicate of subscribe() accepts exactly the MQTT 4.7 grammar for EVERY byte string (equivalence with an independent specification predicate, induction over the '/'-split); publish() raises ValueError/TypeError exactly for the listed argument classes (whole-packet size limit included); subscribe()/unsubscribe() argument normalisation raises iff the call is not one of the documented forms, both directions; `_raise_for_invalid_topic` and `_filter_wildcard_len_check` are regenerated from the source on every run and bridged to the model. Atomicity of rejection is checked on the implementation (state snapshot before/after every rejected call over the exhaustive string space) - in the code all validation precedes any state change.",
    ref="4.19", technique="Coq proof: predicate equivalence over all byte strings; leaf predicates translated from the source each run; exhaustive-string differential execution with state snapshots",
    note="Trusted: Coq kernel, py2v translator, extraction+driver, harness; the reading of the docstring as the documented contract (stated in corpus/C19/REPORT.md); str.encode('utf-8')."),
 "C17": dict(
    text="Proof: variable-byte integers for all values (round trip, minimality, rejection) by arithmetic; the property and reason-code tables regenerated from the source on every run equal the hand-transcribed MQTT 5.0 tables on their whole finite domains (vm_compute lifted by forallb_forall); pack = the specification's encoding and unpack(pack ps ++ rest) = (ps, length) for every valid property set of any length, repeatable properties in order; not-allowed, unknown and out-of-range properties raise; reason codes construct/pack/unpack exactly for the specified (packet type, value) pairs; subscribe options exhaustively. Open findings F-C17f/g/h are excluded explicitly.",
    ref="4.17", technique="Coq proof: finite-domain decision for the generated tables, arithmetic for VBI, round trip for all property lists; tables and codec leaves translated from the source each run; differential execution",
    note="Trusted: Coq kernel (incl. vm_compute), py2v table generator and leaf translator, extraction+driver, harness; the transcription of the OASIS tables (from memory, no network); CPython's UTF-8 codec and struct."),
 "C07": dict(
    text="Proof, PARTIAL by nature: theorems about an interleaving model (one atomic shared access per step: lock acquire/release, one attribute load/store, one deque operation, one pipe send/recv, one send()) for EVERY schedule, any number of publisher threads and messages: packet ids handed to different (thread, message) pairs are distinct (mutual exclusion on the id lock; also C14's thread clause); wire ++ in-hand ++ queue is always an order-preserving interleaving of the publishers' packets, each exactly once when drained; no lost wake-up (a queued packet is written without consuming a select() timeout); CONNECT is the first packet on every connection for every schedule of reconnect vs publishers; the loop thread has no failing step; no packet is dropped unmarked; deadlock freedom from an acyclic held-while-acquiring relation, instantiated on the lock graph generated from client.py. What the model cannot exhibit - CPython's real preemption inside C-level operations (GIL atomicity of single container operations is assumed), loop_stop()/info.rc/_inflight_messages races - is explored on the real code by a controlled scheduler (sys.monitoring line/instruction switching points, cooperative locks, fake select/pipe): exhaustive up to a preemption bound and seeded random/PCT schedules, every run replayable. Open finding F-C07f.",
    ref="4.7", technique="Coq proof over an interleaving model for all schedules + controlled-scheduler exploration of the real client (exploration validates the model and searches failing schedules; it is not part of the proof)",
    note="Trusted/assumed: Coq kernel; GIL atomicity of one deque operation / attribute access / pipe operation; whole-packet writes (C06); the lock-graph translator; the scheduler harness. The exploration part is bounded (preemption bound 2-3) and labelled as exploration in the evidence."),
 "C10": dict(
    text="Proof: executable model of the connection state machine (state, socket, write registration, output queue, in-callback flag, CONNECT-queued flag) with nested API calls of any depth inside every callback; for all operation lists (API calls, every inbound packet kind incl. refused CONNACK / v5 DISCONNECT / unknown packets, read and write failures, partial and blocked writes, keepalive expiry, reconnects), all callback configurations and protocol versions: is_connected() implies an open socket on which an accepting CONNACK was processed; every connection end that is not a replacement has exactly one on_disconnect, with client-generated result success iff disconnect() was called; per socket the first packet is CONNECT, exactly one CONNECT, nothing after DISCONNECT. Hypotheses are syntactic exclusions matching the open findings F-C10h/i/k (connection calls from the socket teardown/open callbacks); the full statements are refuted by witnesses.",
    ref="4.10", technique="Coq proof: invariants of a connection-state model over all operation lists with nested callback scripts; extracted trace checkers as oracle; differential execution (events + state after every operation)",
    note="Trusted: Coq kernel, extraction+driver, harness. Callbacks do not raise; no background thread (C07); keepalive expiry is an input (C08 owns timing); partial write abstracted to 'all but the last byte' (C06 owns byte-level writes). loop_read() calls that process several packets (stored messages raise max_packets) are operations of the model too (TLoopReadN: one input per packet, the socket snapshot taken per iteration; lemma loop_read_raw ties the continue-test to what loop_read sees); multi_packet_oracle additionally judges such calls with really stored QoS 1 messages on the implementation alone."),
 "C16": dict(
    text="Proof on the same connection model, socket callbacks installed: on_socket_open/close strictly alternate with the same socket object on every error path; register/unregister-write alternate and lie inside that socket's open/close; whenever an operation returns with an open socket and unsent data a write registration is outstanding (external-loop mode). For all operation lists and nested scripts except reconnect() from the socket teardown callbacks (open finding F-C16a; full statements refuted by witness).",
    ref="4.16", technique="Coq proof: alternation/nesting invariants over all operation lists with nested callback scripts; extracted checkers; differential execution",
    note="As C10. The no-lost-wake-up clause in direct-write mode is covered by the correspondence only (the registration flag is internal there)."),
 "C06": dict(
    text="Proof: model of _packet_write/_packet_queue/loop_write over arbitrary send schedules (accept any k incl. 0, would-block, OSError, ValueError at any point) and arbitrary interleavings of enqueue and write operations, unbounded sizes: the bytes accepted by the transport ++ the unsent remainder = the concatenation of the queued packets in queue order (CONNECT first) - nothing lost, duplicated or reordered; nothing is offered before CONNECT is queued; a QoS 0 publish is reported (on_publish, published) exactly once and only when its last byte was accepted; unsent data implies want_write() and a requested write registration; the write loop terminates. The same statements over WebSockets for the de-framed payload of the raw bytes (generic over a transport specification, instantiated for the raw socket and for _send_impl), and every completed frame is well-formed (FIN, opcode 2, mask bit, 4-byte key, minimal length form). Plus, on the session model with the output queue, the queue is FIFO for arbitrary histories.",
    ref="4.6", technique="Coq proof: stream invariant over all send schedules and enqueue/write interleavings, generic in the transport; differential execution with exhaustive small send schedules on the real client and the real _WebsocketWrapper",
    note="Trusted: Coq kernel, extraction+driver, harness (os.urandom proxied so the model gets the same mask keys; only _do_handshake overridden). Hypotheses: at most one CONNECT per connection; fewer than 2^63 bytes per WebSocket connection. Tie by correspondence only. Control frames (PONG/CLOSE replies written from inside recv()) are modelled in Link/WsControl.v together with _send_impl on the one send buffer: for every call sequence the accepted bytes ++ buffer are the frames created, in order, and the flushed stream parses back to exactly those frames, all masked (defect F-C06c/d, repaired); tied by correspondence on call sequences plus a scenario oracle on the implementation."),
 "C08": dict(
    text="Proof: timed model (integer virtual time; every comparison in the code is now - t >= K) of _check_keepalive/loop_misc/_send_pingreq/_handle_pingresp and the timestamp updates, for all K > 0, d >= 0 and all op lists serviced within d: while connected now - t_last_tx <= K + d (strictly less); an unanswered PINGREQ leads within K + d to a closed socket, exactly one on_disconnect(KEEPALIVE), a non-zero loop result and is_connected() false; every keepalive close is justified by an unanswered PINGREQ/CONNECT older than K (no close from silence, traffic or gaps alone); with answers arriving by K - d and no inbound backlog carried across a clock advance the client never closes on its own; K = 0: never pings, never times out. The two timeout tests are cut from the source on every run and bridged. Literal 'answered within K' clause refuted by a benign witness (tolerance <= d); open finding F-C08a (backlog) excluded explicitly.",
    ref="4.8", technique="Coq proof: timed invariants closed by lia over all op lists; timeout conditions translated from the source each run; differential execution under a virtual clock",
    note="Trusted: Coq kernel, py2v translator, extraction+driver, harness with virtual clock (integer advances so float comparison is exact). disconnect() states and the WebSocket zero-length-write refresh are not modelled."),
 "C09": dict(
    text="Proof: small-step model of loop_forever (first-connection loop with retry_first_connection, inner loop, should_exit, _reconnect_wait with early exit, reconnect with OSError handling, CONNACK reset, downgrade retry) driven by an arbitrary script of attempt outcomes and an application action at any callback or sleep chunk: the j-th wait since the last accepted CONNACK chooses min(min*2^j, max), never below min; loop_forever ends only because the script ended, the application acted, reconnect_on_failure is off, or with the documented OSError of a refused first attempt without retry_first; after disconnect()/stop or the first loss with reconnect_on_failure off no further attempt is made and the machine is Done within 8*|script|+9 steps. The delay update is generated from the source and bridged. The literal gap statement (a failure or loss noticed at tf is followed by the next attempt exactly at tf + min(min*2^i, max), i = retries since the last accepted CONNACK; the downgrade retry immediate and uncounted; hence never sooner than min_delay) is proved for every configuration, script, start time and application action (three-phase invariant carried together with the finality invariant); it is also evaluated by vm_compute on all scripts up to length 4 and compared on the real loop_forever in every run.",
    ref="4.9", technique="Coq proof: closed form of the delay sequence, finality and termination over all attempt scripts; delay update translated from the source; the real loop_forever run under a virtual clock and scripted socket factory",
    note="Trusted: Coq kernel, py2v translator, extraction+driver, harness (time.sleep/select/time_func virtual). _reconnect_wait's sleep loop is summarised in one-second chunks; loop_forever's control flow is hand-modelled and tied by correspondence."),
}
PENDING = {}
for i in range(1, 21):
    pid = f"C{i:02d}"
    if pid not in CLAIMED:
        PENDING[pid] = "machinery for this property is not built yet (work in progress; see DESIGN.md section 8)"

def main():
    checks = []
    for pid, d in sorted(CLAIMED.items()):
        checks.append({
            "property_id": pid,
            "quick_cmd": f"./check {pid} --tier quick",
            "thorough_cmd": f"./check {pid} --tier thorough",
            "evidence_file": f"/verif/evidence/{pid}.json",
            "replay_cmd_template": f"./check {pid} --replay {{path}}",
            "engine": "coq-proof+correspondence",
            "level_claimed": {"category": "proof", "text": d["text"], "design_ref": f"DESIGN.md section {d['ref']}"},
            "level_note": d["note"],
            "technique": d["technique"],
        })
    m = {
        "version": 1,
        "setup_cmd": "./setup.sh",
        "hooks": {"guard": "PAHO_MQTT_VERIF", "enable": "no source hooks are needed; checks set PAHO_MQTT_VERIF=1 and PYTHONPATH=/repo/src",
                  "baseline_off_cmd": "cd /repo && /venv/bin/python -m pytest -ra -q -p no:cacheprovider --timeout=900 --continue-on-collection-errors",
                  "source_commits": [], "add_only": True},
        "engines": [{"name": "coq-proof+correspondence", "path": "/verif/check",
                     "serves_properties": sorted(CLAIMED),
                     "kind_free_text": "Coq 8.16.1 theorems about executable Gallina models; models tied to /repo by a py2v translator (Gen/*.v + bridge lemmas) and by differential execution of the extracted model against the real client"}],
        "checks": checks,
        "not_applicable": [{"property_id": p, "reason": r} for p, r in sorted(PENDING.items())],
        "notes": "Known findings: /verif/KNOWN_FINDINGS.txt. Design: /verif/DESIGN.md.",
    }
    json.dump(m, open(os.path.join(ROOT, "MANIFEST.json"), "w"), indent=1)

if __name__ == "__main__":
    main()
