#!/usr/bin/env python3
"""Writes /verif/MANIFEST.json from the table below (kept in one place so it stays valid)."""
import json, os
ROOT = os.path.dirname(os.path.dirname(os.path.abspath(__file__)))

CLAIMED = {
 "C14": dict(
    text="Proof: Coq theorems about mid_next (range, wrap 65535->1, closed form over any number of wraps, "
         "pairwise distinctness of 65535 consecutive allocations), with the source's _mid_generate translated on every run "
         "and proved equal to the model (bridge lemma); Session-level no-share invariant; correspondence run against the real client.",
    ref="4.14", technique="Coq proof (induction + lia) over a translated model; differential correspondence",
    note="Trusted: Coq kernel, py2v translator, harness. Thread-level exclusion (C14.3) rests on threading.Lock semantics; the threaded run is a test."),
}
PENDING = {}
for i in range(1, 21):
    pid = f"C{i:02d}"
    if pid not in CLAIMED:
        PENDING[pid] = "machinery for this property is not built yet (work in progress; see DESIGN.md section 8)"

def main():
    checks = []
    for pid, d in sorted(CLAIMED.items()):
        checks.append({
            "property_id": pid,
            "quick_cmd": f"./check {pid} --tier quick",
            "thorough_cmd": f"./check {pid} --tier thorough",
            "evidence_file": f"/verif/evidence/{pid}.json",
            "replay_cmd_template": f"./check {pid} --replay {{path}}",
            "engine": "coq-proof+correspondence",
            "level_claimed": {"category": "proof", "text": d["text"], "design_ref": f"DESIGN.md section {d['ref']}"},
            "level_note": d["note"],
            "technique": d["technique"],
        })
    m = {
        "version": 1,
        "setup_cmd": "./setup.sh",
        "hooks": {"guard": "PAHO_MQTT_VERIF", "enable": "no source hooks are needed; checks set PAHO_MQTT_VERIF=1 and PYTHONPATH=/repo/src",
                  "baseline_off_cmd": "cd /repo && /venv/bin/python -m pytest -ra -q -p no:cacheprovider --timeout=900 --continue-on-collection-errors",
                  "source_commits": [], "add_only": True},
        "engines": [{"name": "coq-proof+correspondence", "path": "/verif/check",
                     "serves_properties": sorted(CLAIMED),
                     "kind_free_text": "Coq 8.16.1 theorems about executable Gallina models; models tied to /repo by a py2v translator (Gen/*.v + bridge lemmas) and by differential execution of the extracted model against the real client"}],
        "checks": checks,
        "not_applicable": [{"property_id": p, "reason": r} for p, r in sorted(PENDING.items())],
        "notes": "Known findings: /verif/KNOWN_FINDINGS.txt. Design: /verif/DESIGN.md.",
    }
    json.dump(m, open(os.path.join(ROOT, "MANIFEST.json"), "w"), indent=1)

if __name__ == "__main__":
    main()
