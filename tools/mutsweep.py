#!/usr/bin/env python3
"""Mutation sweep (a measurement of the checks' sensitivity, not part of any check): small syntactic changes are
applied one at a time to a scratch copy of /repo/src, the quick checks of the properties anchored in the changed
function run on that copy (harness path: VERIF_SRC, --no-build, evidence redirected), and the mutants no check
objects to are listed.  /repo and the committed evidence are never touched; every scratch copy is removed.

usage: tools/mutsweep.py [--n N] [--seed S] [--jobs J] [--only Cxx,...] [--out FILE]
"""
import argparse, ast, json, os, random, shutil, subprocess, sys, tempfile, concurrent.futures as cf

SRC = "/repo/src"
# function (qualified) -> properties whose checks should notice a semantic change there
TARGETS = {
 "paho/mqtt/client.py": {
  "Client._packet_write": ["C06"], "Client._packet_queue": ["C06", "C10", "C07", "C18"], "Client.loop_write": ["C06", "C16"],
  "Client.loop_read": ["C10", "C05"], "Client.loop_misc": ["C08", "C10"], "Client._check_keepalive": ["C08", "C10"],
  "Client._packet_read": ["C05"], "Client._packet_handle": ["C05", "C10"],
  "Client.reconnect": ["C10", "C16", "C01"], "Client.disconnect": ["C10", "C09"],
  "Client._sock_close": ["C16", "C10"], "Client._loop_rc_handle": ["C10"], "Client._do_on_disconnect": ["C10"],
  "Client._handle_connack": ["C01", "C02", "C10", "C05"], "Client._handle_pubrec": ["C02", "C01", "C05"],
  "Client._handle_pubackcomp": ["C01", "C12", "C05"], "Client._do_on_publish": ["C01", "C12"],
  "Client._update_inflight": ["C12", "C13"], "Client._messages_reconnect_reset_out": ["C01", "C02", "C12"],
  "Client._messages_reconnect_reset_in": ["C03"], "Client._handle_publish": ["C03", "C05"],
  "Client._handle_pubrel": ["C03", "C05"], "Client.ack": ["C03"], "Client.publish": ["C01", "C12", "C19", "C14"],
  "Client._mid_generate": ["C14"], "Client._send_publish": ["C04", "C02"], "Client._send_connect": ["C04"],
  "Client._send_subscribe": ["C04"], "Client._send_unsubscribe": ["C04"], "Client._pack_remaining_length": ["C04"],
  "Client._pack_str16": ["C04"], "Client._send_simple_command": ["C04"], "Client._send_command_with_mid": ["C04", "C03"],
  "Client._reconnect_wait": ["C09"], "Client.loop_forever": ["C09"], "Client._handle_on_message": ["C15", "C03"],
  "Client.message_callback_add": ["C15"], "Client.message_callback_remove": ["C15"],
  "Client.subscribe": ["C19"], "Client.unsubscribe": ["C19"], "Client._handle_suback": ["C05"],
  "Client._handle_pingresp": ["C08"], "Client._send_pingreq": ["C08"], "Client._handle_disconnect": ["C10", "C05"],
  "_WebsocketWrapper._send_impl": ["C06"], "_WebsocketWrapper._create_frame": ["C06"],
  "_WebsocketWrapper._send_control_frame": ["C06"], "_WebsocketWrapper._recv_impl": ["C05"],
  "_WebsocketWrapper._buffered_read": ["C05"],
  "Client._raise_for_invalid_topic": ["C19"], "Client._filter_wildcard_len_check": ["C19"], "topic_matches_sub": ["C11"],
 },
 "paho/mqtt/matcher.py": {"MQTTMatcher.__setitem__": ["C11"], "MQTTMatcher.__getitem__": ["C11"], "MQTTMatcher.__delitem__": ["C11", "C15"],
                          "MQTTMatcher.iter_match": ["C11", "C15"]},
 "paho/mqtt/properties.py": {"Properties.pack": ["C17"], "Properties.unpack": ["C17"], "Properties.__setattr__": ["C17"],
                             "VariableByteIntegers.encode": ["C17"], "VariableByteIntegers.decode": ["C17"],
                             "Properties.writeProperty": ["C17"], "Properties.readProperty": ["C17"]},
 "paho/mqtt/reasoncodes.py": {"ReasonCode.__init__": ["C17"], "ReasonCode.getId": ["C17"], "ReasonCode.set": ["C17"],
                              "ReasonCode.unpack": ["C17"], "ReasonCode.getName": ["C17"], "ReasonCode.__getName__": ["C17"]},
 "paho/mqtt/publish.py": {"_do_publish": ["C20"], "_on_connect": ["C20"], "_on_publish": ["C20"], "multiple": ["C20"]},
 "paho/mqtt/subscribe.py": {"_on_connect": ["C20"], "_on_message_callback": ["C20"], "_on_message_simple": ["C20"],
                            "callback": ["C20"], "simple": ["C20"]},
}
CMP = {ast.Lt: ast.LtE, ast.LtE: ast.Lt, ast.Gt: ast.GtE, ast.GtE: ast.Gt, ast.Eq: ast.NotEq, ast.NotEq: ast.Eq,
       ast.Is: ast.IsNot, ast.IsNot: ast.Is, ast.In: ast.NotIn, ast.NotIn: ast.In}


def functions(tree):
    out = {}
    for n in tree.body:
        if isinstance(n, (ast.FunctionDef,)):
            out[n.name] = n
        elif isinstance(n, ast.ClassDef):
            for m in n.body:
                if isinstance(m, ast.FunctionDef):
                    out[f"{n.name}.{m.name}"] = m
    return out


def is_log(node):
    s = ast.unparse(node)
    return "_easy_log" in s or "logger" in s or "warnings.warn" in s or s.startswith("on_") and "= cast(" in s


def mutants_of(fn, src_lines):
    """yield (description, lineno, col, end_lineno, end_col, replacement) for single-line expression/statement edits"""
    skip = set()
    for node in ast.walk(fn):
        if isinstance(node, ast.Call) and is_log(node):
            for sub in ast.walk(node):
                skip.add(id(sub))
    for node in ast.walk(fn):
        if id(node) in skip:
            continue
        if isinstance(node, (ast.If, ast.While)) and node.test.lineno == node.test.end_lineno:
            t = node.test
            yield ("negate condition", t, f"(not ({ast.unparse(t)}))")
        if isinstance(node, ast.Compare) and len(node.ops) == 1 and type(node.ops[0]) in CMP and node.lineno == node.end_lineno:
            new = ast.Compare(node.left, [CMP[type(node.ops[0])]()], node.comparators)
            yield (f"comparison {type(node.ops[0]).__name__} -> {CMP[type(node.ops[0])].__name__}", node, f"({ast.unparse(new)})")
        if isinstance(node, ast.BoolOp) and node.lineno == node.end_lineno:
            new = ast.BoolOp(ast.Or() if isinstance(node.op, ast.And) else ast.And(), node.values)
            yield ("and <-> or", node, f"({ast.unparse(new)})")
        if isinstance(node, ast.Constant) and isinstance(node.value, bool):
            yield (f"{node.value} -> {not node.value}", node, str(not node.value))
        if isinstance(node, ast.While) and isinstance(node.test, ast.Constant):
            skip.add(id(node.test))
        if isinstance(node, ast.Constant) and isinstance(node.value, int) and not isinstance(node.value, bool) and 0 <= node.value <= 70000:
            yield (f"{node.value} -> {node.value + 1}", node, str(node.value + 1))
        if isinstance(node, (ast.Assign, ast.AugAssign, ast.Expr, ast.Return)) and not is_log(node):
            if isinstance(node, ast.Expr) and isinstance(node.value, ast.Constant):
                continue      # docstring
            if isinstance(node, ast.Return):
                if node.value is None:
                    continue
                txt = ast.unparse(node)
                if txt in ("return MQTTErrorCode.MQTT_ERR_SUCCESS", "return None"):
                    continue
                yield ("return value dropped -> return MQTT_ERR_SUCCESS/None", node, "return None" if "MQTTErrorCode" not in txt else "return MQTTErrorCode.MQTT_ERR_SUCCESS")
            else:
                yield ("statement removed", node, "pass")


def apply(path, node, repl):
    lines = open(path).read().split("\n")
    l0, c0, l1, c1 = node.lineno - 1, node.col_offset, node.end_lineno - 1, node.end_col_offset
    # col offsets are in utf-8 bytes
    b0 = lines[l0].encode()
    b1 = lines[l1].encode()
    new = b0[:c0].decode() + repl + b1[c1:].decode()
    lines[l0:l1 + 1] = [new]
    open(path, "w").write("\n".join(lines))


def run_mutant(job):
    idx, rel, qual, props, desc, node_pos, repl, line_text = job
    d = tempfile.mkdtemp(prefix="mut_", dir="/tmp")
    try:
        shutil.copytree(SRC, os.path.join(d, "src"))
        path = os.path.join(d, "src", rel)

        class N:  # noqa
            pass
        n = N()
        n.lineno, n.col_offset, n.end_lineno, n.end_col_offset = node_pos
        apply(path, n, repl)
        try:
            compile(open(path).read(), path, "exec")
        except SyntaxError as e:
            return dict(idx=idx, file=rel, function=qual, mutation=desc, line=node_pos[0], text=line_text, status="syntax-error", detail=str(e))
        env = dict(os.environ, VERIF_SRC=os.path.join(d, "src"), VERIF_SEARCH_SCALE="1", VERIF_EVIDENCE_DIR=os.path.join(d, "ev"))
        verdicts = {}
        for p in props:
            try:
                r = subprocess.run(["/verif/check", p, "--tier", "quick", "--no-build"], env=env, capture_output=True, text=True, timeout=1500)
                o = r.stdout + r.stderr
                new_v = [l for l in o.split("\n") if l.startswith("VIOLATION")]
                verdicts[p] = "caught" if (r.returncode != 0 or new_v) else "missed"
                if verdicts[p] == "caught":
                    verdicts[p] += (" (no-failing-input)" if any("no-failing-input-found" in l for l in new_v) else "")
                    break
            except subprocess.TimeoutExpired:
                verdicts[p] = "caught (timeout)"
                break
        status = "caught" if any(v.startswith("caught") for v in verdicts.values()) else "SURVIVED"
        return dict(idx=idx, file=rel, function=qual, mutation=desc, line=node_pos[0], text=line_text, repl=repl, status=status, checks=verdicts)
    finally:
        shutil.rmtree(d, ignore_errors=True)


def main():
    ap = argparse.ArgumentParser()
    ap.add_argument("--n", type=int, default=60)
    ap.add_argument("--seed", type=int, default=1)
    ap.add_argument("--jobs", type=int, default=6)
    ap.add_argument("--only", default="")
    ap.add_argument("--out", default="/tmp/mutsweep.jsonl")
    ap.add_argument("--skip", default="", help="comma separated result files of earlier runs: their mutants are not run again")
    a = ap.parse_args()
    only = set(filter(None, a.only.split(",")))
    rng = random.Random(a.seed)
    pool = []
    for rel, fns in TARGETS.items():
        path = os.path.join(SRC, rel)
        text = open(path).read()
        lines = text.split("\n")
        fmap = functions(ast.parse(text))
        for qual, props in fns.items():
            if only and not (only & set(props)):
                continue
            if only:
                props = [p for p in props if p in only]
            fn = fmap.get(qual)
            if fn is None:
                print("missing function", rel, qual, file=sys.stderr)
                continue
            for desc, node, repl in mutants_of(fn, lines):
                pool.append((rel, qual, props, desc, (node.lineno, node.col_offset, node.end_lineno, node.end_col_offset), repl, lines[node.lineno - 1].strip()))
    done = set()
    for fn in filter(None, a.skip.split(",")):
        for l in open(fn):
            r = json.loads(l)
            done.add((r["file"], r["function"], r["line"], r["mutation"]))
    pool = [m for m in pool if (m[0], m[1], m[4][0], m[3]) not in done]
    rng.shuffle(pool)
    jobs = [(i,) + m for i, m in enumerate(pool[:a.n])]
    print(f"{len(pool)} possible mutants, running {len(jobs)} with {a.jobs} workers", file=sys.stderr)
    with open(a.out, "a") as f, cf.ThreadPoolExecutor(a.jobs) as ex:
        for res in ex.map(run_mutant, jobs):
            f.write(json.dumps(res) + "\n")
            f.flush()
            print(res["status"], res["function"], res["line"], res["mutation"], "|", res["text"][:90], "|", res.get("checks"), file=sys.stderr)


if __name__ == "__main__":
    main()
