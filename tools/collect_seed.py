#!/usr/bin/env python3
"""collect_seed.py <worktree> <n> <seed-id> <property> <detected-by> <needs...>
Copies change_<n>.diff / demo_<n>.py of a breaker worktree into /verif/seeded/<seed-id>/ with meta.json."""
import json, os, shutil, sys
wt, n, sid, prop, detected = sys.argv[1:6]
needs = " ".join(sys.argv[6:])
d = os.path.join("/verif/seeded", sid)
os.makedirs(d, exist_ok=True)
shutil.copy(os.path.join(wt, f"change_{n}.diff"), os.path.join(d, "patch.diff"))
shutil.copy(os.path.join(wt, f"demo_{n}.py"), os.path.join(d, "demo.py"))
notes = open(os.path.join(wt, "NOTES.md")).read() if os.path.exists(os.path.join(wt, "NOTES.md")) else ""
open(os.path.join(d, "NOTES.md"), "w").write(notes)
meta = {
    "seed_id": sid, "breaks_property": prop, "needs_to_manifest": needs,
    "origin": "written by an independent sub-agent that saw only the property text and a scratch worktree of /repo",
    "confirmed": "demo.py exits 0 on the unmodified source and 1 with patch.diff applied; existing test suite unaffected apart from the tests that fail in this sandbox on the unmodified tree (4 ssl tests, timing-dependent TestCompatibility callbacks, sporadic fixture-teardown errors under load); confirmed in a scratch worktree (tools: /tmp/verify_seeds.sh)",
    "ran": f"tools/seedtest.sh seeded/{sid}/patch.diff {prop}",
    "detected_by": detected,
}
json.dump(meta, open(os.path.join(d, "meta.json"), "w"), indent=1)
print("collected", sid)
