"""KNOWN_FINDINGS.txt: committed, line-oriented, never written at run time.
  open:  property=<id> sig=<token> replay=<path|-> <what fails>
  fixed: property=<id> <commit> <what failed>"""
import os, re
ROOT = os.path.dirname(os.path.dirname(os.path.abspath(__file__)))


def load(prop):
    out = {"open": [], "fixed": []}
    p = os.path.join(ROOT, "KNOWN_FINDINGS.txt")
    if not os.path.exists(p):
        return out
    for line in open(p):
        line = line.strip()
        if not line or line.startswith("#"):
            continue
        m = re.match(r"open:\s+property=(\S+)\s+sig=(\S+)\s+replay=(\S+)\s+(.*)$", line)
        if m and m.group(1) == prop:
            out["open"].append({"sig": m.group(2), "replay": m.group(3), "text": m.group(4)})
            continue
        m = re.match(r"fixed:\s+property=(\S+)\s+(\S+)\s+(.*)$", line)
        if m and m.group(1) == prop:
            out["fixed"].append({"commit": m.group(2), "text": m.group(3)})
    return out


def matches(violation, open_findings):
    sig = violation.get("signature")
    return sig is not None and any(f["sig"] == sig for f in open_findings)
