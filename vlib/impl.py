"""Implementation side of the correspondence: the real paho client from /repo/src on an
in-memory transport with a virtual clock.  No source hook is needed: `_create_socket` is
replaced on the instance, `time_func` in the module namespace."""
import collections
import warnings

import paho.mqtt.client as mqtt
from paho.mqtt.enums import CallbackAPIVersion

warnings.simplefilter("ignore", DeprecationWarning)


class Clock:
    def __init__(self, t=1000.0):
        self.t = float(t)

    def __call__(self):
        return self.t

    def advance(self, dt):
        self.t += dt


CLOCK = Clock()
mqtt.time_func = CLOCK


class FakeSock:
    """In-memory socket.  `inbuf` holds bytes the broker sent; recv() hands them out following
    `recv_plan` (a list of chunk sizes; 0 = would-block once; exhausted plan = give all asked).
    send() follows `send_plan` (k>0 accept at most k bytes; 0 = BlockingIOError; -1 = OSError;
    exhausted = accept everything)."""
    _ids = 0

    def __init__(self):
        FakeSock._ids += 1
        self.id = FakeSock._ids
        self.inbuf = bytearray()
        self.wire = bytearray()
        self.recv_plan = collections.deque()
        self.send_plan = collections.deque()
        self.eof = False
        self.closed = False
        self.recv_error = False
        self.send_log = []

    def feed(self, data):
        self.inbuf += data

    def recv(self, n):
        if self.closed:
            raise OSError(9, "closed")
        if self.recv_plan:
            k = self.recv_plan.popleft()
            if k == 0:
                raise BlockingIOError()
            if k < 0:
                raise ConnectionResetError()
            n = min(n, k)
        if not self.inbuf:
            if self.recv_error:
                raise ConnectionResetError()
            if self.eof:
                return b""
            raise BlockingIOError()
        out = bytes(self.inbuf[:n])
        del self.inbuf[:n]
        return out

    def send(self, data):
        if self.closed:
            raise OSError(9, "closed")
        if self.send_plan:
            k = self.send_plan.popleft()
            if k == 0:
                raise BlockingIOError()
            if k < 0:
                raise BrokenPipeError()
            data = data[:k]
        self.wire += data
        self.send_log.append(len(data))
        return len(data)

    def close(self):
        self.closed = True

    def fileno(self):
        return 1000 + self.id

    def setblocking(self, flag):
        pass

    def pending(self):
        return 0


def make_client(protocol=mqtt.MQTTv311, clean=True, api=2, client_id="cid", manual_ack=False,
                transport="tcp", reconnect_on_failure=True, connect_fail=None):
    """connect_fail: optional list consumed per _create_socket call: True -> raise OSError."""
    apiv = CallbackAPIVersion.VERSION2 if api == 2 else CallbackAPIVersion.VERSION1
    if protocol == mqtt.MQTTv5:
        c = mqtt.Client(apiv, client_id=client_id, protocol=protocol, manual_ack=manual_ack,
                        transport=transport, reconnect_on_failure=reconnect_on_failure)
    else:
        c = mqtt.Client(apiv, client_id=client_id, clean_session=clean, protocol=protocol,
                        manual_ack=manual_ack, transport=transport, reconnect_on_failure=reconnect_on_failure)
    c.socks = []
    c.connect_fail = collections.deque(connect_fail or [])

    def create():
        if c.connect_fail and c.connect_fail.popleft():
            raise ConnectionRefusedError(111, "refused")
        s = FakeSock()
        c.socks.append(s)
        return s

    c._create_socket = create
    return c


# ---------------------------------------------------------------------------- packet helpers
def enc_rl(n):
    out = bytearray()
    while True:
        b = n % 128
        n //= 128
        if n > 0:
            b |= 0x80
        out.append(b)
        if n == 0:
            return bytes(out)


def pkt(first, body=b""):
    return bytes([first]) + enc_rl(len(body)) + bytes(body)


def connack(rc=0, flags=0, v5=False, props=b"\x00"):
    return pkt(0x20, bytes([flags, rc]) + (props if v5 else b""))


def ack(kind, mid):
    first = {"puback": 0x40, "pubrec": 0x50, "pubrel": 0x62, "pubcomp": 0x70, "unsuback": 0xB0}[kind]
    return pkt(first, mid.to_bytes(2, "big"))


def publish_pkt(topic, payload=b"", qos=0, mid=0, retain=False, dup=False, v5=False, props=b"\x00"):
    first = 0x30 | (8 if dup else 0) | (qos << 1) | (1 if retain else 0)
    body = len(topic).to_bytes(2, "big") + topic
    if qos > 0:
        body += mid.to_bytes(2, "big")
    if v5:
        body += props
    return pkt(first, body + payload)


def split_packets(data):
    """Split a byte stream into (first_byte, body) MQTT packets; returns (packets, leftover)."""
    out, i, n = [], 0, len(data)
    while i < n:
        j, mult, rl = i + 1, 1, 0
        while True:
            if j >= n:
                return out, bytes(data[i:])
            b = data[j]
            rl += (b & 127) * mult
            mult *= 128
            j += 1
            if not b & 128:
                break
            if j - i > 5:
                raise ValueError("remaining length over 4 bytes")
        if j + rl > n:
            return out, bytes(data[i:])
        out.append((data[i], bytes(data[j:j + rl])))
        i = j + rl
    return out, b""


def summarize(first, body, v5=False):
    """(type, mid, dup, qos, retain, len) canonical tuple of an outgoing packet"""
    t = first >> 4
    dup, qos, retain, mid = (first >> 3) & 1, (first >> 1) & 3, first & 1, 0
    if t == 3:
        tl = int.from_bytes(body[:2], "big")
        if qos:
            mid = int.from_bytes(body[2 + tl:4 + tl], "big")
    elif t in (4, 5, 6, 7, 8, 10):
        mid = int.from_bytes(body[:2], "big")
        if t != 3:
            dup = qos = retain = 0
    else:
        dup = qos = retain = 0
    return (t, mid, dup, qos, retain, len(body))
