"""./check <Cxx> [--tier quick|thorough] [--replay <path>]   (see DESIGN.md section 3.2)"""
import argparse, hashlib, importlib, json, os, random, sys, time, traceback

ROOT = os.path.dirname(os.path.dirname(os.path.abspath(__file__)))
sys.path.insert(0, ROOT)
from vlib import build, findings  # noqa: E402

TRUSTED_BASE = [
    "Coq 8.16.1 kernel (coqc; vm_compute used for finite-domain lemmas and witnesses; native_compute not used)",
    "tools/py2v translator (Python ast -> Gallina) for the generated Gen/*.v definitions",
    "extraction with ExtrOcamlBasic only (no Extract Constant of ours), OCaml 4.13.1, ocaml/driver.ml - trusted for the correspondence and search oracle only",
    "correspondence harness (in-memory transport, virtual clock, generators, canonicaliser)",
    "hand transcriptions of the OASIS MQTT 3.1.1/5.0 rules used as specifications",
]


class Ctx:
    def __init__(self, prop, tier, seed, scale=1):
        self.prop, self.tier, self.seed = prop, tier, seed
        self.rng = random.Random(seed)
        self.scale = scale
        self.quick = tier == "quick"

    def n(self, quick, thorough):
        return int((quick if self.quick else thorough) * self.scale)


class Outcome:
    def __init__(self):
        self.cases = 0
        self.validated = 0
        self.nontrivial = set()
        self.rule = ""
        self.samples = []
        self.disagreements = []
        self.violations = []
        self.notes = []
        self.stats = {}
        self.exhaustive = None

    def seen(self, key, nontrivial=True):
        if nontrivial:
            self.nontrivial.add(hashlib.sha1(repr(key).encode()).hexdigest()[:16])

    def sample(self, s, limit=6):
        if len(self.samples) < limit:
            self.samples.append(s)

    def stat(self, k, n=1):
        self.stats[k] = self.stats.get(k, 0) + n


# VERIF_EVIDENCE_DIR (debug only, like VERIF_SRC): where evidence and replay files go when a mutated copy of the source is
# tried, so that the committed evidence of the real tree is not overwritten
EVDIR = os.environ.get("VERIF_EVIDENCE_DIR") or os.path.join(ROOT, "evidence")


def write_replay(prop, payload):
    d = os.path.join(EVDIR, "replays")
    os.makedirs(d, exist_ok=True)
    blob = json.dumps(payload, sort_keys=True, default=str)
    h = hashlib.sha1(blob.encode()).hexdigest()[:12]
    path = os.path.join(d, f"{prop}-{h}.json")
    with open(path, "w") as f:
        json.dump(payload, f, indent=1, sort_keys=True, default=str)
    return path


def main():
    ap = argparse.ArgumentParser()
    ap.add_argument("prop")
    ap.add_argument("--tier", default=os.environ.get("VERIF_TIER", "quick"), choices=["quick", "thorough"])
    ap.add_argument("--replay")
    ap.add_argument("--no-build", action="store_true", help="(debug) skip regeneration and make")
    args = ap.parse_args()
    prop = args.prop
    seed = int(os.environ.get("VERIF_SEED", "0") or 0)
    t0 = time.time()
    try:
        hmod = importlib.import_module(f"harness.{prop.lower()}")
    except ModuleNotFoundError as e:
        print(f"no harness for {prop}: {e}")
        sys.exit(2)

    if args.replay:
        payload = json.load(open(args.replay))
        ok, detail = hmod.replay(payload)
        print(json.dumps(detail, indent=1, default=str))
        if not ok:
            print(f"VIOLATION property={prop} replay={args.replay}")
            sys.exit(1)
        print("replay: property holds on this input now")
        sys.exit(0)

    # ---- 1-3: regenerate, build proofs, build driver
    if args.no_build:
        with build.Lock():
            binfo = {"untranslatable": [], "make_ok": True, "failed_vo": [], "driver_ok": True, "gate": [],
                     "props": build.check_props(prop), "build_s": 0, "gen_out": "", "make_log_tail": "", "driver_log": ""}
    else:
        binfo = build.full_build(prop, getattr(hmod, "EXTRACT_TAGS", None))
    props = binfo["props"]
    theorems = props["theorems"]
    whitelist = set(getattr(hmod, "AXIOM_WHITELIST", []))
    discharged, axioms_used, broken = [], set(), []
    for t in theorems:
        if t in props["closed"]:
            ax = set(props["axioms"].get(t, []))
            if ax <= whitelist:
                discharged.append(t)
                axioms_used |= ax
            else:
                broken.append(f"{t}: depends on non-whitelisted axioms {sorted(ax - whitelist)}")
        else:
            broken.append(f"{t}: did not compile")
    if not theorems:
        broken.append(f"Props/{prop}.v has no theorems or does not exist")
    if binfo["gate"]:
        broken.append("forbidden constructs: " + "; ".join(binfo["gate"][:5]))
    needed_gen = getattr(hmod, "GENERATED_ITEMS", [])
    for u in binfo["untranslatable"]:
        if any(g in u for g in needed_gen):
            broken.append(u)
    proof_ok = not broken and props["ok"]

    coqchk_info = None
    if args.tier == "thorough" and proof_ok and not args.no_build:
        with build.Lock():
            ok_chk, txt = build.coqchk(prop)
        coqchk_info = {"ok": ok_chk, "summary": txt[-3000:]}
        if not ok_chk:
            broken.append("coqchk rejected Props/%s.vo: %s" % (prop, txt[-300:]))
            proof_ok = False

    # ---- 4: correspondence + oracle on the implementation
    ctx = Ctx(prop, args.tier, seed)
    out = Outcome()
    harness_error = None
    if binfo["driver_ok"]:
        try:
            hmod.run(ctx, out)
        except Exception:
            harness_error = traceback.format_exc()
    else:
        harness_error = "model driver did not build: " + binfo["driver_log"]

    # ---- 5: known findings
    known = findings.load(prop)
    lines, stale = [], []
    for f in known["open"]:
        try:
            still, detail = hmod.finding_still_fails(f)
        except Exception:
            still, detail = None, traceback.format_exc()[-400:]
        if still:
            lines.append(f"KNOWN-FINDING: property={prop} {f['text']}")
        else:
            stale.append((f, detail))
    new_violations = [v for v in out.violations if not findings.matches(v, known["open"])]

    # ---- 6: verdict; search when a proof obligation or the correspondence broke
    verdict_lines, exit_code = [], 0
    need_search = (not proof_ok) or out.disagreements or harness_error
    if need_search and not new_violations and binfo["driver_ok"] and not harness_error and hasattr(hmod, "run"):
        sctx = Ctx(prop, args.tier, seed + 7919, scale=int(os.environ.get("VERIF_SEARCH_SCALE", "10") or 10))
        sout = Outcome()
        try:
            if hasattr(hmod, "search"):
                hmod.search(sctx, sout, out.disagreements)
            else:
                hmod.run(sctx, sout)
        except Exception:
            sout.notes.append("search crashed: " + traceback.format_exc()[-800:])
        new_violations = [v for v in sout.violations if not findings.matches(v, known["open"])]
        out.notes.append(f"search ran {sout.cases} further cases, found {len(new_violations)} failing inputs")
    if new_violations:
        v = new_violations[0]
        path = write_replay(prop, {"property": prop, "kind": "failing-input", **v})
        verdict_lines.append(f"VIOLATION property={prop} replay={path}")
        exit_code = 1
    elif need_search:
        payload = {"property": prop, "kind": "broken-obligation",
                   "broken_obligations": broken, "failed_vo": binfo["failed_vo"],
                   "props_log_tail": props.get("log", "")[-1500:],
                   "disagreements": out.disagreements[:5], "harness_error": harness_error}
        path = write_replay(prop, payload)
        verdict_lines.append(f"VIOLATION property={prop} replay={path} no-failing-input-found")
        exit_code = 1

    # ---- 7: evidence
    wall = round(time.time() - t0, 2)
    ev = {
        "property_id": prop, "tier": args.tier, "seed": seed, "level": "proof",
        "coverage": {
            "obligations": max(len(theorems), 1), "discharged": len(discharged),
            "checker_cmd": f"cd /verif/coq && make theories/Props/{prop}.vo && coqc -Q theories PahoV theories/Props/{prop}.v  (Print Assumptions under every theorem)",
            "trusted_base": TRUSTED_BASE + [f"axioms reported by Print Assumptions for {prop}: " + (", ".join(sorted(axioms_used)) or "none (Closed under the global context)")],
            "theorems": theorems, "discharged_theorems": discharged, "broken_obligations": broken,
            "untranslatable": binfo["untranslatable"],
            "evaluations": out.cases, "traces_validated_against_impl": out.validated,
            "distinct_nontrivial": len(out.nontrivial), "rule": out.rule or getattr(hmod, "RULE", ""),
            "samples": out.samples or ["(no correspondence cases ran)"],
            "stats": out.stats, "disagreements": len(out.disagreements),
            "notes": out.notes + [f"stale known finding (no longer fails): {f['text']} :: {d}" for f, d in stale],
            "known_findings_confirmed": [f["text"] for f in known["open"] if not any(f is s for s, _ in stale)],
            "build_s": binfo["build_s"],
            "coqchk": coqchk_info,
        },
        "assumptions": getattr(hmod, "ASSUMPTIONS", []),
        "wall_s": wall, "violations": len(new_violations) if new_violations else (1 if exit_code else 0),
    }
    if out.exhaustive is not None:
        ev["coverage"]["exhaustive"] = bool(out.exhaustive)
    if harness_error:
        ev["coverage"]["notes"].append("harness error: " + harness_error[-1500:])
    os.makedirs(EVDIR, exist_ok=True)
    with open(os.path.join(EVDIR, f"{prop}.json"), "w") as f:
        json.dump(ev, f, indent=1, default=str)

    print(f"[{prop}] tier={args.tier} seed={seed} theorems={len(discharged)}/{len(theorems)} "
          f"cases={out.cases} validated={out.validated} distinct_nontrivial={len(out.nontrivial)} "
          f"disagreements={len(out.disagreements)} wall={wall}s")
    for b in broken:
        print(f"  broken: {b}")
    for d in out.disagreements[:3]:
        print(f"  disagreement: {json.dumps(d, default=str)[:600]}")
    if harness_error:
        print("  harness error:", harness_error[-1200:])
    for f, d in stale:
        print(f"  note: known finding no longer reproduces: {f['text']}")
    for l in lines:
        print(l)
    for l in verdict_lines:
        print(l)
    sys.exit(exit_code)


if __name__ == "__main__":
    main()
