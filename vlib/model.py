"""Run the extracted Coq model (ocaml/_build/driver) on batches of encoded inputs."""
import os, subprocess
from vlib.build import OCAML

def driver_path(tag):
    return os.path.join(OCAML, "_build", tag, "driver")


def run_batch(tag, entry, arglists, timeout=1800):
    """Run entry number `entry` of the model extracted by Extract<Tag>.v on each argument list.
    arglists: iterable of lists of ints. Returns list of lists of ints (model outputs)."""
    DRIVER = driver_path(tag)
    arglists = list(arglists)
    if not arglists:
        return []
    inp = "\n".join(f"{entry} " + " ".join(str(int(a)) for a in args) for args in arglists) + "\n"
    p = subprocess.run(f"ulimit -s unlimited 2>/dev/null; exec {DRIVER}", shell=True, input=inp,
                       stdout=subprocess.PIPE, stderr=subprocess.PIPE, text=True, timeout=timeout)
    if p.returncode != 0:
        raise RuntimeError(f"model driver failed rc={p.returncode}: {p.stderr[-500:]}")
    lines = p.stdout.split("\n")
    if lines and lines[-1] == "":
        lines.pop()
    if len(lines) != len(arglists):
        raise RuntimeError(f"model driver returned {len(lines)} lines for {len(arglists)} inputs")
    return [[int(t) for t in l.split()] for l in lines]


def run_one(tag, entry, args):
    return run_batch(tag, entry, [args])[0]


def enc_bytes(b):
    """length-prefixed byte string"""
    return [len(b)] + list(b)
