"""Regenerate Gen/*.v from /repo, build the Coq development and the extracted driver."""
import fcntl, glob, hashlib, os, re, subprocess, time

ROOT = os.path.dirname(os.path.dirname(os.path.abspath(__file__)))
COQ = os.path.join(ROOT, "coq")
OCAML = os.path.join(ROOT, "ocaml")
REPO = os.environ.get("VERIF_REPO", "/repo")
PY = "/venv/bin/python"

COQPROJECT_HEAD = """-Q theories PahoV
-arg -w -arg -notation-overridden,-deprecated-hint-without-locality,-deprecated-instance-without-locality,-abstract-large-number
"""


class Lock:
    def __enter__(self):
        self.f = open(os.path.join(ROOT, ".build.lock"), "w")
        fcntl.flock(self.f, fcntl.LOCK_EX)
        return self

    def __exit__(self, *a):
        fcntl.flock(self.f, fcntl.LOCK_UN)
        self.f.close()


def sh(cmd, cwd=None, timeout=3600):
    p = subprocess.run(cmd, cwd=cwd, shell=isinstance(cmd, str), stdout=subprocess.PIPE,
                       stderr=subprocess.STDOUT, text=True, timeout=timeout)
    return p.returncode, p.stdout


def regen():
    rc, out = sh([PY, "-B", os.path.join(ROOT, "tools/py2v/gen.py"), REPO, os.path.join(COQ, "theories/Gen")])
    untrans = [l for l in out.splitlines() if l.startswith("untranslatable:")]
    return rc, out, untrans


def coqproject():
    files = sorted(os.path.relpath(p, COQ) for p in glob.glob(os.path.join(COQ, "theories/*/*.v")))
    text = COQPROJECT_HEAD + "\n".join(files) + "\n"
    path = os.path.join(COQ, "_CoqProject")
    old = open(path).read() if os.path.exists(path) else None
    if old != text or not os.path.exists(os.path.join(COQ, "Makefile")):
        open(path, "w").write(text)
        sh("coq_makefile -f _CoqProject -o Makefile", cwd=COQ)


def make_all(jobs=16, timeout=3000, targets=None):
    """make -k the given .vo targets (None = everything); returns (ok, list of failed .vo, log).
    Every coqc runs under its own timeout so one runaway file cannot stall a check."""
    tg = " ".join(targets) if targets else ""
    rc, out = sh(f"timeout {timeout} make -k -j{jobs} COQC='timeout 1500 coqc' {tg}", cwd=COQ, timeout=timeout + 60)
    failed = re.findall(r"\*\*\* \[Makefile[^:]*:\d+: (theories/[^\]]+\.vo)\]", out)
    return rc == 0, sorted(set(failed)), out


def make_target(vo, timeout=1200):
    rc, out = sh(f"timeout {timeout} make -j8 {vo}", cwd=COQ, timeout=timeout + 60)
    return rc == 0, out


def build_driver(tag):
    """theories/Extract/Extract<Tag>.v writes coq/model_<tag>.ml(i); compile it with the generic
    driver into ocaml/_build/<tag>/driver."""
    src = os.path.join(COQ, f"model_{tag}.ml")
    srci = os.path.join(COQ, f"model_{tag}.mli")
    if not os.path.exists(src):
        return False, f"model_{tag}.ml missing (Extract{tag.capitalize()}.v did not build)"
    bdir = os.path.join(OCAML, "_build", tag)
    os.makedirs(bdir, exist_ok=True)
    h = hashlib.sha256()
    for p in (src, srci, os.path.join(OCAML, "driver.ml")):
        h.update(open(p, "rb").read())
    stamp = os.path.join(bdir, "stamp")
    exe = os.path.join(bdir, "driver")
    if os.path.exists(stamp) and os.path.exists(exe) and open(stamp).read() == h.hexdigest():
        return True, "up to date"
    for p, name in ((src, "model.ml"), (srci, "model.mli"), (os.path.join(OCAML, "driver.ml"), "driver.ml")):
        open(os.path.join(bdir, name), "wb").write(open(p, "rb").read())
    rc, out = sh("ocamlfind ocamlopt -O3 -w -a model.mli model.ml driver.ml -o driver", cwd=bdir)
    if rc == 0:
        open(stamp, "w").write(h.hexdigest())
    return rc == 0, out


def extract_tags():
    return sorted(re.match(r"Extract(\w+)\.v", os.path.basename(p)).group(1).lower()
                  for p in glob.glob(os.path.join(COQ, "theories/Extract/Extract*.v")))


THEOREM_RE = re.compile(r"^\s*(Theorem|Corollary)\s+(\w+)", re.M)


def check_props(prop, timeout=1200):
    """Compile Props/<prop>.v on its own, parse theorem names and Print Assumptions output.
    Returns dict(theorems=[...], closed={name: bool}, axioms={name: [..]}, ok=bool, log=str)."""
    rel = f"theories/Props/{prop}.v"
    path = os.path.join(COQ, rel)
    res = {"theorems": [], "closed": {}, "axioms": {}, "ok": False, "log": ""}
    if not os.path.exists(path):
        res["log"] = f"{rel} does not exist"
        return res
    text = open(path).read()
    res["theorems"] = [m.group(2) for m in THEOREM_RE.finditer(text)]
    printed = re.findall(r"Print Assumptions\s+(\w+)\s*\.", text)
    ok, out = make_target(f"theories/Props/{prop}.vo", timeout)
    if not ok:
        res["log"] = out[-4000:]
        return res
    # re-run coqc on the Props file alone to capture the Print Assumptions output
    rc, out = sh(f"timeout {timeout} coqc -Q theories PahoV -w -notation-overridden,-abstract-large-number {rel} -o /dev/null 2>&1 || "
                 f"timeout {timeout} coqc -Q theories PahoV {rel}", cwd=COQ, timeout=2 * timeout + 60)
    res["log"] = out[-4000:]
    blocks = re.split(r"(?m)^(?=Closed under the global context|Axioms:)", out)
    blocks = [b for b in blocks if b.startswith("Closed under") or b.startswith("Axioms:")]
    if rc != 0 or len(blocks) != len(printed):
        res["log"] += f"\n[check_props] rc={rc} blocks={len(blocks)} printed={len(printed)}"
        return res
    for name, b in zip(printed, blocks):
        if b.startswith("Closed under"):
            res["closed"][name] = True
            res["axioms"][name] = []
        else:
            ax = re.findall(r"(?m)^(\S+)\s*$|^(\S+)\s+:", b[len("Axioms:"):])
            names = sorted({a or c for a, c in ax if (a or c)})
            res["closed"][name] = False
            res["axioms"][name] = names
    res["ok"] = all(t in res["closed"] for t in res["theorems"])
    return res


FORBIDDEN = re.compile(r"\b(Admitted|admit|Axiom|Parameter|Conjecture|Unset Guard|bypass_check|Admit Obligations|type-in-type|impredicative-set)\b")


def grep_gate():
    bad = []
    for p in glob.glob(os.path.join(COQ, "theories/*/*.v")):
        for i, line in enumerate(open(p), 1):
            code = re.sub(r"\(\*.*?\*\)", "", line)
            if FORBIDDEN.search(code):
                bad.append(f"{os.path.relpath(p, COQ)}:{i}: {line.strip()}")
    return bad


def full_build(prop=None, tags=None):
    """Everything a check needs. Returns a dict describing the build.
    tags: extraction tags whose driver must be built (None = all)."""
    t0 = time.time()
    with Lock():
        rc, genout, untrans = regen()
        coqproject()
        if prop:
            want = [f"theories/Props/{prop}.vo"]
            for tag in (tags if tags is not None else extract_tags()):
                cand = [p for p in glob.glob(os.path.join(COQ, "theories/Extract/Extract*.v"))
                        if os.path.basename(p)[len("Extract"):-2].lower() == tag]
                want += [os.path.relpath(p, COQ) + "o" for p in cand]
            ok, failed, log = make_all(targets=want)
        else:
            ok, failed, log = make_all()
        dok, dlog = True, ""
        for tag in (tags if tags is not None else extract_tags()):
            o, l = build_driver(tag)
            dok = dok and o
            dlog += f"[{tag}] {l}\n"
        info = {"gen_rc": rc, "gen_out": genout, "untranslatable": untrans, "make_ok": ok,
                "failed_vo": failed, "make_log_tail": log[-3000:], "driver_ok": dok, "driver_log": dlog[-2000:],
                "gate": grep_gate()}
        if prop:
            info["props"] = check_props(prop)
    info["build_s"] = round(time.time() - t0, 2)
    return info


def coqchk(prop, timeout=1800):
    """Independent re-check of Props/<prop>.vo and everything it depends on (thorough tier).
    Returns (ok, axioms_text)."""
    rc, out = sh(f"timeout {timeout} coqchk -silent -o -Q theories PahoV PahoV.Props.{prop}", cwd=COQ, timeout=timeout + 60)
    m = re.search(r"CONTEXT SUMMARY(.*)", out, re.S)
    return rc == 0, (m.group(1).strip() if m else out[-2000:])
