(* Generic correspondence driver: each input line "<entry> i1 i2 ..." is converted to a
   list of extracted Z values, handed to the model entry point with that number
   (Extract.entries), and the resulting list Z is printed on one line.
   No native-int semantics leaks into the model: ints are converted bit by bit. *)
open Model

let rec pos_of_int (n : int) : positive =
  if n = 1 then XH
  else if n land 1 = 0 then XO (pos_of_int (n lsr 1))
  else XI (pos_of_int (n lsr 1))

let z_of_int (n : int) : z =
  if n = 0 then Z0 else if n > 0 then Zpos (pos_of_int n) else Zneg (pos_of_int (-n))

let rec int_of_pos (p : positive) : int =
  match p with XH -> 1 | XO q -> 2 * int_of_pos q | XI q -> 2 * int_of_pos q + 1

let int_of_z (x : z) : int =
  match x with Z0 -> 0 | Zpos p -> int_of_pos p | Zneg p -> - (int_of_pos p)

let rec find_entry (k : int) (l : (z * (z list -> z list)) list) =
  match l with
  | [] -> None
  | (id, f) :: tl -> if int_of_z id = k then Some f else find_entry k tl

let () =
  let buf = Buffer.create 65536 in
  try
    while true do
      let line = input_line stdin in
      let toks = List.filter (fun s -> s <> "") (String.split_on_char ' ' line) in
      match toks with
      | [] -> print_string "\n"
      | e :: args ->
        (match find_entry (int_of_string e) entries with
         | None -> print_string "ERR unknown entry\n"
         | Some f ->
           let zargs = List.rev (List.rev_map (fun s -> z_of_int (int_of_string s)) args) in
           let out = f zargs in
           Buffer.clear buf;
           List.iter (fun x -> Buffer.add_string buf (string_of_int (int_of_z x)); Buffer.add_char buf ' ') out;
           Buffer.add_char buf '\n';
           print_string (Buffer.contents buf))
    done
  with End_of_file -> ()
