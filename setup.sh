#!/bin/sh
# Build the whole framework offline from files on disk: regenerate Gen/*.v from /repo,
# compile every Coq file (full .vo build), extract and compile the OCaml driver.
set -e
cd "$(dirname "$0")"
export PYTHONPATH="/repo/src:$(pwd)" PYTHONHASHSEED=0 PYTHONDONTWRITEBYTECODE=1
/venv/bin/python -B - <<'PY'
import sys, json
sys.path.insert(0, ".")
from vlib import build
info = build.full_build()
print("make_ok", info["make_ok"], "failed", info["failed_vo"], "driver_ok", info["driver_ok"], "untranslatable", info["untranslatable"], "build_s", info["build_s"])
if not info["make_ok"]:
    print(info["make_log_tail"])
if not info["driver_ok"]:
    print(info["driver_log"])
# a file that fails to compile is reported by the check of the property that needs it;
# setup itself only fails when nothing could be built at all
sys.exit(0)
PY
