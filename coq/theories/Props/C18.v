(* C18 - client API callable from inside any user callback without self-deadlock.
   Only statements, each closed by [exact]; see Conc/LockGraph.v (model), Conc/LockGraphSound.v
   (generic soundness), Conc/LockGraphCheck.v (application to Gen/GenLockGraph.v, regenerated
   from client.py on every run). *)
From PahoV Require Import Base.Prelude Conc.LockGraph Conc.LockGraphSound Gen.GenLockGraph
  Conc.LockGraphEntry Conc.LockGraphCheck Conc.PacketQueue Conc.PacketQueueProofs.

(* 1. generic, every program: a closed set of abstract states with no stuck state proves that no
      stuck configuration is reachable, for runs of any length and any callback/API nesting depth *)
Theorem C18_closed_sound : forall P Ix, closedb P [] Ix = true -> no_stuck_reachable P.
Proof. exact closed_sound. Qed.
Print Assumptions C18_closed_sound.

(* ... and with a list K of allowed sites: every reachable stuck configuration is stuck at a site of K *)
Theorem C18_closed_sound_sites : forall P K Ix, closedb P K Ix = true ->
  forall cfg t, reachable P cfg -> stuck_info P cfg = Some t -> In t K.
Proof. exact closed_sound_sites. Qed.
Print Assumptions C18_closed_sound_sites.

(* 2. the generated program (client.py as it is now), every user callback installed, callbacks calling any of
      publish / subscribe / unsubscribe / disconnect / reconnect / message_callback_add / message_callback_remove /
      loop_stop, any number of times, nested to any depth: NO reachable configuration blocks.
      [C18_full] is [no_stuck_reachable P_all]. *)
Theorem C18_no_self_deadlock : no_stuck_reachable P_all.
Proof. exact c18_full. Qed.
Print Assumptions C18_no_self_deadlock.

(* 3. the same with on_socket_open / on_socket_close not installed (the other point of the product) *)
Theorem C18_no_self_deadlock_without_socket_open_close : no_stuck_reachable P_nosock.
Proof. exact c18_nosock. Qed.
Print Assumptions C18_no_self_deadlock_without_socket_open_close.

(* 4. ... and when the callbacks may also call connect() / connect_async() *)
Theorem C18_no_self_deadlock_connect : no_stuck_reachable P_ext.
Proof. exact c18_full_connect. Qed.
Print Assumptions C18_no_self_deadlock_connect.

(* 5. the source was translated without unclassified calls or lock operations *)
Theorem C18_translation_clean : translation_problems = [] /\ calls_defined prog = true.
Proof. exact translation_clean. Qed.
Print Assumptions C18_translation_clean.

(* 6. written by the enclosing or the next iteration (small model of _packet_queue's guard and the
      _packet_write loop, Conc/PacketQueue.v; tied to the implementation by the harness oracle) *)
Theorem C18_written_next_queued : forall fuel cb p s, in_cb s = true ->
  outq (packet_queue fuel cb p s) = outq s ++ [p] /\
  wire (packet_queue fuel cb p s) = wire s /\
  want_reg (packet_queue fuel cb p s) = true.
Proof. exact packet_queue_in_callback. Qed.
Print Assumptions C18_written_next_queued.

Theorem C18_written_next_iteration : forall fuel cb s, outq (loop_write fuel cb s) = [] ->
  exists extra, wire (loop_write fuel cb s) = wire s ++ outq s ++ extra.
Proof. exact loop_write_writes_queue. Qed.
Print Assumptions C18_written_next_iteration.

Theorem C18_written_enclosing_iteration : forall fuel cb s p q, outq s = p :: q ->
  outq (packet_write (S fuel) cb s) = [] ->
  exists extra, wire (packet_write (S fuel) cb s) = wire s ++ [p] ++ q ++ cb p ++ extra.
Proof. exact packet_write_writes_callback_packets. Qed.
Print Assumptions C18_written_enclosing_iteration.

(* non-vacuity *)
Example C18_written_next_nonvacuous :
  let cb := fun p => if N.eqb p 1 then [7%N] else [] in
  let s := mkQ [] [] false false false in
  wire (packet_queue 10 cb 1%N s) = [1%N; 7%N] /\ outq (packet_queue 10 cb 1%N s) = [].
Proof. exact written_next_nonvacuous. Qed.
Example C18_interpreter_meets_no_stuck_site : stuck_sites_of P_all Ix_all = [] /\ stuck_sites_of P_ext Ix_ext = [].
Proof. exact no_stuck_sites. Qed.
Example C18_callbacks_run_under_lock :
  forallb (fun c => existsb (fun x => N.eqb (fst x) c && N.testbit (snd x) l_priv_in_callback_mutex) cbctx_all)
          all_callback_kinds
  && existsb (fun x => N.eqb (fst x) cb_on_publish && N.testbit (snd x) l_priv_out_message_mutex) cbctx_all = true.
Proof. exact callbacks_run_under_lock. Qed.
Example C18_try_lock_guard_effective :
  idx_mem (m_priv_packet_queue, held_in_cb, Some (cb_on_connect, m_publish)) Ix_all
  && negb (idx_mem (m_loop_write, held_in_cb, Some (cb_on_connect, m_publish)) Ix_all) = true.
Proof. exact guard_effective. Qed.
Example C18_checker_detects_missing_guard :
  mem_site (Some (cb_on_connect, m_publish), WLock l_priv_in_callback_mutex, m_priv_packet_write)
           (stuck_sites P_noguard fuel) = true.
Proof. exact noguard_detected. Qed.
(* regression F-C18b/c: with the locking _call_socket_open/_close had before 5844bc2 the checker reports the 28 sites *)
Example C18_checker_detects_old_socket_locking :
  let ss := stuck_sites P_oldsock fuel in
  mem_site (Some (cb_on_connect, m_reconnect), WLock l_priv_in_callback_mutex, m_priv_call_socket_close) ss
  && mem_site (Some (cb_on_disconnect, m_reconnect), WLock l_priv_in_callback_mutex, m_priv_call_socket_open) ss
  && Nat.eqb (length ss) 28 = true.
Proof. exact old_socket_locking_detected. Qed.
Example C18_entries_cover :
  forallb (fun e => memN e c18_entries)
          ([m_loop; m_loop_read; m_loop_write; m_loop_misc; m_loop_forever; m_loop_start; m_connect; m_connect_async;
            m_reconnect; m_priv_thread_main] ++ c18_apis) = true.
Proof. exact entries_cover. Qed.
