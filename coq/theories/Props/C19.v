(* C19 - invalid arguments are rejected exactly per the MQTT grammar and the documented contract.
   Only statements, each closed by [exact]; proofs in Codec/ValidateProofs.v, Codec/ValidateBridge.v,
   specification in Codec/ValidateSpec.v. The atomicity statement (a rejected call changes nothing)
   is stated on the session model M2; here: every Raise of the models below precedes
   _mid_generate(), every store and _packet_queue(). *)
From PahoV Require Import Base.Prelude Codec.Validate Codec.ValidateSpec Codec.ValidateProofs
  Codec.ValidateBridge Gen.GenTopic Gen.GenFilter.

(* the source's two predicates (translated on every run) are the models *)
Theorem C19_topic_source_is_model : forall fuel topic,
  raise_for_invalid_topic fuel topic = topic_check topic.
Proof. exact raise_for_invalid_topic_bridge. Qed.
Print Assumptions C19_topic_source_is_model.

Theorem C19_filter_source_is_model : forall fuel sub,
  filter_wildcard_len_check fuel sub = Ok (filter_check sub).
Proof. exact filter_wildcard_len_check_bridge. Qed.
Print Assumptions C19_filter_source_is_model.

(* 1. subscribe filters: the code's predicate is the grammar of MQTT 4.7.1/4.7.3, for every byte
   string of any length *)
Theorem C19_filter_grammar : forall s : list Z,
  filter_check s = OK <-> spec_filter_ok s = true.
Proof. exact filter_grammar. Qed.
Print Assumptions C19_filter_grammar.

Theorem C19_filter_two_valued : forall s : list Z,
  filter_check s = OK \/ filter_check s = INVAL.
Proof. exact filter_check_values. Qed.
Print Assumptions C19_filter_two_valued.

(* the grammar of 1. is the one the matching theorems of C11 assume of a filter (Matcher/TrieSpec.v
   valid_filter, written independently: other splitter, other per-level test): every filter that
   subscribe() accepts is covered by C11_match_spec / C11_trie_lookup *)
From PahoV Require Import Matcher.TrieSpec Matcher.FilterGrammarTie.
Theorem C19_accepted_filters_are_C11_filters : forall s : list Z,
  filter_check s = OK -> valid_filter s = true.
Proof.
  intros s H. apply filter_grammar in H. rewrite filter_grammars_agree in H.
  apply andb_true_iff in H. exact (proj1 H).
Qed.
Print Assumptions C19_accepted_filters_are_C11_filters.

(* publish topics: no wildcard character, at most 65535 bytes *)
Theorem C19_topic_grammar : forall t : list Z,
  topic_check t = Ok 0 <-> ~ In 43 t /\ ~ In 35 t /\ blen t <= 65535.
Proof. exact topic_grammar. Qed.
Print Assumptions C19_topic_grammar.

(* ... and every non-empty topic publish() accepts is a valid topic name in the sense of C11 *)
Theorem C19_accepted_topics_are_C11_topics : forall t : list Z,
  topic_check t = Ok 0 -> t <> [] -> valid_topic t = true.
Proof. exact accepted_topics_are_valid. Qed.
Print Assumptions C19_accepted_topics_are_C11_topics.

(* 2. publish(): which exception, exactly when (ValueError wins over TypeError when both apply).
   The size condition is the MQTT one: the PUBLISH packet (2 + topic + packet id + v5 properties +
   payload) must fit the 268,435,455-byte Remaining Length. *)
Theorem C19_publish_rejects : forall v t q k n pl,
  (publish_args_check v t q k n pl = Raise ValueError <->
     topic_bad v t \/ q < 0 \/ 2 < q \/
     (payload_supported k = true /\ 268435455 < spec_publish_remaining_length v t q n pl))
  /\ (publish_args_check v t q k n pl = Raise TypeError <->
     ~ topic_bad v t /\ 0 <= q <= 2 /\ k = POther)
  /\ (publish_args_check v t q k n pl = Ok 0 <->
     ~ topic_bad v t /\ 0 <= q <= 2 /\ k <> POther /\ spec_publish_remaining_length v t q n pl <= 268435455).
Proof. exact publish_rejects. Qed.
Print Assumptions C19_publish_rejects.

(* every payload over 268,435,455 bytes raises ValueError, whatever the other arguments *)
Theorem C19_publish_payload_over_limit : forall v t q k n pl,
  payload_supported k = true -> 0 <= pl -> 268435455 < n ->
  publish_args_check v t q k n pl = Raise ValueError.
Proof. exact publish_payload_over_limit. Qed.
Print Assumptions C19_publish_payload_over_limit.

(* and size is a reason for rejection only when the packet could not be encoded: with valid topic,
   QoS and payload type everything up to 268435451 - len(topic) - len(properties) bytes is accepted *)
Theorem C19_publish_payload_fits : forall v t q k n pl,
  ~ topic_bad v t -> 0 <= q <= 2 -> k <> POther ->
  n + Z.of_nat (length t) + (if is_v5 v then pl else 0) <= 268435451 ->
  publish_args_check v t q k n pl = Ok 0.
Proof. exact publish_payload_fits. Qed.
Print Assumptions C19_publish_payload_fits.

(* arguments the publish() contract allows are never rejected, and only those are accepted *)
Theorem C19_publish_accepts_documented : forall v t q k n pl,
  publish_args_check v t q k n pl = Ok 0 <-> spec_publish_ok v t q k n pl = true.
Proof. exact publish_accepts_documented. Qed.
Print Assumptions C19_publish_accepts_documented.

(* 3. subscribe(): rejected exactly when the call is not one the docstring documents (forbidden
   filter, QoS outside 0..2, empty list, ill-typed argument) - both directions *)
Theorem C19_subscribe_exact : forall v a,
  (exists k, subscribe_norm v a = Raise k) <-> documented_ok v a = false.
Proof. exact subscribe_exact. Qed.
Print Assumptions C19_subscribe_exact.

(* a documented call is passed on with exactly the requested (filter, QoS/options) pairs *)
Theorem C19_subscribe_result : forall v a,
  documented_ok v a = true -> subscribe_norm v a = Ok (documented_request v a).
Proof. exact subscribe_result. Qed.
Print Assumptions C19_subscribe_result.

(* a call of one of the six documented shapes is only ever rejected with ValueError *)
Theorem C19_subscribe_valueerror : forall v a,
  documented_shape v a = true -> documented_ok v a = false -> subscribe_norm v a = Raise ValueError.
Proof. exact subscribe_valueerror. Qed.
Print Assumptions C19_subscribe_valueerror.

(* whatever the argument shape: no filter violating the grammar ever reaches _send_subscribe *)
Theorem C19_subscribe_accepts_only_valid : forall v a l,
  subscribe_norm v a = Ok l -> Forall (fun p => spec_filter_ok (fst p) = true) l.
Proof. exact subscribe_accepts_only_valid. Qed.
Print Assumptions C19_subscribe_accepts_only_valid.

(* on a connected client _send_subscribe additionally refuses (before taking a packet id) a request
   whose SUBSCRIBE packet would exceed the 268,435,455-byte Remaining Length; nothing else *)
Theorem C19_subscribe_connected_exact : forall v pl a,
  (exists k, subscribe_connected v pl a = Raise k) <->
  documented_ok v a = false \/
  268435455 < spec_subscribe_remaining_length v pl (documented_request v a).
Proof. exact subscribe_connected_exact. Qed.
Print Assumptions C19_subscribe_connected_exact.

(* which cannot happen below 4096 filters *)
Theorem C19_subscribe_connected_small_fits : forall v pl a,
  documented_ok v a = true -> Z.of_nat (length (documented_request v a)) <= 4095 -> pl <= 57343 ->
  subscribe_connected v pl a = Ok (documented_request v a).
Proof. exact subscribe_connected_small_fits. Qed.
Print Assumptions C19_subscribe_connected_small_fits.

(* unsubscribe(): rejected exactly when the argument is not a non-empty string or a non-empty list of such *)
Theorem C19_unsubscribe_exact : forall a,
  (exists k, unsubscribe_norm a = Raise k) <-> unsub_documented_ok a = false.
Proof. exact unsubscribe_exact. Qed.
Print Assumptions C19_unsubscribe_exact.

(* ------------------------------------------------------------------ non-vacuity *)
(* "sport/+/player1/#" is a filter, "sport+", "sport/#/x", "#/", "" are not (MQTT 4.7.1 examples) *)
Example C19_filter_examples :
  map spec_filter_ok
    [ [115;112;111;114;116;47;43;47;112;108;97;121;101;114;49;47;35]; [35]; [43]; [47]; [43;47;43]; [36;83;89;83;47;35];
      [115;112;111;114;116;43]; [115;112;111;114;116;47;35;47;120]; [35;47]; [97;35]; [47;35;35]; [] ]
  = [true; true; true; true; true; true; false; false; false; false; false; false].
Proof. vm_compute. reflexivity. Qed.

Example C19_filter_check_examples :
  map filter_check [ [97;47;35]; [97;47;35;47;98]; [43;47;43;47;35]; [97;43]; [] ] = [OK; INVAL; OK; INVAL; INVAL].
Proof. vm_compute. reflexivity. Qed.

(* the length bound is exactly 65535 bytes *)
Example C19_filter_length_boundary :
  filter_check (repeat 97 (Z.to_nat 65535)) = OK /\ filter_check (repeat 97 (Z.to_nat 65536)) = INVAL.
Proof. split; vm_compute; reflexivity. Qed.

Example C19_publish_examples :
  publish_args_check V311 [97;47;98] 1 PBytes 3 1 = Ok 0
  /\ publish_args_check V311 [] 0 PNone 0 1 = Raise ValueError
  /\ publish_args_check V5 [] 0 PNone 0 1 = Ok 0
  /\ publish_args_check V311 [97;47;43] 0 PStr 1 1 = Raise ValueError
  /\ publish_args_check V311 [97] 3 PStr 1 1 = Raise ValueError
  /\ publish_args_check V311 [97] (-1) PStr 1 1 = Raise ValueError
  /\ publish_args_check V311 [97] 2 POther 0 1 = Raise TypeError
  /\ publish_args_check V311 [97;35] 2 POther 0 1 = Raise ValueError
  /\ publish_args_check V311 [97] 0 PBytearray 268435452 1 = Ok 0             (* 2+1+268435452 = 268435455 *)
  /\ publish_args_check V311 [97] 0 PBytearray 268435453 1 = Raise ValueError
  /\ publish_args_check V311 [97] 1 PBytearray 268435450 1 = Ok 0             (* + 2 bytes packet id *)
  /\ publish_args_check V311 [97] 1 PBytearray 268435451 1 = Raise ValueError
  /\ publish_args_check V5 [97] 2 PBytes 268435449 1 = Ok 0                   (* + 1 byte properties *)
  /\ publish_args_check V5 [97] 2 PBytes 268435450 1 = Raise ValueError
  /\ publish_args_check V5 [] 0 PBytes 268435452 1 = Ok 0
  /\ publish_args_check V5 [97] 0 PBytearray 268435456 1 = Raise ValueError.
Proof. vm_compute. repeat split; reflexivity. Qed.

Example C19_unsubscribe_examples :
  unsubscribe_norm (UItem (IStr [97;47;35])) = Ok [[97;47;35]]
  /\ unsubscribe_norm (UList [IStr [97]; IStr [98]]) = Ok [[97]; [98]]
  /\ unsubscribe_norm (UList []) = Raise ValueError
  /\ unsubscribe_norm (UItem (IStr [])) = Raise ValueError
  /\ unsubscribe_norm (UItem INone) = Raise ValueError.
Proof. vm_compute. repeat split; reflexivity. Qed.

(* the six documented calling conventions are accepted (3: the form fixed by F-C19a) *)
Example C19_six_conventions :
  let t := [109;121;47;116] in
  map (fun va => documented_ok (fst va) (snd va))
    [ (V311, mk_sub_arg (TItem (IStr t)) 2 OAbsent);
      (V5,   mk_sub_arg (TItem (IStr t)) 0 (OOpts 2));
      (V311, mk_sub_arg (TTuple (IStr t) (QInt 1)) 0 OAbsent);
      (V5,   mk_sub_arg (TTuple (IStr t) (QInt 1)) 0 OAbsent);
      (V5,   mk_sub_arg (TTuple (IStr t) (QOpts 1)) 0 OAbsent);
      (V31,  mk_sub_arg (TList [EPair (IStr t) (QInt 0); EPair (IStr [97;47;35]) (QInt 2)]) 0 OAbsent);
      (V5,   mk_sub_arg (TList [EPair (IStr t) (QOpts 0); EPair (IStr [97;47;35]) (QOpts 2)]) 0 OAbsent) ]
  = [true; true; true; true; true; true; true]
  /\ subscribe_norm V5 (mk_sub_arg (TTuple (IStr t) (QInt 1)) 0 OAbsent) = Ok [(t, 1)]
  /\ subscribe_norm V31 (mk_sub_arg (TList [EPair (IStr t) (QInt 0); EPair (IStr [97;47;35]) (QInt 2)]) 0 OAbsent)
     = Ok [(t, 0); ([97;47;35], 2)].
Proof. vm_compute. repeat split; reflexivity. Qed.

Example C19_subscribe_rejections :
  let t := [109;121;47;116] in
  map (fun va => subscribe_norm (fst va) (snd va))
    [ (V311, mk_sub_arg (TItem (IStr [97;47;35;47;98])) 0 OAbsent);          (* '#' not last *)
      (V311, mk_sub_arg (TItem (IStr [97;43])) 0 OAbsent);                   (* '+' sharing a level *)
      (V5,   mk_sub_arg (TItem (IStr [])) 0 OAbsent);                        (* empty filter *)
      (V311, mk_sub_arg (TItem (IStr t)) 3 OAbsent);                         (* QoS 3 *)
      (V5,   mk_sub_arg (TList []) 0 OAbsent);                               (* empty list *)
      (V311, mk_sub_arg (TTuple (IStr t) (QOpts 1)) 0 OAbsent);              (* v5-only form with MQTT 3.1.1 *)
      (V311, mk_sub_arg (TList [EPair (IStr t) (QOpts 1)]) 0 OAbsent);
      (V5,   mk_sub_arg (TItem INone) 0 OAbsent) ]
  = [Raise 1; Raise 1; Raise 1; Raise 1; Raise 1; Raise 2; Raise 1; Raise 1].
Proof. vm_compute. reflexivity. Qed.
