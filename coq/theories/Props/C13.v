(* C13 - outgoing QoS 1/2 messages keep publish() order, also when retransmitted.
   [c13_ok] (Session/Check.v): on every connection the first transmissions (PUBLISH, or PUBREL for a message
   that is past PUBREC) of the messages accepted before the connection was opened occur in publish() order,
   and so do the first PUBLISHes of the messages accepted while it is open, whether sent at once or released
   from the window later.  That all of them are transmitted is C01. *)
From PahoV Require Import Base.Prelude Session.Model Session.Check Session.Statements Session.C13Proofs.

Theorem C13_publish_order_kept : forall c ops,
  cfg_ok c = true -> conforming c ops = true -> c13_ok c (optrace c ops) = true.
Proof. exact c13_proved. Qed.
Print Assumptions C13_publish_order_kept.

Example C13_nonvacuous :
  let c := mkCfg 0 2 0 false false in
  let ops := [OPublish 1; OPublish 2; OPublish 1; OReconnect true; OPublish 1; ORx (IConnack 0) false;
              ORx (IPuback 1) false; ORx (IPubrec 2) false; ORx (IPubcomp 2) false] in
  cfg_ok c = true /\ conforming c ops = true /\
  c13_ok c [[Ret 0 1 1 4]; [Ret 1 2 1 4]; [Reconn; SockOpened 1; Tx 1 PConnect];
            [Inp (IConnack 0); Tx 1 (PPublish 2 1 false 1); Tx 1 (PPublish 1 1 false 0)]] = false.
Proof. vm_compute. repeat split; reflexivity. Qed.
