(* C13 - outgoing QoS 1/2 messages keep publish() order, also when retransmitted.
   [c13_ok] (Session/Check.v): on every connection the first transmissions (PUBLISH, or PUBREL for a message
   that is past PUBREC) of the messages accepted before the connection was opened occur in publish() order,
   and so do the first PUBLISHes of the messages accepted while it is open, whether sent at once or released
   from the window later.  That all of them are transmitted is C01. *)
From PahoV Require Import Base.Prelude Session.Model Session.Check Session.Statements Session.C13Proofs.

Theorem C13_publish_order_kept : forall c ops,
  cfg_ok c = true -> conforming c ops = true -> c13_ok c (optrace c ops) = true.
Proof. exact c13_proved. Qed.
Print Assumptions C13_publish_order_kept.

Example C13_nonvacuous :
  let c := mkCfg 0 2 0 false false in
  let ops := [OPublish 1; OPublish 2; OPublish 1; OReconnect true; OPublish 1; ORx (IConnack 0) false;
              ORx (IPuback 1) false; ORx (IPubrec 2) false; ORx (IPubcomp 2) false] in
  cfg_ok c = true /\ conforming c ops = true /\
  c13_ok c [[Ret 0 1 1 4]; [Ret 1 2 1 4]; [Reconn; SockOpened 1; Tx 1 PConnect];
            [Inp (IConnack 0); Tx 1 (PPublish 2 1 false 1); Tx 1 (PPublish 1 1 false 0)]] = false.
Proof. vm_compute. repeat split; reflexivity. Qed.

(* ------------------------------------------------------------------------------------------
   Tie to the source: the message-state methods of client.py this property rests on are translated from
   the Python AST on every run (tools/py2v/msgstate.py -> Gen/GenMsgState.v) and proved equal to the
   functions of the hand model (Session/MsgStateBridge.v).  A semantic change to one of these methods
   changes the generated text and the corresponding theorem below stops compiling. *)
From PahoV Require Import Base.Prelude Codec.Mid Session.Model Session.Lemmas Session.Inv
  Session.MsgStateLib Gen.GenMsgState Session.MsgStateBridge.
From PahoV Require Import Props.MsgStateTie.

Theorem C13_tie_summaries :
  gen_summaries_ok = true.
Proof. exact tie_summaries. Qed.
Print Assumptions C13_tie_summaries.

Theorem C13_tie_store_writers :
  gen_store_writers = store_writers_expected.
Proof. exact tie_store_writers. Qed.
Print Assumptions C13_tie_store_writers.

Theorem C13_tie_reset_out :
  forall c clean infl0 l,
  Forall (fun m => qos_okb m = true) l ->
  gen_reset_out (c_max c) clean l infl0 = (let (r, n) := reset_out_list c clean 0 l in (r, n, Ok tt)).
Proof. exact tie_reset_out. Qed.
Print Assumptions C13_tie_reset_out.

Theorem C13_tie_connack_loop :
  forall cn tagof l calls,
  Forall (fun m => qos_okb m = true) l ->
  exists calls',
    gen_connack_loop true l calls = (fst (connack_loop cn l), calls', Ok MQTT_ERR_SUCCESS) /\
    ext cn tagof calls calls' (snd (connack_loop cn l)).
Proof. exact tie_connack_loop. Qed.
Print Assumptions C13_tie_connack_loop.

Theorem C13_tie_update_inflight :
  forall c cn tagof l infl calls,
  Forall (fun m => qos_okb m = true) l ->
  exists calls',
    gen_update_inflight (c_max c) true l infl calls =
      (fst (fst (update_inflight c cn infl l)), snd (fst (update_inflight c cn infl l)), calls', Ok MQTT_ERR_SUCCESS) /\
    ext cn tagof calls calls' (snd (update_inflight c cn infl l)).
Proof. exact tie_update_inflight. Qed.
Print Assumptions C13_tie_update_inflight.

Theorem C13_tie_publish_qos12 :
  forall c s q blank tagof,
  q = 1 \/ q = 2 ->
  let mid := mid_next (last_mid s) in
  let tag := ntag s in
  let s1 := mkS (out s) (inm s) (inflight s) mid (sock s) (first s) (cack s) (conn s) (tag + 1) in
  let '(o, n, calls, r) :=
    gen_publish_qos12 (c_max c) (c_maxq c) (sock s) mid q tag blank (out s) (inflight s) [] in
  exists rc, r = Ok rc /\
    do_publish c s q = (with_out s1 o n, evs (conn s) tagof calls ++ [Ret tag mid q rc]) /\
    forallb sent_waitb calls = true.
Proof. exact tie_publish_qos12. Qed.
Print Assumptions C13_tie_publish_qos12.

(* ------------------------------------------------------------------------------------------
   The same property on the second-generation session model (coq/theories/Session2): the client's
   output queue and a transport that ACCEPTS writes, REFUSES them (BlockingIOError) or FAILS HARD (OSError: the
   connection is torn down inside the write) are modelled; events distinguish a packet
   HANDED to the connection from a packet WRITTEN; reconnect() drops what is still queued.
   Every theorem below quantifies over ALL conforming histories, hard write failures included. *)
From PahoV Require Import Session2.Model Session2.Check Session2.Statements Session2.FifoProofs Session2.C13Transfer Session2.C13Proofs.

(* publish() order of the hand-overs per connection *)
Theorem C13_order_handed_with_blocking : forall c ops,
  cfg_ok c = true -> conforming c ops = true -> c13_handed_ok c (optrace c ops) = true.
Proof. exact c13_handed_proved. Qed.
Print Assumptions C13_order_handed_with_blocking.

(* publish() order of the writes per connection (FIFO queue) *)
Theorem C13_order_written_with_blocking : forall c ops,
  cfg_ok c = true -> conforming c ops = true -> c13_tx_ok c (optrace c ops) = true.
Proof. exact c13_tx_proved. Qed.
Print Assumptions C13_order_written_with_blocking.
