(* C13 - outgoing QoS 1/2 messages keep publish() order, also when retransmitted.
   [c13_ok] (Session/Check.v): on every connection the first transmissions (PUBLISH, or PUBREL for a message
   that is past PUBREC) of the messages accepted before the connection was opened occur in publish() order,
   and so do the first PUBLISHes of the messages accepted while it is open, whether sent at once or released
   from the window later.  That all of them are transmitted is C01. *)
From PahoV Require Import Base.Prelude Session.Model Session.Check Session.Statements Session.C13Proofs.

Theorem C13_publish_order_kept : forall c ops,
  cfg_ok c = true -> conforming c ops = true -> c13_ok c (optrace c ops) = true.
Proof. exact c13_proved. Qed.
Print Assumptions C13_publish_order_kept.

Example C13_nonvacuous :
  let c := mkCfg 0 2 0 false false in
  let ops := [OPublish 1; OPublish 2; OPublish 1; OReconnect true; OPublish 1; ORx (IConnack 0) false;
              ORx (IPuback 1) false; ORx (IPubrec 2) false; ORx (IPubcomp 2) false] in
  cfg_ok c = true /\ conforming c ops = true /\
  c13_ok c [[Ret 0 1 1 4]; [Ret 1 2 1 4]; [Reconn; SockOpened 1; Tx 1 PConnect];
            [Inp (IConnack 0); Tx 1 (PPublish 2 1 false 1); Tx 1 (PPublish 1 1 false 0)]] = false.
Proof. vm_compute. repeat split; reflexivity. Qed.

(* ------------------------------------------------------------------------------------------
   The same property on the second-generation session model (coq/theories/Session2): the client's
   output queue and a transport that may refuse writes are modelled; events distinguish a packet
   HANDED to the connection from a packet WRITTEN; reconnect() drops what is still queued. *)
From PahoV Require Import Session2.Model Session2.Check Session2.Statements Session2.FifoProofs Session2.C13Transfer Session2.C13Proofs.

(* publish() order of the hand-overs per connection *)
Theorem C13_order_handed_with_blocking : forall c ops,
  cfg_ok c = true -> conforming c ops = true -> c13_handed_ok c (optrace c ops) = true.
Proof. exact c13_handed_proved. Qed.
Print Assumptions C13_order_handed_with_blocking.

(* publish() order of the writes per connection (FIFO queue) *)
Theorem C13_order_written_with_blocking : forall c ops,
  cfg_ok c = true -> conforming c ops = true -> c13_tx_ok c (optrace c ops) = true.
Proof. exact c13_tx_proved. Qed.
Print Assumptions C13_order_written_with_blocking.
