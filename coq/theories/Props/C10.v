(* C10 - connection state and the on_connect/on_disconnect contract, over the Conn model
   (Link/Conn.v: connect/reconnect/disconnect/publish/subscribe/loop_read/loop_write/loop_misc with
   per-send outcomes, broker packets, transport failures, keepalive inputs, and API calls made from
   inside every user callback).  The checkers are in Link/ConnCheck.v.  c10_ops_ok (Link/ConnStatements.v)
   is the conjunction of two exclusions, each the signature of an open finding and shown to be needed below:
   D (F-C10k, what is left of F-C10d) on_socket_open does not call reconnect(); R (F-C10i) on_socket_close/on_socket_unregister_write call only publish/subscribe,
   on_socket_register_write does not call reconnect(). *)
From PahoV Require Import Base.Prelude Link.Conn Link.ConnCheck Link.ConnInv Link.ConnStatements
  Link.C10Inv Link.C10Proofs Link.ConnRefuted Link.ConnFuel.

(* 1. is_connected() -> a socket is held, on it an accepting CONNACK was processed, no end since:
   at the end of every operation and at the entry of every user callback, except on_socket_close /
   on_socket_unregister_write while connect()/reconnect() replaces a connection (F-C10h) *)
Theorem C10_connected_sound_partial : forall c ops,
  cfg_ok c = true -> c10_ops_ok c ops = true -> c10_connected_x_ok (optrace c ops) = true.
Proof. exact c10_connected_proved. Qed.
Print Assumptions C10_connected_sound_partial.

(* 2. every connection end not caused by connect()/reconnect() has exactly one on_disconnect, no other
   on_disconnect occurs, client-generated result = success iff disconnect() was called *)
Theorem C10_one_disconnect_partial : forall c ops,
  cfg_ok c = true -> c10_ops_ok c ops = true -> c10_one_disconnect_ok (optrace c ops) = true.
Proof. exact c10_one_disconnect_proved. Qed.
Print Assumptions C10_one_disconnect_partial.

(* 3. per socket: first packet CONNECT, one CONNECT, nothing after DISCONNECT *)
Theorem C10_wire_shape_partial : forall c ops,
  cfg_ok c = true -> c10_ops_ok c ops = true -> c10_wire_ok (optrace c ops) = true.
Proof. exact c10_wire_proved. Qed.
Print Assumptions C10_wire_shape_partial.

(* the full-strength statements fail on the faithful model *)
Theorem C10_connected_sound_refuted : ~ (forall c ops, cfg_ok c = true -> c10_connected_ok (optrace c ops) = true).
Proof. exact C10_connected_refuted. Qed.
Print Assumptions C10_connected_sound_refuted.
Theorem C10_one_disconnect_full_refuted : ~ (forall c ops, cfg_ok c = true -> c10_one_disconnect_ok (optrace c ops) = true).
Proof. exact C10_one_disconnect_refuted. Qed.
Print Assumptions C10_one_disconnect_full_refuted.
Theorem C10_wire_shape_full_refuted : ~ (forall c ops, cfg_ok c = true -> c10_wire_ok (optrace c ops) = true).
Proof. exact C10_wire_refuted. Qed.
Print Assumptions C10_wire_shape_full_refuted.

(* the model's two fuels (callback nesting depth, _packet_write iterations) are never exhausted and no
   call from inside a callback self-deadlocks on _in_callback_mutex: the traces above are traces of
   complete executions.  No hypothesis on the operations. *)
Theorem C10_model_complete : forall c ops,
  no_fuel_ok (optrace c ops) = true /\ no_deadlock_ok (optrace c ops) = true.
Proof. exact conn_model_complete. Qed.
Print Assumptions C10_model_complete.

(* each exclusion is needed: dropping it alone admits a run of the model that violates a clause; and the
   witnesses of the defects repaired in /repo (F-C10d, e, f, g, j) now satisfy every clause *)
Example C10_exclusions_needed :
  (c10_ops_sel false true extloop_cb w_D = true /\ c10_wire_ok (optrace extloop_cb w_D) = false) /\
  (c10_ops_sel true false extloop w_R = true /\ c10_one_disconnect_ok (optrace extloop w_R) = false) /\
  (c10_ops_sel true false direct_cb w_R2 = true /\ c10_one_disconnect_ok (optrace direct_cb w_R2) = false).
Proof. vm_compute. repeat split; reflexivity. Qed.
Example C10_repaired_defects_hold :
  all_c10 direct w_E = true /\ all_c10 direct w_E2 = true /\ all_c10 direct w_F = true /\
  all_c10 direct w_G = true /\ all_c10 direct w_C = true /\
  all_c10 direct_cb w_D_old = true /\ all_c10 extloop_cb w_D_ext = true.
Proof. exact C10_repaired_witnesses. Qed.

(* non-vacuity: a history with a refused connection, a server DISCONNECT, a keepalive expiry, a completed
   disconnect(), nested publish()/reconnect() in callbacks satisfies the hypotheses, produces the events the
   clauses speak about, and each checker rejects a bad trace *)
Definition nv_ops : list op :=
  [ O (TConnect true);
    mkOp (TLoopRead (IConnack 0)) [] (mkScr [[APublish0; ASubscribe]] [] [] [] [] [] [] []);
    O (TLoopMisc MDue); O (TLoopMisc MDue);
    O (TReconnect true); O (TLoopRead (IConnack 0));
    mkOp (TLoopRead IEof) [] (mkScr [] [[AReconnect true]] [] [] [] [] [] []);
    O (TLoopRead (IConnack 5));
    O (TReconnect true); O (TReconnect true); O (TLoopRead (IConnack 0)); Os TPublish0 [OPart; OBlock]; O TLoopWrite;
    O TDisconnect ].
Example C10_nonvacuous :
  c10_ops_ok direct nv_ops = true /\
  length (filter (fun e => match e with CbDisconnect _ _ => true | _ => false end) (concat (optrace direct nv_ops))) = 4%nat /\
  length (filter (fun e => match e with ConnEnd _ _ => true | _ => false end) (concat (optrace direct nv_ops))) = 5%nat /\
  c10_connected_x_ok [[SockNew 1; Obs WEnd true true false false]] = false /\
  c10_one_disconnect_ok [[SockNew 1; ConnEnd 1 RError; CbDisconnect 7 false; CbDisconnect 7 false]] = false /\
  c10_one_disconnect_ok [[SockNew 1; ConnEnd 1 RError]] = false /\
  c10_one_disconnect_ok [[SockNew 1; ConnEnd 1 RError; CbDisconnect 0 false]] = false /\
  c10_wire_ok [[SockNew 1; Tx 1 KPublish0; Tx 1 KConnect]] = false /\
  c10_wire_ok [[SockNew 1; Tx 1 KConnect; Tx 1 KDisconnect; Tx 1 KPublish0]] = false.
Proof. vm_compute. repeat split; reflexivity. Qed.

(* loop_read() while messages are stored handles several packets in one call (TLoopReadN: one input per packet, each
   iteration with its own snapshot of the socket): the theorems above quantify over such operations too.  Here the
   CONNACK rc 1 of the first packet makes the client replace the socket (downgrade retry) and the SAME call reads the
   end of the new connection: that connection ends with exactly one on_disconnect and nothing claims to be connected. *)
Definition nv_multi : list op :=
  [ O (TConnect true); O (TLoopReadN [IConnackDowngrade true; IEof]);
    O (TReconnect true);
    mkOp (TLoopReadN [IConnack 0; IConnack 5]) [] (mkScr [[AReconnect true]] [] [] [] [] [] [] []);
    O (TReconnect true); O (TLoopReadN [IConnack 0; IPingreq; IRecvError]) ].
Example C10_multi_packet_read :
  c10_ops_ok direct nv_multi = true /\ all_c10 direct nv_multi = true /\
  length (filter (fun e => match e with CbDisconnect _ _ => true | _ => false end) (concat (optrace direct nv_multi))) = 3%nat /\
  length (filter (fun e => match e with ConnEnd _ _ => true | _ => false end) (concat (optrace direct nv_multi))) = 5%nat.
Proof. vm_compute. repeat split; reflexivity. Qed.
