(* C20 - one-shot helpers: publish.single()/multiple(), subscribe.simple()/callback().
   Only statements, each closed by [exact]; model: Session/Helpers.v (the callback programs of
   publish.py / subscribe.py transliterated over the userdata), proofs: Session/HelpersProofs.v.

   Interface assumptions (the client underneath; the cooperative environments [coop] / [coop_sub]):
   against a conforming broker the client calls on_connect(0) once, completes every accepted publish()
   by exactly one on_publish (C01 for QoS 1/2; QoS 0: _packet_write, C06), calls on_message once per
   delivered message in arrival order (C03; C15 with no per-topic callback) and loop_forever() returns
   once the DISCONNECT requested by disconnect() has been written (C09/C10).  The safety theorems
   (4-6, 12, 14) hold for ARBITRARY callback sequences and do not use these assumptions.
   The model is tied to /repo by harness/c20.py: the real callbacks on arbitrary callback sequences
   and the real helpers end to end against an in-memory broker (tcp and websockets).

   Messages are identified by a tag (their index); [p_form] dict/tuple/list, [p_bad] "client.publish
   raises for these arguments".  Lists of any length. *)
From PahoV Require Import Base.Prelude Session.Helpers Session.HelpersProofs.

(* ------------------------------------------------------------------ publish.multiple / single *)

(* 1. every given message exactly once, in list order, with its own qos / retain / identity, then
      exactly one disconnect(); the deque is empty and no exception left the helper *)
Theorem C20_multiple : forall msgs, msgs <> [] -> msgs_valid msgs = true ->
  h_multiple msgs (coop msgs) = (mkPst [] false, map APublish msgs ++ [ADisconnect]).
Proof. exact multiple_coop. Qed.
Print Assumptions C20_multiple.

(* 2. the same through the checker that also judges traces recorded from the implementation *)
Theorem C20_multiple_checked : forall msgs, msgs <> [] -> msgs_valid msgs = true ->
  c20_pub_complete msgs (snd (h_multiple msgs (coop msgs))) = true.
Proof. exact multiple_coop_checked. Qed.
Print Assumptions C20_multiple_checked.

(* 3. that checker accepts exactly one trace *)
Theorem C20_complete_checker_exact : forall msgs out,
  c20_pub_complete msgs out = true <-> out = map APublish msgs ++ [ADisconnect].
Proof. exact c20_pub_complete_iff. Qed.
Print Assumptions C20_complete_checker_exact.

(* 4. safety, for any list (valid or not) and ANY sequence of on_connect(rc) / on_publish callbacks
      (spurious or missing completions, repeated or refused CONNACKs): [c20_pub_ok] holds *)
Theorem C20_multiple_safety : forall msgs evs, c20_pub_ok msgs (snd (h_multiple msgs evs)) = true.
Proof. exact multiple_safe. Qed.
Print Assumptions C20_multiple_safety.

(* 5. ... which means: the published messages are a prefix of the list in list order (so none is
      published twice and none out of order), disconnect() is called only after the whole list was
      published, and nothing happens after an exception *)
Theorem C20_multiple_safety_meaning : forall msgs evs,
  let out := snd (h_multiple msgs evs) in
  (exists rest, msgs = pubs out ++ rest)
  /\ (forall a b, out = a ++ ADisconnect :: b -> pubs a = msgs)
  /\ (forall a k b, out = a ++ ARaise k :: b -> b = []).
Proof. exact multiple_safe_explained. Qed.
Print Assumptions C20_multiple_safety_meaning.

(* 6. _do_publish never pops from an empty deque *)
Theorem C20_no_index_error : forall msgs evs, ~ In (ARaise 6) (snd (h_multiple msgs evs)).
Proof. exact multiple_no_index_error. Qed.
Print Assumptions C20_no_index_error.

(* 7. single(topic, payload, qos, retain) is multiple([{...}]) *)
Theorem C20_single : forall tag qos retain,
  (0 <=? qos) && (qos <=? 2) = true ->
  let m := mkP tag qos retain 0 false in
  h_single tag qos retain false (coop [m]) = (mkPst [] false, [APublish m; ADisconnect]).
Proof. exact single_coop. Qed.
Print Assumptions C20_single.

Theorem C20_single_is_multiple : forall tag qos retain bad evs,
  h_single tag qos retain bad evs = h_multiple [mkP tag qos retain 0 bad] evs.
Proof. exact single_is_multiple. Qed.
Print Assumptions C20_single_is_multiple.

(* ------------------------------------------------------------------ subscribe.simple *)

(* 8. simple(): one subscribe per topic in order, then - for EVERY inbound sequence with at least
      msg_count messages passing the retained filter - the value returned is the first msg_count
      passing messages in arrival order, a single object iff msg_count = 1, and disconnect() is called
      exactly once *)
Theorem C20_simple : forall tp qos n retained ins,
  1 <= n -> qos_bad qos = false -> enough n retained ins = true ->
  exists ret,
    h_simple tp qos n retained (coop_sub ins) = (ret, subs tp qos ++ [SDisconnect])
    /\ ret_list ret = simple_collect n retained ins
    /\ ret_is_single ret = (n =? 1)
    /\ hlen (ret_list ret) = n.
Proof. exact simple_returns. Qed.
Print Assumptions C20_simple.

(* 9. closed form for every inbound sequence, enough messages or not *)
Theorem C20_simple_closed : forall tp qos n retained ins, 1 <= n -> qos_bad qos = false ->
  h_simple tp qos n retained (coop_sub ins) =
  (simple_result n retained ins,
   subs tp qos ++ (if enough n retained ins then [SDisconnect] else [])).
Proof. exact simple_closed. Qed.
Print Assumptions C20_simple_closed.

(* 10. disconnect() is issued exactly when the count is reached - by the msg_count-th passing
       message, not before - and everything after it is ignored (outputs and returned value) *)
Theorem C20_simple_disconnect_point : forall tp qos n retained pre m post,
  1 <= n -> qos_bad qos = false ->
  pass retained m = true -> hlen (filter (pass retained) pre) = n - 1 ->
  snd (h_simple tp qos n retained (coop_sub pre)) = subs tp qos
  /\ snd (h_simple tp qos n retained (coop_sub (pre ++ [m]))) = subs tp qos ++ [SDisconnect]
  /\ h_simple tp qos n retained (coop_sub (pre ++ m :: post)) =
     h_simple tp qos n retained (coop_sub (pre ++ [m])).
Proof. exact simple_disconnect_point. Qed.
Print Assumptions C20_simple_disconnect_point.

(* 11. outside the statement: fewer than msg_count passing messages (e.g. retained=False and only
       retained messages) - disconnect() is never called, simple() does not return *)
Theorem C20_simple_starved : forall tp qos n retained ins,
  1 <= n -> qos_bad qos = false -> enough n retained ins = false ->
  h_simple tp qos n retained (coop_sub ins) = (simple_result n retained ins, subs tp qos)
  /\ ret_list (simple_result n retained ins) = filter (pass retained) ins
  /\ disconnects (snd (h_simple tp qos n retained (coop_sub ins))) = 0.
Proof. exact simple_starved. Qed.
Print Assumptions C20_simple_starved.

(* 12. any interleaving of accepted CONNACKs and messages (messages before the SUBACK, a second
       CONNACK with its re-subscription): result and disconnect depend on the message sequence only *)
Theorem C20_simple_any_order : forall tp qos n retained evs,
  1 <= n -> qos_bad qos = false -> connacks_ok evs = true ->
  fst (h_simple tp qos n retained evs) = simple_result n retained (messages_of evs)
  /\ nonsub (snd (h_simple tp qos n retained evs)) =
     if enough n retained (messages_of evs) then [SDisconnect] else [].
Proof. exact simple_any_order. Qed.
Print Assumptions C20_simple_any_order.

(* ------------------------------------------------------------------ subscribe.callback *)

(* 13. callback(): one subscribe per topic in order, then the user callback once per delivered
       message, in arrival order, with that message *)
Theorem C20_callback : forall tp qos ins, qos_bad qos = false ->
  h_callback tp qos (coop_sub ins) = subs tp qos ++ map SUser ins.
Proof. exact callback_coop. Qed.
Print Assumptions C20_callback.

(* 14. ... also for any interleaving with accepted CONNACKs *)
Theorem C20_callback_any_order : forall tp qos evs,
  qos_bad qos = false -> connacks_ok evs = true ->
  users (h_callback tp qos evs) = messages_of evs.
Proof. exact callback_any. Qed.
Print Assumptions C20_callback_any_order.

(* 15. a string is one subscribe, a list is one subscribe per element in list order *)
Theorem C20_subscribe_topics : forall qos,
  (forall t, subs (TSingle t) qos = [SSubscribe t qos])
  /\ (forall l, subs (TList l) qos = map (fun t => SSubscribe t qos) l).
Proof. exact subs_shape. Qed.
Print Assumptions C20_subscribe_topics.

(* ------------------------------------------------------------------ outside the quantifier *)

(* 16. a message the client rejects (QoS 3, wildcard topic, unknown dict key, not a dict/tuple/list)
       anywhere in the list: the messages before it ARE published, then the exception leaves
       multiple() - no DISCONNECT, the rest of the list is dropped.  multiple() does not validate
       the list before it starts. *)
Theorem C20_multiple_invalid_not_atomic : forall pre m post more,
  msgs_valid pre = true -> msg_valid m = false ->
  h_multiple (pre ++ m :: post) (EConnack 0 :: map (fun _ => EPublished) pre ++ more) =
  (mkPst post true, map APublish pre ++ [ARaise (if form_ok m then 1 else 2)]).
Proof. exact multiple_invalid_not_atomic. Qed.
Print Assumptions C20_multiple_invalid_not_atomic.

(* 17. argument checks and a refused connection *)
Theorem C20_simple_bad_count : forall tp qos n retained evs, n < 1 ->
  h_simple tp qos n retained evs = (MNone, [SRaise 1]).
Proof. exact simple_bad_count. Qed.
Print Assumptions C20_simple_bad_count.

Theorem C20_callback_bad_qos : forall tp qos evs, qos_bad qos = true -> h_callback tp qos evs = [SRaise 1].
Proof. exact callback_bad_qos. Qed.
Print Assumptions C20_callback_bad_qos.

Theorem C20_subscribe_refused : forall tp qos n retained rc evs,
  1 <= n -> qos_bad qos = false -> rc =? 0 = false ->
  snd (h_simple tp qos n retained (SEConnack rc :: evs)) = [SRaise 3]
  /\ h_callback tp qos (SEConnack rc :: evs) = [SRaise 3].
Proof. exact sub_refused. Qed.
Print Assumptions C20_subscribe_refused.

(* ------------------------------------------------------------------ non-vacuity *)

(* a mixed list (dict / tuple / list forms, QoS 0 1 2, retain, a duplicate) satisfies the hypotheses
   and really produces publishes; the checkers are not constantly true *)
Example C20_multiple_nonvacuous :
  let a := mkP 0 0 false 0 false in let b := mkP 1 1 true 1 false in
  let c := mkP 2 2 false 2 false in let d := mkP 3 1 true 1 false in
  let msgs := [a; b; c; d] in
  msgs_valid msgs = true
  /\ snd (h_multiple msgs (coop msgs)) = [APublish a; APublish b; APublish c; APublish d; ADisconnect]
  /\ c20_pub_complete msgs [APublish a; APublish c; APublish b; APublish d; ADisconnect] = false
  /\ c20_pub_complete msgs [APublish a; APublish b; APublish c; APublish d] = false
  /\ c20_pub_ok msgs [APublish a; APublish a] = false
  /\ c20_pub_ok msgs [APublish a; ADisconnect] = false
  /\ c20_pub_ok msgs [APublish b] = false.
Proof. vm_compute. repeat split; reflexivity. Qed.

(* arbitrary callbacks: a second CONNACK, spurious completions, a refused CONNACK at the end *)
Example C20_safety_nonvacuous :
  let a := mkP 0 0 false 0 false in let b := mkP 1 1 true 1 false in
  snd (h_multiple [a; b] [EPublished; EConnack 0; EConnack 0; EPublished; EPublished; EConnack 5; EPublished]) =
    [APublish a; APublish b; ADisconnect; ADisconnect; ARaise 3]
  /\ snd (h_multiple [] (coop [])) = [ARaise 1].
Proof. vm_compute. split; reflexivity. Qed.

(* witness for 16: [valid; QoS 3; valid] - the first message is published, ValueError, no DISCONNECT *)
Example C20_invalid_witness :
  let a := mkP 0 1 false 0 false in let bad := mkP 1 3 false 0 false in let c := mkP 2 0 false 0 false in
  msg_valid bad = false
  /\ h_multiple [a; bad; c] (coop [a; bad; c]) = (mkPst [c] true, [APublish a; ARaise 1]).
Proof. vm_compute. split; reflexivity. Qed.

(* simple(): retained filter, count, single object vs list, later messages ignored, starvation *)
Example C20_simple_nonvacuous :
  let m0 := mkI 0 0 true in let m1 := mkI 1 2 false in let m2 := mkI 2 1 true in
  let m3 := mkI 3 0 false in let m4 := mkI 4 1 false in
  let ins := [m0; m1; m2; m3; m4] in
  enough 2 false ins = true
  /\ h_simple (TList [7; 8]) 1 2 false (coop_sub ins) =
       (MList [m1; m3], [SSubscribe 7 1; SSubscribe 8 1; SDisconnect])
  /\ h_simple (TSingle 7) 0 1 false (coop_sub ins) = (MSingle m1, [SSubscribe 7 0; SDisconnect])
  /\ h_simple (TSingle 7) 0 1 true (coop_sub ins) = (MSingle m0, [SSubscribe 7 0; SDisconnect])
  /\ h_simple (TSingle 7) 2 3 true (coop_sub ins) = (MList [m0; m1; m2], [SSubscribe 7 2; SDisconnect])
  /\ enough 1 false [m0; m2] = false
  /\ h_simple (TSingle 7) 0 1 false (coop_sub [m0; m2]) = (MNone, [SSubscribe 7 0])
  /\ h_callback (TList [7; 8]) 2 (coop_sub [m0; m1]) = [SSubscribe 7 2; SSubscribe 8 2; SUser m0; SUser m1].
Proof. vm_compute. repeat split; reflexivity. Qed.
