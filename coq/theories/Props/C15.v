(* C15 - per-topic callbacks: exactly the matching handlers run, else on_message.
   Only statements, each closed by [exact]; model and checker: Matcher/Dispatch.v
   (message_callback_add/remove, _handle_on_message over the trie of Matcher/Trie.v),
   proofs: Matcher/DispatchProofs.v, resting on C11 (Matcher/TrieRefine.v).
   Histories: registration changes from the main program and from inside running callbacks
   (HDeliver's [inner]), deliveries of decodable and undecodable topics.  QoS does not appear: all
   three QoS paths of the client end in the same _handle_on_message call (exercised by harness/c15.py). *)
From PahoV Require Import Base.Prelude Matcher.Level Matcher.Trie Matcher.TrieSpec
  Matcher.TrieRefine Matcher.Dispatch Matcher.DispatchProofs.
From Coq Require Import Permutation String Ascii.

(* 1. For every history whose delivered (decodable) topics are valid topic names, every delivery in the
      log satisfies the checker [delivery_ok] against the registrations in force when it started:
      the filtered callbacks that ran = the callbacks of the registered filters that spec-match the
      topic, as multisets (each registration exactly once, removed / replaced / non-matching ones
      not at all); on_message ran exactly once iff no registration matches (and on_message is set);
      undecodable topic => no filtered callback. *)
(*    [sup] = client.suppress_exceptions; handlers may raise ([HDeliver]'s [raises]): with suppress_exceptions a raising
      handler is logged and the remaining handlers still run, so the statement holds for arbitrary raising handlers;
      without it the statement is for handlers that do not raise (a propagating exception ends the dispatch: 6.). *)
Theorem C15_all_histories : forall sup h, deliveries_valid h = true -> sup = true \/ no_raise h = true ->
  c15_ok (h_log sup h) = true.
Proof. exact c15_all_histories. Qed.
Print Assumptions C15_all_histories.

(* 2. the multiset comparison inside the checker is exact *)
Theorem C15_checker_exact : forall l1 l2, perm_zb l1 l2 = true <-> Permutation l1 l2.
Proof. exact perm_zb_iff. Qed.
Print Assumptions C15_checker_exact.

(* 3. the dispatch lemma in explicit form, for any state representing registrations [d] *)
Theorem C15_dispatch : forall s d on_msg topic,
  c_sim s d on_msg -> no_wild_level (split_slash topic) = true ->
  let ran := dispatch s true topic in
  let expected := d_matching d (split_slash topic) in
  Permutation (ran_filtered ran) expected
  /\ ran_on_message ran = (if is_nil expected && on_msg then 1 else 0).
Proof. exact dispatch_spec. Qed.
Print Assumptions C15_dispatch.

(* 4. a message whose topic is not valid UTF-8 is delivered to on_message only *)
Theorem C15_undecodable : forall s topic,
  dispatch s false topic = if on_message s then [HOnMessage] else [].
Proof. exact dispatch_undecodable. Qed.
Print Assumptions C15_undecodable.

(* 5. what the handlers of a delivery do to the registrations does not change what that delivery runs *)
Theorem C15_snapshot : forall sup s topic dec inner inner' raises,
  hd (LDeliver [] false []) (snd (h_step sup (HDeliver topic dec inner raises) s)) =
  hd (LDeliver [] false []) (snd (h_step sup (HDeliver topic dec inner' raises) s)).
Proof. exact dispatch_snapshot. Qed.
Print Assumptions C15_snapshot.

(* Outside the hypothesis of 1: an inbound PUBLISH whose topic name contains a level "+" (forbidden by
   [MQTT-3.3.2-2]; the client does not reject it) runs the callback registered for "a/+" twice. *)
Theorem C15_wildcard_topic_name_runs_twice :
  let h := [HReg (RAdd [97; 47; 43] 1); HDeliver [97; 47; 43] true [] []] in
  h_log true h = [LReg (RAdd [97; 47; 43] 1); LDeliver [97; 47; 43] true [HFiltered 1; HFiltered 1]]
  /\ c15_ok (h_log true h) = false.
Proof. exact c15_wildcard_topic_double. Qed.
Print Assumptions C15_wildcard_topic_name_runs_twice.

(* 6. Outside the hypothesis of 1: without suppress_exceptions a handler that raises ends the dispatch (the exception
      reaches the caller of loop_read()); with suppress_exceptions the same history runs every matching handler *)
Theorem C15_propagating_exception_cuts_dispatch :
  let h := [HReg (RAdd [97] 1); HReg (RAdd [43] 2); HDeliver [97] true [] [true]] in
  h_log false h = [LReg (RAdd [97] 1); LReg (RAdd [43] 2); LDeliver [97] true [HFiltered 1]]
  /\ c15_ok (h_log false h) = false
  /\ h_log true h = [LReg (RAdd [97] 1); LReg (RAdd [43] 2); LDeliver [97] true [HFiltered 1; HFiltered 2]]
  /\ c15_ok (h_log true h) = true.
Proof. exact c15_propagating_exception_cuts_dispatch. Qed.
Print Assumptions C15_propagating_exception_cuts_dispatch.

(* ---------------------------------------------------------------- non-vacuity *)
Definition b (s : string) : list Z := map (fun a => Z.of_N (N_of_ascii a)) (list_ascii_of_string s).

(* overlapping wildcard filters, '$' topic, replacement, removal from inside a callback, undecodable topic;
   suppress_exceptions with handlers that raise *)
Example C15_history_ex :
  let h := [ HReg (RSetOnMessage true);
             HReg (RAdd (b "a/+") 1); HReg (RAdd (b "a/#") 2); HReg (RAdd (b "#") 3); HReg (RAdd (b "$SYS/#") 4);
             HDeliver (b "a/b") true [[RRemove (b "a/#")]; [RAdd (b "a/b") 5]; [RAdd (b "#") 6]; [RAdd (b "zz") 9]] [true; false; true];
             HDeliver (b "a/b") true [] [];
             HDeliver (b "$SYS/x") true [] [true];
             HDeliver (b "q") true [[RRemove (b "#")]] [];
             HDeliver (b "q") true [] [];
             HDeliver [255; 254] false [] [] ] in
  deliveries_valid h = true /\ no_raise h = false /\
  h_log true h =
  [ LReg (RSetOnMessage true);
    LReg (RAdd (b "a/+") 1); LReg (RAdd (b "a/#") 2); LReg (RAdd (b "#") 3); LReg (RAdd (b "$SYS/#") 4);
    LDeliver (b "a/b") true [HFiltered 1; HFiltered 2; HFiltered 3];
    LReg (RRemove (b "a/#")); LReg (RAdd (b "a/b") 5); LReg (RAdd (b "#") 6);
    LDeliver (b "a/b") true [HFiltered 5; HFiltered 1; HFiltered 6];
    LDeliver (b "$SYS/x") true [HFiltered 4];
    LDeliver (b "q") true [HFiltered 6]; LReg (RRemove (b "#"));
    LDeliver (b "q") true [HOnMessage];
    LDeliver [255; 254] false [HOnMessage] ].
Proof. repeat split; reflexivity. Qed.

(* the checker does reject wrong logs: a missing callback, a duplicate, a spurious on_message *)
Example C15_checker_rejects :
  c15_ok [LReg (RAdd (b "a/+") 1); LReg (RAdd (b "#") 2); LDeliver (b "a/b") true [HFiltered 1]] = false /\
  c15_ok [LReg (RAdd (b "a/+") 1); LDeliver (b "a/b") true [HFiltered 1; HFiltered 1]] = false /\
  c15_ok [LReg (RSetOnMessage true); LReg (RAdd (b "a/+") 1); LDeliver (b "a/b") true [HFiltered 1; HOnMessage]] = false /\
  c15_ok [LReg (RSetOnMessage true); LReg (RAdd (b "a/+") 1); LDeliver (b "a") true []] = false /\
  c15_ok [LReg (RAdd (b "a") 1); LReg (RRemove (b "a")); LDeliver (b "a") true [HFiltered 1]] = false /\
  c15_ok [LReg (RSetOnMessage true); LReg (RAdd (b "a") 1); LDeliver (b "a") false [HFiltered 1]] = false.
Proof. repeat split; reflexivity. Qed.
