(* C04 - every emitted packet is well-formed and carries exactly the values supplied.
   Only statements, each closed by [exact]; models: Codec/RemLen.v, Packets.v, PacketsApi.v (transliterated
   from client.py), Codec/SpecDecode.v (independent decoder from the OASIS texts), hypotheses and expected
   values: Codec/PacketsSpec.v; proofs: Codec/RemLenProofs.v, RemLenBridge.v, PacketsProofs.v,
   PacketsRejects.v, CleanProofs.v. *)
From PahoV Require Import Base.Prelude Codec.RemLen Codec.RemLenProofs Codec.RemLenBridge Codec.Wire
  Codec.Packets Codec.SpecDecode Codec.PacketsSpec Codec.PacketsApi Codec.PacketsProofs Codec.PacketsRejects
  Codec.CleanProofs Codec.PacketsBridge Gen.GenRL Gen.GenPubCmd Gen.GenConnFlags Gen.GenSendPublishCalls.

(* ================================================================ 1. remaining length *)
(* the source's _pack_remaining_length (translated on every run) is the model, for every n >= 0 *)
(* rl_pack n = if n >? 268435455 then Raise 1 (ValueError 'Packet too large.') else Ok (rl_encode n) *)
Theorem C04_source_rl_is_model : forall fuel pkt n,
  (0 < fuel)%nat -> 0 <= n < 128 ^ Z.of_nat fuel ->
  pack_remaining_length fuel pkt n =
  match rl_pack n with Ok l => Ok (pkt ++ l) | Raise k => Raise k | OutOfFuel => OutOfFuel end.
Proof. exact pack_remaining_length_bridge. Qed.
Print Assumptions C04_source_rl_is_model.

(* the repaired source refuses every length above the limit, before appending anything *)
Theorem C04_source_rl_rejects : forall fuel pkt n, 268435455 < n -> pack_remaining_length fuel pkt n = Raise 1.
Proof. exact pack_remaining_length_rejects. Qed.
Print Assumptions C04_source_rl_rejects.

Theorem C04_rl_roundtrip : forall n rest, 0 <= n <= 268435455 ->
  rl_decode (rl_encode n ++ rest) = Some (n, rest).
Proof. exact rl_roundtrip. Qed.
Print Assumptions C04_rl_roundtrip.

(* minimal: 1 byte up to 127, 2 up to 16383, 3 up to 2097151, 4 up to 268435455 *)
Theorem C04_rl_minimal : forall n, 0 <= n <= 268435455 ->
  Z.of_nat (length (rl_encode n)) =
  (if n <=? 127 then 1 else if n <=? 16383 then 2 else if n <=? 2097151 then 3 else 4).
Proof. exact rl_encode_length. Qed.
Print Assumptions C04_rl_minimal.

(* the last byte is below 128, every other byte is in 128..255 *)
Theorem C04_rl_shape : forall n, 0 <= n <= 268435455 ->
  exists front last, rl_encode n = front ++ [last] /\ 0 <= last < 128 /\ Forall (fun b => 128 <= b <= 255) front.
Proof. exact rl_encode_shape. Qed.
Print Assumptions C04_rl_shape.

Theorem C04_rl_boundaries :
  rl_encode 0 = [0] /\ rl_encode 127 = [127] /\ rl_encode 128 = [128; 1] /\
  rl_encode 16383 = [255; 127] /\ rl_encode 16384 = [128; 128; 1] /\
  rl_encode 2097151 = [255; 255; 127] /\ rl_encode 2097152 = [128; 128; 128; 1] /\
  rl_encode 268435455 = [255; 255; 255; 127] /\
  rl_encode 268435456 = [128; 128; 128; 128; 1] /\ rl_encode 268435458 = [130; 128; 128; 128; 1].
Proof. exact rl_boundaries. Qed.
Print Assumptions C04_rl_boundaries.

(* the flag bytes of _send_publish and _send_connect (clean-flag selection included), translated on every run *)
Theorem C04_source_publish_flags_is_model : forall fuel dup qos retain,
  gen_publish_command fuel (b2z dup) qos (b2z retain) = Ok (publish_command dup qos retain).
Proof. exact publish_command_bridge. Qed.
Print Assumptions C04_source_publish_flags_is_model.

Theorem C04_source_connect_flags_is_model : forall fuel v cls cs first bridge ka cid will user pw props,
  gen_connect_flags fuel (proto_level v) (cs_code cs) first cls
    (is_some will)
    (match will with Some w => w_qos w | None => 0 end)
    (match will with Some w => b2z (w_retain w) | None => 0 end)
    (is_some user) (is_some pw)
  = Ok (connect_flags {| c_bridge := bridge; c_clean := clean_flag v cls cs first; c_keepalive := ka;
                         c_client_id := cid; c_will := will; c_username := user; c_password := pw;
                         c_props := props |}).
Proof. exact connect_flags_bridge. Qed.
Print Assumptions C04_source_connect_flags_is_model.

(* the DEFERRED emission paths: every call site of _send_publish (publish(), the CONNACK retransmission loop,
   _update_inflight) passes the stored message's own mid/topic/payload/qos/retain/dup/properties - so, with
   C04_publish_roundtrip, the PUBLISH written later for a stored message decodes to the arguments given to publish() *)
Theorem C04_deferred_calls_pass_stored_arguments :
  forallb send_publish_call_ok gen_send_publish_calls = true /\ (6 <= length gen_send_publish_calls)%nat.
Proof. exact send_publish_calls_ok. Qed.
Print Assumptions C04_deferred_calls_pass_stored_arguments.

(* ================================================================ 2. round trip, every packet type *)
(* representable v it : every string <= 65535 bytes, keepalive <= 65535, packet id 1..65535 where sent,
   qos <= 2, remaining length <= 268435455, text fields well-formed UTF-8 without U+0000, ... (PacketsSpec.v) *)
Theorem C04_encode_ok : forall v it, representable v it = true -> encode v it = Ok (wire v it).
Proof. exact encode_ok. Qed.
Print Assumptions C04_encode_ok.

Theorem C04_roundtrip : forall v it rest, representable v it = true ->
  spec_decode v (wire v it ++ rest) = Some (packet_of v it, rest).
Proof. exact roundtrip. Qed.
Print Assumptions C04_roundtrip.

Theorem C04_connect_roundtrip : forall v a rest, representable_connect v a = true ->
  spec_decode v (connect_bytes v a ++ rest) = Some (packet_of_connect v a, rest).
Proof. exact connect_roundtrip. Qed.
Print Assumptions C04_connect_roundtrip.

Theorem C04_publish_roundtrip : forall v a rest, representable_publish v a = true ->
  spec_decode v (publish_bytes v a ++ rest) = Some (packet_of_publish v a, rest).
Proof. exact publish_roundtrip. Qed.
Print Assumptions C04_publish_roundtrip.

Theorem C04_ack_roundtrip : forall v kind mid rest, ack_kind_ok kind = true -> mid_ok mid = true ->
  spec_decode v (ack_bytes kind mid ++ rest) = Some (PAck kind mid 0 [], rest).
Proof. exact ack_roundtrip. Qed.
Print Assumptions C04_ack_roundtrip.

(* the packet-id hypothesis of the round trips is met by EVERY id the allocator of C14 can hand out
   (any counter state, any number of allocations and wraps): Codec/MidCodecTie.v *)
From PahoV Require Import Codec.Mid Codec.MidCodecTie.
Theorem C04_generated_ids_representable : forall k m, 0 <= m <= 65535 -> (0 < k)%nat ->
  mid_ok (mid_iter k m) = true.
Proof. exact mid_iter_representable. Qed.
Print Assumptions C04_generated_ids_representable.

Theorem C04_ack_roundtrip_generated_ids : forall v kind k m rest,
  ack_kind_ok kind = true -> 0 <= m <= 65535 -> (0 < k)%nat ->
  spec_decode v (ack_bytes kind (mid_iter k m) ++ rest) = Some (PAck kind (mid_iter k m) 0 [], rest).
Proof. exact ack_roundtrip_generated. Qed.
Print Assumptions C04_ack_roundtrip_generated_ids.

Theorem C04_ping_roundtrip : forall v resp rest,
  spec_decode v (ping_bytes resp ++ rest) = Some ((if resp then PPingresp else PPingreq), rest).
Proof. exact ping_roundtrip. Qed.
Print Assumptions C04_ping_roundtrip.

Theorem C04_disconnect_roundtrip : forall v reason props rest, representable_disconnect v reason props = true ->
  spec_decode v (disconnect_bytes v reason props ++ rest) = Some (packet_of_disconnect v reason props, rest).
Proof. exact disconnect_roundtrip. Qed.
Print Assumptions C04_disconnect_roundtrip.

Theorem C04_subscribe_roundtrip : forall v mid topics props rest,
  representable_subscribe v mid topics props = true ->
  spec_decode v (subscribe_bytes v mid topics props ++ rest) = Some (PSubscribe mid (vprops v props) topics, rest).
Proof. exact subscribe_roundtrip. Qed.
Print Assumptions C04_subscribe_roundtrip.

Theorem C04_unsubscribe_roundtrip : forall v mid topics props rest,
  representable_unsubscribe v mid topics props = true ->
  spec_decode v (unsubscribe_bytes v mid topics props ++ rest) = Some (PUnsubscribe mid (vprops v props) topics, rest).
Proof. exact unsubscribe_roundtrip. Qed.
Print Assumptions C04_unsubscribe_roundtrip.

(* SubscribeOptions.pack(): the decoder's field extraction inverts it *)
Theorem C04_subscribe_options : forall q nl rap rh, qos_ok q = true -> 0 <= rh <= 2 ->
  sub_opts_byte q nl rap rh = q + 4 * b2z nl + 8 * b2z rap + 16 * rh /\
  opt_ok V5 (sub_opts_byte q nl rap rh) = true /\
  opt_qos (sub_opts_byte q nl rap rh) = q /\ opt_nl (sub_opts_byte q nl rap rh) = nl /\
  opt_rap (sub_opts_byte q nl rap rh) = rap /\ opt_rh (sub_opts_byte q nl rap rh) = rh.
Proof. exact sub_opts_byte_arith. Qed.
Print Assumptions C04_subscribe_options.

(* everything written is a SEQUENCE of well-formed packets *)
Theorem C04_stream : forall v items fuel,
  forallb (representable v) items = true ->
  (length (concat (map (wire v) items)) <= fuel)%nat ->
  spec_decode_all fuel v (concat (map (wire v) items)) = Some (map (packet_of v) items).
Proof. exact stream_roundtrip. Qed.
Print Assumptions C04_stream.

(* ================================================================ 3. rejection *)
(* the inputs on which the model raises: any over-long string, keepalive or packet id outside 16 bits *)
Theorem C04_rejects : forall v it, struct_ok it = false -> exists k, encode v it = Raise k.
Proof. exact struct_rejects. Qed.
Print Assumptions C04_rejects.

(* FULL statements (PacketsRejects.v):
     C04_wellformed_full : whatever the API emits decodes to what was supplied
     C04_rejects_full    : what cannot be represented is rejected with an exception
   both are still REFUTED by the faithful model - by one family only, F-C04b (open): *)
Theorem C04_wellformed_refuted : ~ C04_wellformed_full.
Proof. exact wellformed_refuted. Qed.
Print Assumptions C04_wellformed_refuted.

Theorem C04_rejects_refuted : ~ C04_rejects_full.
Proof. exact rejects_refuted. Qed.
Print Assumptions C04_rejects_refuted.

(* the open family F-C04b: U+0000 in a topic is emitted *)
Theorem C04_nul_refuted : exists v c bs, api_pre v c = true /\ emit v c = Ok bs /\ spec_decode v bs = None.
Proof. exact nul_refuted. Qed.
Print Assumptions C04_nul_refuted.

(* F-C04a, F-C04c, F-C04d were repaired in /repo (4b93c7d, d11e023, 470efe3); the model follows the repaired
   code, their _refuted lemmas are gone and the old witnesses are now theorems of rejection: *)
Theorem C04_emitted_remlen_in_range : forall v it bs, encode v it = Ok bs -> remlen v it <= 268435455.
Proof. exact encode_ok_remlen. Qed.
Print Assumptions C04_emitted_remlen_in_range.

Theorem C04_remlen_rejects : forall v it, 268435455 < remlen v it -> exists k, encode v it = Raise k.
Proof. exact remlen_rejects. Qed.
Print Assumptions C04_remlen_rejects.

Theorem C04_overflow_publish_rejected : forall v topic payload qos retain props last_mid,
  len topic = 1 -> len payload = 268435455 ->
  emit v (CPublish last_mid topic payload qos retain props) = Raise E_value.
Proof. exact overflow_publish_rejected. Qed.
Print Assumptions C04_overflow_publish_rejected.

Theorem C04_unsub_empty_rejected : forall v last_mid props, emit v (CUnsubscribe last_mid [] props) = Raise E_value.
Proof. exact unsub_empty_rejected. Qed.
Print Assumptions C04_unsub_empty_rejected.

Theorem C04_will_wildcard_rejected : forall v cls cs first bridge ka cid w user pw props,
  has_wildcard (wc_topic w) = true ->
  exists k, emit v (CConnect cls cs first bridge ka cid (Some w) user pw props) = Raise k.
Proof. exact will_wildcard_rejected. Qed.
Print Assumptions C04_will_wildcard_rejected.

(* PARTIAL: outside the ONE excluded family (excl v c = excl_nul c: no U+0000 in the text arguments) both
   statements hold, for every other argument value *)
Theorem C04_wellformed_partial : forall v c bs,
  api_pre v c = true -> excl v c = true -> emit v c = Ok bs ->
  forall rest, spec_decode v (bs ++ rest) = Some (supplied v c, rest).
Proof. exact wellformed_partial. Qed.
Print Assumptions C04_wellformed_partial.

Theorem C04_rejects_partial : forall v c it,
  api_pre v c = true -> excl v c = true -> api v c = Ok it -> representable v it = false ->
  exists k, encode v it = Raise k.
Proof. exact rejects_partial. Qed.
Print Assumptions C04_rejects_partial.

(* where U+0000 cannot occur the FULL statement holds: calls whose text arguments contain no U+0000 ... *)
Theorem C04_wellformed_no_nul : forall v c bs,
  api_pre v c = true -> excl_nul c = true -> emit v c = Ok bs -> spec_decode v bs = Some (supplied v c, []).
Proof. exact wellformed_no_nul. Qed.
Print Assumptions C04_wellformed_no_nul.

(* ... and DISCONNECT, which has no text argument *)
Theorem C04_wellformed_disconnect_full : forall v reason props bs,
  api_pre v (CDisconnect reason props) = true -> emit v (CDisconnect reason props) = Ok bs ->
  forall rest, spec_decode v (bs ++ rest) = Some (supplied v (CDisconnect reason props), rest).
Proof. exact wellformed_disconnect_full. Qed.
Print Assumptions C04_wellformed_disconnect_full.

(* ================================================================ 4. clean flag *)
(* every CONNECT of every history of connect()/connect_async()/reconnect()/CONNACK/loss from a fresh client *)
Theorem C04_clean_flag : forall v clean_session ops,
  forallb (clean_event_ok v clean_session) (crun v clean_session cstate0 ops) = true.
Proof. exact clean_flag_ok. Qed.
Print Assumptions C04_clean_flag.

Theorem C04_clean_v3 : forall v clean_session ops e, is_v5 v = false ->
  In e (crun v clean_session cstate0 ops) -> e_flag e = clean_session.
Proof. exact clean_v3_is_clean_session. Qed.
Print Assumptions C04_clean_v3.

Theorem C04_clean_v5_bool : forall clean_session ops e,
  In e (crun V5 clean_session cstate0 ops) ->
  (e_cs e = CS_true -> e_flag e = true) /\ (e_cs e = CS_false -> e_flag e = false).
Proof. exact clean_v5_follows_clean_start. Qed.
Print Assumptions C04_clean_v5_bool.

(* default FIRST_ONLY: set on the CONNECT issued by connect(), clear on every CONNECT issued by reconnect()
   after a CONNACK was processed *)
Theorem C04_clean_v5_first_only : forall clean_session ops e,
  In e (crun V5 clean_session cstate0 ops) -> e_cs e = CS_first_only ->
  (e_by_connect e = true -> e_flag e = true) /\
  (e_by_connect e = false -> e_acked e = true -> e_flag e = false).
Proof. exact clean_v5_first_only. Qed.
Print Assumptions C04_clean_v5_first_only.

(* stated, not hidden: a retry before any CONNACK keeps the bit (outside C04's quantifier) *)
Theorem C04_clean_retry_lemma : forall clean_session ops e,
  In e (crun V5 clean_session cstate0 ops) -> e_cs e = CS_first_only ->
  e_by_connect e = false -> e_acked e = false -> e_flag e = true.
Proof. exact clean_retry_keeps_flag. Qed.
Print Assumptions C04_clean_retry_lemma.

(* the ghost field e_acked is "a CONNACK was processed since the last connect()" computed from the ops alone *)
Theorem C04_clean_ghost_is_spec : forall v clean_session ops,
  map e_acked (crun v clean_session cstate0 ops) = acked_spec false false v ops.
Proof. exact (fun v cls ops => acked_is_spec v cls ops cstate0). Qed.
Print Assumptions C04_clean_ghost_is_spec.

(* ================================================================ non-vacuity *)
Definition ex_connect : connect_args :=
  {| c_bridge := true; c_clean := false; c_keepalive := 65535; c_client_id := [240; 159; 152; 128; 99];
     c_will := Some {| w_topic := [119; 47; 116]; w_payload := [0; 255]; w_qos := 2; w_retain := true; w_props := [2; 1; 1] |};
     c_username := Some [117]; c_password := Some [0; 1]; c_props := [5; 17; 0; 0; 0; 60] |}.

Example C04_nonvacuous_connect :
  representable V5 (IConnect ex_connect) = true /\ representable V311 (IConnect ex_connect) = true /\
  spec_decode V5 (wire V5 (IConnect ex_connect) ++ [192; 0]) = Some (packet_of V5 (IConnect ex_connect), [192; 0]).
Proof. vm_compute. repeat split. Qed.

Definition ex_publish : publish_args :=
  {| p_dup := true; p_qos := 2; p_retain := true; p_mid := 65535; p_topic := [97; 47; 195; 169]; p_payload := repeat 7 200;
     p_props := [2; 1; 1] |}.

Example C04_nonvacuous_publish :
  representable V5 (IPublish ex_publish) = true /\ representable V31 (IPublish ex_publish) = true /\
  Z.of_nat (length (wire V31 (IPublish ex_publish))) = 211.
Proof. vm_compute. repeat split. Qed.

Example C04_nonvacuous_subscribe :
  representable V5 (ISubscribe 9 [([97; 47; 35], 46); ([43], 0)] [0]) = true /\
  representable V311 (ISubscribe 9 [([97; 47; 35], 2); ([43], 0)] [0]) = true /\
  representable V5 (IUnsubscribe 9 [[97; 47; 35]; [43]] [0]) = true /\
  representable V5 (IDisconnect (Some 4) (Some [5; 17; 0; 0; 0; 9])) = true.
Proof. vm_compute. repeat split. Qed.

Example C04_nonvacuous_partial :
  let c := CSubscribe 65535 [{| sr_filter := [97; 47; 35]; sr_qos := 2; sr_nl := true; sr_rap := true; sr_rh := 2 |}] (Some [2; 11; 5]) in
  api_pre V5 c = true /\ excl V5 c = true /\
  emit V5 c = Ok [130; 11; 0; 1; 2; 11; 5; 0; 3; 97; 47; 35; 46].
Proof. vm_compute. repeat split. Qed.

(* connect(); CONNACK; loss; reconnect(); reconnect()  -> flags set, clear, clear.
   connect(); loss; reconnect() (no CONNACK yet)       -> set, set *)
Example C04_nonvacuous_clean :
  map e_flag (crun V5 true cstate0 [KConnect CS_first_only; KConnack; KLoss; KReconnect; KReconnect]) = [true; false; false] /\
  map e_flag (crun V5 true cstate0 [KConnect CS_first_only; KLoss; KReconnect]) = [true; true] /\
  map e_flag (crun V311 false cstate0 [KConnect CS_first_only; KConnack; KReconnect]) = [false; false].
Proof. vm_compute. repeat split. Qed.
