(* C02 - QoS 2 sender never re-publishes after PUBREC; DUP flag discipline.
   [c02_ok] (Session/Check.v): in a persistent session no PUBLISH is written for a message whose PUBREC was
   received (until it completes), whatever the number of reconnects with or without CONNACK in between, and the
   operation that processes an accepting CONNACK writes PUBREL for every such message; every PUBLISH has
   DUP = 1 iff a PUBLISH for the same message was written before; QoS 0 PUBLISH never has DUP. *)
From PahoV Require Import Base.Prelude Session.Model Session.Check Session.Statements Session.C02Proofs.

Theorem C02_no_republish_after_pubrec_and_dup : forall c ops,
  cfg_ok c = true -> conforming c ops = true -> c02_ok c (optrace c ops) = true.
Proof. exact c02_proved. Qed.
Print Assumptions C02_no_republish_after_pubrec_and_dup.

(* the witness of the repaired defect F-C02a (two reconnects without CONNACK after PUBREC) is a conforming
   history; on it the model resends PUBREL and the checker would reject a re-PUBLISH *)
Example C02_nonvacuous :
  let c := mkCfg 0 2 0 false false in
  let ops := [OReconnect true; ORx (IConnack 0) false; OPublish 2; ORx (IPubrec 1) false;
              OReconnect true; OReconnect true; ORx (IConnack 0) false] in
  cfg_ok c = true /\ conforming c ops = true /\
  last (optrace c ops) [] = [Inp (IConnack 0); Tx 3 (PPubrel 1 0)] /\
  c02_ok c [[Tx 1 (PPublish 1 2 false 0); Ret 0 1 2 0]; [Inp (IPubrec 1); Tx 1 (PPubrel 1 0)];
            [Reconn; SockOpened 2; Tx 2 PConnect]; [Inp (IConnack 0); Tx 2 (PPublish 1 2 true 0)]] = false.
Proof. vm_compute. repeat split; reflexivity. Qed.

(* ------------------------------------------------------------------------------------------
   The same property on the second-generation session model (coq/theories/Session2): the client's
   output queue and a transport that may refuse writes are modelled; events distinguish a packet
   HANDED to the connection from a packet WRITTEN; reconnect() drops what is still queued. *)
From PahoV Require Import Session2.Model Session2.Check Session2.Statements Session2.C02Proofs.

(* no written PUBLISH after PUBREC; DUP = 1 when an earlier connection wrote the PUBLISH, DUP = 0 when it was never handed over before, either value when it was handed over but never written; PUBREL handed over in the operation of every accepting CONNECT acknowledgement *)
Theorem C02_with_blocking_transport : forall c ops,
  cfg_ok c = true -> conforming c ops = true -> c02_ok c (optrace c ops) = true.
Proof. exact c02_proved. Qed.
Print Assumptions C02_with_blocking_transport.
