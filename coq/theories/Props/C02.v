(* C02 - QoS 2 sender never re-publishes after PUBREC; DUP flag discipline.
   [c02_ok] (Session/Check.v): in a persistent session no PUBLISH is written for a message whose PUBREC was
   received (until it completes), whatever the number of reconnects with or without CONNACK in between, and the
   operation that processes an accepting CONNACK writes PUBREL for every such message; every PUBLISH has
   DUP = 1 iff a PUBLISH for the same message was written before; QoS 0 PUBLISH never has DUP. *)
From PahoV Require Import Base.Prelude Session.Model Session.Check Session.Statements Session.C02Proofs.

Theorem C02_no_republish_after_pubrec_and_dup : forall c ops,
  cfg_ok c = true -> conforming c ops = true -> c02_ok c (optrace c ops) = true.
Proof. exact c02_proved. Qed.
Print Assumptions C02_no_republish_after_pubrec_and_dup.

(* the witness of the repaired defect F-C02a (two reconnects without CONNACK after PUBREC) is a conforming
   history; on it the model resends PUBREL and the checker would reject a re-PUBLISH *)
Example C02_nonvacuous :
  let c := mkCfg 0 2 0 false false in
  let ops := [OReconnect true; ORx (IConnack 0) false; OPublish 2; ORx (IPubrec 1) false;
              OReconnect true; OReconnect true; ORx (IConnack 0) false] in
  cfg_ok c = true /\ conforming c ops = true /\
  last (optrace c ops) [] = [Inp (IConnack 0); Tx 3 (PPubrel 1 0)] /\
  c02_ok c [[Tx 1 (PPublish 1 2 false 0); Ret 0 1 2 0]; [Inp (IPubrec 1); Tx 1 (PPubrel 1 0)];
            [Reconn; SockOpened 2; Tx 2 PConnect]; [Inp (IConnack 0); Tx 2 (PPublish 1 2 true 0)]] = false.
Proof. vm_compute. repeat split; reflexivity. Qed.

(* ------------------------------------------------------------------------------------------
   Tie to the source: the message-state methods of client.py this property rests on are translated from
   the Python AST on every run (tools/py2v/msgstate.py -> Gen/GenMsgState.v) and proved equal to the
   functions of the hand model (Session/MsgStateBridge.v).  A semantic change to one of these methods
   changes the generated text and the corresponding theorem below stops compiling. *)
From PahoV Require Import Base.Prelude Codec.Mid Session.Model Session.Lemmas Session.Inv
  Session.MsgStateLib Gen.GenMsgState Session.MsgStateBridge.
From PahoV Require Import Props.MsgStateTie.

Theorem C02_tie_summaries :
  gen_summaries_ok = true.
Proof. exact tie_summaries. Qed.
Print Assumptions C02_tie_summaries.

Theorem C02_tie_store_writers :
  gen_store_writers = store_writers_expected.
Proof. exact tie_store_writers. Qed.
Print Assumptions C02_tie_store_writers.

Theorem C02_tie_check_clean_session :
  forall c s protocol clean_start clean_session,
  cfg_repr c protocol clean_start clean_session ->
  gen_check_clean_session protocol clean_start (first s) clean_session = Ok (clean_now c s).
Proof. exact tie_check_clean_session. Qed.
Print Assumptions C02_tie_check_clean_session.

Theorem C02_tie_reset_out :
  forall c clean infl0 l,
  Forall (fun m => qos_okb m = true) l ->
  gen_reset_out (c_max c) clean l infl0 = (let (r, n) := reset_out_list c clean 0 l in (r, n, Ok tt)).
Proof. exact tie_reset_out. Qed.
Print Assumptions C02_tie_reset_out.

Theorem C02_tie_connack_loop :
  forall cn tagof l calls,
  Forall (fun m => qos_okb m = true) l ->
  exists calls',
    gen_connack_loop true l calls = (fst (connack_loop cn l), calls', Ok MQTT_ERR_SUCCESS) /\
    ext cn tagof calls calls' (snd (connack_loop cn l)).
Proof. exact tie_connack_loop. Qed.
Print Assumptions C02_tie_connack_loop.

Theorem C02_tie_handle_pubrec :
  forall c s mid raises tagof,
  sock s = true ->
  let '(o, calls, r) := gen_handle_pubrec mid (out s) [] in
  r = Ok MQTT_ERR_SUCCESS /\
  do_rx c s (IPubrec mid) raises = (with_out s o (inflight s), Inp (IPubrec mid) :: evs (conn s) tagof calls).
Proof. exact tie_handle_pubrec. Qed.
Print Assumptions C02_tie_handle_pubrec.

(* ------------------------------------------------------------------------------------------
   The same property on the second-generation session model (coq/theories/Session2): the client's
   output queue and a transport that ACCEPTS writes, REFUSES them (BlockingIOError) or FAILS HARD (OSError: the
   connection is torn down inside the write) are modelled; events distinguish a packet
   HANDED to the connection from a packet WRITTEN; reconnect() drops what is still queued.
   Every theorem below quantifies over ALL conforming histories, hard write failures included. *)
From PahoV Require Import Session2.Model Session2.Check Session2.Statements Session2.C02Proofs.

(* no written PUBLISH after PUBREC; DUP = 1 when an earlier connection wrote the PUBLISH, DUP = 0 when it was never handed over before, either value when it was handed over but never written; PUBREL handed over in the operation of every accepting CONNECT acknowledgement *)
Theorem C02_with_blocking_transport : forall c ops,
  cfg_ok c = true -> conforming c ops = true -> c02_ok c (optrace c ops) = true.
Proof. exact c02_proved. Qed.
Print Assumptions C02_with_blocking_transport.
