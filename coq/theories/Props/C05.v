(* C05 - inbound decoding is faithful and independent of transport fragmentation.
   Only statements, each closed by [exact]; see Link/ReaderProofs.v, Link/HandleProofs.v, Link/WsReaderProofs.v. *)
From PahoV Require Import Base.Prelude Link.Reader Link.ReaderProofs Link.Handle Link.HandleProofs
  Link.WsReader Link.WsReaderProofs.

(* 1. For EVERY schedule of recv() results (chunks of any size, would-block, EOF, error - at every offset),
      every byte string and every sane starting state, calling _packet_read() until the socket is idle or an
      error is returned yields the frames, the protocol error and the residual `_in_packet` that the
      byte-at-a-time automaton yields on the bytes consumed.  [flush]: a packet completed by the 100th recv()
      of one call is dispatched by the next call and counts as delivered. *)
Theorem C05_read_refines_feed : forall r bs sch,
  rd_ok r ->
  let '(fs, st, r', s') := sock_run (sock_fuel (bs, sch)) r (bs, sch) in
  st <> StFuel /\
  exists c, bs = c ++ fst s' /\
    (if is_proto st
     then exists F, feed (snd (flush_pending r)) c = (F, true, r', []) /\ fst (flush_pending r) ++ F = fs
     else exists F, feed (snd (flush_pending r)) c = (F, false, snd (flush_pending r'), []) /\
                    fst (flush_pending r) ++ F = fs ++ fst (flush_pending r')) /\
    (st = StIdle -> fst s' = []) /\
    (st = StConnLost -> sock_live (bs, sch) = false).
Proof. exact read_refines_feed_gen. Qed.
Print Assumptions C05_read_refines_feed.

(* with schedules made of chunks and would-blocks only, the run IS the fold - the schedule does not occur on the right *)
Theorem C05_read_total : forall bs sch,
  sock_live (bs, sch) = true ->
  outcome (sock_run (sock_fuel (bs, sch)) rd_init (bs, sch)) = feed rd_init bs.
Proof. exact read_total. Qed.
Print Assumptions C05_read_total.

Theorem C05_chunk_independent : forall bs sch1 sch2,
  sock_live (bs, sch1) = true -> sock_live (bs, sch2) = true ->
  outcome (sock_run (sock_fuel (bs, sch1)) rd_init (bs, sch1)) =
  outcome (sock_run (sock_fuel (bs, sch2)) rd_init (bs, sch2)).
Proof. exact chunk_independent. Qed.
Print Assumptions C05_chunk_independent.

(* arbitrary schedules, EOF and errors included: the same bytes consumed give the same frames, error, state *)
Theorem C05_chunk_independent_any : forall bs sch1 sch2,
  let x1 := sock_run (sock_fuel (bs, sch1)) rd_init (bs, sch1) in
  let x2 := sock_run (sock_fuel (bs, sch2)) rd_init (bs, sch2) in
  snd (outcome x1) = snd (outcome x2) -> outcome x1 = outcome x2.
Proof. exact chunk_independent_gen. Qed.
Print Assumptions C05_chunk_independent_any.

(* 2. framing round trip, bodies up to 268 435 455 bytes *)
Theorem C05_frames_roundtrip : forall fs,
  forallb frame_ok fs = true ->
  feed rd_init (concat (map encode_frame fs)) = (fs, false, rd_init, []).
Proof. exact frames_roundtrip. Qed.
Print Assumptions C05_frames_roundtrip.

(* the handlers read `remaining_length`: at dispatch it is the length of the body *)
Theorem C05_remaining_length_is_body_length : forall r b r' c body,
  rl_inv r -> complete r = false -> feed1 r b = (r', FFrame c body) ->
  exists r1, raw1 r b = (r1, false) /\ command r1 = c /\ packet r1 = body /\
             remaining_length r1 = Z.of_nat (length body) /\ rl_inv r'.
Proof. exact feed1_frame_length. Qed.
Print Assumptions C05_remaining_length_is_body_length.

(* 4. values: every well-formed broker packet of every type, protocol version and callback API version *)
Theorem C05_values : forall c p,
  cfg_ok c = true -> wf (ver c) p = true ->
  handle_values c (spec_encode_in (ver c) p) = Ok (values_of c p).
Proof. exact handle_values_spec. Qed.
Print Assumptions C05_values.

Theorem C05_api_v2_is_lift_of_v1 : forall c p,
  cfg_ok c = true -> wf (ver c) p = true ->
  api_rel (values_of (with_api c 1) p) (values_of (with_api c 2) p).
Proof. exact api_lift. Qed.
Print Assumptions C05_api_v2_is_lift_of_v1.

(* 1 + 2 + 4 together: any list of well-formed broker packets, on the wire, under any chunk/would-block schedule *)
Theorem C05_values_any_fragmentation : forall c ps sch,
  cfg_ok c = true ->
  forallb (fun p => wf (ver c) p && spec_frame_ok (ver c) p) ps = true ->
  sock_live ([], sch) = true ->
  let bs := concat (map (fun p => encode_frame (spec_encode_in (ver c) p)) ps) in
  let '(fs, e, r, rest) := outcome (sock_run (sock_fuel (bs, sch)) rd_init (bs, sch)) in
  e = false /\ r = rd_init /\ rest = [] /\
  map (handle_values c) fs = map (fun p => Ok (values_of c p)) ps.
Proof. exact values_any_fragmentation. Qed.
Print Assumptions C05_values_any_fragmentation.

(* 3. WebSocket.  The model of _recv_impl/_buffered_read (Link/WsReader.v) under the MQTT reader.
      (a) EVERY raw byte string and EVERY schedule on the underlying socket (chunks, would-block, EOF, reset):
          the frames dispatched are those of the byte-at-a-time automaton on a prefix c of the concatenated
          unmasked payloads of the binary/continuation frames, the rest of those bytes is still pending. *)
Theorem C05_ws_read_refines_feed : forall raw sch,
  let t0 : wst := (ws_init, (raw, sch)) in
  let '(fs, st, r', t') := ws_run (ws_fuel t0) rd_init t0 in
  st <> StFuel /\ ws_inv t' /\
  exists c, ws_payloads raw = c ++ ws_stream t' /\
    (if is_proto st
     then feed rd_init c = (fs, true, r', [])
     else feed rd_init c = (fs ++ fst (flush_pending r'), false, snd (flush_pending r'), [])) /\
    (st = StIdle -> ws_idle t' = true) /\
    (st = StConnLost -> sched_live sch = false).
Proof. exact ws_read_refines_feed. Qed.
Print Assumptions C05_ws_read_refines_feed.

(*    (b) complete frames (any opcode mix, masked or not, 7/16/64-bit lengths, empty frames; boundaries unrelated
          to MQTT packets), any chunk/would-block schedule: the outcome IS the fold over the payload bytes. *)
Theorem C05_ws_refines : forall raw sch,
  ws_complete raw = true -> sched_live sch = true ->
  let t0 : wst := (ws_init, (raw, sch)) in
  outcome_ws (ws_run (ws_fuel t0) rd_init t0) = feed rd_init (ws_payloads raw).
Proof. exact ws_refines. Qed.
Print Assumptions C05_ws_refines.

(*    (c) raw socket and WebSocket agree, whatever the two schedules and the framing *)
Theorem C05_ws_same_as_raw : forall raw sch sch',
  ws_complete raw = true -> sched_live sch = true -> sock_live (ws_payloads raw, sch') = true ->
  let t0 : wst := (ws_init, (raw, sch)) in
  outcome_ws (ws_run (ws_fuel t0) rd_init t0) =
  outcome (sock_run (sock_fuel (ws_payloads raw, sch')) rd_init (ws_payloads raw, sch')).
Proof. exact ws_same_as_raw. Qed.
Print Assumptions C05_ws_same_as_raw.

Theorem C05_ws_frame_independent : forall raw1 raw2 sch1 sch2,
  ws_complete raw1 = true -> ws_complete raw2 = true -> sched_live sch1 = true -> sched_live sch2 = true ->
  ws_payloads raw1 = ws_payloads raw2 ->
  outcome_ws (ws_run (ws_fuel (ws_init, (raw1, sch1))) rd_init (ws_init, (raw1, sch1))) =
  outcome_ws (ws_run (ws_fuel (ws_init, (raw2, sch2))) rd_init (ws_init, (raw2, sch2))).
Proof. exact ws_frame_independent. Qed.
Print Assumptions C05_ws_frame_independent.

(* ---- non-vacuity ---- *)
(* PUBACK(mid 1) + PINGRESP carried by: binary frame "40" | ping "hi" | masked binary frame "02 00" |
   continuation frame "01 d0 00" *)
Definition ws_example : list Z :=
  [130; 1; 64;  137; 2; 104; 105;  130; 130; 17; 34; 51; 68; 19; 34;  128; 3; 1; 208; 0].

Example C05_ws_example :
  ws_complete ws_example = true /\ ws_payloads ws_example = [64; 2; 0; 1; 208; 0] /\
  outcome_ws (ws_run 200 rd_init (ws_init, (ws_example, [Chunk 1; Block; Chunk 3; Chunk 1; Block; Chunk 2]))) =
    ([(64, [0; 1]); (208, [])], false, rd_init, []) /\
  wsent (fst (snd (ws_run 200 rd_init (ws_init, (ws_example, []))))) = [(10, [104; 105])].
Proof. repeat split; vm_compute; reflexivity. Qed.

Example C05_hyp_live : sock_live ([208; 0], [Chunk 1; Block; Chunk 1; Block]) = true.
Proof. reflexivity. Qed.

Example C05_hyp_rd_ok : rd_ok (mkRd 48 true [5] 128 5 [0; 1] 3).
Proof. intro H; discriminate H. Qed.

(* PUBLISH "t" / "a" and a PINGRESP, byte by byte with a would-block before every byte, and in one piece *)
Example C05_run_example :
  outcome (sock_run 60 rd_init ([48; 4; 0; 1; 116; 97; 208; 0],
                                [Block; Chunk 1; Block; Chunk 1; Block; Chunk 1; Block; Chunk 1; Block; Chunk 1;
                                 Block; Chunk 1; Block; Chunk 1; Block; Chunk 1])) =
  ([(48, [0; 1; 116; 97]); (208, [])], false, rd_init, []) /\
  outcome (sock_run 60 rd_init ([48; 4; 0; 1; 116; 97; 208; 0], [])) =
  ([(48, [0; 1; 116; 97]); (208, [])], false, rd_init, []).
Proof. split; vm_compute; reflexivity. Qed.

(* regression for F-C05b: zero first byte, whole and split - the same protocol error, one byte left unread *)
Example C05_zero_first_byte :
  outcome (sock_run 20 rd_init ([0; 0], [])) = ([], true, rd_init, [0]) /\
  outcome (sock_run 20 rd_init ([0; 0], [Chunk 1; Block])) = ([], true, rd_init, [0]).
Proof. exact zero_command_regression. Qed.

Example C05_frame_ok : frame_ok (50, [0; 1; 116; 0; 7]) = true.
Proof. reflexivity. Qed.

(* an MQTT 5 PUBACK in its 4-byte form with reason 16 and an MQTT 5 DISCONNECT with reason 0x8B only (F-C05a) *)
Example C05_wf_examples :
  cfg_ok (mkCfg 5 2 false false) = true /\
  wf 5 (BAck 4 1 (Some (16, Some []))) = true /\ wf 5 (BDisconnect (Some (139, None))) = true /\
  spec_encode_in 5 (BDisconnect (Some (139, None))) = (224, [139]) /\
  values_of (mkCfg 5 2 false false) (BDisconnect (Some (139, None))) =
    mkH cb_disconnect [ADisconnectFlags true; ACode 139; AProps []] None 0 /\
  values_of (mkCfg 5 1 false false) (BDisconnect (Some (139, None))) =
    mkH cb_disconnect [ACode 139; ANone] None 0.
Proof. repeat split; reflexivity. Qed.

Example C05_wf_publish :
  wf 4 (BPublish true 2 false [116] 7 [] [1; 2; 3]) = true /\
  spec_frame_ok 4 (BPublish true 2 false [116] 7 [] [1; 2; 3]) = true.
Proof. split; reflexivity. Qed.
