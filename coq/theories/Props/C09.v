(* C09 - automatic reconnection with exponential back-off; a user disconnect is final.
   Only statements, each closed by [exact]; model Link/Backoff.v (small-step machine of loop_forever driven
   by a script of per-attempt outcomes, one application action disconnect()/stop at a chosen callback or
   sleep chunk), proofs Link/Backoff{Proofs,U,Delays,Waits,Final,Gaps,Retries,RetriesThm,Witness}.v, tie to the
   source Link/TimingBridge.v (generated delay update) + harness/c09.py (the real loop_forever run on the
   same scripts under a virtual clock). run_script cfg t0 script = (events, (final program point, state)).
   An accepted connection can be lost in five ways (EOF, recv error, broker silent = keepalive expiry in
   _check_keepalive, write error at the PINGREQ, server DISCONNECT on MQTT 5): the delay is reset at the accepting
   CONNACK, so every kind of later loss starts again from min_delay (Example C09_reset_after_silent_loss). *)
From PahoV Require Import Base.Prelude Link.Backoff Link.BackoffProofs Link.BackoffDelays Link.BackoffWaits
  Link.BackoffFinal Link.BackoffGaps Link.BackoffRetries Link.BackoffRetriesThm Link.BackoffWitness Link.TimingBridge Gen.GenTiming.

(* ---- the delay update of _reconnect_wait (regenerated from the source on every run) is the model's *)
Theorem C09_source_delay_update : forall cfg d,
  reconnect_delay_update d (c_min cfg) (c_max cfg) = Ok (Some (next_delay cfg d)).
Proof. exact reconnect_delay_bridge. Qed.
Print Assumptions C09_source_delay_update.

(* ---- loop_forever always ends on a finite script, within 8*|script|+9 machine steps ("returns") *)
Theorem C09_terminates : forall cfg t0 script,
  is_done (fst (snd (run_script cfg t0 script))) = true.
Proof. exact run_script_done. Qed.
Print Assumptions C09_terminates.

(* ---- 1. the delays.  Iterating the update from "no delay": min, 2 min, 4 min, ... capped at max *)
Theorem C09_delay_sequence : forall cfg k i, 1 <= c_min cfg <= c_max cfg -> (i < k)%nat ->
  nth i (delays cfg k None) 0 = Z.min (c_min cfg * 2 ^ Z.of_nat i) (c_max cfg) /\
  c_min cfg <= nth i (delays cfg k None) 0 <= c_max cfg.
Proof. exact delays_from_start. Qed.
Print Assumptions C09_delay_sequence.

(* in every run (any script, retry_first on/off, reconnect_on_failure on/off, any application action):
   the j-th _reconnect_wait since the last accepted CONNACK (or since the start) chooses
   min (min_delay * 2^j) max_delay, which lies in [min_delay, max_delay] *)
Theorem C09_delays : forall cfg t0 script, 1 <= c_min cfg <= c_max cfg ->
  wait_delays_ok (c_min cfg) (c_max cfg) (fst (run_script cfg t0 script)) = true.
Proof. exact wait_delays. Qed.
Print Assumptions C09_delays.

(* literal statement: the gap between a failure/loss noticed at tf and the next (non-immediate) attempt is
   min (min_delay * 2^i) max_delay, i = number of such retries since the last accepted CONNACK; the immediate
   downgrade attempt happens at the time of the CONNACK rc 1 and is not counted.  In particular a lost connection is
   never retried sooner than min_delay.
   It was FALSE before the /repo fixes 6a826ba+8319104 (first-connection retry waited twice) - the old witness
   now passes (Link/BackoffWitness.first_retry_run).  For the repaired code it holds for EVERY configuration
   (retry_first_connection, reconnect_on_failure, keepalive, protocol version), every script, every start time and
   every application action at any callback or sleep chunk: Link/BackoffGaps.v carries a three-phase invariant
   (quiet / failed at tf = now / exactly one full wait slept) along the machine, side by side with the finality
   invariant of C09_final. *)
Theorem C09_delays_literal : forall cfg t0 script, 1 <= c_min cfg <= c_max cfg ->
  gaps_ok (c_min cfg) (c_max cfg) (fst (run_script cfg t0 script)) = true.
Proof. exact gaps_all_runs. Qed.
Print Assumptions C09_delays_literal.

(* the same statement evaluated on an exhaustive small scope (kept as a cross-check of the checker itself) *)
Theorem C09_delays_literal_small_scope : gaps_scope 4 = true.
Proof. exact gaps_small_scope. Qed.
Print Assumptions C09_delays_literal_small_scope.

(* ---- 2. every failure is followed by another attempt: for EVERY configuration and script loop_forever ends only
   because the script ended (REnd: one more attempt was made after everything the script contains), because
   the application acted, because reconnect_on_failure is off, or with the documented OSError of a refused first
   attempt without retry_first_connection.  (Before fix d2253bf a refused connect during the protocol
   downgrade ended it with an OSError: the old witness now passes, Link/BackoffWitness.downgrade_refused_run.) *)
Theorem C09_retries : forall cfg t0 script,
  let r := run_script cfg t0 script in
  match fst (snd r) with
  | PcDone REnd => True
  | PcDone (RRet _) => has_act (fst r) = true \/ c_rof cfg = false
  | PcDone RRaise => c_retry_first cfg = false /\ first_is_refused script = true
  | _ => False
  end.
Proof. exact retries. Qed.
Print Assumptions C09_retries.

(* ---- 3. finality: after disconnect()/stop (issued in any callback, or during any sleep chunk of a wait), and
   after the first failure/loss when reconnect_on_failure is off (failures inside the first-connection loop are
   governed by retry_first_connection, as documented), no connection attempt is made any more - for every
   configuration and script; together with C09_terminates and C09_retries: loop_forever returns *)
Theorem C09_final : forall cfg t0 script,
  final_ok (c_rof cfg) (fst (run_script cfg t0 script)) = true.
Proof. exact final_no_attempt. Qed.
Print Assumptions C09_final.

(* ---- non-vacuity / the immediate downgrade attempt (time 125 twice: the CONNACK rc 1 and the attempt it
   triggers; the back-off continues with 4 after it, i.e. it was not counted) *)
Example C09_mixed_run :
  attempts (fst (run_script (cfg_plain 2 5 false) 100 mixed_script))
  = [(100, false); (102, false); (106, false); (111, false); (116, false); (125, false); (125, true);
     (129, false); (134, false)] /\
  gaps_ok 2 5 (fst (run_script (cfg_plain 2 5 false) 100 mixed_script)) = true /\
  waits_ok 2 5 (fst (run_script (cfg_plain 2 5 false) 100 mixed_script)) = true /\
  fst (snd (run_script (cfg_plain 2 5 false) 100 mixed_script)) = PcDone REnd.
Proof. exact mixed_run. Qed.

Example C09_first_retry_regression :
  attempts (fst (run_script (cfg_plain 1 8 true) 0 [Refused; Refused; Refused; Refused]))
  = [(0, false); (1, false); (3, false); (7, false); (15, false)] /\
  gaps_ok 1 8 (fst (run_script (cfg_plain 1 8 true) 0 [Refused; Refused; Refused; Refused])) = true.
Proof. exact first_retry_run. Qed.

Example C09_downgrade_refused_regression :
  let r := run_script (cfg_plain 1 8 false) 0 [Downgrade; Refused; Refused; ClosedBeforeConnack] in
  attempts (fst r) = [(0, false); (0, true); (1, false); (3, false); (7, false)] /\
  gaps_ok 1 8 (fst r) = true /\ fst (snd r) = PcDone REnd.
Proof. exact downgrade_refused_run. Qed.

Example C09_reset_after_silent_loss :
  let cfg := mkcfg 2 60 false true None 5 false in
  let r := run_script cfg 0 [ClosedBeforeConnack; Refused; Refused; Accepted 0 LSilent; Refused; Refused] in
  attempts (fst r) = [(0, false); (2, false); (6, false); (14, false); (26, false); (30, false); (38, false)] /\
  gaps_ok 2 60 (fst r) = true.
Proof. exact reset_after_silent_loss_run. Qed.
