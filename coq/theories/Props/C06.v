(* C06 - the outgoing byte stream survives partial writes intact (raw TCP and WebSocket).
   Only statements, each closed by [exact]; models in Link/Writer.v, Link/WsWriter.v, proofs in
   Link/WriterProofs.v, Link/WsWriterProofs.v.

   Quantification: every configuration c (external-loop / direct-write mode, on_publish installed or not,
   suppress_exceptions), every list of operations ops - OEnq in_cb bytes kind cbraise schedule (a packet handed
   to _packet_queue, from inside a callback or not, with the outcomes of the send() calls made during it) and
   OWrite schedule (loop_write()) - with every schedule: Accept k (any integer k, clipped to 0..offered; so 0 and
   partial acceptance at any position are included), Block (BlockingIOError), Fail (OSError), FailV (ValueError);
   packets and schedules of unbounded length.  [wire_of] = concatenation of the bytes accepted by the raw socket,
   [unsent] = concatenation of the not yet accepted suffixes of the queued packets in queue order,
   [enq_bytes ops] = the packets in the order they were queued, packet i has id i.

   Hypothesis of every theorem: [conn_first ops = true] - CONNECT (which _packet_queue puts at the HEAD of the
   queue since /repo commit 0ed8c5c) is the first packet queued on the connection.  Without it the full statement
   is false on the current code: see C06_stream_full / C06_stream_refuted (finding F-C06b) below. *)
From PahoV Require Import Base.Prelude Link.Writer Link.WriterProofs Link.WsWriter Link.WsWriterProofs.

(* ------------------------------------------------------------------ raw socket *)

(* nothing lost, duplicated or reordered: accepted bytes ++ unsent remainder = the queued packets *)
Definition C06_stream_full : Prop := forall c ops,
  wire_of (r_trace (raw_run c ops)) ++ unsent (r_st (raw_run c ops)) = concat (enq_bytes ops).

(* F-C06b: a packet queued and partly written before CONNECT is queued (publish() from on_socket_open in
   direct-write mode, or from another thread) gets CONNECT inserted in front of its unsent remainder: the bytes
   on the wire are a piece of the PUBLISH, then CONNECT, then the rest of the PUBLISH - in neither order the
   two packets - and the PUBLISH is reported published. *)
Theorem C06_stream_refuted :
  exists c ops a b,
    enq_bytes ops = [a; b]
    /\ unsent (r_st (raw_run c ops)) = []
    /\ wire_of (r_trace (raw_run c ops)) <> a ++ b
    /\ wire_of (r_trace (raw_run c ops)) <> b ++ a
    /\ In (SetPublished 0) (r_trace (raw_run c ops)).
Proof. exact raw_stream_refuted. Qed.
Print Assumptions C06_stream_refuted.

Theorem C06_stream_partial : forall c ops, conn_first ops = true ->
  wire_of (r_trace (raw_run c ops)) ++ unsent (r_st (raw_run c ops)) = concat (enq_bytes ops).
Proof. exact raw_stream. Qed.
Print Assumptions C06_stream_partial.

(* on_publish / _set_as_published for packet i happen only for a QoS 0 PUBLISH and only at a point where the
   bytes on the wire are exactly the packets 0..i (so its last byte was accepted, and nothing beyond it) *)
Theorem C06_qos0_published : forall c ops tr1 e tr2 i, conn_first ops = true ->
  r_trace (raw_run c ops) = tr1 ++ e :: tr2 -> e = CbPublish i \/ e = SetPublished i ->
  0 <= i
  /\ (exists p, nth_error (hist_of ops) (Z.to_nat i) = Some p /\ p_kind p = KPub0 /\ p_id p = i)
  /\ wire_of tr1 = concat (firstn (S (Z.to_nat i)) (enq_bytes ops)).
Proof. exact raw_qos0_published. Qed.
Print Assumptions C06_qos0_published.

(* exactly once: with [done] = the packets that are completely on the wire, the _set_as_published calls are
   exactly the QoS 0 packets of [done], in order, each once (except a packet whose on_publish raised with
   suppress_exceptions off: the exception propagates and _set_as_published is skipped); same for on_publish *)
Theorem C06_qos0_once : forall c ops, conn_first ops = true ->
  let r := raw_run c ops in
  NoDup (setpub_ids (r_trace r)) /\ NoDup (cbpub_ids (r_trace r))
  /\ exists done,
       hist_of ops = done ++ map reset (outq (r_st r))
       /\ wire_of (r_trace r) = concat (map p_bytes done) ++ sent_part (outq (r_st r))
       /\ setpub_ids (r_trace r) = setpub_of c done
       /\ cbpub_ids (r_trace r) = cbpub_of c done.
Proof. exact raw_qos0_once. Qed.
Print Assumptions C06_qos0_once.

(* while bytes remain unsent want_write() is true, and if the socket is open write registration was requested *)
Theorem C06_want_write : forall c ops, conn_first ops = true ->
  let st := r_st (raw_run c ops) in
  unsent st <> [] -> want_write st = true /\ (sock st = true -> regw st = true).
Proof. exact raw_want_write. Qed.
Print Assumptions C06_want_write.

(* the `while True` loop of _packet_write terminates: the fuel S (sum over the queue of 1 + unsent bytes) is
   never exhausted in any reachable state, whatever the schedule *)
Theorem C06_terminates : forall c ops, conn_first ops = true -> ~ In RcOutOfFuel (r_rcs (raw_run c ops)).
Proof. exact raw_terminates. Qed.
Print Assumptions C06_terminates.

(* ------------------------------------------------------------------ WebSocket wrapper
   keyf n = the n-th os.urandom(4); any keys.  Size hypothesis: fewer than 2^63 bytes queued on the connection
   (the 64-bit length form; _create_frame itself accepts a payload of exactly 2^63 bytes, which RFC 6455
   forbids - unreachable, an MQTT packet has at most 2^28+4 bytes). *)

Theorem C06_ws_stream : forall keyf, (forall n, length (keyf n) = 4%nat) -> forall c ops,
  conn_first ops = true ->
  zlen (concat (enq_bytes ops)) < 9223372036854775808 ->
  exists chunks rest,
    deframe (wire_of (r_trace (ws_run keyf c ops))) = Some (chunks, rest)
    /\ concat chunks ++ unsent (r_st (ws_run keyf c ops)) = concat (enq_bytes ops).
Proof. exact ws_stream. Qed.
Print Assumptions C06_ws_stream.

(* every complete frame on the raw socket: FIN, no RSV bits, opcode 2, mask bit, 4-byte key, minimal length
   form, 64-bit length below 2^63, payload of the announced length *)
Theorem C06_ws_frames_wf : forall keyf, (forall n, length (keyf n) = 4%nat) -> forall c ops,
  conn_first ops = true ->
  zlen (concat (enq_bytes ops)) < 9223372036854775808 ->
  let w := wire_of (r_trace (ws_run keyf c ops)) in
  forallb ws_frame_wf (fst (parse_frames (length w) w)) = true.
Proof. exact ws_frames_wf. Qed.
Print Assumptions C06_ws_frames_wf.

Theorem C06_ws_qos0_published : forall keyf, (forall n, length (keyf n) = 4%nat) -> forall c ops tr1 e tr2 i,
  conn_first ops = true ->
  zlen (concat (enq_bytes ops)) < 9223372036854775808 ->
  r_trace (ws_run keyf c ops) = tr1 ++ e :: tr2 -> e = CbPublish i \/ e = SetPublished i ->
  0 <= i
  /\ (exists p, nth_error (hist_of ops) (Z.to_nat i) = Some p /\ p_kind p = KPub0 /\ p_id p = i)
  /\ exists chunks, deframe (wire_of tr1) = Some (chunks, [])
                    /\ concat chunks = concat (firstn (S (Z.to_nat i)) (enq_bytes ops)).
Proof. exact ws_qos0_published. Qed.
Print Assumptions C06_ws_qos0_published.

Theorem C06_ws_qos0_once : forall keyf, (forall n, length (keyf n) = 4%nat) -> forall c ops,
  conn_first ops = true ->
  zlen (concat (enq_bytes ops)) < 9223372036854775808 ->
  let r := ws_run keyf c ops in
  NoDup (setpub_ids (r_trace r)) /\ NoDup (cbpub_ids (r_trace r))
  /\ exists done chunks rest,
       hist_of ops = done ++ map reset (outq (r_st r))
       /\ deframe (wire_of (r_trace r)) = Some (chunks, rest)
       /\ concat chunks = concat (map p_bytes done) ++ sent_part (outq (r_st r))
       /\ setpub_ids (r_trace r) = setpub_of c done
       /\ cbpub_ids (r_trace r) = cbpub_of c done.
Proof. exact ws_qos0_once. Qed.
Print Assumptions C06_ws_qos0_once.

Theorem C06_ws_want_write : forall keyf c ops, conn_first ops = true ->
  let st := r_st (ws_run keyf c ops) in
  unsent st <> [] -> want_write st = true /\ (sock st = true -> regw st = true).
Proof. exact ws_want_write. Qed.
Print Assumptions C06_ws_want_write.

Theorem C06_ws_terminates : forall keyf c ops, conn_first ops = true ->
  ~ In RcOutOfFuel (r_rcs (ws_run keyf c ops)).
Proof. exact ws_terminates. Qed.
Print Assumptions C06_ws_terminates.

(* ------------------------------------------------------------------ non-vacuity *)
Definition ex_cfg := mkcfg true true false.           (* external loop, on_publish installed *)
Definition ex_ops : list op :=
  [ OEnq false [48; 3; 0; 1; 116] KPub0 false [];     (* QoS 0 PUBLISH, topic "t", 5 bytes *)
    OEnq false [192; 0] KOther false [];              (* PINGREQ *)
    OWrite [Accept 2; Block];                         (* 2 bytes, then EAGAIN *)
    OWrite [Accept 0];                                (* send() returns 0 *)
    OWrite [Accept 1; Accept 5] ].                    (* 1 byte, the rest of packet 0, then all of packet 1 *)

Example C06_ex_conn_first : conn_first ex_ops = true
  /\ conn_first (OEnq false [16; 2; 0; 0] KConn false [Accept 1; Block] :: ex_ops) = true.
Proof. split; reflexivity. Qed.

Example C06_ex_raw :
  let r := raw_run ex_cfg ex_ops in
  wire_of (r_trace r) = [48; 3; 0; 1; 116; 192; 0]
  /\ r_trace r = [RegW; Wire [48; 3]; Acc [48; 3]; Wire [0]; Acc [0]; Wire [1; 116]; Acc [1; 116];
                  CbPublish 0; SetPublished 0; Wire [192; 0]; Acc [192; 0]; UnregW]
  /\ outq (r_st r) = [].
Proof. vm_compute. repeat split. Qed.

(* the original F-C06a witness: one QoS 0 PUBLISH over WebSockets in direct-write mode, the raw socket accepts
   3 bytes of the 11-byte frame: the packet stays queued, want_write is true, nothing is reported; the next
   loop_write flushes the frame and only then the publication is reported *)
Definition ex_key (n : nat) : list Z := [1; 2; 3; 4].
Example C06_ex_keys : forall n, length (ex_key n) = 4%nat.
Proof. reflexivity. Qed.
Example C06_ex_size : zlen (concat (enq_bytes ex_ops)) < 9223372036854775808.
Proof. reflexivity. Qed.

Example C06_ex_ws_partial :
  let r := ws_run ex_key (mkcfg false true false) [OEnq false [48; 3; 0; 1; 116] KPub0 false [Accept 3]] in
  r_trace r = [Wire [130; 133; 1]; RegW]
  /\ want_write (r_st r) = true /\ map p_pos (outq (r_st r)) = [0]
  /\ deframe (wire_of (r_trace r)) = Some ([], [130; 133; 1]).
Proof. vm_compute. repeat split. Qed.

Example C06_ex_ws_flushed :
  let r := ws_run ex_key (mkcfg false true false)
             [OEnq false [48; 3; 0; 1; 116] KPub0 false [Accept 3]; OWrite [Accept 2]; OWrite [Accept 100]] in
  r_trace r = [Wire [130; 133; 1]; RegW; Wire [2; 3]; Wire [4; 49; 1; 3; 5; 117]; Acc [48; 3; 0; 1; 116];
               CbPublish 0; SetPublished 0; UnregW]
  /\ deframe (wire_of (r_trace r)) = Some ([[48; 3; 0; 1; 116]], [])
  /\ outq (r_st r) = [].
Proof. vm_compute. repeat split. Qed.
