(* C06 - the outgoing byte stream survives partial writes intact (raw TCP and WebSocket).
   Only statements, each closed by [exact]; models in Link/Writer.v, Link/WsWriter.v, proofs in
   Link/WriterProofs.v, Link/WsWriterProofs.v.

   Quantification: every configuration c (external-loop / direct-write mode, on_publish installed or not,
   suppress_exceptions), every list of operations ops on one connection (from the state reconnect() leaves:
   empty queue, new socket, _connect_queued = False) - OEnq in_cb bytes kind cbraise schedule (a packet handed to
   _packet_queue, from inside a callback or not, with the outcomes of the send() calls made during it) and
   OWrite schedule (loop_write()) - with every schedule: Accept k (any integer k, clipped to 0..offered; so 0 and
   partial acceptance at any position are included), Block (BlockingIOError), Fail (OSError), FailV (ValueError);
   packets and schedules of unbounded length.  [wire_of] = concatenation of the bytes accepted by the raw socket,
   [unsent] = concatenation of the not yet accepted suffixes of the queued packets in queue order,
   [queued_bytes ops] = the packets of the connection in QUEUE order: CONNECT (kind KConn, which _packet_queue
   puts at the head) first, every other packet behind in the order of the calls (C06_queue_order_plain, C06_queue_order_connect).

   Hypothesis [conn_once ops = true]: at most one CONNECT is queued on the connection (reconnect() is the only
   caller of _send_connect and starts a new connection each time).  It may come after other packets (queued from
   on_socket_open or by another thread): they wait, nothing is offered to the transport before CONNECT is queued
   (C06_nothing_before_connect; /repo commit 9f497e7 which repaired finding F-C06b). *)
From PahoV Require Import Base.Prelude Link.Writer Link.WriterProofs Link.WsWriter Link.WsWriterProofs.

(* ------------------------------------------------------------------ queue order *)
Theorem C06_queue_order_plain : forall ops, forallb not_conn_op ops = true -> queued_bytes ops = enq_bytes ops.
Proof. exact queued_bytes_plain. Qed.
Print Assumptions C06_queue_order_plain.

Theorem C06_queue_order_connect : forall early in_cb b r s rest,
  forallb not_conn_op early = true -> forallb not_conn_op rest = true ->
  queued_bytes (early ++ OEnq in_cb b KConn r s :: rest) = b :: enq_bytes early ++ enq_bytes rest.
Proof. exact queued_bytes_connect. Qed.
Print Assumptions C06_queue_order_connect.

Theorem C06_nothing_before_connect : forall c ops, forallb not_conn_op ops = true ->
  wire_of (r_trace (raw_run c ops)) = [].
Proof. exact raw_nothing_before_connect. Qed.
Print Assumptions C06_nothing_before_connect.

(* ------------------------------------------------------------------ raw socket *)

(* nothing lost, duplicated or reordered: accepted bytes ++ unsent remainder = the queued packets *)
Theorem C06_stream : forall c ops, conn_once ops = true ->
  wire_of (r_trace (raw_run c ops)) ++ unsent (r_st (raw_run c ops)) = concat (queued_bytes ops).
Proof. exact raw_stream. Qed.
Print Assumptions C06_stream.

(* on_publish / _set_as_published for packet i happen only for a QoS 0 PUBLISH and only at a point where the
   bytes on the wire are exactly the packets up to and including packet i (so its last byte was accepted, and
   nothing beyond it) *)
Theorem C06_qos0_published : forall c ops tr1 e tr2 i, conn_once ops = true ->
  r_trace (raw_run c ops) = tr1 ++ e :: tr2 -> e = CbPublish i \/ e = SetPublished i ->
  exists pre p post,
    hist_of ops = pre ++ p :: post /\ p_kind p = KPub0 /\ p_id p = i
    /\ wire_of tr1 = concat (map p_bytes (pre ++ [p])).
Proof. exact raw_qos0_published. Qed.
Print Assumptions C06_qos0_published.

(* exactly once: with [done] = the packets that are completely on the wire, the _set_as_published calls are
   exactly the QoS 0 packets of [done], in order, each once (except a packet whose on_publish raised with
   suppress_exceptions off: the exception propagates and _set_as_published is skipped); same for on_publish *)
Theorem C06_qos0_once : forall c ops, conn_once ops = true ->
  let r := raw_run c ops in
  NoDup (setpub_ids (r_trace r)) /\ NoDup (cbpub_ids (r_trace r))
  /\ exists done,
       hist_of ops = done ++ map reset (outq (r_st r))
       /\ wire_of (r_trace r) = concat (map p_bytes done) ++ sent_part (outq (r_st r))
       /\ setpub_ids (r_trace r) = setpub_of c done
       /\ cbpub_ids (r_trace r) = cbpub_of c done.
Proof. exact raw_qos0_once. Qed.
Print Assumptions C06_qos0_once.

(* while bytes remain unsent want_write() is true, and if the socket is open write registration was requested *)
Theorem C06_want_write : forall c ops, conn_once ops = true ->
  let st := r_st (raw_run c ops) in
  unsent st <> [] -> want_write st = true /\ (sock st = true -> regw st = true).
Proof. exact raw_want_write. Qed.
Print Assumptions C06_want_write.

(* the `while True` loop of _packet_write terminates: the fuel S (sum over the queue of 1 + unsent bytes) is
   never exhausted in any reachable state, whatever the schedule *)
Theorem C06_terminates : forall c ops, conn_once ops = true -> ~ In RcOutOfFuel (r_rcs (raw_run c ops)).
Proof. exact raw_terminates. Qed.
Print Assumptions C06_terminates.

(* ------------------------------------------------------------------ WebSocket wrapper
   keyf n = the n-th os.urandom(4); any keys.  Size hypothesis: fewer than 2^63 bytes queued on the connection
   (the 64-bit length form; _create_frame itself accepts a payload of exactly 2^63 bytes, which RFC 6455
   forbids - unreachable, an MQTT packet has at most 2^28+4 bytes). *)

Theorem C06_ws_stream : forall keyf, (forall n, length (keyf n) = 4%nat) -> forall c ops,
  conn_once ops = true ->
  zlen (concat (queued_bytes ops)) < 9223372036854775808 ->
  exists chunks rest,
    deframe (wire_of (r_trace (ws_run keyf c ops))) = Some (chunks, rest)
    /\ concat chunks ++ unsent (r_st (ws_run keyf c ops)) = concat (queued_bytes ops).
Proof. exact ws_stream. Qed.
Print Assumptions C06_ws_stream.

(* every complete frame on the raw socket: FIN, no RSV bits, opcode 2, mask bit, 4-byte key, minimal length
   form, 64-bit length below 2^63, payload of the announced length *)
Theorem C06_ws_frames_wf : forall keyf, (forall n, length (keyf n) = 4%nat) -> forall c ops,
  conn_once ops = true ->
  zlen (concat (queued_bytes ops)) < 9223372036854775808 ->
  let w := wire_of (r_trace (ws_run keyf c ops)) in
  forallb ws_frame_wf (fst (parse_frames (length w) w)) = true.
Proof. exact ws_frames_wf. Qed.
Print Assumptions C06_ws_frames_wf.

Theorem C06_ws_qos0_published : forall keyf, (forall n, length (keyf n) = 4%nat) -> forall c ops tr1 e tr2 i,
  conn_once ops = true ->
  zlen (concat (queued_bytes ops)) < 9223372036854775808 ->
  r_trace (ws_run keyf c ops) = tr1 ++ e :: tr2 -> e = CbPublish i \/ e = SetPublished i ->
  exists pre p post,
    hist_of ops = pre ++ p :: post /\ p_kind p = KPub0 /\ p_id p = i
    /\ exists chunks, deframe (wire_of tr1) = Some (chunks, [])
                      /\ concat chunks = concat (map p_bytes (pre ++ [p])).
Proof. exact ws_qos0_published. Qed.
Print Assumptions C06_ws_qos0_published.

Theorem C06_ws_qos0_once : forall keyf, (forall n, length (keyf n) = 4%nat) -> forall c ops,
  conn_once ops = true ->
  zlen (concat (queued_bytes ops)) < 9223372036854775808 ->
  let r := ws_run keyf c ops in
  NoDup (setpub_ids (r_trace r)) /\ NoDup (cbpub_ids (r_trace r))
  /\ exists done chunks rest,
       hist_of ops = done ++ map reset (outq (r_st r))
       /\ deframe (wire_of (r_trace r)) = Some (chunks, rest)
       /\ concat chunks = concat (map p_bytes done) ++ sent_part (outq (r_st r))
       /\ setpub_ids (r_trace r) = setpub_of c done
       /\ cbpub_ids (r_trace r) = cbpub_of c done.
Proof. exact ws_qos0_once. Qed.
Print Assumptions C06_ws_qos0_once.

Theorem C06_ws_want_write : forall keyf c ops, conn_once ops = true ->
  let st := r_st (ws_run keyf c ops) in
  unsent st <> [] -> want_write st = true /\ (sock st = true -> regw st = true).
Proof. exact ws_want_write. Qed.
Print Assumptions C06_ws_want_write.

Theorem C06_ws_terminates : forall keyf c ops, conn_once ops = true ->
  ~ In RcOutOfFuel (r_rcs (ws_run keyf c ops)).
Proof. exact ws_terminates. Qed.
Print Assumptions C06_ws_terminates.

(* ------------------------------------------------------------------ non-vacuity *)
Definition ex_cfg := mkcfg true true false.           (* external loop, on_publish installed *)
Definition ex_ops : list op :=
  [ OEnq false [16; 0] KConn false [];                (* CONNECT (2 bytes stand in for the real packet) *)
    OEnq false [48; 3; 0; 1; 116] KPub0 false [];     (* QoS 0 PUBLISH, topic "t", 5 bytes *)
    OEnq false [192; 0] KOther false [];              (* PINGREQ *)
    OWrite [Accept 2; Accept 2; Block];               (* CONNECT, 2 bytes of the PUBLISH, then EAGAIN *)
    OWrite [Accept 0];                                (* send() returns 0 *)
    OWrite [Accept 1; Accept 5] ].                    (* 1 byte, the rest of the PUBLISH, then all of PINGREQ *)

(* the hypothesis is satisfiable: CONNECT first; no CONNECT; CONNECT after other packets; two CONNECTs are excluded *)
Example C06_ex_conn_once : conn_once ex_ops = true
  /\ conn_once (tl ex_ops) = true
  /\ conn_once (tl ex_ops ++ [OEnq false [16; 2; 0; 0] KConn false []]) = true
  /\ conn_once [OEnq false [16; 2; 0; 0] KConn false []; OEnq false [16; 2; 0; 0] KConn false []] = false.
Proof. repeat split; reflexivity. Qed.

Example C06_ex_raw :
  let r := raw_run ex_cfg ex_ops in
  wire_of (r_trace r) = [16; 0; 48; 3; 0; 1; 116; 192; 0]
  /\ r_trace r = [RegW; Wire [16; 0]; Acc [16; 0]; Wire [48; 3]; Acc [48; 3]; Wire [0]; Acc [0];
                  Wire [1; 116]; Acc [1; 116]; CbPublish 1; SetPublished 1; Wire [192; 0]; Acc [192; 0]; UnregW]
  /\ outq (r_st r) = [].
Proof. vm_compute. repeat split. Qed.

(* the original F-C06a witness: one QoS 0 PUBLISH over WebSockets in direct-write mode, the raw socket accepts
   3 bytes of the 11-byte frame: the packet stays queued, want_write is true, nothing is reported; a later
   loop_write flushes the frame and only then the publication is reported *)
Definition ex_key (n : nat) : list Z := [1; 2; 3; 4].
Definition ex_connect : op := OEnq false [16; 0] KConn false [].
Example C06_ex_keys : forall n, length (ex_key n) = 4%nat.
Proof. reflexivity. Qed.
Example C06_ex_size : zlen (concat (queued_bytes ex_ops)) < 9223372036854775808.
Proof. reflexivity. Qed.

Example C06_ex_ws_partial :
  let r := ws_run ex_key (mkcfg false true false)
             [ex_connect; OEnq false [48; 3; 0; 1; 116] KPub0 false [Accept 3]] in
  r_trace r = [Wire [130; 130; 1; 2; 3; 4; 17; 2]; Acc [16; 0]; Wire [130; 133; 1]; RegW]
  /\ want_write (r_st r) = true /\ map p_pos (outq (r_st r)) = [0]
  /\ deframe (wire_of (r_trace r)) = Some ([[16; 0]], [130; 133; 1]).
Proof. vm_compute. repeat split. Qed.

Example C06_ex_ws_flushed :
  let r := ws_run ex_key (mkcfg false true false)
             [ex_connect; OEnq false [48; 3; 0; 1; 116] KPub0 false [Accept 3]; OWrite [Accept 2]; OWrite [Accept 100]] in
  r_trace r = [Wire [130; 130; 1; 2; 3; 4; 17; 2]; Acc [16; 0]; Wire [130; 133; 1]; RegW; Wire [2; 3];
               Wire [4; 49; 1; 3; 5; 117]; Acc [48; 3; 0; 1; 116]; CbPublish 1; SetPublished 1; UnregW]
  /\ deframe (wire_of (r_trace r)) = Some ([[16; 0]; [48; 3; 0; 1; 116]], [])
  /\ outq (r_st r) = [].
Proof. vm_compute. repeat split. Qed.

(* the F-C06b witness on the repaired code (9f497e7): a QoS 0 PUBLISH queued in direct-write mode before CONNECT
   (publish() from on_socket_open; schedule: 3 bytes, then 0) is not offered to the socket; CONNECT goes out
   first, then the intact PUBLISH *)
Example C06_ex_early_publish :
  let r := raw_run (mkcfg false true false)
             [ OEnq false [48; 4; 0; 1; 116; 120] KPub0 false [Accept 3; Accept 0];
               OEnq false [16; 2; 0; 0] KConn false [Accept 3; Accept 0];
               OWrite [] ] in
  wire_of (r_trace r) = [16; 2; 0; 0; 48; 4; 0; 1; 116; 120]
  /\ r_trace r = [RegW; Wire [16; 2; 0]; Acc [16; 2; 0]; Wire [0]; Acc [0];
                  Wire [48; 4; 0; 1; 116; 120]; Acc [48; 4; 0; 1; 116; 120]; CbPublish 0; SetPublished 0; UnregW].
Proof. vm_compute. split; reflexivity. Qed.

(* ------------------------------------------------------------------------------------------
   WebSocket control frames (Link/WsControl.v): the wrapper answers an inbound PING with PONG and an inbound CLOSE with
   CLOSE from inside recv(), i.e. at any moment between two partial writes of a data frame.  For EVERY sequence of
   _send_impl / _send_control_frame calls, every behaviour of the raw socket (accepts any number of bytes, would block,
   OSError) and all mask keys: the accepted bytes followed by the buffer are the frames created, in creation order -
   a control frame is never put inside a data frame, never lost when the socket would block; and once the buffer is
   flushed the independent RFC 6455 parser reads the stream back as exactly those frames (FIN, own opcode, MASKED,
   payload as given).  Found false of the unrepaired code (F-C06c/d, fixed in 9acff76). *)
From PahoV Require Import Link.WsControl Link.WsControlProofs.
Theorem C06_ws_frames_fifo_with_control : forall keyf ops,
  let r := wrun_ops keyf ops in
  w_wire r ++ sendbuf (w_t r) = concat (map frame_bytes (w_frames r)).
Proof. exact ws_frames_fifo. Qed.
Print Assumptions C06_ws_frames_fifo_with_control.

Theorem C06_ws_stream_with_control : forall keyf ops,
  (forall n, length (keyf n) = 4%nat) -> Forall wop_ok ops ->
  let r := wrun_ops keyf ops in
  sendbuf (w_t r) = [] ->
  parse_frames (length (w_wire r)) (w_wire r) = (map frec_of (w_frames r), []).
Proof. exact ws_control_stream. Qed.
Print Assumptions C06_ws_stream_with_control.

(* a PING arrives while 3 bytes of a data frame are out: the PONG (opcode 10) is queued behind the rest of the data
   frame; a would-block loses nothing; at the end both frames are read back whole *)
Example C06_ex_ws_control :
  let r := wrun_ops ex_key [WData [16; 0] (Accept 3); WCtl 10 [7] Block; WData [16; 0] (Accept 100)] in
  w_res r = [0; -1; 2] /\ sendbuf (w_t r) = [] /\
  map (fun f => (f_opcode f, f_masked f, f_payload f)) (fst (parse_frames 100 (w_wire r))) = [(2, 1, [16; 0]); (10, 1, [7])].
Proof. vm_compute. repeat split. Qed.

(* ------------------------------------------------------------------------------------------
   The same discipline one level up, on the session model with the output queue (Session2): for
   ARBITRARY operation histories (publishes, acknowledgements, inbound traffic, reconnects, a transport
   that refuses writes or fails hard), between two reconnects the packets written are exactly, in order, the first
   packets handed to the queue; packets are written only on an open, accepting socket; at the end of
   every operation on such a socket the queue is empty; reconnect() drops the rest. *)
From PahoV Require Import Session2.Model Session2.Check Session2.Statements Session2.FifoProofs.
Theorem C06_session_queue_is_fifo : forall c ops, fifo_ok (optrace c ops) = true.
Proof. exact fifo_proved. Qed.
Print Assumptions C06_session_queue_is_fifo.
