(* Second-generation Session model (coq/theories/Session2): the output queue [_out_packet] and a
   transport that may refuse writes or fail hard are part of the model; a packet is first HANDED to the connection
   ([Handed]) and WRITTEN ([Tx]) when the transport accepts it; reconnect() drops whatever is queued.
   The statements are in Session2/Statements.v, the checkers in Session2/Check.v; [conforming] lets an
   acknowledgement arrive only for a packet that was written.  To be distributed over Props/C01.v,
   C02.v, C03.v, C12.v, C13.v (and C06.v for the queue discipline) by the framework owner. *)
From PahoV Require Import Base.Prelude Session2.Model Session2.Check Session2.Statements
  Session2.FifoProofs Session2.C03Proofs Session2.C12Proofs Session2.C13Transfer Session2.C13Proofs
  Session2.C01Proofs Session2.C02Proofs.

(* C01 - owned until the final acknowledgement; on_publish / published / info.rc of a QoS>0 message only in
   the operation that processes its final acknowledgement, once - not when reconnect() drops its queued,
   unwritten PUBLISH; on an established connection every owned message has been handed to the connection
   (and written unless the transport refuses writes) or the window is full. *)
Theorem S2_C01_owned_handed_written_completed_once : forall c ops,
  cfg_ok c = true -> conforming c ops = true -> c01_ok c (optrace c ops) = true.
Proof. exact c01_proved. Qed.
Print Assumptions S2_C01_owned_handed_written_completed_once.

(* C02 - persistent session: no PUBLISH is written for a message past PUBREC; PUBREL handed in the operation
   of every accepting CONNACK (written there unless blocked); a PUBLISH written before carries DUP = 1, a
   message never handed to a connection before carries DUP = 0, QoS 0 never DUP. *)
Theorem S2_C02_no_republish_pubrel_dup : forall c ops,
  cfg_ok c = true -> conforming c ops = true -> c02_ok c (optrace c ops) = true.
Proof. exact c02_proved. Qed.
Print Assumptions S2_C02_no_republish_pubrel_dup.

(* C03 - arbitrary histories: callbacks and the replies handed to the connection are those of the abstract receiver *)
Theorem S2_C03_refines_receiver : forall c ops, c03_ok c (optrace c ops) = true.
Proof. exact c03_proved. Qed.
Print Assumptions S2_C03_refines_receiver.

(* C12 - the window bounds the packets written on the current connection ... *)
Theorem S2_C12_window_written : forall c ops,
  cfg_ok c = true -> conforming c ops = true -> c12_window_ok c (optrace c ops) = true.
Proof. exact c12_window_proved. Qed.
Print Assumptions S2_C12_window_written.

(* ... and, stronger, the packets handed to it *)
Theorem S2_C12_window_handed : forall c ops,
  cfg_ok c = true -> conforming c ops = true -> c12_handed_ok c (optrace c ops) = true.
Proof. exact c12_handed_proved. Qed.
Print Assumptions S2_C12_window_handed.

Theorem S2_C12_queue_bound : forall c ops,
  cfg_ok c = true -> conforming c ops = true -> c12_queue_ok c (optrace c ops) = true.
Proof. exact c12_queue_proved. Qed.
Print Assumptions S2_C12_queue_bound.

Theorem S2_C12_no_idle_slot : forall c ops, cfg_ok c = true -> conforming c ops = true ->
  let s := fst (run c ops) in
  cack s = true ->
  Forall (fun m => is_wait m = true \/
                   (is_queued m = true /\ inflight s = c_max c /\ 0 < c_max c)) (out s).
Proof. exact c12_no_idle_slot_reachable. Qed.
Print Assumptions S2_C12_no_idle_slot.

(* C13 - publish() order of the hand-overs and of the writes, per connection *)
Theorem S2_C13_order_handed : forall c ops,
  cfg_ok c = true -> conforming c ops = true -> c13_handed_ok c (optrace c ops) = true.
Proof. exact c13_handed_proved. Qed.
Print Assumptions S2_C13_order_handed.

Theorem S2_C13_order_written : forall c ops,
  cfg_ok c = true -> conforming c ops = true -> c13_tx_ok c (optrace c ops) = true.
Proof. exact c13_tx_proved. Qed.
Print Assumptions S2_C13_order_written.

(* on any trace (model or implementation) that obeys the queue discipline, order of the hand-overs gives order of the writes *)
Theorem S2_C13_transfer : forall c tr,
  fifo_ok tr = true -> c13_handed_ok c tr = true -> c13_tx_ok c tr = true.
Proof. exact c13_transfer_proved. Qed.
Print Assumptions S2_C13_transfer.

(* C06 flavour / C13 FIFO - arbitrary histories: between two reconnect() calls the written packets are, in order,
   exactly the first handed packets; written only on an open socket that accepts writes; nothing stays queued on
   such a socket at the end of an operation; reconnect() drops the rest *)
Theorem S2_FIFO_queue_discipline : forall c ops, fifo_ok (optrace c ops) = true.
Proof. exact fifo_proved. Qed.
Print Assumptions S2_FIFO_queue_discipline.

(* ------------------------------------------------------------------ non-vacuity *)
(* a conforming history in which the transport blocks: packets are deferred, a QoS 0 publish is reported lost,
   a QoS 1 and a QoS 2 PUBLISH and a PUBREC are dropped by reconnect(), a PUBREL is written late *)
Definition ex_cfg := mkCfg 0 2 0 false false.
Definition ex_ops : list op :=
  [OReconnect true; ORx (IConnack 0) false; OTransport TBlock; OPublish 1; OPublish 2; OPublish 0;
   ORx (IPublish 2 8 301) false; OConnLost; OReconnect true; ORx (IConnack 0) false;
   ORx (IPuback 1) false; OTransport TBlock; ORx (IPubrec 2) false; OTransport TAccept; ORx (IPubcomp 2) false].

Example S2_nonvacuous_history :
  cfg_ok ex_cfg = true /\ conforming ex_cfg ex_ops = true /\
  (* length of _out_packet after every operation: four packets are queued when the connection is lost,
     reconnect() drops them all; later one PUBREL waits until the transport accepts again *)
  map (fun st => Z.of_nat (length (outq (fst st)))) (run_steps ex_cfg (init ex_cfg) ex_ops)
    = [0; 0; 0; 1; 2; 3; 4; 4; 0; 0; 0; 0; 1; 0; 0] /\
  (* what reconnect() does with the queue: only the QoS 0 publish (tag 2) is reported *)
  nth 8 (optrace ex_cfg ex_ops) [] =
    [Reconn; InfoLost 2; Published 2; SockOpened 2; Handed 2 PConnect; Tx 2 PConnect] /\
  (* the retransmission on the new connection carries DUP although nothing was ever written *)
  nth 9 (optrace ex_cfg ex_ops) [] =
    [Inp (IConnack 0); Handed 2 (PPublish 1 1 true 0); Tx 2 (PPublish 1 1 true 0);
     Handed 2 (PPublish 2 2 true 1); Tx 2 (PPublish 2 2 true 1)] /\
  (* the deferred PUBREL *)
  nth 12 (optrace ex_cfg ex_ops) [] = [Inp (IPubrec 2); Handed 2 (PPubrel 2 1)] /\
  nth 13 (optrace ex_cfg ex_ops) [] = [Blk false; Tx 2 (PPubrel 2 1)] /\
  out (fst (run ex_cfg ex_ops)) = [].
Proof. vm_compute. repeat split; reflexivity. Qed.

(* a conforming history with HARD write failures: the peer vanishes while a QoS 1 message
   is in flight; publish(qos=2) hands its PUBLISH over, the write fails, the connection is torn down inside
   publish(), which takes the message out of the window again and reports MQTT_ERR_NO_CONN (4); after the
   reconnect the CONNACK retransmission loop stops at its first failed write.  All trace checkers accept the run,
   and the structural invariant holds in every state (Inv.v: [inv_reachable] covers such histories). *)
Definition ex_fail_ops : list op :=
  [OReconnect true; ORx (IConnack 0) false; OPublish 1; OTransport TFail; OPublish 2;
   OReconnect true; OTransport TFail; ORx (IConnack 0) false; OReconnect true; ORx (IConnack 0) false;
   ORx (IPuback 1) false; ORx (IPubrec 2) false; ORx (IPubcomp 2) false].

Example S2_hard_failure_history :
  conforming ex_cfg ex_fail_ops = true /\ no_fail ex_fail_ops = false /\
  nth 4 (optrace ex_cfg ex_fail_ops) [] = [Handed 1 (PPublish 2 2 false 1); SockLost; Ret 1 2 2 4] /\
  nth 7 (optrace ex_cfg ex_fail_ops) [] = [Inp (IConnack 0); Handed 2 (PPublish 1 1 true 0); SockLost] /\
  c01_ok ex_cfg (optrace ex_cfg ex_fail_ops) = true /\ c02_ok ex_cfg (optrace ex_cfg ex_fail_ops) = true /\
  c03_ok ex_cfg (optrace ex_cfg ex_fail_ops) = true /\ c12_window_ok ex_cfg (optrace ex_cfg ex_fail_ops) = true /\
  c12_handed_ok ex_cfg (optrace ex_cfg ex_fail_ops) = true /\ c12_queue_ok ex_cfg (optrace ex_cfg ex_fail_ops) = true /\
  c13_handed_ok ex_cfg (optrace ex_cfg ex_fail_ops) = true /\ c13_tx_ok ex_cfg (optrace ex_cfg ex_fail_ops) = true /\
  fifo_ok (optrace ex_cfg ex_fail_ops) = true /\ out (fst (run ex_cfg ex_fail_ops)) = [].
Proof. vm_compute. repeat split; reflexivity. Qed.

(* publish() called from inside on_publish.  The operations of the model are top-level calls; what the code does
   with a nested call is an operation SEQUENCE of the model: _do_on_publish runs the callback first, on the state in which
   the acknowledgement arrived; publish() inside a callback only queues its packet (_packet_queue does not write while
   _in_callback_mutex is held); then the message is popped, its slot released, and the write of the released packet (or
   the event loop's next loop_write()) flushes the queue.  That is: transport blocks; publish(q)...; the
   acknowledgement; transport accepts again - without the first and the last when the transport is blocked anyway.
   Every theorem of this file quantifies over such sequences (they are conforming histories); that the real client
   behaves like the expansion is checked by the correspondence on every run (harness/session2.py, operation rxnest:
   hand-overs in order, writes in order, the other events as a multiset, the state at the end) and, on the implementation
   alone, by harness/nested.py. *)
Definition expand_nested (blocked : bool) (p : inpkt) (qs : list Z) : list op :=
  if blocked then map OPublish qs ++ [ORx p false]
  else OTransport TBlock :: map OPublish qs ++ [ORx p false; OTransport TAccept].

(* window 1, a message queued behind it: the publish() made inside the on_publish of message 0 goes behind the queued
   message 1 - first transmissions in publish() order 0 1 2, never more than one unacknowledged *)
Definition ex_nested_ops : list op :=
  [OReconnect true; ORx (IConnack 0) false; OPublish 1; OPublish 1] ++ expand_nested false (IPuback 1) [1]
  ++ [ORx (IPuback 2) false; ORx (IPuback 3) false].
Example S2_nested_publish :
  let c := mkCfg 0 1 0 false false in
  conforming c ex_nested_ops = true /\
  map (fun e => match e with Tx _ (PPublish _ _ _ tag) => tag | _ => -1 end)
      (filter (fun e => match e with Tx _ (PPublish _ _ _ _) => true | _ => false end) (concat (optrace c ex_nested_ops)))
    = [0; 1; 2] /\
  c12_window_ok c (optrace c ex_nested_ops) = true /\ c12_handed_ok c (optrace c ex_nested_ops) = true /\
  c13_handed_ok c (optrace c ex_nested_ops) = true /\ c13_tx_ok c (optrace c ex_nested_ops) = true /\
  c01_ok c (optrace c ex_nested_ops) = true /\ out (fst (run c ex_nested_ops)) = [].
Proof. vm_compute. repeat split; reflexivity. Qed.

(* without the conformance hypothesis the properties are false of any client: a PUBACK for a PUBLISH that is
   still queued completes the message, and the stale PUBLISH is written afterwards *)
Example S2_conformance_needed :
  let ops := [OReconnect true; ORx (IConnack 0) false; OTransport TBlock; OPublish 1; ORx (IPuback 1) false; OTransport TAccept] in
  conforming ex_cfg ops = false /\ c12_window_ok (mkCfg 0 1 0 false false) (optrace (mkCfg 0 1 0 false false) (ops ++ [OPublish 1])) = false.
Proof. vm_compute. split; reflexivity. Qed.

(* every checker rejects a trace that breaks its property *)
Example S2_c01_rejects :
  (* seeded defect S-C01-1: reconnect() reports a queued QoS 1 publish as lost / published *)
  c01_ok ex_cfg [[Handed 1 (PPublish 1 1 false 0); Ret 0 1 1 0]; [Reconn; InfoLost 0; Published 0]] = false /\
  c01_ok ex_cfg [[Handed 1 (PPublish 1 1 false 0); Ret 0 1 1 0]; [Reconn; Published 0]] = false /\
  (* completion outside the operation of the final acknowledgement, twice, of a message never accepted *)
  c01_ok ex_cfg [[Ret 0 1 1 0]; [CbPublish 1 0; Published 0]] = false /\
  c01_ok ex_cfg [[Ret 0 1 1 0]; [Inp (IPuback 1); CbPublish 1 0; Published 0]; [Inp (IPuback 1); CbPublish 1 0; Published 0]] = false /\
  c01_ok ex_cfg [[Inp (IPuback 1); CbPublish 1 0; Published 0]] = false /\
  (* established connection, window free, the owned message not handed over *)
  c01_ok ex_cfg [[Ret 0 1 1 4]; [Reconn; SockOpened 1]; [Inp (IConnack 0)]] = false /\
  (* handed over, transport accepting, but not written *)
  c01_ok ex_cfg [[Ret 0 1 1 4]; [Reconn; SockOpened 1]; [Inp (IConnack 0); Handed 1 (PPublish 1 1 false 0)]] = false /\
  c01_ok ex_cfg [[Ret 0 1 1 4]; [Reconn; SockOpened 1]; [Blk true]; [Inp (IConnack 0); Handed 1 (PPublish 1 1 false 0)]] = true.
Proof. vm_compute. repeat split; reflexivity. Qed.

Example S2_c02_rejects :
  (* PUBLISH written again after PUBREC *)
  c02_ok ex_cfg [[Handed 1 (PPublish 1 2 false 0); Tx 1 (PPublish 1 2 false 0); Ret 0 1 2 0]; [Inp (IPubrec 1)];
                 [Handed 2 (PPublish 1 2 true 0); Tx 2 (PPublish 1 2 true 0)]] = false /\
  (* written before, written again without DUP *)
  c02_ok ex_cfg [[Handed 1 (PPublish 1 1 false 0); Tx 1 (PPublish 1 1 false 0); Ret 0 1 1 0];
                 [Handed 2 (PPublish 1 1 false 0); Tx 2 (PPublish 1 1 false 0)]] = false /\
  (* never handed over before, DUP set *)
  c02_ok ex_cfg [[Handed 1 (PPublish 1 1 true 0); Tx 1 (PPublish 1 1 true 0); Ret 0 1 1 0]] = false /\
  (* handed over but never written before: either value is accepted *)
  c02_ok ex_cfg [[Handed 1 (PPublish 1 1 false 0); Ret 0 1 1 0]; [Handed 2 (PPublish 1 1 true 0); Tx 2 (PPublish 1 1 true 0)]] = true /\
  c02_ok ex_cfg [[Handed 1 (PPublish 1 1 false 0); Ret 0 1 1 0]; [Handed 2 (PPublish 1 1 false 0); Tx 2 (PPublish 1 1 false 0)]] = true /\
  (* QoS 0 with DUP *)
  c02_ok ex_cfg [[Handed 1 (PPublish 1 0 true 0); Tx 1 (PPublish 1 0 true 0)]] = false /\
  (* accepting CONNACK without the PUBREL of a message past PUBREC; PUBREL handed but not written on an accepting transport *)
  c02_ok ex_cfg [[Handed 1 (PPublish 1 2 false 0); Tx 1 (PPublish 1 2 false 0); Ret 0 1 2 0]; [Inp (IPubrec 1)]; [Inp (IConnack 0)]] = false /\
  c02_ok ex_cfg [[Handed 1 (PPublish 1 2 false 0); Tx 1 (PPublish 1 2 false 0); Ret 0 1 2 0]; [Inp (IPubrec 1)];
                 [Inp (IConnack 0); Handed 2 (PPubrel 1 0)]] = false.
Proof. vm_compute. repeat split; reflexivity. Qed.

Example S2_c03_rejects :
  (* QoS 1 delivered, no PUBACK handed over; PUBACK before the callback; QoS 2 delivered twice *)
  c03_ok ex_cfg [[Inp (IPublish 1 5 9); CbMessage 5 1 9]] = false /\
  c03_ok ex_cfg [[Inp (IPublish 1 5 9); Handed 1 (PPuback 5); CbMessage 5 1 9]] = false /\
  c03_ok ex_cfg [[Inp (IPublish 2 5 9); Handed 1 (PPubrec 5)]; [Inp (IPubrel 5); CbMessage 5 2 9; Handed 1 (PPubcomp 5)];
                 [Inp (IPubrel 5); CbMessage 5 2 9; Handed 1 (PPubcomp 5)]] = false /\
  (* the replies may be written later: the receiver checker does not look at [Tx] *)
  c03_ok ex_cfg [[Inp (IPublish 1 5 9); CbMessage 5 1 9; Handed 1 (PPuback 5)]; [Blk false; Tx 1 (PPuback 5)]] = true.
Proof. vm_compute. repeat split; reflexivity. Qed.

Example S2_c12_rejects :
  let c1 := mkCfg 0 1 2 false false in
  c12_window_ok c1 [[Tx 1 (PPublish 1 1 false 0)]; [Tx 1 (PPublish 2 1 false 1)]] = false /\
  c12_handed_ok c1 [[Handed 1 (PPublish 1 1 false 0)]; [Handed 1 (PPublish 2 1 false 1)]] = false /\
  (* two handed over, only one written: the bound on written packets holds, the stronger one does not *)
  c12_window_ok c1 [[Handed 1 (PPublish 1 1 false 0)]; [Handed 1 (PPublish 2 1 false 1); Tx 1 (PPublish 1 1 false 0)]] = true /\
  c12_queue_ok c1 [[Ret 0 1 1 0]; [Ret 1 2 1 0]; [Ret 2 3 1 0]] = false.
Proof. vm_compute. repeat split; reflexivity. Qed.

Example S2_c13_rejects :
  c13_handed_ok ex_cfg [[Ret 0 1 1 4]; [Ret 1 2 1 4]; [SockOpened 1]; [Handed 1 (PPublish 2 1 false 1); Handed 1 (PPublish 1 1 false 0)]] = false /\
  c13_tx_ok ex_cfg [[Ret 0 1 1 4]; [Ret 1 2 1 4]; [SockOpened 1]; [Tx 1 (PPublish 2 1 false 1); Tx 1 (PPublish 1 1 false 0)]] = false.
Proof. vm_compute. split; reflexivity. Qed.

Example S2_fifo_rejects :
  (* written without having been handed over; written in another order; another packet; written while the transport
     refuses writes; without a socket; left in the queue of an accepting transport; written after reconnect() dropped it *)
  fifo_ok [[Reconn; SockOpened 1; Tx 1 PConnect]] = false /\
  fifo_ok [[Reconn; SockOpened 1; Handed 1 (PPuback 1); Handed 1 (PPuback 2); Tx 1 (PPuback 2); Tx 1 (PPuback 1)]] = false /\
  fifo_ok [[Reconn; SockOpened 1; Handed 1 (PPublish 1 1 false 0); Tx 1 (PPublish 1 1 true 0)]] = false /\
  fifo_ok [[Reconn; SockOpened 1]; [Blk true]; [Handed 1 (PPuback 1); Tx 1 (PPuback 1)]] = false /\
  fifo_ok [[Handed 0 (PPuback 1); Tx 0 (PPuback 1)]] = false /\
  fifo_ok [[Reconn; SockOpened 1; Handed 1 (PPuback 1)]] = false /\
  fifo_ok [[Reconn; SockOpened 1]; [Blk true]; [Handed 1 (PPuback 1)]; [Reconn; SockOpened 2; Tx 2 (PPuback 1)]] = false /\
  fifo_ok [[Reconn; SockOpened 1]; [Blk true]; [Handed 1 (PPuback 1)]; [Blk false; Tx 1 (PPuback 1)]] = true.
Proof. vm_compute. repeat split; reflexivity. Qed.
