(* C08 - keepalive: pings when idle, detects a dead peer, never drops a live one.
   Only statements, each closed by [exact]; model Link/Keepalive.v, proofs Link/Keepalive{Proofs,Detects,Spurious}.v,
   tie to the source Link/TimingBridge.v (generated tests) + harness/c08.py (correspondence).
   Time is Z; run t0 K ops = the client connected at t0 with keepalive K, driven by ops
   (Tick dt | Service = one loop() | AppSend | Rx packet-arrives | Reconnect = the application calls
   reconnect(): new socket, CONNECT, _ping_t := 0, both stamps := now, state CONNECTING), so a history may
   span several connections; every new CONNECT restarts the monitors (no PINGREQ outstanding on a new
   connection: between CONNECT and CONNACK the only justified keepalive close is "no CONNACK within K of
   the CONNECT").  serviced_within d ops = at every point at most d has passed since the last Service. *)
From PahoV Require Import Base.Prelude Link.Keepalive Link.KeepaliveProofs Link.KeepaliveDetects
  Link.KeepaliveSpurious Link.TimingBridge Gen.GenTiming.

(* ---- the tests of the source (regenerated on every run) are the ones of the model *)
Theorem C08_source_due : forall s,
  ka_due_gen (sock_opt s) (now s) (last_out s) (last_in s) (kk s) = Ok (ka_due s).
Proof. exact ka_due_bridge. Qed.
Print Assumptions C08_source_due.

Theorem C08_source_may_ping : forall s,
  ka_may_ping_gen (cst_code (cstate s)) (ping_t s) = Ok (ka_may_ping s).
Proof. exact ka_may_ping_bridge. Qed.
Print Assumptions C08_source_may_ping.

Theorem C08_source_ping_expired : forall s,
  ka_ping_expired_gen (ping_t s) (now s) (kk s) = Ok (ka_ping_expired s).
Proof. exact ka_ping_expired_bridge. Qed.
Print Assumptions C08_source_ping_expired.

(* ---- 1. while the socket is open, never more than K + d without a transmission (CONNECT, PINGREQ
   or application packet); the bound is in fact strict *)
Theorem C08_pings : forall K d t0 ops, 0 < K -> 0 <= d ->
  serviced_within d ops = true ->
  let (s, tr) := run t0 K ops in
  sock s = true -> now s - last_tx t0 tr <= K + d.
Proof. exact pings. Qed.
Print Assumptions C08_pings.

Theorem C08_pings_strict : forall K d t0 ops, 0 < K -> 0 <= d ->
  serviced_within d ops = true ->
  let (s, tr) := run t0 K ops in
  sock s = true -> now s - last_tx t0 tr < K + d.
Proof. exact pings_strict. Qed.
Print Assumptions C08_pings_strict.

(* ---- 2. the latest PINGREQ, sent at t, has not been answered (no PINGRESP handled since) and t + K + d has
   been reached: the socket is closed, is_connected() is false, on_disconnect ran exactly once since the
   ping, with MQTT_ERR_KEEPALIVE, a loop call returned non-zero, and the close happened in [t+K, t+K+d] *)
Theorem C08_detects : forall K d t0 ops, 0 < K -> 0 <= d -> 0 < t0 ->
  serviced_within d ops = true -> no_eof ops = true ->
  let s := fst (run t0 K ops) in let m := ping_monitor (snd (run t0 K ops)) in
  forall t, pm_out m = Some t -> t + K + d <= now s ->
    sock s = false /\ is_connected s = false /\
    pm_cb_ka m = 1%nat /\ pm_cb_other m = 0%nat /\ pm_rc m = true /\
    exists tc, pm_closed m = Some tc /\ t + K <= tc <= t + K + d.
Proof. exact detects. Qed.
Print Assumptions C08_detects.

(* the same when the peer may also close the connection itself (then the report may be CONN_LOST) *)
Theorem C08_detects_closed : forall K d t0 ops, 0 < K -> 0 <= d -> 0 < t0 ->
  serviced_within d ops = true ->
  let s := fst (run t0 K ops) in let m := ping_monitor (snd (run t0 K ops)) in
  forall t, pm_out m = Some t -> t + K + d <= now s ->
    sock s = false /\ is_connected s = false.
Proof. exact detects_closed. Qed.
Print Assumptions C08_detects_closed.

(* literal reading ("not answered within K => closed by t+K+d"): false, an answer that arrives after
   t + K but before the next service is accepted (benign tolerance of at most d) *)
Definition C08_detects_literal : Prop := forall K d t0 ops t, 0 < K -> 0 <= d -> 0 < t0 ->
  serviced_within d ops = true ->
  unanswered_within K (snd (run t0 K ops)) = Some t -> t + K + d <= now (fst (run t0 K ops)) ->
  sock (fst (run t0 K ops)) = false.
Theorem C08_detects_literal_refuted :
  exists K d t0 ops t, 0 < K /\ 0 <= d /\ 0 < t0 /\ serviced_within d ops = true /\
    unanswered_within K (snd (run t0 K ops)) = Some t /\ t + K + d <= now (fst (run t0 K ops)) /\
    sock (fst (run t0 K ops)) = true.
Proof. exact detects_literal_refuted. Qed.
Print Assumptions C08_detects_literal_refuted.

(* ---- 3. the client closes on its own only for the stated reason: the CONNECT or the latest PINGREQ has been
   unanswered for K (no hypothesis on the ops: inbound silence, application traffic, service gaps never
   cause a close by themselves) *)
Theorem C08_no_spurious_core : forall K t0 ops, 0 < K -> 0 < t0 ->
  closes_justified K (snd (run t0 K ops)) = true.
Proof. exact core_justified. Qed.
Print Assumptions C08_no_spurious_core.

(* full statement: answers arrive within K - d => never closes.  FALSE as stated *)
Definition C08_no_spurious_full : Prop := forall K d t0 ops, 0 < K -> 0 <= d -> 0 < t0 ->
  serviced_within d ops = true ->
  timely K d (snd (run t0 K ops)) = true -> count_k is_own_close (snd (run t0 K ops)) = 0%nat.
Theorem C08_no_spurious_refuted :
  exists K d t0 ops, 0 < K /\ 0 <= d /\ 0 < t0 /\ serviced_within d ops = true /\
    timely K d (snd (run t0 K ops)) = true /\ count_k is_own_close (snd (run t0 K ops)) = 1%nat.
Proof. exact no_spurious_refuted. Qed.
Print Assumptions C08_no_spurious_refuted.

(* what holds: the same with one exclusion - no inbound backlog is carried across a clock advance
   (calm: whenever time moves at most one received packet is unread; loop_forever meets it because
   select() returns at once while data is readable) *)
Theorem C08_no_spurious_partial : forall K d t0 ops, 0 < K -> 0 <= d -> 0 < t0 ->
  serviced_within d ops = true ->
  let tr := snd (run t0 K ops) in
  timely K d tr = true -> calm tr = true -> count_k is_own_close tr = 0%nat.
Proof. exact no_spurious_partial. Qed.
Print Assumptions C08_no_spurious_partial.

(* ---- 4. keepalive 0: no PINGREQ, no keepalive close, no keepalive report - for every op list *)
Theorem C08_zero : forall t0 ops,
  let tr := snd (run t0 0 ops) in
  count_k is_txping tr = 0%nat /\ count_k is_own_close tr = 0%nat /\ count_k is_cb_keepalive tr = 0%nat.
Proof. exact zero. Qed.
Print Assumptions C08_zero.

(* ---- non-vacuity: the hypotheses are met by runs in which the interesting things happen *)
Definition live_ops : list op :=      (* K = 3, d = 2: two pings, each answered at once *)
  [RxConnack; Service; Tick 2; Service; Tick 1; Service; RxPingresp; Tick 2; Service; AppSend; RxOther;
   Tick 1; Service; RxPingresp; Tick 2; Service; Service].
Example C08_live_nonvacuous :
  serviced_within 2 live_ops = true /\ timely 3 2 (snd (run 1000 3 live_ops)) = true /\
  calm (snd (run 1000 3 live_ops)) = true /\ count_k is_txping (snd (run 1000 3 live_ops)) = 2%nat /\
  sock (fst (run 1000 3 live_ops)) = true.
Proof. vm_compute. repeat split; reflexivity. Qed.

Definition dead_ops : list op :=      (* K = 3, d = 2: the peer stops answering *)
  [RxConnack; Service; Tick 2; Service; Tick 2; Service; RxOther; Tick 2; Service; Tick 2; Service; Tick 1].
Example C08_dead_nonvacuous :
  serviced_within 2 dead_ops = true /\ no_eof dead_ops = true /\
  pm_out (ping_monitor (snd (run 1000 3 dead_ops))) = Some 1004 /\
  1004 + 3 + 2 <= now (fst (run 1000 3 dead_ops)) /\
  pm_closed (ping_monitor (snd (run 1000 3 dead_ops))) = Some 1008.
Proof. vm_compute. repeat split; congruence. Qed.

Definition reconnect_ops : list op :=  (* K = 3, d = 1: timeout, reconnect(), serviced before and after the CONNACK *)
  [RxConnack; Service; Tick 1; Service; Tick 1; Service; Tick 1; Service;      (* PINGREQ at 1003 *)
   Tick 1; Service; Tick 1; Service; Tick 1; Service;                          (* keepalive close at 1006 *)
   Reconnect; Service; Tick 1; Service; RxConnack; Service; Tick 1; Service;   (* new connection, not dropped *)
   Tick 1; Service; RxPingresp; Service; Tick 1; Service].
Example C08_reconnect_nonvacuous :
  serviced_within 1 reconnect_ops = true /\
  count_k is_own_close (snd (run 1000 3 reconnect_ops)) = 1%nat /\
  closes_justified 3 (snd (run 1000 3 reconnect_ops)) = true /\
  sock (fst (run 1000 3 reconnect_ops)) = true /\ is_connected (fst (run 1000 3 reconnect_ops)) = true /\
  count_k is_txping (snd (run 1000 3 reconnect_ops)) = 2%nat.
Proof. vm_compute. repeat split; reflexivity. Qed.

(* ---- no PINGREQ is sent while one is outstanding: in every state, every step that transmits a PINGREQ
   starts with _ping_t = 0 or reads the PINGRESP in the same loop() call.  (The implementation-side oracle of
   clause 2 runs its deadline from the earliest unanswered PINGREQ; this is why that is sound - seed S-C08-6.) *)
From PahoV Require Import Link.KeepaliveNoDoublePing.
Theorem C08_no_ping_while_ping_outstanding : forall s o,
  In TxPing (snd (step s o)) -> ping_t s = 0 \/ In (Rd InPingresp) (snd (step s o)).
Proof. exact no_ping_while_ping_outstanding. Qed.
Print Assumptions C08_no_ping_while_ping_outstanding.
