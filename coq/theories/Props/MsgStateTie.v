(* The tie of the Session model to the source: the message-state methods of client.py, translated on every run
   (Gen/GenMsgState.v), equal the model's functions (Session/MsgStateBridge.v).  Referenced by C01 C02 C03 C12 C13. *)
From PahoV Require Import Base.Prelude Codec.Mid Session.Model Session.Lemmas Session.Inv
  Session.MsgStateLib Gen.GenMsgState Session.MsgStateBridge.

(* the syntactic checks behind the summaries of the untranslated callees passed on the current source *)
Theorem tie_summaries : gen_summaries_ok = true.
Proof. exact summaries_hold. Qed.
Print Assumptions tie_summaries.

(* the MessageState constants the source compares with are pairwise different *)
Theorem tie_state_codes : forall a b, st_code a = st_code b -> a = b.
Proof. exact st_code_inj. Qed.
Print Assumptions tie_state_codes.

(* no method outside the translated ones writes the message stores *)
Theorem tie_store_writers : gen_store_writers = store_writers_expected.
Proof. exact store_writers_known. Qed.
Print Assumptions tie_store_writers.

(* _check_clean_session = clean_now *)
Theorem tie_check_clean_session : forall c s protocol clean_start clean_session,
  cfg_repr c protocol clean_start clean_session ->
  gen_check_clean_session protocol clean_start (first s) clean_session = Ok (clean_now c s).
Proof. exact gen_check_clean_session_bridge. Qed.
Print Assumptions tie_check_clean_session.

(* _messages_reconnect_reset_out = reset_out_list (from a zeroed counter); QoS hypothesis: Inv.inv_qos *)
Theorem tie_reset_out : forall c clean infl0 l,
  Forall (fun m => qos_okb m = true) l ->
  gen_reset_out (c_max c) clean l infl0 = (let (r, n) := reset_out_list c clean 0 l in (r, n, Ok tt)).
Proof. exact gen_reset_out_bridge. Qed.
Print Assumptions tie_reset_out.

(* _messages_reconnect_reset_in: cleared iff clean; stored incoming messages have QoS 2 *)
Theorem tie_reset_in : forall clean il,
  Forall iq2 il -> gen_reset_in clean il = ((if clean then [] else il), Ok tt).
Proof. exact gen_reset_in_bridge. Qed.
Print Assumptions tie_reset_in.

(* the three together give the state part of do_reconnect *)
Theorem tie_reconnect_reset : forall c s protocol clean_start clean_session il ok,
  cfg_repr c protocol clean_start clean_session ->
  Forall (fun m => qos_okb m = true) (out s) -> inm s = inm_of il -> Forall iq2 il ->
  exists clean,
    gen_check_clean_session protocol clean_start (first s) clean_session = Ok clean /\
    let '(o, n, r1) := gen_reset_out (c_max c) clean (out s) (inflight s) in
    let '(i, r2) := gen_reset_in clean il in
    r1 = Ok tt /\ r2 = Ok tt /\
    out (fst (do_reconnect c s ok)) = o /\ inflight (fst (do_reconnect c s ok)) = n /\
    inm (fst (do_reconnect c s ok)) = inm_of i.
Proof. exact gen_reconnect_reset_bridge. Qed.
Print Assumptions tie_reconnect_reset.

(* _update_inflight = update_inflight: same list, same counter, the recorded calls are the model's events and every
   PUBLISH is handed over after its message entered the wait state *)
Theorem tie_update_inflight : forall c cn tagof l infl calls,
  Forall (fun m => qos_okb m = true) l ->
  exists calls',
    gen_update_inflight (c_max c) true l infl calls =
      (fst (fst (update_inflight c cn infl l)), snd (fst (update_inflight c cn infl l)), calls', Ok MQTT_ERR_SUCCESS) /\
    ext cn tagof calls calls' (snd (update_inflight c cn infl l)).
Proof. exact gen_update_inflight_bridge. Qed.
Print Assumptions tie_update_inflight.

(* the retransmission loop of _handle_connack = connack_loop *)
Theorem tie_connack_loop : forall cn tagof l calls,
  Forall (fun m => qos_okb m = true) l ->
  exists calls',
    gen_connack_loop true l calls = (fst (connack_loop cn l), calls', Ok MQTT_ERR_SUCCESS) /\
    ext cn tagof calls calls' (snd (connack_loop cn l)).
Proof. exact gen_connack_loop_bridge. Qed.
Print Assumptions tie_connack_loop.

(* _handle_pubrec = do_rx (IPubrec mid) *)
Theorem tie_handle_pubrec : forall c s mid raises tagof,
  sock s = true ->
  let '(o, calls, r) := gen_handle_pubrec mid (out s) [] in
  r = Ok MQTT_ERR_SUCCESS /\
  do_rx c s (IPubrec mid) raises = (with_out s o (inflight s), Inp (IPubrec mid) :: evs (conn s) tagof calls).
Proof. exact gen_handle_pubrec_bridge. Qed.
Print Assumptions tie_handle_pubrec.

(* _handle_pubackcomp with _do_on_publish and _update_inflight = do_rx (IPuback mid) / do_rx (IPubcomp mid) *)
Theorem tie_handle_pubackcomp : forall c s mid raises,
  sock s = true -> Forall (fun m => qos_okb m = true) (out s) ->
  let '(o, n, calls, r) := gen_handle_pubackcomp (c_max c) true mid (out s) (inflight s) [] in
  r = Ok MQTT_ERR_SUCCESS /\
  do_rx c s (IPuback mid) raises = (with_out s o n, Inp (IPuback mid) :: evs (conn s) (tag_in (out s)) calls) /\
  do_rx c s (IPubcomp mid) raises = (with_out s o n, Inp (IPubcomp mid) :: evs (conn s) (tag_in (out s)) calls).
Proof. exact gen_handle_pubackcomp_bridge. Qed.
Print Assumptions tie_handle_pubackcomp.

(* the QoS>0 branch of publish() = do_publish *)
Theorem tie_publish_qos12 : forall c s q blank tagof,
  q = 1 \/ q = 2 ->
  let mid := mid_next (last_mid s) in
  let tag := ntag s in
  let s1 := mkS (out s) (inm s) (inflight s) mid (sock s) (first s) (cack s) (conn s) (tag + 1) in
  let '(o, n, calls, r) :=
    gen_publish_qos12 (c_max c) (c_maxq c) (sock s) mid q tag blank (out s) (inflight s) [] in
  exists rc, r = Ok rc /\
    do_publish c s q = (with_out s1 o n, evs (conn s) tagof calls ++ [Ret tag mid q rc]) /\
    forallb sent_waitb calls = true.
Proof. exact gen_publish_qos12_bridge. Qed.
Print Assumptions tie_publish_qos12.

(* ack() = do_ack (with a socket) *)
Theorem tie_ack : forall c s mid q tagof,
  sock s = true ->
  let '(calls, r) := gen_ack (c_manual c) mid q [] in
  r = Ok MQTT_ERR_SUCCESS /\ do_ack c s mid q = (s, evs (conn s) tagof calls).
Proof. exact gen_ack_bridge. Qed.
Print Assumptions tie_ack.

(* _handle_pubrel = do_rx (IPubrel mid) *)
Theorem tie_handle_pubrel : forall c s mid raises il tagof,
  sock s = true -> inm s = inm_of il -> Forall iq2 il ->
  let '(i, calls, r) := gen_handle_pubrel (c_manual c) (c_suppress c) raises mid il [] in
  (r = Ok MQTT_ERR_SUCCESS \/ r = Raise 0) /\ Forall iq2 i /\
  do_rx c s (IPubrel mid) raises =
    (with_inm s (inm_of i), Inp (IPubrel mid) :: evs (conn s) tagof calls ++ raised_ev r).
Proof. exact gen_handle_pubrel_bridge. Qed.
Print Assumptions tie_handle_pubrel.

(* the QoS dispatch of _handle_publish = do_rx (IPublish q mid tag) *)
Theorem tie_handle_publish : forall c s q mid tag raises il tagof,
  sock s = true -> inm s = inm_of il -> Forall iq2 il -> 0 <= q <= 2 ->
  let '(i, calls, r) := gen_handle_publish_tail (c_manual c) (c_suppress c) raises
                          (mkI (if q =? 0 then 0 else mid) q tag) il [] in
  (r = Ok MQTT_ERR_SUCCESS \/ r = Raise 0) /\ Forall iq2 i /\
  do_rx c s (IPublish q mid tag) raises =
    (with_inm s (inm_of i), Inp (IPublish q mid tag) :: evs (conn s) tagof calls ++ raised_ev r).
Proof. exact gen_handle_publish_tail_bridge. Qed.
Print Assumptions tie_handle_publish.
