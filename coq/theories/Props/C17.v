(* C17 - MQTT 5 properties and reason codes: lossless codec and validation.
   Only statements, each closed by [exact]; proofs in Codec/VBIProofs.v, VBIBridge.v, SubOptsProofs.v,
   ReasonProofs.v, Props5*.v.  Specification: Codec/PropSpec.v, Codec/ReasonSpec.v, Codec/SubOpts.v (its spec_ definitions).
   GT / GR are the tables generated from the current source (Gen/GenPropTable.v, Gen/GenReasonTable.v).
   `_full` statements that the faithful model violates are kept as Definitions, with `_refuted` witnesses
   (open findings F-C17f, g, h) and `_partial` theorems that name the exclusion.  F-C17a..e are repaired in /repo:
   their statements are proved in full. *)
From Coq Require Import String.
From PahoV Require Import Base.Prelude Codec.StrBytes Codec.Utf8 Codec.VBI Codec.VBIProofs Codec.VBIBridge
  Codec.SubOpts Codec.SubOptsProofs Codec.Reason Codec.ReasonSpec Codec.ReasonProofs
  Codec.PropSpec Codec.Props5 Codec.Props5Defs Codec.Props5Lemmas Codec.Props5Pack Codec.Props5Unpack
  Codec.Props5Valid Codec.Props5Gen Codec.Props5Range Codec.Props5Inst Codec.Props5Reject Codec.Props5Fuel
  Gen.GenVBIEnc Gen.GenVBIDec Gen.GenSubOptsPack Gen.GenSubOptsUnpack Gen.GenPropTable Gen.GenReasonTable.

(* ================= 1. Variable Byte Integer: all values, by arithmetic ================= *)
(* the source's encode / decode (translated on every run) are the model's *)
Theorem C17_vbi_encode_source_is_model : forall fuel x, (4 <= fuel)%nat -> gen_vbi_encode fuel x = vbi_encode x.
Proof. exact vbi_encode_bridge. Qed.
Print Assumptions C17_vbi_encode_source_is_model.

Theorem C17_vbi_decode_source_is_model : forall fuel buf, (length buf < fuel)%nat ->
  gen_vbi_decode fuel buf = vbi_decode buf.
Proof. exact vbi_decode_bridge. Qed.
Print Assumptions C17_vbi_decode_source_is_model.

Theorem C17_vbi_accepts_iff : forall x, (exists b, vbi_encode x = Ok b) <-> 0 <= x <= 268435455.
Proof. exact vbi_accepts_iff. Qed.
Print Assumptions C17_vbi_accepts_iff.

Theorem C17_vbi_rejects : forall x, x < 0 \/ x > 268435455 -> vbi_encode x = Raise 1.
Proof. exact vbi_rejects. Qed.
Print Assumptions C17_vbi_rejects.

Theorem C17_vbi_roundtrip : forall x b r, vbi_encode x = Ok b ->
  vbi_decode (b ++ r) = Ok (x, Z.of_nat (length b)).
Proof. exact vbi_roundtrip. Qed.
Print Assumptions C17_vbi_roundtrip.

(* 1 byte up to 127, 2 up to 16 383, 3 up to 2 097 151, 4 up to 268 435 455 *)
Theorem C17_vbi_minimal : forall x b, vbi_encode x = Ok b -> Z.of_nat (length b) = vbi_len x.
Proof. exact vbi_minimal. Qed.
Print Assumptions C17_vbi_minimal.

Theorem C17_vbi_is_spec : forall n, 0 <= n <= 268435455 -> vbi_encode n = Ok (spec_vbi n).
Proof. exact vbi_encode_spec. Qed.
Print Assumptions C17_vbi_is_spec.

(* ================= 2. the tables of the source against the specification ================= *)
Theorem C17_tables_ok : tables_ok GT = true.
Proof. exact tables_ok_GT. Qed.
Print Assumptions C17_tables_ok.

(* identifier -> data type and allowed packet types: every identifier, packet type values 0..127 *)
Theorem C17_prop_table_eq_spec : forall id pt, 0 <= pt < 128 ->
  code_type GT id = spec_type_index id /\ code_allowed GT pt id = spec_allowed pt id.
Proof. exact prop_table_eq_spec. Qed.
Print Assumptions C17_prop_table_eq_spec.

Theorem C17_prop_names_eq_spec : names_check = true.
Proof. exact prop_names_eq_spec. Qed.
Print Assumptions C17_prop_names_eq_spec.

Theorem C17_prop_types_eq_spec : gen_prop_types = map bytes_of spec_type_names.
Proof. exact prop_types_eq_spec. Qed.
Print Assumptions C17_prop_types_eq_spec.

Theorem C17_packet_types_eq_spec : packet_types_check = true.
Proof. exact packet_types_eq_spec. Qed.
Print Assumptions C17_packet_types_eq_spec.

(* repeatable properties: F-C17g *)
Theorem C17_multi_eq_spec_partial : forall pt id, 0 <= pt < 128 -> spec_allowed pt id = true ->
  ~ (pt = SUBSCRIBE /\ id = 11) -> memz id (t_multi GT) = spec_repeatable pt id.
Proof. exact multi_eq_spec_partial. Qed.
Print Assumptions C17_multi_eq_spec_partial.

Theorem C17_multi_eq_spec_refuted :
  exists pt id, spec_allowed pt id = true /\ memz id (t_multi GT) <> spec_repeatable pt id.
Proof. exact multi_eq_spec_refuted. Qed.
Print Assumptions C17_multi_eq_spec_refuted.

(* the value checks of __setattr__ ARE the specification's ranges, on every type-correct value of every property *)
Theorem C17_range_vs_spec : forall i w v n, In (n, i) (t_names GT) -> spec_type i = Some w -> spec_fits w v = true ->
  code_range_ok GT i v = spec_in_range i v.
Proof. exact code_range_vs_spec. Qed.
Print Assumptions C17_range_vs_spec.

(* reason codes: (packet type, value) relation, whole domain 128 x 256 *)
Theorem C17_reason_table_eq_spec : forall pt v, 0 <= pt < 128 -> 0 <= v < 256 ->
  rc_allows GR pt v = spec_allows pt v.
Proof. exact reason_table_eq_spec. Qed.
Print Assumptions C17_reason_table_eq_spec.

(* ================= 3. reason codes ================= *)
Theorem C17_reason : forall pt v rest, 0 <= pt < 128 -> 0 <= v < 256 ->
  (spec_allows pt v = true ->
     rc_new GR pt name_success v = Ok v /\ rc_unpack GR pt (v :: rest) = Ok (v, 1) /\ rc_pack v = Ok [v]
     /\ exists n, rc_get_name GR pt v = Ok n /\ rc_new GR pt n (-1) = Ok v)
  /\ (spec_allows pt v = false ->
     (exists k, rc_new GR pt name_success v = Raise k) /\ (exists k, rc_unpack GR pt (v :: rest) = Raise k)).
Proof. exact c17_reason. Qed.
Print Assumptions C17_reason.

Theorem C17_reason_by_name_sound : forall tbl pt name c, rc_get_id tbl pt name = Ok c ->
  exists names pts, In (c, names) tbl /\ assoc_s name names = Some pts /\ memz pt pts = true.
Proof. exact rc_get_id_sound. Qed.
Print Assumptions C17_reason_by_name_sound.

Theorem C17_reason_by_name_complete : forall pt code names n pts, 0 <= pt < 128 ->
  In (code, names) GR -> In (n, pts) names -> memz pt pts = true -> rc_new GR pt n (-1) = Ok code.
Proof. exact rc_by_name_complete. Qed.
Print Assumptions C17_reason_by_name_complete.

(* names (library API strings, not wire data) agree with the specification up to capitalisation except 17, 158, 162 *)
Theorem C17_reason_names_partial :
  forallb (fun row => memz (fst (fst row)) name_exceptions || spec_row_name_ok row) spec_reasons = true.
Proof. exact reason_names_eq_spec_partial. Qed.
Print Assumptions C17_reason_names_partial.

Theorem C17_reason_names_refuted : exists row, In row spec_reasons /\ spec_row_name_ok row = false.
Proof. exact reason_names_eq_spec_refuted. Qed.
Print Assumptions C17_reason_names_refuted.

(* ================= 4. properties: pack = specification's encoding ================= *)
(* any well-formed property set (any number of repeated properties, any strings/binary) *)
Theorem C17_pack_spec : forall pt st, wf_state GT pt st = true -> body_small GT st = true ->
  exists b, pack GT st = Ok b /\ spec_pack (canon GT st) = Some b.
Proof. exact c17_pack_spec. Qed.
Print Assumptions C17_pack_spec.

(* a valid assignment is accepted, keeps the object well formed, appends to a repeatable property *)
Theorem C17_setattr_valid : forall pt st n i name v,
  In (n, i) (t_names GT) -> compress name = compress n -> 0 <= pt < 128 ->
  spec_allowed pt i = true -> spec_value_ok i v = true ->
  wf_state GT pt st = true ->
  exists st', setattr GT pt st name (One v) = Ok st' /\ wf_state GT pt st' = true
    /\ assoc i st' = Some (if memz i (t_multi GT)
                           then Many (match assoc i st with Some (Many old) => old | _ => [] end ++ [v])
                           else One v)
    /\ forall j, j <> i -> assoc j st' = assoc j st.
Proof. exact c17_setattr_valid. Qed.
Print Assumptions C17_setattr_valid.

(* ================= 5. round trip ================= *)
Theorem C17_roundtrip : forall pt st rest,
  wf_state GT pt st = true -> body_small GT st = true -> spec_range_state st = true ->
  exists b, pack GT st = Ok b /\ unpack GT pt (b ++ rest) = Ok (norm GT st, blen b).
Proof. exact c17_roundtrip. Qed.
Print Assumptions C17_roundtrip.

(* unpack never runs out of the fuel it is given *)
Theorem C17_unpack_fuel : forall T pt buf, unpack T pt buf <> OutOfFuel.
Proof. exact unpack_fuel. Qed.
Print Assumptions C17_unpack_fuel.

(* ================= 6. rejection ================= *)
Theorem C17_rejects_unknown : forall pt st name a,
  existsb (zlist_eqb (compress name)) (t_private GT) = false ->
  name_known (t_names GT) (compress name) = false -> setattr GT pt st name a = Raise 3.
Proof. exact c17_rejects_unknown. Qed.
Print Assumptions C17_rejects_unknown.

Theorem C17_rejects_not_allowed : forall pt st n i name a,
  In (n, i) (t_names GT) -> compress name = compress n -> 0 <= pt < 128 -> spec_allowed pt i = false ->
  setattr GT pt st name a = Raise (if pt <? 16 then 3 else 6).
Proof. exact c17_rejects_not_allowed. Qed.
Print Assumptions C17_rejects_not_allowed.

Theorem C17_rejects_int : forall pt st n i name x st' b,
  In (n, i) (t_names GT) -> compress name = compress n ->
  spec_value_ok i (VInt x) = false ->
  setattr GT pt st name (One (VInt x)) = Ok st' -> pack GT st' <> Ok b.
Proof. exact c17_rejects_int. Qed.
Print Assumptions C17_rejects_int.

Theorem C17_rejects_list_nonrepeatable : forall pt st n i name l st' b,
  In (n, i) (t_names GT) -> compress name = compress n -> memz i (t_multi GT) = false ->
  setattr GT pt st name (Many l) = Ok st' -> pack GT st' <> Ok b.
Proof. exact c17_rejects_list_nonrepeatable. Qed.
Print Assumptions C17_rejects_list_nonrepeatable.

Theorem C17_rejects_list_int : forall pt st n i name l x st' b,
  In (n, i) (t_names GT) -> compress name = compress n ->
  In (VInt x) l -> spec_value_ok i (VInt x) = false ->
  setattr GT pt st name (Many l) = Ok st' -> pack GT st' <> Ok b.
Proof. exact c17_rejects_list_int. Qed.
Print Assumptions C17_rejects_list_int.

(* the full rejection statement c17_rejects_full is still refuted by the open findings F-C17f, g, h *)
Theorem C17_rejects_refuted_f :
  reaches_wire PUBLISH "Content Type" 3 (One (VS (SStr [97; 0; 98]))) [6; 3; 0; 3; 97; 0; 98].
Proof. exact c17_rejects_refuted_f. Qed.
Print Assumptions C17_rejects_refuted_f.
Theorem C17_rejects_refuted_g :
  reaches_wire SUBSCRIBE "Subscription Identifier" 11 (Many [VInt 1; VInt 2]) [4; 11; 1; 11; 2].
Proof. exact c17_rejects_refuted_g. Qed.
Print Assumptions C17_rejects_refuted_g.
Theorem C17_rejects_refuted_h :
  reaches_wire PUBLISH "User Property" 38 (One (VS (SStr [97; 98; 99]))) [7; 38; 0; 1; 97; 0; 1; 98].
Proof. exact c17_rejects_refuted_h. Qed.
Print Assumptions C17_rejects_refuted_h.
Theorem C17_rejects_refuted : ~ c17_rejects_full.
Proof. exact c17_rejects_refuted. Qed.
Print Assumptions C17_rejects_refuted.

(* ================= 7. subscribe options ================= *)
Theorem C17_subopts_pack_source_is_model : forall fuel rh qos nl rap,
  gen_subopts_pack fuel rh qos nl rap =
  match subopts_pack rh qos nl rap with
  | Ok d => Ok (rh, qos, nl, rap, d) | Raise k => Raise k | OutOfFuel => OutOfFuel end.
Proof. exact subopts_pack_bridge. Qed.
Print Assumptions C17_subopts_pack_source_is_model.

Theorem C17_subopts_unpack_source_is_model : forall fuel s1 s2 s3 s4 buf,
  gen_subopts_unpack fuel s1 s2 s3 s4 buf =
  match subopts_unpack buf with
  | Ok (rh, qos, nl, rap) => Ok (rh, qos, nl, rap, 1) | Raise k => Raise k | OutOfFuel => OutOfFuel end.
Proof. exact subopts_unpack_bridge. Qed.
Print Assumptions C17_subopts_unpack_source_is_model.

(* pack succeeds exactly on the 36 legal tuples and yields the specification's byte; all others raise *)
Theorem C17_subopts_pack_spec : forall rh qos nl rap,
  subopts_pack rh qos nl rap =
  if spec_subopts_legal rh qos then Ok [spec_subopts_byte rh qos nl rap] else Raise 8.
Proof. exact subopts_pack_spec. Qed.
Print Assumptions C17_subopts_pack_spec.

Theorem C17_subopts_roundtrip : forall rh qos nl rap b rest,
  subopts_pack rh qos nl rap = Ok b -> subopts_unpack (b ++ rest) = Ok (rh, qos, nl, rap).
Proof. exact subopts_roundtrip. Qed.
Print Assumptions C17_subopts_roundtrip.

Theorem C17_subopts_unpack_all : forall b, 0 <= b < 256 -> unpack_ok_byte b = true.
Proof. exact subopts_unpack_all. Qed.
Print Assumptions C17_subopts_unpack_all.

(* ================= non-vacuity ================= *)
Definition pack_opt (r : res (list Z)) : option (list Z) := match r with Ok b => Some b | _ => None end.
Definition ex_state : pstate :=
  [ (38, Many [VPair (SStr [97]) (SStr [240; 159; 152; 128]); VPair (SStr [97]) (SStr [])]);   (* ("a","\U0001F600"), ("a","") *)
    (11, Many [VInt 128; VInt 1]);
    (35, One (VInt 65535));
    (9, One (VS (SBin [0; 255])));
    (1, One (VInt 1)) ].

Example C17_hyps_satisfiable :
  wf_state GT PUBLISH ex_state = true /\ body_small GT ex_state = true /\ spec_range_state ex_state = true.
Proof. repeat split; vm_compute; reflexivity. Qed.

(* the example packs to the specification's bytes (table order, repeated properties in insertion order)
   and unpacks to the same attributes using exactly the packed length *)
Example C17_example_bytes :
  pack GT ex_state = Ok [31; 1; 1; 9; 0; 2; 0; 255; 11; 128; 1; 11; 1; 35; 255; 255;
                         38; 0; 1; 97; 0; 4; 240; 159; 152; 128; 38; 0; 1; 97; 0; 0]
  /\ spec_pack (canon GT ex_state) = pack_opt (pack GT ex_state)
  /\ unpack GT PUBLISH ([31; 1; 1; 9; 0; 2; 0; 255; 11; 128; 1; 11; 1; 35; 255; 255;
                         38; 0; 1; 97; 0; 4; 240; 159; 152; 128; 38; 0; 1; 97; 0; 0] ++ [7; 7])
     = Ok (norm GT ex_state, 32).
Proof. repeat split; vm_compute; reflexivity. Qed.

Example C17_example_assign :
  set_all GT PUBLISH [] [ (bytes_of "Topic Alias", One (VInt 7)); (bytes_of "UserProperty", One (VPair (SStr [97]) (SStr [98])));
                          (bytes_of "User Property", Many [VPair (SStr [99]) (SStr [100])]) ]
  = Ok [ (35, One (VInt 7)); (38, Many [VPair (SStr [97]) (SStr [98]); VPair (SStr [99]) (SStr [100])]) ].
Proof. vm_compute. reflexivity. Qed.

(* the witnesses of the repaired findings F-C17b..e now behave as the specification says *)
Example C17_repaired_witnesses :
  pack GT [(39, One (VInt 4294967295))] = Ok [5; 39; 255; 255; 255; 255]
  /\ unpack GT CONNECT [5; 39; 255; 255; 255; 255] = Ok ([(39, One (VInt 4294967295))], 6)
  /\ setattr GT SUBSCRIBE [] (bytes_of "SubscriptionIdentifier") (Many [VInt 0]) = Raise 3
  /\ pack GT [(38, Many [VPair (SStr [239; 187; 191]) (SStr [120])])] = Ok [9; 38; 0; 3; 239; 187; 191; 0; 1; 120]
  /\ unpack GT PUBLISH [9; 38; 0; 3; 239; 187; 191; 0; 1; 120]
     = Ok ([(38, Many [VPair (SStr [239; 187; 191]) (SStr [120])])], 10)
  /\ setattr GT CONNACK [] (bytes_of "MaximumQoS") (One (VInt 2)) = Raise 3.
Proof. repeat split; vm_compute; reflexivity. Qed.

Example C17_reason_nonvacuous :
  spec_allows CONNACK 153 = true /\ rc_new GR CONNACK name_success 153 = Ok 153 /\
  spec_allows CONNACK 3 = false /\ rc_new GR CONNACK name_success 3 = Raise 7.
Proof. repeat split; vm_compute; reflexivity. Qed.

Example C17_vbi_nonvacuous : vbi_encode 268435455 = Ok [255; 255; 255; 127] /\ vbi_encode 16384 = Ok [128; 128; 1].
Proof. split; vm_compute; reflexivity. Qed.
