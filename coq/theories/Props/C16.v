(* C16 - socket lifecycle callbacks well nested, no lost write wake-up, over the Conn model
   (Link/Conn.v) with on_socket_open/on_socket_close installed.  Checkers in Link/ConnCheck.v.
   Exclusion T (finding F-C16a): on_socket_close / on_socket_unregister_write do not call reconnect(). *)
From PahoV Require Import Base.Prelude Link.Conn Link.ConnCheck Link.ConnInv Link.ConnStatements
  Link.C16Proofs Link.ConnRefuted Link.ConnFuel.

(* 1. (SockOpen s . SockClose s)* [SockOpen s] *)
Theorem C16_open_close_partial : forall c ops,
  c_sockcb c = true -> c16_ops_ok ops = true -> c16_open_close_ok (optrace c ops) = true.
Proof. exact c16_open_close_proved. Qed.
Print Assumptions C16_open_close_partial.

(* 2. RegW/UnregW alternate, same socket, inside its open..close *)
Theorem C16_reg_nested_partial : forall c ops,
  c_sockcb c = true -> c16_ops_ok ops = true -> c16_reg_nested_ok (optrace c ops) = true.
Proof. exact c16_reg_nested_proved. Qed.
Print Assumptions C16_reg_nested_partial.

(* 3. external-loop mode: at the end of every operation, socket held and data unsent -> a write
   registration is outstanding *)
Theorem C16_no_lost_wakeup_partial : forall c ops,
  c_sockcb c = true -> c_ext c = true -> c16_ops_ok ops = true -> c16_no_lost_wakeup_ok c (optrace c ops) = true.
Proof. exact c16_no_lost_wakeup_proved. Qed.
Print Assumptions C16_no_lost_wakeup_partial.

Theorem C16_open_close_full_refuted : ~ (forall c ops, c_sockcb c = true -> c16_open_close_ok (optrace c ops) = true).
Proof. exact C16_open_close_refuted. Qed.
Print Assumptions C16_open_close_full_refuted.
Theorem C16_reg_nested_full_refuted : ~ (forall c ops, c_sockcb c = true -> c16_reg_nested_ok (optrace c ops) = true).
Proof. exact C16_reg_nested_refuted. Qed.
Print Assumptions C16_reg_nested_full_refuted.

Theorem C16_model_complete : forall c ops,
  no_fuel_ok (optrace c ops) = true /\ no_deadlock_ok (optrace c ops) = true.
Proof. exact conn_model_complete. Qed.
Print Assumptions C16_model_complete.

(* non-vacuity: blocked and partial writes, an error on write, a reconnect from on_disconnect and a
   publish from on_socket_open; each checker rejects a bad trace *)
Definition nv16_ops : list op :=
  [ mkOp (TConnect true) [] (mkScr [] [] [[APublish0]] [] [] [] [] []);
    Os TLoopWrite [OPart; OBlock]; O TLoopWrite; O (TLoopRead (IConnack 0));
    O TPublish0; Os TLoopWrite [OFail];
    mkOp (TReconnect true) [] (mkScr [] [] [] [[APublish0]] [] [] [] []);
    mkOp (TLoopRead IEof) [] (mkScr [] [[AReconnect true]] [] [] [] [] [] []) ].
Example C16_nonvacuous :
  c16_ops_ok nv16_ops = true /\
  length (filter (fun e => match e with SockOpen _ => true | _ => false end) (concat (optrace extloop_cb nv16_ops))) = 3%nat /\
  length (filter (fun e => match e with RegW _ => true | _ => false end) (concat (optrace extloop_cb nv16_ops))) = 4%nat /\
  c16_open_close_ok [[SockOpen 1; SockOpen 2]] = false /\
  c16_open_close_ok [[SockOpen 1; SockClose 2]] = false /\
  c16_reg_nested_ok [[SockOpen 1; RegW 1; RegW 1]] = false /\
  c16_reg_nested_ok [[SockOpen 1; RegW 1; SockClose 1]] = false /\
  c16_reg_nested_ok [[RegW 1]] = false /\
  c16_no_lost_wakeup_ok extloop_cb [[SockOpen 1; Obs WEnd false true true false]] = false.
Proof. vm_compute. repeat split; reflexivity. Qed.
