(* C03 - inbound QoS 2 delivered exactly once; acknowledgements follow the callback.
   [c03_ok] (Session/Check.v) compares, operation by operation, the inbound-visible events of the
   client model (on_message calls, PUBACK/PUBREC/PUBCOMP written) with the output of the abstract
   receiver [spec_recv], whose only state is the map of half-received QoS 2 messages; it also checks
   that a reconnect drops that map exactly for clean sessions and that, with manual acknowledgement,
   PUBACK/PUBCOMP are written only by ack().  Arbitrary histories: duplicated PUBLISH/PUBREL, unknown
   ids, id reuse, reconnects anywhere, callbacks that raise, any configuration. *)
From PahoV Require Import Base.Prelude Session.Model Session.Check Session.Statements Session.C03Proofs.

Theorem C03_refines_abstract_receiver : forall c ops, c03_ok c (optrace c ops) = true.
Proof. exact c03_proved. Qed.
Print Assumptions C03_refines_abstract_receiver.

(* non-vacuity: a history with a duplicated PUBLISH, a duplicated PUBREL, a raising callback and a
   reconnect really produces deliveries and acknowledgements, and the checker is not constantly true *)
Example C03_nonvacuous :
  let c := mkCfg 0 2 0 false false in
  let ops := [OReconnect true; ORx (IConnack 0) false; ORx (IPublish 2 7 100) false; ORx (IPublish 2 7 100) false;
              OReconnect true; ORx (IConnack 0) false; ORx (IPubrel 7) false; ORx (IPubrel 7) false;
              ORx (IPublish 1 8 101) true] in
  map (filter inbound_ev) (optrace c ops) =
    [[]; []; [Tx 1 (PPubrec 7)]; [Tx 1 (PPubrec 7)]; []; [];
     [CbMessage 7 2 100; Tx 2 (PPubcomp 7)]; [Tx 2 (PPubcomp 7)]; [CbMessage 8 1 101]]
  /\ c03_ok c [[Inp (IPubrel 7); CbMessage 7 2 100; CbMessage 7 2 100]] = false.
Proof. vm_compute. split; reflexivity. Qed.

(* ------------------------------------------------------------------------------------------
   The same property on the second-generation session model (coq/theories/Session2): the client's
   output queue and a transport that may refuse writes are modelled; events distinguish a packet
   HANDED to the connection from a packet WRITTEN; reconnect() drops what is still queued. *)
From PahoV Require Import Session2.Model Session2.Check Session2.Statements Session2.C03Proofs.

(* the receiver refinement with replies that may be deferred: replies are handed to the queue in the operation that processes the inbound packet, in the abstract receiver's order *)
Theorem C03_with_blocking_transport : forall c ops,
  c03_ok c (optrace c ops) = true.
Proof. exact c03_proved. Qed.
Print Assumptions C03_with_blocking_transport.
