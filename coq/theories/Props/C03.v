(* C03 - inbound QoS 2 delivered exactly once; acknowledgements follow the callback.
   [c03_ok] (Session/Check.v) compares, operation by operation, the inbound-visible events of the
   client model (on_message calls, PUBACK/PUBREC/PUBCOMP written) with the output of the abstract
   receiver [spec_recv], whose only state is the map of half-received QoS 2 messages; it also checks
   that a reconnect drops that map exactly for clean sessions and that, with manual acknowledgement,
   PUBACK/PUBCOMP are written only by ack().  Arbitrary histories: duplicated PUBLISH/PUBREL, unknown
   ids, id reuse, reconnects anywhere, callbacks that raise, any configuration. *)
From PahoV Require Import Base.Prelude Session.Model Session.Check Session.Statements Session.C03Proofs.

Theorem C03_refines_abstract_receiver : forall c ops, c03_ok c (optrace c ops) = true.
Proof. exact c03_proved. Qed.
Print Assumptions C03_refines_abstract_receiver.

(* non-vacuity: a history with a duplicated PUBLISH, a duplicated PUBREL, a raising callback and a
   reconnect really produces deliveries and acknowledgements, and the checker is not constantly true *)
Example C03_nonvacuous :
  let c := mkCfg 0 2 0 false false in
  let ops := [OReconnect true; ORx (IConnack 0) false; ORx (IPublish 2 7 100) false; ORx (IPublish 2 7 100) false;
              OReconnect true; ORx (IConnack 0) false; ORx (IPubrel 7) false; ORx (IPubrel 7) false;
              ORx (IPublish 1 8 101) true] in
  map (filter inbound_ev) (optrace c ops) =
    [[]; []; [Tx 1 (PPubrec 7)]; [Tx 1 (PPubrec 7)]; []; [];
     [CbMessage 7 2 100; Tx 2 (PPubcomp 7)]; [Tx 2 (PPubcomp 7)]; [CbMessage 8 1 101]]
  /\ c03_ok c [[Inp (IPubrel 7); CbMessage 7 2 100; CbMessage 7 2 100]] = false.
Proof. vm_compute. split; reflexivity. Qed.

(* ------------------------------------------------------------------------------------------
   Tie to the source: the message-state methods of client.py this property rests on are translated from
   the Python AST on every run (tools/py2v/msgstate.py -> Gen/GenMsgState.v) and proved equal to the
   functions of the hand model (Session/MsgStateBridge.v).  A semantic change to one of these methods
   changes the generated text and the corresponding theorem below stops compiling. *)
From PahoV Require Import Base.Prelude Codec.Mid Session.Model Session.Lemmas Session.Inv
  Session.MsgStateLib Gen.GenMsgState Session.MsgStateBridge.
From PahoV Require Import Props.MsgStateTie.

Theorem C03_tie_summaries :
  gen_summaries_ok = true.
Proof. exact tie_summaries. Qed.
Print Assumptions C03_tie_summaries.

Theorem C03_tie_store_writers :
  gen_store_writers = store_writers_expected.
Proof. exact tie_store_writers. Qed.
Print Assumptions C03_tie_store_writers.

Theorem C03_tie_reset_in :
  forall clean il,
  Forall iq2 il -> gen_reset_in clean il = ((if clean then [] else il), Ok tt).
Proof. exact tie_reset_in. Qed.
Print Assumptions C03_tie_reset_in.

Theorem C03_tie_handle_publish :
  forall c s q mid tag raises il tagof,
  sock s = true -> inm s = inm_of il -> Forall iq2 il -> 0 <= q <= 2 ->
  let '(i, calls, r) := gen_handle_publish_tail (c_manual c) (c_suppress c) raises
                          (mkI (if q =? 0 then 0 else mid) q tag) il [] in
  (r = Ok MQTT_ERR_SUCCESS \/ r = Raise 0) /\ Forall iq2 i /\
  do_rx c s (IPublish q mid tag) raises =
    (with_inm s (inm_of i), Inp (IPublish q mid tag) :: evs (conn s) tagof calls ++ raised_ev r).
Proof. exact tie_handle_publish. Qed.
Print Assumptions C03_tie_handle_publish.

Theorem C03_tie_handle_pubrel :
  forall c s mid raises il tagof,
  sock s = true -> inm s = inm_of il -> Forall iq2 il ->
  let '(i, calls, r) := gen_handle_pubrel (c_manual c) (c_suppress c) raises mid il [] in
  (r = Ok MQTT_ERR_SUCCESS \/ r = Raise 0) /\ Forall iq2 i /\
  do_rx c s (IPubrel mid) raises =
    (with_inm s (inm_of i), Inp (IPubrel mid) :: evs (conn s) tagof calls ++ raised_ev r).
Proof. exact tie_handle_pubrel. Qed.
Print Assumptions C03_tie_handle_pubrel.

Theorem C03_tie_ack :
  forall c s mid q tagof,
  sock s = true ->
  let '(calls, r) := gen_ack (c_manual c) mid q [] in
  r = Ok MQTT_ERR_SUCCESS /\ do_ack c s mid q = (s, evs (conn s) tagof calls).
Proof. exact tie_ack. Qed.
Print Assumptions C03_tie_ack.

(* ------------------------------------------------------------------------------------------
   The same property on the second-generation session model (coq/theories/Session2): the client's
   output queue and a transport that ACCEPTS writes, REFUSES them (BlockingIOError) or FAILS HARD (OSError: the
   connection is torn down inside the write) are modelled; events distinguish a packet
   HANDED to the connection from a packet WRITTEN; reconnect() drops what is still queued.
   Every theorem below quantifies over ALL conforming histories, hard write failures included. *)
From PahoV Require Import Session2.Model Session2.Check Session2.Statements Session2.C03Proofs.

(* ARBITRARY histories, hard write failures included. The receiver refinement with replies that may be deferred: replies are handed to the queue in the operation that processes the inbound packet, in the abstract receiver's order *)
Theorem C03_with_blocking_transport : forall c ops,
  c03_ok c (optrace c ops) = true.
Proof. exact c03_proved. Qed.
Print Assumptions C03_with_blocking_transport.
