(* C11 - topic filter matching equals the MQTT specification; the filter trie stays consistent.
   Only statements, each closed by [exact]; models: Matcher/Trie.v (matcher.py, topic_matches_sub),
   specification: Matcher/TrieSpec.v (MQTT 4.7), proofs: Matcher/{Alist,Trie,Match}Proofs.v, TrieRefine.v.
   Byte strings are UTF-8; a filter/topic string and its list of levels determine each other
   (C11_levels_determine_string), so the reference dictionary is keyed by level lists. *)
From PahoV Require Import Base.Prelude Matcher.Level Matcher.Trie Matcher.TrieSpec
  Matcher.AlistProofs Matcher.TrieProofs Matcher.MatchProofs Matcher.TrieRefine.
From Coq Require Import Permutation String Ascii.

(* 1. topic_matches_sub() decides matching exactly as the specification, for every valid filter and
      valid topic name: any depth, any bytes (multi-byte UTF-8 included). *)
Theorem C11_match_spec : forall sub topic,
  valid_filter sub = true -> valid_topic topic = true ->
  topic_matches_sub sub topic = spec_match (split_slash sub) (split_slash topic).
Proof. exact topic_matches_sub_spec. Qed.
Print Assumptions C11_match_spec.

Theorem C11_levels_determine_string : forall s s', split_slash s = split_slash s' -> s = s'.
Proof. exact split_slash_inj. Qed.
Print Assumptions C11_levels_determine_string.

(* 2. After any sequence of insertions, overwrites, deletions (and lookups) from MQTTMatcher():
      the trie is well-formed and holds exactly the pairs of the reference dictionary, which is key-unique. *)
Theorem C11_trie_refines_map : forall (V : Type) (ops : list (t_op V)),
  let t := t_run ops empty in
  wf t /\ Permutation (abs t) (d_run ops []) /\ NoDup (map fst (d_run ops [])).
Proof. exact run_refines. Qed.
Print Assumptions C11_trie_refines_map.

Theorem C11_trie_get : forall (V : Type) (ops : list (t_op V)) key,
  t_get key (t_run ops empty) = d_lookup (split_slash key) (d_run ops []).
Proof. exact run_get. Qed.
Print Assumptions C11_trie_get.

(* 3. Looking a valid topic up yields exactly the values of the stored filters that match it per the
      specification, each stored filter once (d_matching maps over the key-unique dictionary). *)
Theorem C11_trie_lookup : forall (V : Type) (ops : list (t_op V)) topic,
  valid_topic topic = true ->
  Permutation (iter_match (t_run ops empty) topic) (d_matching (d_run ops []) (split_slash topic)).
Proof. exact run_iter_match. Qed.
Print Assumptions C11_trie_lookup.

(* 4. Deleting a filter that is not stored raises KeyError (None) or completes; either way the trie
      is the same value.  (Lookups return no trie at all: t_get / iter_match are read-only.) *)
Theorem C11_unstored_delete_unchanged : forall (V : Type) (ops : list (t_op V)) key,
  let t := t_run ops empty in
  t_get key t = None -> t_del key t = None \/ t_del key t = Some t.
Proof. exact run_del_absent. Qed.
Print Assumptions C11_unstored_delete_unchanged.

Theorem C11_stored_delete : forall (V : Type) (ops : list (t_op V)) key v,
  let t := t_run ops empty in
  t_get key t = Some v ->
  exists t', t_del key t = Some t' /\ wf t' /\
             Permutation (abs t') (d_remove (split_slash key) (d_run ops [])).
Proof. exact run_del_stored. Qed.
Print Assumptions C11_stored_delete.

(* 5. The same, step by step: every result of every operation of every history is the dictionary's
      result (iter_match up to order), operations that do not concern a stored filter return the
      identical trie, and the representation invariant holds after every step. *)
Theorem C11_every_step : forall (V : Type) (ops : list (t_op V)), all_steps_ok ops empty [].
Proof. exact run_all_steps. Qed.
Print Assumptions C11_every_step.

(* the two loops of __delitem__ (descend, then bottom-up pruning with break) are the recursion used in the proofs *)
Theorem C11_delitem_loops : forall (V : Type) ks (t : node V), del_levels ks t = del_rec ks t.
Proof. exact del_levels_rec. Qed.
Print Assumptions C11_delitem_loops.

(* Outside the property (topic names never contain wildcards): a topic level that is itself "+" is
   found under the literal key and under the '+' key, so the value is yielded twice. *)
Theorem C11_wildcard_in_topic_yields_twice :
  iter_match (t_set [97; 47; 43] 7 empty) [97; 47; 43] = [7; 7].
Proof. exact iter_match_wild_topic_twice. Qed.
Print Assumptions C11_wildcard_in_topic_yields_twice.

(* ---------------------------------------------------------------- the specification itself, clause by clause
   (Matcher/SpecLaws.v): laws of spec_match / match_levels for ALL level lists, so the specification
   that 1.-3. refine is pinned to the property text and not only to the OASIS examples below *)
From PahoV Require Import Matcher.SpecLaws.

(* '+' matches exactly one level (also an empty one: y is arbitrary) *)
Theorem C11_spec_plus_exactly_one_level : forall f y t,
  match_levels (lvl_plus :: f) (y :: t) = match_levels f t /\ match_levels (lvl_plus :: f) [] = false.
Proof. intros f y t; split; [exact (plus_one_level f y t) | exact (plus_needs_a_level f)]. Qed.
Print Assumptions C11_spec_plus_exactly_one_level.

(* a trailing '#' matches the parent and any number of further levels, and behind literal levels nothing else *)
Theorem C11_spec_hash_parent_and_children : forall p,
  (forall rest, match_levels (p ++ [lvl_hash]) (p ++ rest) = true) /\
  (forallb lit p = true -> forall t, match_levels (p ++ [lvl_hash]) t = true -> exists rest, t = p ++ rest).
Proof. intros p; split; [exact (hash_parent_and_children p) | exact (hash_only_below_parent p)]. Qed.
Print Assumptions C11_spec_hash_parent_and_children.

(* other levels match literally and case-sensitively: a filter without wildcards matches exactly its own level list *)
Theorem C11_spec_literal : forall f, forallb lit f = true -> forall t, match_levels f t = levels_eqb f t.
Proof. exact literal_filter. Qed.
Print Assumptions C11_spec_literal.

(* a wildcard in the first level never matches a topic beginning with '$'; that is the only effect of '$' *)
Theorem C11_spec_dollar_rule : forall f t,
  (first_wild f = true -> dollar_topic t = true -> spec_match f t = false) /\
  (first_wild f && dollar_topic t = false -> spec_match f t = match_levels f t).
Proof. intros f t; split; [exact (dollar_rule f t) | exact (dollar_rule_only f t)]. Qed.
Print Assumptions C11_spec_dollar_rule.

(* the filters these theorems quantify over (valid_filter) are exactly the ones subscribe() accepts
   (C19's independently written grammar spec_filter_ok), up to the 65535-byte limit of the wire format *)
From PahoV Require Import Codec.ValidateSpec Matcher.FilterGrammarTie.
Theorem C11_valid_filter_is_the_subscribe_grammar : forall s,
  spec_filter_ok s = valid_filter s && (Z.of_nat (List.length s) <=? 65535).
Proof. exact filter_grammars_agree. Qed.
Print Assumptions C11_valid_filter_is_the_subscribe_grammar.

(* ---------------------------------------------------------------- non-vacuity and spec sanity *)
Definition b (s : string) : list Z := map (fun a => Z.of_N (N_of_ascii a)) (list_ascii_of_string s).
Definition sm (f t : string) : bool := spec_match_str (b f) (b t).

(* hypotheses are satisfiable by non-trivial inputs *)
Example C11_valid_filter_ex : valid_filter (b "sport/+/player1/#") = true /\ valid_filter (b "#") = true
  /\ valid_filter (b "+/+") = true /\ valid_filter (b "/") = true /\ valid_filter [195; 169; 47; 43] = true.
Proof. repeat split; reflexivity. Qed.
Example C11_invalid_filter_ex : valid_filter (b "sport/tennis#") = false /\ valid_filter (b "sport/#/ranking") = false
  /\ valid_filter (b "sport+") = false /\ valid_filter (b "") = false /\ valid_filter (b "#/") = false.
Proof. repeat split; reflexivity. Qed.
Example C11_valid_topic_ex : valid_topic (b "$SYS/monitor/Clients") = true /\ valid_topic (b "/") = true
  /\ valid_topic (b "a//b ") = true /\ valid_topic (b "a/+") = false /\ valid_topic (b "") = false.
Proof. repeat split; reflexivity. Qed.

(* the examples of MQTT 3.1.1 / 5.0 section 4.7 *)
Example C11_spec_hash :
  sm "sport/tennis/player1/#" "sport/tennis/player1" = true /\
  sm "sport/tennis/player1/#" "sport/tennis/player1/ranking" = true /\
  sm "sport/tennis/player1/#" "sport/tennis/player1/score/wimbledon" = true /\
  sm "sport/#" "sport" = true /\ sm "#" "sport/tennis" = true /\ sm "sport/tennis/#" "sport/golf" = false.
Proof. repeat split; reflexivity. Qed.
Example C11_spec_plus :
  sm "sport/tennis/+" "sport/tennis/player1" = true /\ sm "sport/tennis/+" "sport/tennis/player1/ranking" = false /\
  sm "sport/+" "sport" = false /\ sm "sport/+" "sport/" = true /\
  sm "+/+" "/finance" = true /\ sm "/+" "/finance" = true /\ sm "+" "/finance" = false /\
  sm "+/tennis/#" "sport/tennis" = true /\ sm "sport/+/player1" "sport/tennis/player1" = true.
Proof. repeat split; reflexivity. Qed.
Example C11_spec_dollar :
  sm "#" "$SYS/broker" = false /\ sm "+/monitor/Clients" "$SYS/monitor/Clients" = false /\
  sm "$SYS/#" "$SYS/broker" = true /\ sm "$SYS/monitor/+" "$SYS/monitor/Clients" = true /\ sm "$SYS/#" "$SYS" = true.
Proof. repeat split; reflexivity. Qed.
Example C11_spec_case_and_literal :
  sm "Sport" "sport" = false /\ sm "a/b" "a/b" = true /\ sm "a/b" "a/b/" = false /\ sm "/a" "a" = false.
Proof. repeat split; reflexivity. Qed.

(* a non-trivial history: overlapping wildcard filters, overwrite, deletion with pruning *)
Example C11_run_ex :
  let ops := [OSet (b "a/+") 1; OSet (b "a/#") 2; OSet (b "a/b") 3; OSet (b "a/+") 4; OSet (b "x/y/z") 5; ODel (b "x/y/z")] in
  iter_match (t_run ops empty) (b "a/b") = [3; 4; 2]
  /\ t_get (b "a/+") (t_run ops empty) = Some 4
  /\ t_get (b "x/y/z") (t_run ops empty) = None
  /\ alist_get (b "x") (children (t_run ops empty)) = None
  /\ t_del (b "a") (t_run ops empty) = Some (t_run ops empty)
  /\ t_del (b "q") (t_run ops empty) = None.
Proof. repeat split; reflexivity. Qed.
