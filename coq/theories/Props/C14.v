(* C14 - packet identifiers stay in 1..65535 and are never shared by live messages.
   Only statements, each closed by [exact]; see Codec/MidProofs.v, Session/*. *)
From PahoV Require Import Base.Prelude Codec.Mid Codec.MidProofs Codec.MidPeriod Codec.MidBridge Gen.GenMid.
From PahoV Require Import Session.Model Session.C14Session.

(* the source's _mid_generate (translated on every run) is the model's mid_next *)
Theorem C14_source_is_model : forall fuel m,
  mid_generate fuel m = Ok (mid_next m, mid_next m).
Proof. exact mid_generate_bridge. Qed.
Print Assumptions C14_source_is_model.

Theorem C14_range : forall m, 0 <= m <= 65535 -> 1 <= mid_next m <= 65535.
Proof. exact mid_next_range. Qed.
Print Assumptions C14_range.

Theorem C14_wrap : mid_next 65535 = 1.
Proof. exact mid_next_wrap. Qed.
Print Assumptions C14_wrap.

(* every id returned by an arbitrarily long call sequence from a fresh client is in range *)
Theorem C14_all_in_range : forall k m, 0 <= m <= 65535 ->
  Forall (fun x => 1 <= x <= 65535) (mid_seq k m).
Proof. exact mid_seq_range. Qed.
Print Assumptions C14_all_in_range.

(* closed form, any number of wraps *)
Theorem C14_closed_form : forall k, (0 < k)%nat ->
  mid_iter k 0 = 1 + ((Z.of_nat k - 1) mod 65535).
Proof. exact mid_iter_from_zero. Qed.
Print Assumptions C14_closed_form.

(* up to 65535 consecutive allocations are pairwise distinct *)
Theorem C14_window_distinct : forall k m, 0 <= m <= 65535 -> Z.of_nat k <= 65535 ->
  NoDup (mid_seq k m).
Proof. exact mid_seq_NoDup. Qed.
Print Assumptions C14_window_distinct.

(* the id sequence is ONE cycle through all of 1..65535: two allocations of a run return the same id
   exactly when their distance is a multiple of 65535 (period exactly 65535, from every counter state;
   any number of wraps) *)
Theorem C14_same_id_iff_multiple_of_65535 : forall m i j, 1 <= m <= 65535 ->
  mid_iter i m = mid_iter j m <-> (Z.of_nat i - Z.of_nat j) mod 65535 = 0.
Proof. exact mid_iter_same_iff. Qed.
Print Assumptions C14_same_id_iff_multiple_of_65535.

(* no id is skipped: every value of 1..65535 is handed out within 65535 allocations *)
Theorem C14_every_id_reached : forall m v, 1 <= m <= 65535 -> 1 <= v <= 65535 ->
  exists k, Z.of_nat k < 65535 /\ mid_iter k m = v.
Proof. exact mid_iter_covers. Qed.
Print Assumptions C14_every_id_reached.

(* nothing but the documented wrap interrupts the count *)
Theorem C14_counts_up : forall m, 0 <= m < 65535 -> mid_next m = m + 1.
Proof. exact mid_next_succ. Qed.
Print Assumptions C14_counts_up.

Example C14_period_nonvacuous : mid_iter (Z.to_nat 65535) 7 = 7 /\ mid_iter (Z.to_nat 65534) 7 = 6.
Proof. split; vm_compute; reflexivity. Qed.

(* the stored (live) QoS 1/2 messages of every state reached by a conforming history have pairwise
   distinct packet ids *)
Theorem C14_live_ids_distinct : forall c ops, cfg_ok c = true -> conforming c ops = true ->
  NoDup (map o_mid (out (fst (run c ops)))).
Proof. exact c14_nodup. Qed.
Print Assumptions C14_live_ids_distinct.

(* ... because a publish whose fresh id is still in use is refused and changes nothing *)
Theorem C14_refused_when_in_use : forall c s q, q <> 0 ->
  has_mid (mid_next (last_mid s)) (out s) = true ->
  let r := do_publish c s q in
  out (fst r) = out s /\ inflight (fst r) = inflight s /\ inm (fst r) = inm s /\
  snd r = [Ret (ntag s) (mid_next (last_mid s)) q 15].
Proof. exact c14_refused_when_in_use. Qed.
Print Assumptions C14_refused_when_in_use.

Example C14_nonvacuous : mid_seq 3 65534 = [65535; 1; 2].
Proof. reflexivity. Qed.

From PahoV Require Import Conc.Sched Conc.MidGen.
(* callers on different threads never receive the same id: for EVERY interleaving (schedule s) of any
   number of publisher threads, at the granularity of one shared access per step, the ids returned to
   different (thread, message) pairs differ as long as fewer than 65535 are allocated in the run
   (mutual exclusion on _mid_generate_mutex; model Conc/Sched.v; GIL atomicity of a single attribute
   load/store is the model's assumption) *)
Theorem C14_threads : forall m0 l0 pipe0 nmsgs s i j p q k1 m1 b1 k2 m2 b2, 0 <= m0 <= 65535 ->
  let c := sched_run s (init m0 l0 pipe0 nmsgs) in
  Z.of_nat (length (alloc_log c)) <= 65535 ->
  nth_error (pubs c) i = Some p -> nth_error (pubs c) j = Some q ->
  In (k1, m1, b1) (results p) -> In (k2, m2, b2) (results q) ->
  (i, k1) <> (j, k2) -> m1 <> m2.
Proof. exact mids_distinct. Qed.
Print Assumptions C14_threads.

