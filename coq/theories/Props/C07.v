(* C07 - concurrent publish() with the background loop is safe under every interleaving.
   Only statements, each closed by [exact]; the interleaving model is Conc/Sched.v (one atomic shared-memory
   access per step; GIL atomicity of single deque / attribute / pipe operations is its ASSUMPTION), proofs in
   Conc/MidGen.v, Handoff.v, Wake.v, ConnFirst.v, LockOrder.v.  Every theorem quantifies over EVERY schedule
   (any list of thread ids, any length) and ANY number of publisher threads / messages.
   Level: proof, PARTIAL - the theorems are about the model; the controlled-scheduler runs of harness/c07.py
   validate the model against the real client and search for failing schedules (exploration, not proof).
   The three statements that the earlier code refuted (F-C07a, b, d) are full theorems for the fixed code (section 5). *)
From PahoV Require Import Base.Prelude Codec.Mid Conc.Sched Conc.SchedLemmas Conc.MidGen Conc.Handoff Conc.Wake
  Conc.ConnFirst Conc.LockOrder.
From PahoV Require Conc.LockGraph Conc.LockGraphSound Gen.GenLockGraph Conc.LockOrderGraph.
From PahoV Require Import Conc.AppReconnect.

(* ------------------------------------------------------------------ 1. packet ids (also C14's thread clause) *)
Theorem C07_mutual_exclusion : forall m0 l0 pipe0 nmsgs s i j p q, 0 <= m0 <= 65535 ->
  let c := sched_run s (init m0 l0 pipe0 nmsgs) in
  nth_error (pubs c) i = Some p -> nth_error (pubs c) j = Some q ->
  in_cs (pc p) = true -> in_cs (pc q) = true -> i = j.
Proof. exact mutual_exclusion. Qed.
Print Assumptions C07_mutual_exclusion.

(* ids in the order _mid_generate returned them = the sequential sequence of Codec/Mid.v (C14) *)
Theorem C07_mids_sequence : forall m0 l0 pipe0 nmsgs s, 0 <= m0 <= 65535 ->
  let c := sched_run s (init m0 l0 pipe0 nmsgs) in
  map snd (alloc_log c) = mid_seq (length (alloc_log c)) m0.
Proof. exact mids_sequence. Qed.
Print Assumptions C07_mids_sequence.

Theorem C07_mids_window_distinct : forall m0 l0 pipe0 nmsgs s a b, 0 <= m0 <= 65535 ->
  let ids := map snd (alloc_log (sched_run s (init m0 l0 pipe0 nmsgs))) in
  (a < b < length ids)%nat -> Z.of_nat b - Z.of_nat a < 65535 -> nth a ids 0 <> nth b ids 0.
Proof. exact mids_window_distinct. Qed.
Print Assumptions C07_mids_window_distinct.

(* the ids returned to different (thread, message) pairs differ, as long as at most 65535 were allocated *)
Theorem C07_mids_distinct : forall m0 l0 pipe0 nmsgs s i j p q k1 m1 b1 k2 m2 b2, 0 <= m0 <= 65535 ->
  let c := sched_run s (init m0 l0 pipe0 nmsgs) in
  Z.of_nat (length (alloc_log c)) <= 65535 ->
  nth_error (pubs c) i = Some p -> nth_error (pubs c) j = Some q ->
  In (k1, m1, b1) (results p) -> In (k2, m2, b2) (results q) ->
  (i, k1) <> (j, k2) -> m1 <> m2.
Proof. exact mids_distinct. Qed.
Print Assumptions C07_mids_distinct.

Theorem c14_threads : forall m0 l0 pipe0 nmsgs s i j p q k1 m1 b1 k2 m2 b2, 0 <= m0 <= 65535 ->
  let c := sched_run s (init m0 l0 pipe0 nmsgs) in
  Z.of_nat (length (alloc_log c)) <= 65535 ->
  nth_error (pubs c) i = Some p -> nth_error (pubs c) j = Some q ->
  In (k1, m1, b1) (results p) -> In (k2, m2, b2) (results q) ->
  (i, k1) <> (j, k2) -> m1 <> m2.
Proof. exact mids_distinct. Qed.
Print Assumptions c14_threads.

(* ------------------------------------------------------------------ 2. hand-off (steady state, loop thread = only writer) *)
(* [flight] = written ++ being written ++ queued; restricted to publisher i it is exactly what i appended, in
   i's order, numbered 0,1,2,...: an order-preserving interleaving of the publishers' sequences *)
Theorem C07_handoff : forall m0 l0 pipe0 nmsgs s i p, 0 <= m0 <= 65535 -> steady l0 = true -> in_send l0 = [] ->
  let c := sched_run s (init m0 l0 pipe0 nmsgs) in
  nth_error (pubs c) i = Some p ->
  filter (owner_is i) (flight c) = sentp p /\ map pkt_idx (sentp p) = seq 0 (length (sentp p)).
Proof. exact handoff_order. Qed.
Print Assumptions C07_handoff.

Theorem C07_handoff_at_most_once : forall m0 l0 pipe0 nmsgs s, 0 <= m0 <= 65535 -> steady l0 = true -> in_send l0 = [] ->
  NoDup (filter is_publish (flight (sched_run s (init m0 l0 pipe0 nmsgs)))).
Proof. exact handoff_at_most_once. Qed.
Print Assumptions C07_handoff_at_most_once.

Theorem C07_handoff_mids : forall m0 l0 pipe0 nmsgs s o k m, 0 <= m0 <= 65535 -> steady l0 = true -> in_send l0 = [] ->
  let c := sched_run s (init m0 l0 pipe0 nmsgs) in
  In (Publish o k m) (flight c) -> In (o, k, m) (alloc_log c).
Proof. exact handoff_mids. Qed.
Print Assumptions C07_handoff_mids.

(* every thread finished, queue drained: each message is on the wire exactly once, in publication order *)
Theorem C07_handoff_exactly_once : forall m0 l0 pipe0 nmsgs s i n, 0 <= m0 <= 65535 -> steady l0 = true -> in_send l0 = [] ->
  let c := sched_run s (init m0 l0 pipe0 nmsgs) in
  all_done c = true -> out_packet c = [] -> in_send (loop c) = [] ->
  nth_error nmsgs i = Some n ->
  map pkt_idx (filter (owner_is i) (map snd (wire c))) = seq 0 n.
Proof. exact handoff_final. Qed.
Print Assumptions C07_handoff_exactly_once.

(* ------------------------------------------------------------------ 3. no lost wake-up, no stall *)
Theorem C07_no_lost_wakeup : forall m0 l0 pipe0 nmsgs s,
  let c := sched_run s (init m0 l0 pipe0 nmsgs) in
  out_packet c <> [] -> loop c = LSelect false ->
  (0 < pipe c)%nat \/ exists i p, nth_error (pubs c) i = Some p /\ pc p = PPipe.
Proof. exact no_lost_wakeup. Qed.
Print Assumptions C07_no_lost_wakeup.

Theorem C07_timeout_only_when_idle : forall m0 l0 pipe0 nmsgs s c',
  let c := sched_run s (init m0 l0 pipe0 nmsgs) in
  tstep Timeout c = Some c' ->
  out_packet c = [] \/ exists i p, nth_error (pubs c) i = Some p /\ pc p = PPipe.
Proof. exact timeout_only_when_idle. Qed.
Print Assumptions C07_timeout_only_when_idle.

Theorem C07_loop_runs_when_queued : forall m0 l0 pipe0 nmsgs s,
  let c := sched_run s (init m0 l0 pipe0 nmsgs) in
  steady (loop c) = true -> out_packet c <> [] ->
  (forall i p, nth_error (pubs c) i = Some p -> pc p <> PPipe) ->
  tstep Loop c <> None.
Proof. exact loop_runs_when_queued. Qed.
Print Assumptions C07_loop_runs_when_queued.

(* once no publisher is about to send a wake byte, the loop thread ALONE writes everything handed over, in a
   bounded number of its own steps and without consuming a Timeout token *)
Theorem C07_drains_without_timeout : forall m0 l0 pipe0 nmsgs s, 0 <= m0 <= 65535 -> steady l0 = true -> in_send l0 = [] ->
  let c := sched_run s (init m0 l0 pipe0 nmsgs) in
  quiet_pubs c ->
  exists n c', loop_n n c = Some c' /\ out_packet c' = [] /\ in_send (loop c') = [] /\
    timeouts c' = timeouts c /\ map snd (wire c') = flight c /\ pubs c' = pubs c.
Proof. exact drains_without_timeout. Qed.
Print Assumptions C07_drains_without_timeout.

(* ------------------------------------------------------------------ 4. deadlock freedom *)
Theorem C07_no_deadlock_model : forall m0 l0 pipe0 nmsgs s, 0 <= m0 <= 65535 ->
  let c := sched_run s (init m0 l0 pipe0 nmsgs) in
  (exists i p, nth_error (pubs c) i = Some p /\ pc p <> PDone) ->
  exists j, tstep (Pub j) c <> None.
Proof. exact sched_no_deadlock. Qed.
Print Assumptions C07_no_deadlock_model.

(* generic: programs that respect a rank (an acyclic held-while-acquiring relation) never reach a
   configuration in which an unfinished thread exists and nobody can step *)
Theorem C07_lock_order_no_deadlock : forall rank reent B ps s,
  forallb (lock_ok_prog rank reent) ps = true -> (forall l, (rank l < B)%nat) ->
  let C := lrun reent s (start ps) in
  (exists t th, nth_error C t = Some th /\ lprog th <> []) -> exists t', lstep_t reent t' C <> None.
Proof. exact no_lock_deadlock. Qed.
Print Assumptions C07_lock_order_no_deadlock.

Theorem C07_lock_order_acyclic : forall h l, In (h, l) client_edges ->
  (h = l /\ client_reent l = true) \/ (client_rank h < client_rank l)%nat.
Proof. exact client_edges_acyclic. Qed.
Print Assumptions C07_lock_order_acyclic.

Theorem C07_client_no_lock_deadlock : forall n0 k0 n12 k12 hs s,
  let C := lrun client_reent s (start (client_threads n0 k0 n12 k12 hs)) in
  (exists t th, nth_error C t = Some th /\ lprog th <> []) ->
  exists t', lstep_t client_reent t' C <> None.
Proof. exact client_no_lock_deadlock. Qed.
Print Assumptions C07_client_no_lock_deadlock.

(* the same lock order holds in the lock / call graph GENERATED from client.py on every run (callbacks installed
   and passive): in every reachable configuration of the one-thread semantics of Conc/LockGraph.v whose next
   action is a blocking `with self._l:`, every lock x already held is l itself (l reentrant) or ranks below l *)
Theorem C07_lock_order_of_source : forall h c m l b k x,
  LockGraph.reachable LockOrderGraph.P07 (h, c, LockGraph.Do m (LockGraph.Acq l b) :: k) -> In x h ->
  (x = l /\ LockGraph.plainb LockOrderGraph.P07 l = false) \/ (LockOrderGraph.gen_rank x < LockOrderGraph.gen_rank l)%nat.
Proof. exact LockOrderGraph.gen_lock_order. Qed.
Print Assumptions C07_lock_order_of_source.

(* ... and its held-while-acquiring relation is exactly the relation of the skeletons used above *)
Theorem C07_lock_order_of_source_is_model :
  LockOrderGraph.subset_pairs LockOrderGraph.gen_pairs (dedup client_edges) &&
  LockOrderGraph.subset_pairs (dedup client_edges) LockOrderGraph.gen_pairs = true.
Proof. exact LockOrderGraph.gen_relation_is_model_relation. Qed.
Print Assumptions C07_lock_order_of_source_is_model.

(* ------------------------------------------------------------------ 5. publish() racing with reconnect() *)
(* FULL statements (every schedule, any number of publishers, any starting point of the loop thread, no exclusion)
   for the code as fixed by /repo commits c6905fd and 0ed8c5c.  Against the earlier code the model refuted all three
   (findings F-C07a, F-C07b, F-C07d); their schedules are regression replays in corpus/C07. *)
Theorem C07_connect_first : forall m0 l0 pipe0 nmsgs s,
  wire_ok (wire (sched_run s (init m0 l0 pipe0 nmsgs))) = true.
Proof. exact connect_first. Qed.
Print Assumptions C07_connect_first.

(* the loop thread has no failing step: the only configuration in which it cannot step is "parked in select()" *)
Theorem C07_no_internal_error : forall m0 l0 pipe0 nmsgs s,
  let c := sched_run s (init m0 l0 pipe0 nmsgs) in
  tstep Loop c = None -> loop c = LSelect false /\ pipe c = O.
Proof. exact loop_never_fails. Qed.
Print Assumptions C07_no_internal_error.

(* every packet a publisher appended is written, being written, queued, or was marked lost by reconnect() *)
Theorem C07_no_silent_loss : forall m0 l0 pipe0 nmsgs s,
  conserved (sched_run s (init m0 l0 pipe0 nmsgs)) = true.
Proof. exact no_silent_loss. Qed.
Print Assumptions C07_no_silent_loss.

(* ------------------------------------------------------------------ 6. an APPLICATION thread calls reconnect() while the loop thread runs *)
(* three kinds of threads (Conc/AppReconnect.v).  CONNECT first - FULL STATEMENT, FALSE: finding F-C07g, open.
   _packet_write() pops a packet and only then reads self._sock in _sock_send(): a reconnect() on another thread in
   between makes the loop thread write the popped packet on the NEW socket ahead of CONNECT *)
Definition C07_app_connect_first_full : Prop := app_connect_first_full.

Theorem C07_app_connect_first_refuted :
  let a := arun witness_g (ainit 0 LWant O [1%nat]) in
  wire (base a) = [(1, Connect 1); (2, Publish 0 0 1)] /\ wire_ok (wire (base a)) = false /\
  out_packet (base a) = [Connect 2] /\ askipped witness_g (ainit 0 LWant O [1%nat]) = O.
Proof. exact app_connect_first_refuted. Qed.
Print Assumptions C07_app_connect_first_refuted.

Theorem C07_app_connect_first_full_is_false : ~ C07_app_connect_first_full.
Proof. exact app_connect_first_full_false. Qed.
Print Assumptions C07_app_connect_first_full_is_false.

(* ... holds for every schedule in which the loop thread is never inside _packet_write's loop (past the
   `_connect_queued` gate: pc LPop or LSend) while the new socket exists and its CONNECT is not yet queued *)
Theorem C07_app_connect_first_partial : forall m0 l0 pipe0 nmsgs s, steady l0 = true ->
  asafe_run race_g s (ainit m0 l0 pipe0 nmsgs) = true ->
  wire_ok (wire (base (arun s (ainit m0 l0 pipe0 nmsgs)))) = true.
Proof. exact app_connect_first_partial. Qed.
Print Assumptions C07_app_connect_first_partial.

(* nothing is lost silently, every schedule, also with the application-thread reconnect *)
Theorem C07_app_no_silent_loss : forall m0 l0 pipe0 nmsgs s,
  conserved (base (arun s (ainit m0 l0 pipe0 nmsgs))) = true.
Proof. exact app_no_silent_loss. Qed.
Print Assumptions C07_app_no_silent_loss.

(* ------------------------------------------------------------------ non-vacuity *)
(* two publishers, ids wrap at 65535 while they interleave inside _mid_generate's critical section attempts;
   the loop thread writes both packets; the blocked picks (lock held, loop parked) are skipped *)
Example C07_nonvacuous_steady :
  let s := [Pub 0; Pub 1] ++ repeat (Pub 0) 5 ++ repeat (Pub 1) 7 ++
           [Pub 0; Pub 1; Pub 0; Pub 1; Loop; Pub 0; Loop; Loop; Pub 1; Loop; Loop; Loop; Loop; Loop; Loop; Pub 0; Pub 1;
            Loop; Loop; Loop; Loop; Loop; Loop; Loop; Timeout] in
  let c0 := init_steady 65534 [1%nat; 1%nat] in
  let c := sched_run s c0 in
  map results (pubs c) = [[(0%nat, 65535, true)]; [(0%nat, 1, true)]] /\
  wire c = [(1, Connect 1); (1, Publish 0 0 65535); (1, Publish 1 0 1)] /\
  all_done c = true /\ out_packet c = [] /\ timeouts c = 1%nat /\ sched_skipped s c0 = 2%nat.
Proof. vm_compute. repeat split; reflexivity. Qed.

(* the interleavings that refuted the earlier code (publisher passes the `_sock` test and appends while the loop
   thread is inside reconnect()) now satisfy the statements, and a packet drained by reconnect() is marked *)
Example C07_nonvacuous_reconnect :
  let a := sched_run old_a (init_reconnect 0 [1%nat]) in
  let b := sched_run old_bd (init_reconnect 0 [1%nat]) in
  wire a = [(1, Connect 1); (2, Connect 2); (2, Publish 0 0 1)] /\ wire_ok (wire a) = true /\
  sched_skipped old_a (init_reconnect 0 [1%nat]) = O /\
  wire b = [(1, Connect 1); (2, Connect 2); (2, Publish 0 0 1)] /\ conserved b = true /\ marked b = [].
Proof. exact old_witnesses_now_hold. Qed.

Example C07_nonvacuous_marked :
  let s := repeat (Pub 0) 8 ++ repeat Loop 16 in
  let c := sched_run s (init_reconnect 0 [1%nat]) in
  marked c = [Publish 0 0 1] /\ wire c = [(1, Connect 1); (2, Connect 2)] /\ conserved c = true.
Proof. exact drained_packet_is_marked. Qed.

Example C07_nonvacuous_app_exclusion :
  let s := repeat ACtl 4 ++ repeat (ABase (Pub 0)) 10 ++ repeat (ABase Loop) 5 ++ repeat ACtl 3 ++ repeat (ABase Loop) 8 in
  let a0 := ainit 0 LWant O [1%nat] in
  asafe_run race_g s a0 = true /\
  wire (base (arun s a0)) = [(1, Connect 1); (2, Connect 2); (2, Publish 0 0 1)].
Proof. exact app_exclusion_nonvacuous. Qed.

Example C07_lock_edges :
  dedup client_edges = [(L_incb, L_cb); (L_out, L_incb); (L_out, L_cond); (L_out, L_time); (L_out, L_cb)].
Proof. exact client_edges_value. Qed.
