(* C12 - flow control: in-flight window, FIFO release, queue bound.
   Statements are in Session/Statements.v, the checkers in Session/Check.v:
   [c12_window_ok]: at every point of the trace, the QoS 1/2 messages whose PUBLISH or PUBREL was written on
   the current connection and that are not finally acknowledged number at most max_inflight_messages;
   [c12_queue_ok]: publish() answers MQTT_ERR_QUEUE_SIZE exactly when max_queued_messages are already stored
   (or the fresh packet id is still in use, C14) and then stores nothing.
   FIFO release is C13 (the release order is the publish() order). *)
From PahoV Require Import Base.Prelude Session.Model Session.Check Session.Inv Session.Statements Session.C12Proofs.

Theorem C12_window : forall c ops, cfg_ok c = true -> conforming c ops = true ->
  c12_window_ok c (optrace c ops) = true.
Proof. exact c12_window_proved. Qed.
Print Assumptions C12_window.

Theorem C12_queue_bound : forall c ops, cfg_ok c = true -> conforming c ops = true ->
  c12_queue_ok c (optrace c ops) = true.
Proof. exact c12_queue_proved. Qed.
Print Assumptions C12_queue_bound.

(* on an established connection no accepted message is left waiting while a slot is free *)
Theorem C12_no_idle_slot : forall c ops, cfg_ok c = true -> conforming c ops = true ->
  let s := fst (run c ops) in
  cack s = true ->
  Forall (fun m => is_wait m = true \/ (is_queued m = true /\ inflight s = c_max c /\ 0 < c_max c)) (out s).
Proof. exact c12_no_idle_slot_reachable. Qed.
Print Assumptions C12_no_idle_slot.

(* non-vacuity: a conforming history with window 2 that fills the window, queues, reconnects and releases *)
Example C12_nonvacuous :
  let c := mkCfg 0 2 3 false false in
  let ops := [OReconnect true; ORx (IConnack 0) false; OPublish 1; OPublish 2; OPublish 1; OPublish 1;
              OReconnect true; ORx (IConnack 0) false; ORx (IPuback 1) false; ORx (IPubrec 2) false] in
  cfg_ok c = true /\ conforming c ops = true /\
  map (fun m => (o_mid m, o_st m)) (out (fst (run c ops))) = [(2, MsWaitPubcomp); (3, MsWaitPuback)] /\
  c12_window_ok c [[SockOpened 1; Tx 1 (PPublish 1 1 false 0); Tx 1 (PPublish 2 1 false 1); Tx 1 (PPublish 3 1 false 2)]] = false.
Proof. vm_compute. repeat split; reflexivity. Qed.

(* ------------------------------------------------------------------------------------------
   Tie to the source: the message-state methods of client.py this property rests on are translated from
   the Python AST on every run (tools/py2v/msgstate.py -> Gen/GenMsgState.v) and proved equal to the
   functions of the hand model (Session/MsgStateBridge.v).  A semantic change to one of these methods
   changes the generated text and the corresponding theorem below stops compiling. *)
From PahoV Require Import Base.Prelude Codec.Mid Session.Model Session.Lemmas Session.Inv
  Session.MsgStateLib Gen.GenMsgState Session.MsgStateBridge.
From PahoV Require Import Props.MsgStateTie.

Theorem C12_tie_summaries :
  gen_summaries_ok = true.
Proof. exact tie_summaries. Qed.
Print Assumptions C12_tie_summaries.

Theorem C12_tie_store_writers :
  gen_store_writers = store_writers_expected.
Proof. exact tie_store_writers. Qed.
Print Assumptions C12_tie_store_writers.

Theorem C12_tie_reset_out :
  forall c clean infl0 l,
  Forall (fun m => qos_okb m = true) l ->
  gen_reset_out (c_max c) clean l infl0 = (let (r, n) := reset_out_list c clean 0 l in (r, n, Ok tt)).
Proof. exact tie_reset_out. Qed.
Print Assumptions C12_tie_reset_out.

Theorem C12_tie_update_inflight :
  forall c cn tagof l infl calls,
  Forall (fun m => qos_okb m = true) l ->
  exists calls',
    gen_update_inflight (c_max c) true l infl calls =
      (fst (fst (update_inflight c cn infl l)), snd (fst (update_inflight c cn infl l)), calls', Ok MQTT_ERR_SUCCESS) /\
    ext cn tagof calls calls' (snd (update_inflight c cn infl l)).
Proof. exact tie_update_inflight. Qed.
Print Assumptions C12_tie_update_inflight.

Theorem C12_tie_handle_pubackcomp :
  forall c s mid raises,
  sock s = true -> Forall (fun m => qos_okb m = true) (out s) ->
  let '(o, n, calls, r) := gen_handle_pubackcomp (c_max c) true mid (out s) (inflight s) [] in
  r = Ok MQTT_ERR_SUCCESS /\
  do_rx c s (IPuback mid) raises = (with_out s o n, Inp (IPuback mid) :: evs (conn s) (tag_in (out s)) calls) /\
  do_rx c s (IPubcomp mid) raises = (with_out s o n, Inp (IPubcomp mid) :: evs (conn s) (tag_in (out s)) calls).
Proof. exact tie_handle_pubackcomp. Qed.
Print Assumptions C12_tie_handle_pubackcomp.

Theorem C12_tie_publish_qos12 :
  forall c s q blank tagof,
  q = 1 \/ q = 2 ->
  let mid := mid_next (last_mid s) in
  let tag := ntag s in
  let s1 := mkS (out s) (inm s) (inflight s) mid (sock s) (first s) (cack s) (conn s) (tag + 1) in
  let '(o, n, calls, r) :=
    gen_publish_qos12 (c_max c) (c_maxq c) (sock s) mid q tag blank (out s) (inflight s) [] in
  exists rc, r = Ok rc /\
    do_publish c s q = (with_out s1 o n, evs (conn s) tagof calls ++ [Ret tag mid q rc]) /\
    forallb sent_waitb calls = true.
Proof. exact tie_publish_qos12. Qed.
Print Assumptions C12_tie_publish_qos12.

(* ------------------------------------------------------------------------------------------
   The same property on the second-generation session model (coq/theories/Session2): the client's
   output queue and a transport that ACCEPTS writes, REFUSES them (BlockingIOError) or FAILS HARD (OSError: the
   connection is torn down inside the write) are modelled; events distinguish a packet
   HANDED to the connection from a packet WRITTEN; reconnect() drops what is still queued.
   Every theorem below quantifies over ALL conforming histories, hard write failures included. *)
From PahoV Require Import Session2.Model Session2.Check Session2.Statements Session2.LInv Session2.Inv Session2.C12Proofs.

(* window bound on packets WRITTEN on the current connection *)
Theorem C12_window_written_with_blocking : forall c ops,
  cfg_ok c = true -> conforming c ops = true -> c12_window_ok c (optrace c ops) = true.
Proof. exact c12_window_proved. Qed.
Print Assumptions C12_window_written_with_blocking.

(* the stronger bound on packets HANDED to the connection (queued or written) *)
Theorem C12_window_handed_with_blocking : forall c ops,
  cfg_ok c = true -> conforming c ops = true -> c12_handed_ok c (optrace c ops) = true.
Proof. exact c12_handed_proved. Qed.
Print Assumptions C12_window_handed_with_blocking.

(* queue bound *)
Theorem C12_queue_bound_with_blocking : forall c ops,
  cfg_ok c = true -> conforming c ops = true -> c12_queue_ok c (optrace c ops) = true.
Proof. exact c12_queue_proved. Qed.
Print Assumptions C12_queue_bound_with_blocking.

(* the state-level form (publish() taking its message out of the window again, the CONNACK retransmission loop
   stopping at the failed write, ...): the counter _inflight_messages never exceeds the
   window, and on an established connection no stored message waits while a slot is free *)
Theorem C12_counter_bounded_with_failing_writes : forall c ops, cfg_ok c = true -> conforming c ops = true ->
  let s := fst (run c ops) in 0 < c_max c -> 0 <= inflight s <= c_max c.
Proof. exact c12_counter_bounded. Qed.
Print Assumptions C12_counter_bounded_with_failing_writes.

Theorem C12_no_idle_slot_with_failing_writes : forall c ops, cfg_ok c = true -> conforming c ops = true ->
  let s := fst (run c ops) in
  cack s = true ->
  Forall (fun m => is_wait m = true \/
                   (is_queued m = true /\ inflight s = c_max c /\ 0 < c_max c)) (out s).
Proof. exact c12_no_idle_slot_reachable. Qed.
Print Assumptions C12_no_idle_slot_with_failing_writes.

(* the structural invariant of the message stores and the queue (Session2/LInv.v) in every reachable state *)
Theorem C12_store_invariant_with_failing_writes : forall c ops, cfg_ok c = true -> conforming c ops = true ->
  Inv c (fst (run c ops)).
Proof. intros c ops Hcfg Hc. exact (inv_reachable c Hcfg ops Hc). Qed.
Print Assumptions C12_store_invariant_with_failing_writes.
