(* C12 - flow control: in-flight window, FIFO release, queue bound.
   Statements are in Session/Statements.v, the checkers in Session/Check.v:
   [c12_window_ok]: at every point of the trace, the QoS 1/2 messages whose PUBLISH or PUBREL was written on
   the current connection and that are not finally acknowledged number at most max_inflight_messages;
   [c12_queue_ok]: publish() answers MQTT_ERR_QUEUE_SIZE exactly when max_queued_messages are already stored
   (or the fresh packet id is still in use, C14) and then stores nothing.
   FIFO release is C13 (the release order is the publish() order). *)
From PahoV Require Import Base.Prelude Session.Model Session.Check Session.Inv Session.Statements Session.C12Proofs.

Theorem C12_window : forall c ops, cfg_ok c = true -> conforming c ops = true ->
  c12_window_ok c (optrace c ops) = true.
Proof. exact c12_window_proved. Qed.
Print Assumptions C12_window.

Theorem C12_queue_bound : forall c ops, cfg_ok c = true -> conforming c ops = true ->
  c12_queue_ok c (optrace c ops) = true.
Proof. exact c12_queue_proved. Qed.
Print Assumptions C12_queue_bound.

(* on an established connection no accepted message is left waiting while a slot is free *)
Theorem C12_no_idle_slot : forall c ops, cfg_ok c = true -> conforming c ops = true ->
  let s := fst (run c ops) in
  cack s = true ->
  Forall (fun m => is_wait m = true \/ (is_queued m = true /\ inflight s = c_max c /\ 0 < c_max c)) (out s).
Proof. exact c12_no_idle_slot_reachable. Qed.
Print Assumptions C12_no_idle_slot.

(* non-vacuity: a conforming history with window 2 that fills the window, queues, reconnects and releases *)
Example C12_nonvacuous :
  let c := mkCfg 0 2 3 false false in
  let ops := [OReconnect true; ORx (IConnack 0) false; OPublish 1; OPublish 2; OPublish 1; OPublish 1;
              OReconnect true; ORx (IConnack 0) false; ORx (IPuback 1) false; ORx (IPubrec 2) false] in
  cfg_ok c = true /\ conforming c ops = true /\
  map (fun m => (o_mid m, o_st m)) (out (fst (run c ops))) = [(2, MsWaitPubcomp); (3, MsWaitPuback)] /\
  c12_window_ok c [[SockOpened 1; Tx 1 (PPublish 1 1 false 0); Tx 1 (PPublish 2 1 false 1); Tx 1 (PPublish 3 1 false 2)]] = false.
Proof. vm_compute. repeat split; reflexivity. Qed.

(* ------------------------------------------------------------------------------------------
   The same property on the second-generation session model (coq/theories/Session2): the client's
   output queue and a transport that may refuse writes are modelled; events distinguish a packet
   HANDED to the connection from a packet WRITTEN; reconnect() drops what is still queued. *)
From PahoV Require Import Session2.Model Session2.Check Session2.Statements Session2.C12Proofs.

(* window bound on packets WRITTEN on the current connection *)
Theorem C12_window_written_with_blocking : forall c ops,
  cfg_ok c = true -> conforming c ops = true -> c12_window_ok c (optrace c ops) = true.
Proof. exact c12_window_proved. Qed.
Print Assumptions C12_window_written_with_blocking.

(* the stronger bound on packets HANDED to the connection (queued or written) *)
Theorem C12_window_handed_with_blocking : forall c ops,
  cfg_ok c = true -> conforming c ops = true -> c12_handed_ok c (optrace c ops) = true.
Proof. exact c12_handed_proved. Qed.
Print Assumptions C12_window_handed_with_blocking.

(* queue bound *)
Theorem C12_queue_bound_with_blocking : forall c ops,
  cfg_ok c = true -> conforming c ops = true -> c12_queue_ok c (optrace c ops) = true.
Proof. exact c12_queue_proved. Qed.
Print Assumptions C12_queue_bound_with_blocking.
