(* C01 - QoS 1/2 publishes survive any reconnect history and complete exactly once.
   [c01_ok] (Session/Check.v) demands of the trace: (owned/once) on_publish and "published" occur for a QoS>0
   message only while it is owned - accepted with MQTT_ERR_SUCCESS or MQTT_ERR_NO_CONN and not yet completed -
   never twice, and only in the operation that processes its final acknowledgement (PUBACK for QoS 1, PUBCOMP
   for QoS 2, same packet id); (retransmit) at the end of every operation on an established connection every
   owned message has had its PUBLISH or PUBREL written on that connection, or the in-flight window is full. *)
From PahoV Require Import Base.Prelude Session.Model Session.Check Session.Statements Session.C01Proofs.

Theorem C01_owned_retransmitted_completed_once : forall c ops,
  cfg_ok c = true -> conforming c ops = true -> c01_ok c (optrace c ops) = true.
Proof. exact c01_proved. Qed.
Print Assumptions C01_owned_retransmitted_completed_once.

Example C01_nonvacuous :
  let c := mkCfg 0 1 0 false false in
  let ops := [OPublish 2; OPublish 1; OReconnect false; OReconnect true; OConnLost; OReconnect true;
              ORx (IConnack 0) false; ORx (IPubrec 1) false; OConnLost; OReconnect true; ORx (IConnack 0) false;
              ORx (IPubcomp 1) false; ORx (IPuback 2) false; ORx (IPuback 2) false] in
  cfg_ok c = true /\ conforming c ops = true /\ out (fst (run c ops)) = [] /\
  (* completing a message that was never accepted, or twice, is rejected by the checker *)
  c01_ok c [[Inp (IPuback 1); CbPublish 1 0; Published 0]] = false /\
  c01_ok c [[Ret 0 1 1 0]; [Inp (IPuback 1); CbPublish 1 0; Published 0]; [Inp (IPuback 1); CbPublish 1 0; Published 0]] = false.
Proof. vm_compute. repeat split; reflexivity. Qed.

(* ------------------------------------------------------------------------------------------
   Tie to the source: the message-state methods of client.py this property rests on are translated from
   the Python AST on every run (tools/py2v/msgstate.py -> Gen/GenMsgState.v) and proved equal to the
   functions of the hand model (Session/MsgStateBridge.v).  A semantic change to one of these methods
   changes the generated text and the corresponding theorem below stops compiling. *)
From PahoV Require Import Base.Prelude Codec.Mid Session.Model Session.Lemmas Session.Inv
  Session.MsgStateLib Gen.GenMsgState Session.MsgStateBridge.
From PahoV Require Import Props.MsgStateTie.

Theorem C01_tie_summaries :
  gen_summaries_ok = true.
Proof. exact tie_summaries. Qed.
Print Assumptions C01_tie_summaries.

Theorem C01_tie_state_codes :
  forall a b, st_code a = st_code b -> a = b.
Proof. exact tie_state_codes. Qed.
Print Assumptions C01_tie_state_codes.

Theorem C01_tie_store_writers :
  gen_store_writers = store_writers_expected.
Proof. exact tie_store_writers. Qed.
Print Assumptions C01_tie_store_writers.

Theorem C01_tie_reconnect_reset :
  forall c s protocol clean_start clean_session il ok,
  cfg_repr c protocol clean_start clean_session ->
  Forall (fun m => qos_okb m = true) (out s) -> inm s = inm_of il -> Forall iq2 il ->
  exists clean,
    gen_check_clean_session protocol clean_start (first s) clean_session = Ok clean /\
    let '(o, n, r1) := gen_reset_out (c_max c) clean (out s) (inflight s) in
    let '(i, r2) := gen_reset_in clean il in
    r1 = Ok tt /\ r2 = Ok tt /\
    out (fst (do_reconnect c s ok)) = o /\ inflight (fst (do_reconnect c s ok)) = n /\
    inm (fst (do_reconnect c s ok)) = inm_of i.
Proof. exact tie_reconnect_reset. Qed.
Print Assumptions C01_tie_reconnect_reset.

Theorem C01_tie_connack_loop :
  forall cn tagof l calls,
  Forall (fun m => qos_okb m = true) l ->
  exists calls',
    gen_connack_loop true l calls = (fst (connack_loop cn l), calls', Ok MQTT_ERR_SUCCESS) /\
    ext cn tagof calls calls' (snd (connack_loop cn l)).
Proof. exact tie_connack_loop. Qed.
Print Assumptions C01_tie_connack_loop.

Theorem C01_tie_update_inflight :
  forall c cn tagof l infl calls,
  Forall (fun m => qos_okb m = true) l ->
  exists calls',
    gen_update_inflight (c_max c) true l infl calls =
      (fst (fst (update_inflight c cn infl l)), snd (fst (update_inflight c cn infl l)), calls', Ok MQTT_ERR_SUCCESS) /\
    ext cn tagof calls calls' (snd (update_inflight c cn infl l)).
Proof. exact tie_update_inflight. Qed.
Print Assumptions C01_tie_update_inflight.

Theorem C01_tie_handle_pubackcomp :
  forall c s mid raises,
  sock s = true -> Forall (fun m => qos_okb m = true) (out s) ->
  let '(o, n, calls, r) := gen_handle_pubackcomp (c_max c) true mid (out s) (inflight s) [] in
  r = Ok MQTT_ERR_SUCCESS /\
  do_rx c s (IPuback mid) raises = (with_out s o n, Inp (IPuback mid) :: evs (conn s) (tag_in (out s)) calls) /\
  do_rx c s (IPubcomp mid) raises = (with_out s o n, Inp (IPubcomp mid) :: evs (conn s) (tag_in (out s)) calls).
Proof. exact tie_handle_pubackcomp. Qed.
Print Assumptions C01_tie_handle_pubackcomp.

Theorem C01_tie_publish_qos12 :
  forall c s q blank tagof,
  q = 1 \/ q = 2 ->
  let mid := mid_next (last_mid s) in
  let tag := ntag s in
  let s1 := mkS (out s) (inm s) (inflight s) mid (sock s) (first s) (cack s) (conn s) (tag + 1) in
  let '(o, n, calls, r) :=
    gen_publish_qos12 (c_max c) (c_maxq c) (sock s) mid q tag blank (out s) (inflight s) [] in
  exists rc, r = Ok rc /\
    do_publish c s q = (with_out s1 o n, evs (conn s) tagof calls ++ [Ret tag mid q rc]) /\
    forallb sent_waitb calls = true.
Proof. exact tie_publish_qos12. Qed.
Print Assumptions C01_tie_publish_qos12.

(* ------------------------------------------------------------------------------------------
   The same property on the second-generation session model (coq/theories/Session2): the client's
   output queue and a transport that ACCEPTS writes, REFUSES them (BlockingIOError) or FAILS HARD (OSError: the
   connection is torn down inside the write) are modelled; events distinguish a packet
   HANDED to the connection from a packet WRITTEN; reconnect() drops what is still queued.
   Every theorem below quantifies over ALL conforming histories, hard write failures included. *)
From PahoV Require Import Session2.Model Session2.Check Session2.Statements Session2.C01Proofs.

(* owned / completed once / handed to every established connection, when writes may block and reconnect() drops the queue: on_publish, the published flag and the lost mark of a QoS>0 message occur only in the operation that processes its final acknowledgement (this is the theorem behind the blocked-write oracle of the harness; the seeded change S-C01-1 is rejected by this checker) *)
Theorem C01_with_blocking_transport : forall c ops,
  cfg_ok c = true -> conforming c ops = true -> c01_ok c (optrace c ops) = true.
Proof. exact c01_proved. Qed.
Print Assumptions C01_with_blocking_transport.
