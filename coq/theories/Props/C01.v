(* C01 - QoS 1/2 publishes survive any reconnect history and complete exactly once.
   [c01_ok] (Session/Check.v) demands of the trace: (owned/once) on_publish and "published" occur for a QoS>0
   message only while it is owned - accepted with MQTT_ERR_SUCCESS or MQTT_ERR_NO_CONN and not yet completed -
   never twice, and only in the operation that processes its final acknowledgement (PUBACK for QoS 1, PUBCOMP
   for QoS 2, same packet id); (retransmit) at the end of every operation on an established connection every
   owned message has had its PUBLISH or PUBREL written on that connection, or the in-flight window is full. *)
From PahoV Require Import Base.Prelude Session.Model Session.Check Session.Statements Session.C01Proofs.

Theorem C01_owned_retransmitted_completed_once : forall c ops,
  cfg_ok c = true -> conforming c ops = true -> c01_ok c (optrace c ops) = true.
Proof. exact c01_proved. Qed.
Print Assumptions C01_owned_retransmitted_completed_once.

Example C01_nonvacuous :
  let c := mkCfg 0 1 0 false false in
  let ops := [OPublish 2; OPublish 1; OReconnect false; OReconnect true; OConnLost; OReconnect true;
              ORx (IConnack 0) false; ORx (IPubrec 1) false; OConnLost; OReconnect true; ORx (IConnack 0) false;
              ORx (IPubcomp 1) false; ORx (IPuback 2) false; ORx (IPuback 2) false] in
  cfg_ok c = true /\ conforming c ops = true /\ out (fst (run c ops)) = [] /\
  (* completing a message that was never accepted, or twice, is rejected by the checker *)
  c01_ok c [[Inp (IPuback 1); CbPublish 1 0; Published 0]] = false /\
  c01_ok c [[Ret 0 1 1 0]; [Inp (IPuback 1); CbPublish 1 0; Published 0]; [Inp (IPuback 1); CbPublish 1 0; Published 0]] = false.
Proof. vm_compute. repeat split; reflexivity. Qed.
