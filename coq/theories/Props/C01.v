(* C01 - QoS 1/2 publishes survive any reconnect history and complete exactly once.
   [c01_ok] (Session/Check.v) demands of the trace: (owned/once) on_publish and "published" occur for a QoS>0
   message only while it is owned - accepted with MQTT_ERR_SUCCESS or MQTT_ERR_NO_CONN and not yet completed -
   never twice, and only in the operation that processes its final acknowledgement (PUBACK for QoS 1, PUBCOMP
   for QoS 2, same packet id); (retransmit) at the end of every operation on an established connection every
   owned message has had its PUBLISH or PUBREL written on that connection, or the in-flight window is full. *)
From PahoV Require Import Base.Prelude Session.Model Session.Check Session.Statements Session.C01Proofs.

Theorem C01_owned_retransmitted_completed_once : forall c ops,
  cfg_ok c = true -> conforming c ops = true -> c01_ok c (optrace c ops) = true.
Proof. exact c01_proved. Qed.
Print Assumptions C01_owned_retransmitted_completed_once.

Example C01_nonvacuous :
  let c := mkCfg 0 1 0 false false in
  let ops := [OPublish 2; OPublish 1; OReconnect false; OReconnect true; OConnLost; OReconnect true;
              ORx (IConnack 0) false; ORx (IPubrec 1) false; OConnLost; OReconnect true; ORx (IConnack 0) false;
              ORx (IPubcomp 1) false; ORx (IPuback 2) false; ORx (IPuback 2) false] in
  cfg_ok c = true /\ conforming c ops = true /\ out (fst (run c ops)) = [] /\
  (* completing a message that was never accepted, or twice, is rejected by the checker *)
  c01_ok c [[Inp (IPuback 1); CbPublish 1 0; Published 0]] = false /\
  c01_ok c [[Ret 0 1 1 0]; [Inp (IPuback 1); CbPublish 1 0; Published 0]; [Inp (IPuback 1); CbPublish 1 0; Published 0]] = false.
Proof. vm_compute. repeat split; reflexivity. Qed.

(* ------------------------------------------------------------------------------------------
   The same property on the second-generation session model (coq/theories/Session2): the client's
   output queue and a transport that may refuse writes are modelled; events distinguish a packet
   HANDED to the connection from a packet WRITTEN; reconnect() drops what is still queued. *)
From PahoV Require Import Session2.Model Session2.Check Session2.Statements Session2.C01Proofs.

(* owned / completed once / handed to every established connection, when writes may block and reconnect() drops the queue: on_publish, the published flag and the lost mark of a QoS>0 message occur only in the operation that processes its final acknowledgement (this is the theorem behind the blocked-write oracle of the harness; the seeded change S-C01-1 is rejected by this checker) *)
Theorem C01_with_blocking_transport : forall c ops,
  cfg_ok c = true -> conforming c ops = true -> c01_ok c (optrace c ops) = true.
Proof. exact c01_proved. Qed.
Print Assumptions C01_with_blocking_transport.
