(* Property codec: pack() of a well-formed property set equals the specification's encoding. *)
From PahoV Require Import Base.Prelude Codec.StrBytes Codec.Utf8 Codec.VBI Codec.VBIProofs Codec.PropSpec
  Codec.Props5 Codec.Props5Defs Codec.Props5Lemmas.

(* ---- association lists ---- *)
Lemma assoc_in {A} k (l : list (Z * A)) a : assoc k l = Some a -> In (k, a) l.
Proof.
  induction l as [|[k' a'] r IH]; cbn [assoc]; [discriminate|].
  destruct (k' =? k) eqn:E; intros H.
  - inv H. apply Z.eqb_eq in E. subst. left. reflexivity.
  - right. apply IH. assumption.
Qed.

Lemma memz_in x l : memz x l = true <-> In x l.
Proof.
  unfold memz. rewrite existsb_exists. split.
  - intros [y [Hy E]]. apply Z.eqb_eq in E. subst. assumption.
  - intros H. exists x. split; [assumption|apply Z.eqb_refl].
Qed.

Lemma in_names_of_mem (names : list (list Z * Z)) id :
  memz id (map snd names) = true -> exists n, In (n, id) names.
Proof.
  intros H. apply memz_in in H. apply in_map_iff in H as [[n i] [E I]]. cbn in E. subst. eauto.
Qed.

Lemma tables_ok_each T : tables_ok T = true -> t_each T = true.
Proof.
  unfold tables_ok. intros H. apply andb_true_iff in H as [H _]. apply andb_true_iff in H as [H _].
  apply andb_true_iff in H as [H _]. exact H.
Qed.

(* ---- what tables_ok gives for one row of the names table ---- *)
Record row_facts (T : ptables) (n : list Z) (i : Z) : Prop := {
  rf_ident : get_ident (t_names T) (compress n) = i;
  rf_name : get_name (t_names T) i = Some n;
  rf_private : existsb (zlist_eqb (compress n)) (t_private T) = false;
  rf_known : name_known (t_names T) (compress n) = true;
  rf_id : 0 <= i <= 127;
  rf_row : exists ty pts w, assoc i (t_table T) = Some (ty, pts) /\ spec_type i = Some w /\ ty = wtype_index w
}.

Lemma tables_ok_row T n i : tables_ok T = true -> In (n, i) (t_names T) -> row_facts T n i.
Proof.
  intros H I. unfold tables_ok in H.
  apply andb_true_iff in H as [H _]. apply andb_true_iff in H as [H _]. apply andb_true_iff in H as [_ H].
  rewrite forallb_forall in H. specialize (H _ I). unfold name_facts in H.
  repeat (apply andb_true_iff in H; destruct H as [H ?]).
  constructor.
  - apply Z.eqb_eq. assumption.
  - destruct (get_name (t_names T) i) as [n'|]; [|discriminate].
    f_equal. apply zlist_eqb_eq. assumption.
  - apply negb_true_iff. assumption.
  - assumption.
  - apply zin_iff. assumption.
  - destruct (assoc i (t_table T)) as [[ty pts]|]; [|discriminate].
    destruct (spec_type i) as [w|]; [|discriminate].
    exists ty, pts, w. repeat split. apply Z.eqb_eq. assumption.
Qed.

(* ---- one value ---- *)
Lemma write_value_spec w v : spec_fits w v = true ->
  exists e, write_value (wtype_index w) v = Ok e /\ spec_value w v = Some e.
Proof.
  intros H. destruct w; destruct v as [n|[u|b]|[ua|ba] [ub|bb]]; cbn [spec_fits] in H; try discriminate;
    unfold write_value; cbn [wtype_index Z.eqb Pos.eqb spec_value].
  - rewrite H. eauto.
  - unfold write_int16. rewrite H. eauto.
  - unfold write_int32. rewrite H. eauto.
  - apply zin_iff in H. rewrite vbi_encode_spec by (unfold vbi_max; lia). eauto.
  - rewrite write_lp_spec by lia. eauto.
  - unfold spec_str_ok in H. apply andb_true_iff in H as [H _]. apply andb_true_iff in H as [H1 H2].
    unfold write_utf. rewrite H1. rewrite write_lp_spec by lia. eauto.
  - apply andb_true_iff in H as [Ha Hb]. unfold spec_str_ok in Ha, Hb.
    apply andb_true_iff in Ha as [Ha _]. apply andb_true_iff in Ha as [Ha1 Ha2].
    apply andb_true_iff in Hb as [Hb _]. apply andb_true_iff in Hb as [Hb1 Hb2].
    unfold write_utf. rewrite Ha1, Hb1. rewrite !write_lp_spec by lia. cbn [bind]. eauto.
Qed.

Lemma write_property_spec i w v : 0 <= i <= 127 -> spec_fits w v = true ->
  exists e, write_property i (wtype_index w) v = Ok (spec_vbi i ++ e) /\ spec_value w v = Some e.
Proof.
  intros Hi H. destruct (write_value_spec w v H) as [e [E1 E2]].
  exists e. split; [|assumption]. unfold write_property.
  rewrite vbi_encode_spec by (unfold vbi_max; lia). cbn [bind]. rewrite E1. reflexivity.
Qed.

(* ---- one stored attribute ---- *)
Lemma write_many_spec i w l : 0 <= i <= 127 -> spec_type i = Some w -> forallb (spec_fits w) l = true ->
  exists e, write_many i (wtype_index w) l = Ok e /\
    forall rest rb, spec_body rest = Some rb -> spec_body (map (pair i) l ++ rest) = Some (e ++ rb).
Proof.
  intros Hi Hw. induction l as [|v r IH]; intros H.
  - exists []. split; [reflexivity|]. intros rest rb Hr. assumption.
  - cbn [forallb] in H. apply andb_true_iff in H as [Hv Hr].
    destruct (IH Hr) as [er [E1 E2]].
    destruct (write_property_spec i w v Hi Hv) as [ev [E3 E4]].
    exists ((spec_vbi i ++ ev) ++ er). split.
    + cbn [write_many]. rewrite E3. cbn [bind]. rewrite E1. reflexivity.
    + intros rest rb Hrest. cbn [map app spec_body]. rewrite Hw, E4, (E2 _ _ Hrest).
      rewrite <- !app_assoc. reflexivity.
Qed.

Definition stored_ok (multi : bool) (w : wtype) (s : passign) : bool :=
  if multi then match s with Many l => negb (is_nil l) && forallb (spec_fits w) l | One _ => false end
  else match s with One v => spec_fits w v | Many _ => false end.

Lemma write_stored_spec multi i w s : 0 <= i <= 127 -> spec_type i = Some w -> stored_ok multi w s = true ->
  exists e, write_stored multi i (wtype_index w) s = Ok e /\
    forall rest rb, spec_body rest = Some rb -> spec_body (entries_of i s ++ rest) = Some (e ++ rb).
Proof.
  intros Hi Hw H. unfold stored_ok in H. destruct multi, s as [v|l]; try discriminate.
  - apply andb_true_iff in H as [_ H]. cbn [write_stored entries_of]. apply write_many_spec; assumption.
  - destruct (write_property_spec i w v Hi H) as [e [E1 E2]].
    exists (spec_vbi i ++ e). split; [exact E1|].
    intros rest rb Hr. cbn [entries_of app spec_body]. rewrite Hw, E2, Hr. rewrite <- app_assoc. reflexivity.
Qed.

Lemma wf_entry_elim T pt i s : wf_entry T pt (i, s) = true ->
  forall ty pts w, assoc i (t_table T) = Some (ty, pts) -> spec_type i = Some w ->
  memz pt pts = true /\ stored_ok (memz i (t_multi T)) w s = true.
Proof.
  intros H ty pts w A S. unfold wf_entry in H. rewrite A, S in H.
  apply andb_true_iff in H as [_ H]. apply andb_true_iff in H as [H1 H2]. split; assumption.
Qed.

Lemma wf_state_assoc T pt st i s : wf_state T pt st = true -> assoc i st = Some s -> wf_entry T pt (i, s) = true.
Proof.
  intros H A. unfold wf_state in H. rewrite forallb_forall in H. apply H. apply assoc_in. assumption.
Qed.

(* ---- the loop over the names table ---- *)
Definition flat (l : pstate) : list (Z * pval) := flat_map (fun e => entries_of (fst e) (snd e)) l.

Lemma pack_names_spec T pt st : tables_ok T = true -> wf_state T pt st = true ->
  forall ns, incl ns (t_names T) ->
  exists body, pack_names T ns st = Ok body /\ spec_body (flat (norm_names ns st)) = Some body.
Proof.
  intros HT HS. induction ns as [|[n i] r IH]; intros Hincl.
  - exists []. split; reflexivity.
  - assert (I : In (n, i) (t_names T)) by (apply Hincl; left; reflexivity).
    destruct (IH (fun x Hx => Hincl x (or_intror Hx))) as [br [B1 B2]].
    destruct (tables_ok_row T n i HT I) as [F1 _ _ _ F5 (ty & pts & w & F6 & F7 & F8)].
    cbn [pack_names norm_names]. rewrite F1.
    destruct (assoc i st) as [s|] eqn:A.
    + rewrite F6. unfold allows_multiple. rewrite F1.
      destruct (wf_entry_elim T pt i s (wf_state_assoc T pt st i s HS A) ty pts w F6 F7) as [_ HO].
      subst ty.
      destruct (write_stored_spec _ i w s F5 F7 HO) as [e [E1 E2]].
      exists (e ++ br). split.
      * rewrite E1. cbn [bind]. rewrite B1. reflexivity.
      * unfold flat. cbn [flat_map fst snd]. apply E2. exact B2.
    + exists br. split; assumption.
Qed.

(* ---- pack() ---- *)
Lemma pack_spec T pt st : tables_ok T = true -> wf_state T pt st = true -> body_small T st = true ->
  exists b, pack T st = Ok b /\ spec_pack (canon T st) = Some b.
Proof.
  intros HT HS HB.
  destruct (pack_names_spec T pt st HT HS (t_names T) (incl_refl _)) as [body [B1 B2]].
  unfold body_small, canon, norm in HB. fold (flat (norm_names (t_names T) st)) in HB. rewrite B2 in HB.
  exists (spec_vbi (blen body) ++ body). split.
  - unfold pack. rewrite B1. cbn [bind].
    rewrite vbi_encode_spec by (pose proof (blen_nonneg body); lia). reflexivity.
  - unfold spec_pack, canon, norm. fold (flat (norm_names (t_names T) st)). rewrite B2. reflexivity.
Qed.
