(* C04: reader/writer lemmas shared by the round-trip proofs: each field reader of SpecDecode.v
   inverts the corresponding writer of Packets.v, and the framing lemma for the fixed header. *)
From PahoV Require Import Base.Prelude Codec.RemLen Codec.RemLenProofs Codec.Wire Codec.Packets
  Codec.SpecDecode Codec.PacketsSpec.

Lemma len_app (a b : bytes) : len (a ++ b) = len a + len b.
Proof. unfold len. rewrite app_length. lia. Qed.

Lemma len_nil : len [] = 0.
Proof. reflexivity. Qed.

Lemma len_cons x (a : bytes) : len (x :: a) = 1 + len a.
Proof. unfold len. cbn [length]. lia. Qed.

Lemma len_ge0 (a : bytes) : 0 <= len a.
Proof. unfold len. lia. Qed.

Lemma firstn_len_app (x r : bytes) : firstn (Z.to_nat (len x)) (x ++ r) = x.
Proof.
  unfold len. rewrite Nat2Z.id. rewrite firstn_app, Nat.sub_diag, firstn_all. cbn [firstn]. apply app_nil_r.
Qed.

Lemma skipn_len_app (x r : bytes) : skipn (Z.to_nat (len x)) (x ++ r) = r.
Proof.
  unfold len. rewrite Nat2Z.id. rewrite skipn_app, Nat.sub_diag, skipn_all. reflexivity.
Qed.

Ltac split_andb :=
  repeat match goal with
  | H : _ && _ = true |- _ => apply andb_true_iff in H; destruct H
  end.

(* ---- struct.pack("!H") against rd_u16 *)
Lemma u16_ok_range x : u16_ok x = true -> 0 <= x <= 65535.
Proof. unfold u16_ok. lia. Qed.

Lemma rd_u16_u16 x r : u16_ok x = true -> rd_u16 (u16 x ++ r) = Some (x, r).
Proof.
  intros H. apply u16_ok_range in H. unfold u16, rd_u16. cbn [app].
  rewrite !byte_ok_true by lia. cbn [andb]. do 2 f_equal. lia.
Qed.

Lemma rd_mid_u16 m r : mid_ok m = true -> rd_mid (u16 m ++ r) = Some (m, r).
Proof.
  intros H. unfold mid_ok in H. unfold rd_mid. rewrite rd_u16_u16 by (unfold u16_ok; lia).
  assert (m =? 0 = false) as -> by lia. reflexivity.
Qed.

(* ---- _pack_str16 against rd_bin / rd_str *)
Lemma rd_bin_raw x r : str16_ok x = true -> rd_bin (u16 (len x) ++ x ++ r) = Some (x, r).
Proof.
  intros H. unfold rd_bin, str16_ok in *. rewrite rd_u16_u16 by assumption.
  rewrite len_app. pose proof (len_ge0 r). assert (len x <=? len x + len r = true) as -> by lia.
  rewrite firstn_len_app, skipn_len_app. reflexivity.
Qed.

Lemma rd_bin_str16 x r : str16_ok x = true -> rd_bin (str16 x ++ r) = Some (x, r).
Proof. intros H. unfold str16. rewrite <- app_assoc. apply rd_bin_raw; assumption. Qed.

Lemma rd_str_str16 x r : text_ok x = true -> rd_str (str16 x ++ r) = Some (x, r).
Proof.
  unfold text_ok. intros H. split_andb. unfold rd_str. rewrite rd_bin_str16 by assumption.
  rewrite H0. reflexivity.
Qed.

Lemma rd_bin_str16_end x : str16_ok x = true -> rd_bin (str16 x) = Some (x, []).
Proof. intros H. rewrite <- (app_nil_r (str16 x)). apply rd_bin_str16; assumption. Qed.

Lemma rd_str_str16_end x : text_ok x = true -> rd_str (str16 x) = Some (x, []).
Proof. intros H. rewrite <- (app_nil_r (str16 x)). apply rd_str_str16; assumption. Qed.

(* ---- opaque v5 property blocks *)
Lemma rd_props_block p r : props_wf p = true -> rd_props (p ++ r) = Some (props_content p, r).
Proof.
  unfold props_wf, props_content, rd_props. destruct (rl_decode p) as [[n c]|] eqn:E; [|discriminate].
  intros H. apply Z.eqb_eq in H. rewrite (rl_decode_app _ _ _ r E). subst n.
  rewrite len_app. pose proof (len_ge0 r). assert (len c <=? len c + len r = true) as -> by lia.
  rewrite firstn_len_app, skipn_len_app. reflexivity.
Qed.

Lemma rd_props_block_end p : props_wf p = true -> rd_props p = Some (props_content p, []).
Proof. intros H. rewrite <- (app_nil_r p) at 1. apply rd_props_block; assumption. Qed.

Lemma rd_props_if_block v p r : vprops_wf v p = true ->
  rd_props_if v ((if is_v5 v then p else []) ++ r) = Some (vprops v p, r).
Proof.
  unfold vprops_wf, vprops, rd_props_if. destruct (is_v5 v); intros H.
  - apply rd_props_block; assumption.
  - reflexivity.
Qed.

(* a well-formed block is never empty and its announced length is in range *)
Lemma props_wf_len p : props_wf p = true -> 1 <= len p.
Proof.
  unfold props_wf. destruct (rl_decode p) as [[n c]|] eqn:E; [|discriminate]. intros _.
  apply rl_decode_range in E as [_ E]. unfold len. lia.
Qed.

(* ---- the fixed header: type/flags byte, remaining length, exactly that many bytes *)
Lemma spec_decode_frame v b0 n body rest :
  byte_ok b0 = true -> 0 <= n <= rl_max -> len body = n ->
  spec_decode v (b0 :: rl_encode n ++ body ++ rest) =
  match parse_body v (b0 / 16) (b0 mod 16) body with Some p => Some (p, rest) | None => None end.
Proof.
  intros Hb Hn Hl. unfold spec_decode. rewrite Hb. cbn [negb].
  rewrite rl_roundtrip by assumption. subst n.
  rewrite len_app. pose proof (len_ge0 rest). assert (len body <=? len body + len rest = true) as -> by lia.
  rewrite firstn_len_app, skipn_len_app. reflexivity.
Qed.

(* ---- sums of lengths *)
Lemma len_concat_map {A} (f : A -> bytes) (g : A -> Z) (l : list A) :
  (forall x, len (f x) = g x) -> len (concat (map f l)) = fold_right (fun x acc => g x + acc) 0 l.
Proof.
  intros H. induction l as [|x l IH]; cbn [map concat fold_right]; [reflexivity|].
  rewrite len_app, H, IH. reflexivity.
Qed.

Lemma len_u16 x : len (u16 x) = 2.
Proof. reflexivity. Qed.

Lemma len_str16 x : len (str16 x) = 2 + len x.
Proof. unfold str16. rewrite len_app, len_u16. reflexivity. Qed.
