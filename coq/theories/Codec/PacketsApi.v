(* M1 / C04: the argument checks of the public API in front of the encoders - only the checks that
   decide whether something is handed to _send_* (Client() / will_set() / keepalive setter / publish() /
   subscribe() / unsubscribe() / disconnect() in client.py).  `api` returns the item given to the
   encoder or the exception; `emit` composes it with the encoder.  Wildcard grammar of filters is C19's
   (the harness only generates valid filters).  Model only, no proofs. *)
From PahoV Require Import Base.Prelude Codec.RemLen Codec.Wire Codec.Mid Codec.Packets Codec.SpecDecode
  Codec.PacketsSpec.

Record will_call := { wc_topic : bytes; wc_payload : bytes; wc_qos : Z; wc_retain : bool; wc_props : option bytes }.
Record sub_req := { sr_filter : bytes; sr_qos : Z; sr_nl : bool; sr_rap : bool; sr_rh : Z }.

Inductive call :=
| CConnect (clean_session : bool) (cs : clean_start) (first : bool) (bridge : bool) (keepalive : Z)
           (client_id : bytes) (will : option will_call) (username password : option bytes) (props : option bytes)
| CPublish (last_mid : Z) (topic payload : bytes) (qos : Z) (retain : bool) (props : option bytes)
| CSubscribe (last_mid : Z) (topics : list sub_req) (props : option bytes)
| CUnsubscribe (last_mid : Z) (topics : list bytes) (props : option bytes)
| CDisconnect (reason : option Z) (props : option bytes).

(* properties is None -> b'\x00' *)
Definition packed (p : option bytes) : bytes := match p with Some b => b | None => [0] end.

Definition has_wildcard (s : bytes) : bool := existsb (fun b => (b =? 35) || (b =? 43)) s.
Definition is_empty {A} (s : list A) : bool := match s with [] => true | _ => false end.
Definition qos_bad (q : Z) : bool := (q <? 0) || (q >? 2).

Definition api (v : version) (c : call) : res item :=
  match c with
  | CConnect cls cs first bridge ka cid will user pw props =>
      (* Client(): 'A client id must be provided if clean session is False.' *)
      if negb (is_v5 v) && negb cls && is_empty cid then Raise E_value
      (* will_set(): 'Invalid topic.' / 'Invalid QoS level.' / _raise_for_invalid_topic (wildcard, > 65535 bytes; commit 470efe3) *)
      else if match will with
              | Some w => is_empty (wc_topic w) || qos_bad (wc_qos w) || has_wildcard (wc_topic w) || (len (wc_topic w) >? 65535)
              | None => false
              end then Raise E_value
      (* keepalive setter: 'Keepalive must be >=0.' *)
      else if ka <? 0 then Raise E_value
      else Ok (IConnect {| c_bridge := bridge; c_clean := clean_flag v cls cs first; c_keepalive := ka;
                           c_client_id := cid;
                           c_will := match will with
                                     | Some w => Some {| w_topic := wc_topic w; w_payload := wc_payload w;
                                                         w_qos := wc_qos w; w_retain := wc_retain w;
                                                         w_props := packed (wc_props w) |}
                                     | None => None
                                     end;
                           c_username := user; c_password := pw; c_props := packed props |})
  | CPublish last_mid topic payload qos retain props =>
      if negb (is_v5 v) && is_empty topic then Raise E_value                (* 'Invalid topic.' *)
      else if has_wildcard topic then Raise E_value                         (* _raise_for_invalid_topic *)
      else if len topic >? 65535 then Raise E_value
      else if qos_bad qos then Raise E_value                                (* 'Invalid QoS level.' *)
      (* 'Payload too large.': the whole remaining length is checked, before _mid_generate (commit 4b93c7d) *)
      else if publish_remlen_n v qos topic (packed props) (len payload) >? 268435455 then Raise E_value
      else Ok (IPublish {| p_dup := false; p_qos := qos; p_retain := retain; p_mid := mid_next last_mid;
                           p_topic := topic; p_payload := payload; p_props := packed props |})
  | CSubscribe last_mid topics props =>
      if is_empty topics then Raise E_value                                 (* 'Empty topic list' *)
      else if existsb (fun r => qos_bad (sr_qos r)) topics then Raise E_value
      else if is_v5 v && existsb (fun r => (sr_rh r <? 0) || (sr_rh r >? 2)) topics then Raise E_assert   (* SubscribeOptions() *)
      else if existsb (fun r => is_empty (sr_filter r) || (len (sr_filter r) >? 65535)) topics then Raise E_value
      else Ok (ISubscribe (mid_next last_mid)
                 (map (fun r => (sr_filter r,
                                 if is_v5 v then sub_opts_byte (sr_qos r) (sr_nl r) (sr_rap r) (sr_rh r)
                                 else sr_qos r)) topics)
                 (packed props))
  | CUnsubscribe last_mid topics props =>
      if is_empty topics then Raise E_value                                 (* 'Empty topic list' (commit d11e023) *)
      else if existsb is_empty topics then Raise E_value                    (* 'Invalid topic.' *)
      else Ok (IUnsubscribe (mid_next last_mid) topics (packed props))
  | CDisconnect reason props => Ok (IDisconnect reason props)
  end.

Definition emit (v : version) (c : call) : res bytes :=
  match api v c with
  | Ok it => encode v it
  | Raise k => Raise k
  | OutOfFuel => OutOfFuel
  end.

(* ---- what the environment guarantees about the arguments (trusted, see REPORT):
   text comes out of str.encode('utf-8'): well-formed UTF-8, possibly containing U+0000;
   _last_mid is in 0..65535 (C14); packed properties come out of Properties.pack() (C17);
   a ReasonCode packs to one byte; MQTT 3.1 clients always have a client id (generated when empty). *)
Definition utf8_wf (s : bytes) : bool := utf8_ok (map (fun b => if b =? 0 then 1 else b) s).
Definition no_nul (s : bytes) : bool := negb (existsb (fun b => b =? 0) s).
Definition oprops_wf (p : option bytes) : bool := match p with Some b => props_wf b | None => true end.
Definition last_mid_ok (m : Z) : bool := (0 <=? m) && (m <=? 65535).

Definition api_pre (v : version) (c : call) : bool :=
  match c with
  | CConnect cls cs first bridge ka cid will user pw props =>
      utf8_wf cid && oprops_wf props
      && match v with V31 => negb (is_empty cid) | _ => true end
      && match will with Some w => utf8_wf (wc_topic w) && oprops_wf (wc_props w) | None => true end
      && match user with Some u => utf8_wf u | None => true end
  | CPublish last_mid topic payload qos retain props => last_mid_ok last_mid && utf8_wf topic && oprops_wf props
  | CSubscribe last_mid topics props =>
      last_mid_ok last_mid && oprops_wf props && forallb (fun r => utf8_wf (sr_filter r)) topics
  | CUnsubscribe last_mid topics props => last_mid_ok last_mid && oprops_wf props && forallb utf8_wf topics
  | CDisconnect reason props =>
      match reason with Some rc => byte_ok rc | None => true end && oprops_wf props
  end.

(* ---- the explicit exclusion of the partial theorem: the one open defect F-C04b (U+0000 in a text field).
   F-C04a (remaining length), F-C04c (unsubscribe([])), F-C04d (wildcard will topic) were repaired in /repo;
   the model follows the repaired code and they are no longer excluded. *)
Definition excl_nul (c : call) : bool :=
  match c with
  | CConnect _ _ _ _ _ cid will user _ _ =>
      no_nul cid && match will with Some w => no_nul (wc_topic w) | None => true end
      && match user with Some u => no_nul u | None => true end
  | CPublish _ topic _ _ _ _ => no_nul topic
  | CSubscribe _ topics _ => forallb (fun r => no_nul (sr_filter r)) topics
  | CUnsubscribe _ topics _ => forallb no_nul topics
  | CDisconnect _ _ => true
  end.
Definition excl (v : version) (c : call) : bool := excl_nul c.

(* ---- what the application supplied, in the decoder's vocabulary *)
Definition content (p : option bytes) : bytes := props_content (packed p).
Definition vcontent (v : version) (p : option bytes) : bytes := if is_v5 v then content p else [].

Definition supplied (v : version) (c : call) : packet :=
  match c with
  | CConnect cls cs first bridge ka cid will user pw props =>
      PConnect (match v with V31 => 3 | V311 => 4 | V5 => 5 end) bridge (clean_flag v cls cs first) ka
               (vcontent v props) cid
               (match will with
                | Some w => Some {| wl_qos := wc_qos w; wl_retain := wc_retain w; wl_props := vcontent v (wc_props w);
                                    wl_topic := wc_topic w; wl_payload := wc_payload w |}
                | None => None
                end)
               user (match user with Some _ => pw | None => None end)
  | CPublish last_mid topic payload qos retain props =>
      PPublish false qos retain topic (if qos =? 0 then 0 else mid_next last_mid) (vcontent v props) payload
  | CSubscribe last_mid topics props =>
      PSubscribe (mid_next last_mid) (vcontent v props)
                 (map (fun r => (sr_filter r,
                                 if is_v5 v then sr_qos r + 4 * b2z (sr_nl r) + 8 * b2z (sr_rap r) + 16 * sr_rh r
                                 else sr_qos r)) topics)
  | CUnsubscribe last_mid topics props => PUnsubscribe (mid_next last_mid) (vcontent v props) topics
  | CDisconnect reason props =>
      if is_v5 v then
        match props with
        | None => PDisconnect reason None
        | Some p => PDisconnect (Some (match reason with Some rc => rc | None => 0 end)) (Some (props_content p))
        end
      else PDisconnect None None
  end.
