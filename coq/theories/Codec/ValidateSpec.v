(* Specification for C19, written from the MQTT text (3.1.1 / 5.0 sections 4.7.1, 4.7.3) and from
   the docstrings of publish() / subscribe() / unsubscribe() - not from the code of the checks.
   Only the argument *types* (version, item, second, optarg, elem, sub_arg, pkind) are shared with
   Codec/Validate.v. No proofs here. *)
From PahoV Require Import Base.Prelude Codec.Validate.

(* ------------------------------------------------------------------ topic levels
   4.7.1: "The forward slash ('/' U+002F) is used to separate each level". Own left-to-right
   splitter with an accumulator (not Prelude.split_on). *)
Fixpoint spec_levels_acc (cur : list Z) (s : list Z) : list (list Z) :=   (* cur: current level, reversed *)
  match s with
  | [] => [rev_append cur []]
  | c :: s' => if c =? 47 then rev_append cur [] :: spec_levels_acc [] s'
               else spec_levels_acc (c :: cur) s'
  end.
Definition spec_levels (s : list Z) : list (list Z) := spec_levels_acc [] s.

Definition mem (c : Z) (s : list Z) : bool := existsb (fun x => x =? c) s.

(* 4.7.1.2: '#' "MUST be specified either on its own or following a topic level separator. In
   either case it MUST be the last character specified in the Topic Filter".
   4.7.1.3: '+' "can be used at any level ... Where it is used it MUST occupy an entire level". *)
Definition spec_level_ok (is_last : bool) (p : list Z) : bool :=
  if zlist_eqb p [43] then true                    (* exactly "+" *)
  else if zlist_eqb p [35] then is_last            (* exactly "#": only as the last level *)
  else negb (mem 43 p) && negb (mem 35 p).         (* otherwise: no wildcard character at all *)

Fixpoint spec_levels_ok (ls : list (list Z)) : bool :=
  match ls with
  | [] => true
  | [p] => spec_level_ok true p
  | p :: rest => spec_level_ok false p && spec_levels_ok rest
  end.

(* 4.7.3: "All Topic Names and Topic Filters MUST be at least one character long";
   "MUST NOT encode to more than 65,535 bytes" *)
Definition spec_filter_ok (s : list Z) : bool :=
  negb (Nat.eqb (length s) 0) && (Z.of_nat (length s) <=? 65535) && spec_levels_ok (spec_levels s).

(* 4.7.1: "wildcard characters ... MUST NOT be used within a Topic Name"; length as above.
   publish() docstring: zero length is an error "except if the MQTT version used is v5.0"
   (a v5 PUBLISH may carry an empty topic together with a Topic Alias). *)
Definition spec_topic_ok (v : version) (s : list Z) : bool :=
  negb (mem 43 s) && negb (mem 35 s) && (Z.of_nat (length s) <=? 65535)
  && (is_v5 v || negb (Nat.eqb (length s) 0)).

(* the same in Prop: what makes a publish topic unacceptable *)
Definition topic_bad (v : version) (t : list Z) : Prop :=
  In 43 t \/ In 35 t \/ (v <> V5 /\ t = []) \/ 65535 < Z.of_nat (length t).

Definition spec_qos_ok (q : Z) : bool := (0 <=? q) && (q <=? 2).

(* publish() docstring: payload may be str, bytes, bytearray, int, float or None *)
Definition spec_payload_type_ok (k : pkind) : bool :=
  match k with
  | PStr | PBytes | PBytearray | PInt | PFloat | PNone => true
  | POther => false
  end.

(* MQTT 2.2.3 (v5: 2.1.4): the Remaining Length counts variable header plus payload and is at most
   268,435,455. 3.3.2: the PUBLISH variable header is the Topic Name (a UTF-8 string: two length bytes
   and the bytes), the Packet Identifier (two bytes, only for QoS 1 and 2) and, for v5.0, the
   Properties (proplen bytes including their length prefix; a single zero byte when there are none).
   The docstring's "ValueError: if the length of the payload is greater than 268435455 bytes" is the
   special case of an otherwise empty packet: no larger payload can ever be sent. *)
Definition spec_publish_remaining_length (v : version) (topic : list Z) (qos plen proplen : Z) : Z :=
  (2 + Z.of_nat (length topic)) + (if 1 <=? qos then 2 else 0) + (if is_v5 v then proplen else 0) + plen.

Definition spec_publish_ok (v : version) (topic : list Z) (qos : Z) (k : pkind) (plen proplen : Z) : bool :=
  spec_topic_ok v topic && spec_qos_ok qos && spec_payload_type_ok k
  && (spec_publish_remaining_length v topic qos plen proplen <=? 268435455).

(* ------------------------------------------------------------------ subscribe(): the docstring
   Six calling conventions (client.py 1901-1978):
     1  subscribe("my/topic", 2)                                   string and integer
     2  subscribe("my/topic", options=SubscribeOptions(qos=2))     MQTT v5.0 only
     3  subscribe(("my/topic", 1))                                 string and integer tuple
     4  subscribe(("my/topic", SubscribeOptions(qos=1)))           MQTT v5.0 only
     5  subscribe([("my/topic", 0), ("another/topic", 2)])         list of string and integer tuples
     6  subscribe([("my/topic", SubscribeOptions(qos=0)), ...])    MQTT v5.0 only
   "Raises a ValueError if qos is not 0, 1 or 2, or if topic is None or has zero string length, or
   if topic is not a string, tuple or list."
   Reading of "Not used" parameters: a parameter the docstring marks "Not used" for a form does not
   make a call undocumented, whatever its value - with one exception, forms 2 and 4: there the
   subscription's QoS is inside the SubscribeOptions, and "qos: Not used" is read as "not supplied"
   (left at its default 0); a call that supplies both a non-zero qos and SubscribeOptions is not a
   documented call. With MQTT 3.x the `options` parameter is never used (form 2 is v5.0 only), so a
   string call is form 1 there whatever `options` holds. In a v5.0 list the two tuple kinds may be
   mixed. *)

Definition doc_elem_ok (v : version) (e : elem) : bool :=
  match e with
  | EPair (IStr s) (QInt q) => spec_qos_ok q && spec_filter_ok s            (* form 5 *)
  | EPair (IStr s) (QOpts _) => is_v5 v && spec_filter_ok s                 (* form 6 *)
  | _ => false
  end.

Definition documented_ok (v : version) (a : sub_arg) : bool :=
  match sa_topic a with
  | TItem (IStr s) =>
      match sa_options a with
      | OAbsent => spec_qos_ok (sa_qos a) && spec_filter_ok s                                   (* form 1 *)
      | OOpts _ => if is_v5 v then (sa_qos a =? 0) && spec_filter_ok s                          (* form 2 *)
                   else spec_qos_ok (sa_qos a) && spec_filter_ok s                              (* form 1 *)
      | OOther => if is_v5 v then false else spec_qos_ok (sa_qos a) && spec_filter_ok s         (* form 1 *)
      end
  | TTuple (IStr s) (QInt q) => spec_qos_ok q && spec_filter_ok s                               (* form 3 *)
  | TTuple (IStr s) (QOpts _) => is_v5 v && (sa_qos a =? 0) && spec_filter_ok s                 (* form 4 *)
  | TList l => negb (Nat.eqb (length l) 0) && forallb (doc_elem_ok v) l                         (* forms 5, 6 *)
  | _ => false
  end.

(* the call has the *shape* of one of the six forms for this version (values not looked at):
   for such calls the docstring promises ValueError as the only exception *)
Definition doc_elem_shape (v : version) (e : elem) : bool :=
  match e with
  | EPair (IStr _) (QInt _) => true
  | EPair (IStr _) (QOpts _) => is_v5 v
  | _ => false
  end.

Definition documented_shape (v : version) (a : sub_arg) : bool :=
  match sa_topic a with
  | TItem (IStr _) => match sa_options a with OOther => negb (is_v5 v) | _ => true end
  | TTuple (IStr _) (QInt _) => true
  | TTuple (IStr _) (QOpts _) => is_v5 v
  | TList l => forallb (doc_elem_shape v) l
  | _ => false
  end.

(* what a documented call asks for: the (filter, option byte) pairs in argument order *)
Definition doc_elem_request (e : elem) : list (filter * opts) :=
  match e with
  | EPair (IStr s) (QInt q) => [(s, q)]
  | EPair (IStr s) (QOpts ob) => [(s, ob)]
  | _ => []
  end.

Definition documented_request (v : version) (a : sub_arg) : list (filter * opts) :=
  match sa_topic a with
  | TItem (IStr s) =>
      match sa_options a with
      | OOpts ob => if is_v5 v then [(s, ob)] else [(s, sa_qos a)]
      | _ => [(s, sa_qos a)]
      end
  | TTuple (IStr s) (QInt q) => [(s, q)]
  | TTuple (IStr s) (QOpts ob) => [(s, ob)]
  | TList l => flat_map doc_elem_request l
  | _ => []
  end.

(* "Not used" read literally (any value of an unused parameter is documented), for comparison:
   differs from documented_ok only for forms 2 and 4 with a qos argument other than 0 *)
Definition documented_ok_literal (v : version) (a : sub_arg) : bool :=
  match sa_topic a with
  | TItem (IStr s) =>
      match sa_options a with
      | OOpts _ => if is_v5 v then spec_filter_ok s else spec_qos_ok (sa_qos a) && spec_filter_ok s
      | _ => documented_ok v a
      end
  | TTuple (IStr s) (QOpts _) => is_v5 v && spec_filter_ok s
  | _ => documented_ok v a
  end.

(* MQTT 3.8: the SUBSCRIBE variable header is the Packet Identifier (2 bytes) and, for v5.0, the
   Properties; the payload is, per subscription, the Topic Filter (UTF-8 string) and one options byte.
   Like every packet it must fit the 268,435,455-byte Remaining Length; a request that does not can
   only be refused. (Needs at least 4096 maximal filters.) *)
Fixpoint spec_subscribe_payload_length (l : list (filter * opts)) : Z :=
  match l with
  | [] => 0
  | p :: l' => (2 + Z.of_nat (length (fst p)) + 1) + spec_subscribe_payload_length l'
  end.

Definition spec_subscribe_remaining_length (v : version) (proplen : Z) (l : list (filter * opts)) : Z :=
  2 + (if is_v5 v then proplen else 0) + spec_subscribe_payload_length l.

(* ------------------------------------------------------------------ unsubscribe(): the docstring
   "topic: A single string, or list of strings ... raises ValueError: if topic is None or has zero
   string length, or is not a string or list." *)
Definition unsub_documented_ok (a : unsub_arg) : bool :=
  match a with
  | UItem (IStr s) => negb (Nat.eqb (length s) 0)
  | UList l => negb (Nat.eqb (length l) 0)        (* MQTT-3.10.3-2: at least one topic filter *)
               && forallb (fun i => match i with IStr s => negb (Nat.eqb (length s) 0) | _ => false end) l
  | _ => false
  end.
