(* M1 / C04: the few definitions shared by the encoders (Packets.v, transliterated from client.py)
   and the independent specification decoder (SpecDecode.v, written from the OASIS texts).
   Nothing here encodes or decodes anything.  Model only, no proofs. *)
From PahoV Require Import Base.Prelude.

Definition bytes := list Z.
Definition len (s : bytes) : Z := Z.of_nat (length s).

(* MQTT 3.1 (protocol level 3, name "MQIsdp"), 3.1.1 (level 4, "MQTT"), 5.0 (level 5, "MQTT") *)
Inductive version := V31 | V311 | V5.
Definition is_v5 (v : version) : bool := match v with V5 => true | _ => false end.
Definition version_of_Z (z : Z) : version := if z =? 3 then V31 else if z =? 5 then V5 else V311.

Definition b2z (b : bool) : Z := if b then 1 else 0.
Definition z2b (z : Z) : bool := negb (z =? 0).
