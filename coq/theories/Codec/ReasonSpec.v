(* SPECIFICATION: OASIS MQTT Version 5.0, section 2.4 "Reason Code", table 2-6 - transcribed by hand.
   Each row: value, name, the packets the reason code may be used in.  Nothing here is derived from /repo. *)
From Coq Require Import String.
From PahoV Require Import Base.Prelude Codec.StrBytes.

(* MQTT Control Packet types, section 2.1.2 table 2-1 *)
Definition CONNECT := 1.   Definition CONNACK := 2.   Definition PUBLISH := 3.      Definition PUBACK := 4.
Definition PUBREC := 5.    Definition PUBREL := 6.    Definition PUBCOMP := 7.      Definition SUBSCRIBE := 8.
Definition SUBACK := 9.    Definition UNSUBSCRIBE := 10. Definition UNSUBACK := 11. Definition PINGREQ := 12.
Definition PINGRESP := 13. Definition DISCONNECT := 14. Definition AUTH := 15.

Definition spec_reasons : list (Z * string * list Z) :=
  [ (0,   "Success"%string,                 [CONNACK; PUBACK; PUBREC; PUBREL; PUBCOMP; UNSUBACK; AUTH]);
    (0,   "Normal disconnection"%string,    [DISCONNECT]);
    (0,   "Granted QoS 0"%string,           [SUBACK]);
    (1,   "Granted QoS 1"%string,           [SUBACK]);
    (2,   "Granted QoS 2"%string,           [SUBACK]);
    (4,   "Disconnect with Will Message"%string, [DISCONNECT]);
    (16,  "No matching subscribers"%string, [PUBACK; PUBREC]);
    (17,  "No subscription existed"%string, [UNSUBACK]);
    (24,  "Continue authentication"%string, [AUTH]);
    (25,  "Re-authenticate"%string,         [AUTH]);
    (128, "Unspecified error"%string,       [CONNACK; PUBACK; PUBREC; SUBACK; UNSUBACK; DISCONNECT]);
    (129, "Malformed Packet"%string,        [CONNACK; DISCONNECT]);
    (130, "Protocol Error"%string,          [CONNACK; DISCONNECT]);
    (131, "Implementation specific error"%string, [CONNACK; PUBACK; PUBREC; SUBACK; UNSUBACK; DISCONNECT]);
    (132, "Unsupported Protocol Version"%string,  [CONNACK]);
    (133, "Client Identifier not valid"%string,   [CONNACK]);
    (134, "Bad User Name or Password"%string,     [CONNACK]);
    (135, "Not authorized"%string,          [CONNACK; PUBACK; PUBREC; SUBACK; UNSUBACK; DISCONNECT]);
    (136, "Server unavailable"%string,      [CONNACK]);
    (137, "Server busy"%string,             [CONNACK; DISCONNECT]);
    (138, "Banned"%string,                  [CONNACK]);
    (139, "Server shutting down"%string,    [DISCONNECT]);
    (140, "Bad authentication method"%string, [CONNACK; DISCONNECT]);
    (141, "Keep Alive timeout"%string,      [DISCONNECT]);
    (142, "Session taken over"%string,      [DISCONNECT]);
    (143, "Topic Filter invalid"%string,    [SUBACK; UNSUBACK; DISCONNECT]);
    (144, "Topic Name invalid"%string,      [CONNACK; PUBACK; PUBREC; DISCONNECT]);
    (145, "Packet Identifier in use"%string, [PUBACK; PUBREC; SUBACK; UNSUBACK]);
    (146, "Packet Identifier not found"%string, [PUBREL; PUBCOMP]);
    (147, "Receive Maximum exceeded"%string, [DISCONNECT]);
    (148, "Topic Alias invalid"%string,     [DISCONNECT]);
    (149, "Packet too large"%string,        [CONNACK; DISCONNECT]);
    (150, "Message rate too high"%string,   [DISCONNECT]);
    (151, "Quota exceeded"%string,          [CONNACK; PUBACK; PUBREC; SUBACK; DISCONNECT]);
    (152, "Administrative action"%string,   [DISCONNECT]);
    (153, "Payload format invalid"%string,  [CONNACK; PUBACK; PUBREC; DISCONNECT]);
    (154, "Retain not supported"%string,    [CONNACK; DISCONNECT]);
    (155, "QoS not supported"%string,       [CONNACK; DISCONNECT]);
    (156, "Use another server"%string,      [CONNACK; DISCONNECT]);
    (157, "Server moved"%string,            [CONNACK; DISCONNECT]);
    (158, "Shared Subscriptions not supported"%string, [SUBACK; DISCONNECT]);
    (159, "Connection rate exceeded"%string, [CONNACK; DISCONNECT]);
    (160, "Maximum connect time"%string,    [DISCONNECT]);
    (161, "Subscription Identifiers not supported"%string, [SUBACK; DISCONNECT]);
    (162, "Wildcard Subscriptions not supported"%string,   [SUBACK; DISCONNECT]) ].

(* the specification defines reason code v for packet type pt *)
Definition spec_allows (pt v : Z) : bool :=
  existsb (fun row => let '(c, _, pts) := row in (c =? v) && memz pt pts) spec_reasons.

(* its name there (bytes), if defined *)
Definition spec_reason_name (pt v : Z) : option (list Z) :=
  match filter (fun row => let '(c, _, pts) := row in (c =? v) && memz pt pts) spec_reasons with
  | (_, n, _) :: _ => Some (bytes_of n)
  | [] => None
  end.
