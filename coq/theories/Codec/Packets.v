(* M1 / C04: executable encoders transliterated from /repo/src/paho/mqtt/client.py
   (_pack_str16, _send_connect, _send_publish, _send_command_with_mid, _send_simple_command,
   _send_disconnect, _send_subscribe, _send_unsubscribe) and the clean-flag selection of
   _send_connect with the small state machine around _mqttv5_first_connect.
   Byte strings are lists of Z in 0..255; text is already UTF-8 encoded (str.encode is trusted);
   an MQTT 5 property block arrives already packed (Properties.pack() is C17's model) and is
   copied opaquely, exactly as the code does.  Model only, no proofs. *)
From PahoV Require Import Base.Prelude Codec.RemLen Codec.Wire.

(* exception kinds in addition to Prelude's: *)
Definition E_value : Z := 1.     (* ValueError *)
Definition E_struct : Z := 8.    (* struct.error *)
Definition E_assert : Z := 9.    (* AssertionError *)

(* struct.pack("!H", x): big endian, raises struct.error outside 0..65535 *)
Definition u16_ok (x : Z) : bool := (0 <=? x) && (x <=? 65535).
Definition u16 (x : Z) : bytes := [x / 256; x mod 256].

(* _pack_str16: packet.extend(struct.pack("!H", len(data))); packet.extend(data) *)
Definition str16 (s : bytes) : bytes := u16 (len s) ++ s.
Definition str16_ok (s : bytes) : bool := u16_ok (len s).

(* ------------------------------------------------------------------ CONNECT (_send_connect) *)
Record will_args := { w_topic : bytes; w_payload : bytes; w_qos : Z; w_retain : bool; w_props : bytes }.

Record connect_args := {
  c_bridge : bool;              (* self._client_mode == MQTT_BRIDGE *)
  c_clean : bool;               (* the clean bit chosen by clean_flag below *)
  c_keepalive : Z;
  c_client_id : bytes;
  c_will : option will_args;    (* self._will ... *)
  c_username : option bytes;
  c_password : option bytes;
  c_props : bytes }.            (* packed connect properties, b'\x00' when None; used for v5 only *)

Definition proto_name (v : version) : bytes :=
  match v with
  | V31 => [77; 81; 73; 115; 100; 112]       (* b"MQIsdp" *)
  | _ => [77; 81; 84; 84]                    (* b"MQTT" *)
  end.
Definition proto_level (v : version) : Z := match v with V31 => 3 | V311 => 4 | V5 => 5 end.

(* connect_flags |= 0x02 ; |= 0x04 | ((will_qos & 0x03) << 3) | ((will_retain & 0x01) << 5) ; |= 0x80 ; |= 0x40 *)
Definition connect_flags (a : connect_args) : Z :=
  let f0 := if c_clean a then Z.lor 0 2 else 0 in
  let f1 := match c_will a with
            | Some w => Z.lor f0 (Z.lor (Z.lor 4 (Z.shiftl (Z.land (w_qos w) 3) 3))
                                        (Z.shiftl (Z.land (b2z (w_retain w)) 1) 5))
            | None => f0
            end in
  match c_username a with
  | Some _ => let f2 := Z.lor f1 128 in
              match c_password a with Some _ => Z.lor f2 64 | None => f2 end
  | None => f1                      (* a password without a username is ignored *)
  end.

Definition connect_remlen (v : version) (a : connect_args) : Z :=
  2 + len (proto_name v) + 1 + 1 + 2 + 2 + len (c_client_id a)
  + match c_will a with Some w => 2 + len (w_topic w) + 2 + len (w_payload w) | None => 0 end
  + match c_username a with
    | Some u => 2 + len u + match c_password a with Some p => 2 + len p | None => 0 end
    | None => 0
    end
  + (if is_v5 v then len (c_props a) + match c_will a with Some w => len (w_props w) | None => 0 end else 0).

Definition connect_body (v : version) (a : connect_args) : bytes :=
  u16 (len (proto_name v)) ++ proto_name v
  ++ [ (if c_bridge a then Z.lor (proto_level v) 128 else proto_level v); connect_flags a ]
  ++ u16 (c_keepalive a)
  ++ (if is_v5 v then c_props a else [])
  ++ str16 (c_client_id a)
  ++ match c_will a with
     | Some w => (if is_v5 v then w_props w else []) ++ str16 (w_topic w) ++ str16 (w_payload w)
     | None => []
     end
  ++ match c_username a with
     | Some u => str16 u ++ match c_password a with Some p => str16 p | None => [] end
     | None => []
     end.

Definition connect_bytes (v : version) (a : connect_args) : bytes :=
  16 :: rl_encode (connect_remlen v a) ++ connect_body v a.

(* every struct.pack in _send_connect/_pack_str16 that can raise; nothing has been queued when it does *)
Definition connect_struct_ok (a : connect_args) : bool :=
  u16_ok (c_keepalive a) && str16_ok (c_client_id a)
  && match c_will a with Some w => str16_ok (w_topic w) && str16_ok (w_payload w) | None => true end
  && match c_username a with
     | Some u => str16_ok u && match c_password a with Some p => str16_ok p | None => true end
     | None => true
     end.

(* _pack_remaining_length raises first when the total is above the limit (repair of F-C04a) *)
Definition encode_connect (v : version) (a : connect_args) : res bytes :=
  if connect_remlen v a >? rl_max then Raise E_value
  else if connect_struct_ok a then Ok (connect_bytes v a) else Raise E_struct.

(* ------------------------------------------------------------------ PUBLISH (_send_publish) *)
Record publish_args := {
  p_dup : bool; p_qos : Z; p_retain : bool; p_mid : Z;
  p_topic : bytes; p_payload : bytes;
  p_props : bytes }.            (* packed properties, b'\x00' when None; used for v5 only *)

(* command = PUBLISH | ((dup & 0x1) << 3) | (qos << 1) | retain *)
Definition publish_command (dup : bool) (qos : Z) (retain : bool) : Z :=
  Z.lor (Z.lor (Z.lor 48 (Z.shiftl (Z.land (b2z dup) 1) 3)) (Z.shiftl qos 1)) (b2z retain).

(* remaining_length = 2 + len(topic) + payloadlen (+2 if qos > 0) (+ len(packed_properties) for v5) *)
Definition publish_remlen_n (v : version) (qos : Z) (topic props : bytes) (payloadlen : Z) : Z :=
  2 + len topic + payloadlen + (if qos >? 0 then 2 else 0) + (if is_v5 v then len props else 0).

(* everything written before packet.extend(payload): a function of the payload LENGTH only *)
Definition publish_header (v : version) (dup : bool) (qos : Z) (retain : bool) (mid : Z)
    (topic props : bytes) (payloadlen : Z) : bytes :=
  publish_command dup qos retain
  :: rl_encode (publish_remlen_n v qos topic props payloadlen)
  ++ str16 topic
  ++ (if qos >? 0 then u16 mid else [])
  ++ (if is_v5 v then props else []).

Definition publish_remlen (v : version) (a : publish_args) : Z :=
  publish_remlen_n v (p_qos a) (p_topic a) (p_props a) (len (p_payload a)).

Definition publish_bytes (v : version) (a : publish_args) : bytes :=
  publish_header v (p_dup a) (p_qos a) (p_retain a) (p_mid a) (p_topic a) (p_props a) (len (p_payload a))
  ++ p_payload a.

(* bytearray.append(command) needs 0..255; struct.pack("!H") for the topic length and the mid *)
Definition publish_struct_ok (a : publish_args) : bool :=
  str16_ok (p_topic a) && ((p_qos a <=? 0) || u16_ok (p_mid a)).

Definition encode_publish (v : version) (a : publish_args) : res bytes :=
  if negb (byte_ok (publish_command (p_dup a) (p_qos a) (p_retain a))) then Raise E_value
  else if publish_remlen v a >? rl_max then Raise E_value          (* _pack_remaining_length: 'Packet too large.' *)
  else if publish_struct_ok a then Ok (publish_bytes v a) else Raise E_struct.

(* --------------------------- PUBACK/PUBREC/PUBREL/PUBCOMP (_send_command_with_mid, dup=False) *)
(* kind = packet type number 4,5,6,7;  _send_pubrel passes PUBREL | 2 *)
Definition ack_command (kind : Z) : Z := if kind =? 6 then Z.lor 96 2 else kind * 16.
Definition ack_bytes (kind mid : Z) : bytes := [ack_command kind; 2] ++ u16 mid.   (* struct.pack('!BBH', command, 2, mid) *)
Definition encode_ack (kind mid : Z) : res bytes :=
  if u16_ok mid then Ok (ack_bytes kind mid) else Raise E_struct.

(* --------------------------- PINGREQ / PINGRESP (_send_simple_command): struct.pack('!BB', command, 0) *)
Definition ping_bytes (resp : bool) : bytes := [if resp then 208 else 192; 0].
Definition encode_ping (resp : bool) : res bytes := Ok (ping_bytes resp).

(* ------------------------------------------------------------------ DISCONNECT (_send_disconnect) *)
Definition disconnect_bytes (v : version) (reason : option Z) (props : option bytes) : bytes :=
  if is_v5 v then
    match reason, props with
    | None, None => 224 :: rl_encode 0
    | Some rc, None => 224 :: rl_encode 1 ++ [rc]
    | r, Some p => 224 :: rl_encode (1 + len p) ++ [match r with Some rc => rc | None => 0 end] ++ p
    end
  else 224 :: rl_encode 0.                      (* reason code and properties are ignored before v5 *)

Definition disconnect_remlen (v : version) (reason : option Z) (props : option bytes) : Z :=
  if is_v5 v then match reason, props with
                  | None, None => 0
                  | Some _, None => 1
                  | _, Some p => 1 + len p
                  end
  else 0.

(* reasoncode.pack() is bytearray([value]) *)
Definition encode_disconnect (v : version) (reason : option Z) (props : option bytes) : res bytes :=
  if disconnect_remlen v reason props >? rl_max then Raise E_value
  else if is_v5 v && match reason with Some rc => negb (byte_ok rc) | None => false end then Raise E_value
  else Ok (disconnect_bytes v reason props).

(* ------------------------------------------------------------------ SUBSCRIBE (_send_subscribe, dup=False) *)
(* SubscribeOptions.pack(): (retainHandling << 4) | (retainAsPublished << 3) | (noLocal << 2) | QoS *)
Definition sub_opts_byte (qos : Z) (nl rap : bool) (rh : Z) : Z :=
  Z.lor (Z.lor (Z.lor (Z.shiftl rh 4) (Z.shiftl (b2z rap) 3)) (Z.shiftl (b2z nl) 2)) qos.

Definition subscribe_command : Z := Z.lor (Z.lor 128 (Z.shiftl 0 3)) 2.     (* SUBSCRIBE | (dup << 3) | 0x2 *)

Fixpoint sum_len (f : bytes -> Z) (l : list bytes) : Z :=
  match l with [] => 0 | t :: r => f t + sum_len f r end.

(* topics: (filter, options byte); for v3 the byte is the requested QoS *)
Definition subscribe_remlen (v : version) (topics : list (bytes * Z)) (props : bytes) : Z :=
  2 + (if is_v5 v then len props else 0) + sum_len (fun t => 2 + len t + 1) (map fst topics).

Definition subscribe_body (v : version) (mid : Z) (topics : list (bytes * Z)) (props : bytes) : bytes :=
  u16 mid ++ (if is_v5 v then props else [])
  ++ concat (map (fun tq => str16 (fst tq) ++ [snd tq]) topics).

Definition subscribe_bytes (v : version) (mid : Z) (topics : list (bytes * Z)) (props : bytes) : bytes :=
  subscribe_command :: rl_encode (subscribe_remlen v topics props) ++ subscribe_body v mid topics props.

Definition subscribe_struct_ok (mid : Z) (topics : list (bytes * Z)) : bool :=
  u16_ok mid && forallb (fun tq => str16_ok (fst tq)) topics.

(* packet.append(q) / bytes([...]) need 0..255 *)
Definition encode_subscribe (v : version) (mid : Z) (topics : list (bytes * Z)) (props : bytes) : res bytes :=
  if subscribe_remlen v topics props >? rl_max then Raise E_value
  else if negb (u16_ok mid) then Raise E_struct
  else if negb (forallb (fun tq => str16_ok (fst tq)) topics) then Raise E_struct
  else if negb (forallb (fun tq => byte_ok (snd tq)) topics) then Raise E_value
  else Ok (subscribe_bytes v mid topics props).

(* ------------------------------------------------------------------ UNSUBSCRIBE (_send_unsubscribe, dup=False) *)
Definition unsubscribe_command : Z := Z.lor (Z.lor 160 (Z.shiftl 0 3)) 2.

Definition unsubscribe_remlen (v : version) (topics : list bytes) (props : bytes) : Z :=
  2 + (if is_v5 v then len props else 0) + sum_len (fun t => 2 + len t) topics.

Definition unsubscribe_body (v : version) (mid : Z) (topics : list bytes) (props : bytes) : bytes :=
  u16 mid ++ (if is_v5 v then props else []) ++ concat (map str16 topics).

Definition unsubscribe_bytes (v : version) (mid : Z) (topics : list bytes) (props : bytes) : bytes :=
  unsubscribe_command :: rl_encode (unsubscribe_remlen v topics props) ++ unsubscribe_body v mid topics props.

Definition encode_unsubscribe (v : version) (mid : Z) (topics : list bytes) (props : bytes) : res bytes :=
  if unsubscribe_remlen v topics props >? rl_max then Raise E_value
  else if u16_ok mid && forallb str16_ok topics then Ok (unsubscribe_bytes v mid topics props) else Raise E_struct.

(* ------------------------------------------------------------------ one type for "a packet the client sends" *)
Inductive item :=
| IConnect (a : connect_args)
| IPublish (a : publish_args)
| IAck (kind mid : Z)
| IPing (resp : bool)
| IDisconnect (reason : option Z) (props : option bytes)
| ISubscribe (mid : Z) (topics : list (bytes * Z)) (props : bytes)
| IUnsubscribe (mid : Z) (topics : list bytes) (props : bytes).

Definition encode (v : version) (it : item) : res bytes :=
  match it with
  | IConnect a => encode_connect v a
  | IPublish a => encode_publish v a
  | IAck k m => encode_ack k m
  | IPing r => encode_ping r
  | IDisconnect r p => encode_disconnect v r p
  | ISubscribe m t p => encode_subscribe v m t p
  | IUnsubscribe m t p => encode_unsubscribe v m t p
  end.

(* the bytes, when nothing raises *)
Definition wire (v : version) (it : item) : bytes :=
  match it with
  | IConnect a => connect_bytes v a
  | IPublish a => publish_bytes v a
  | IAck k m => ack_bytes k m
  | IPing r => ping_bytes r
  | IDisconnect r p => disconnect_bytes v r p
  | ISubscribe m t p => subscribe_bytes v m t p
  | IUnsubscribe m t p => unsubscribe_bytes v m t p
  end.

(* the remaining-length value the code computes for the packet *)
Definition remlen (v : version) (it : item) : Z :=
  match it with
  | IConnect a => connect_remlen v a
  | IPublish a => publish_remlen v a
  | IAck _ _ => 2
  | IPing _ => 0
  | IDisconnect r p => disconnect_remlen v r p
  | ISubscribe _ t p => subscribe_remlen v t p
  | IUnsubscribe _ t p => unsubscribe_remlen v t p
  end.

(* ------------------------------------------------------------------ the clean flag *)
(* connect(clean_start=...) : True | False | MQTT_CLEAN_START_FIRST_ONLY (3, the default) *)
Inductive clean_start := CS_true | CS_false | CS_first_only.

(* _send_connect:  v5: clean_start is True -> set; == FIRST_ONLY and _mqttv5_first_connect -> set;
                   otherwise (v3): self._clean_session *)
Definition clean_flag (v : version) (clean_session : bool) (cs : clean_start) (first_connect : bool) : bool :=
  if is_v5 v then
    match cs with CS_true => true | CS_false => false | CS_first_only => first_connect end
  else clean_session.

(* the state the flag depends on.  g_acked is a ghost field (no counterpart in the source):
   "a CONNACK has been processed since the last connect()" *)
Record cstate := {
  k_first : bool;          (* self._mqttv5_first_connect, True after __init__ *)
  k_cs : clean_start;      (* self._clean_start, FIRST_ONLY after __init__ *)
  k_host : bool;           (* connect()/connect_async() has stored a host: reconnect() is possible *)
  g_acked : bool }.

Definition cstate0 : cstate := {| k_first := true; k_cs := CS_first_only; k_host := false; g_acked := false |}.

Inductive cop :=
| KConnect (cs : clean_start)        (* connect(host, clean_start=cs): sets _mqttv5_first_connect (v5), then connect_async + reconnect *)
| KConnectAsync (cs : clean_start)   (* connect_async(): stores cs, sends nothing, leaves _mqttv5_first_connect alone *)
| KReconnect                         (* reconnect(), also every automatic reconnection of loop_forever/loop_start *)
| KConnack                           (* a CONNACK (accepted or refused) processed by _handle_connack *)
| KLoss.                             (* the connection drops *)

(* one CONNECT seen on the wire *)
Record cevent := {
  e_by_connect : bool;     (* issued by connect() (true) or by reconnect() (false) *)
  e_acked : bool;          (* ghost: a CONNACK was processed since the last connect() *)
  e_cs : clean_start;      (* the clean_start value in force *)
  e_flag : bool }.         (* bit 1 of the connect flags *)

Definition cs_eqb (a b : clean_start) : bool :=
  match a, b with CS_true, CS_true | CS_false, CS_false | CS_first_only, CS_first_only => true | _, _ => false end.

Definition cstep (v : version) (clean_session : bool) (st : cstate) (op : cop) : cstate * list cevent :=
  match op with
  | KConnect cs =>
      if negb (is_v5 v) && negb (cs_eqb cs CS_first_only) then (st, [])     (* ValueError("Clean start only applies to MQTT V5") *)
      else
        let first := if is_v5 v then true else k_first st in
        ({| k_first := first; k_cs := cs; k_host := true; g_acked := false |},
         [{| e_by_connect := true; e_acked := false; e_cs := cs; e_flag := clean_flag v clean_session cs first |}])
  | KConnectAsync cs =>
      ({| k_first := k_first st; k_cs := cs; k_host := true; g_acked := g_acked st |}, [])
  | KReconnect =>
      if k_host st then
        (st, [{| e_by_connect := false; e_acked := g_acked st; e_cs := k_cs st;
                 e_flag := clean_flag v clean_session (k_cs st) (k_first st) |}])
      else (st, [])                                                          (* ValueError('Invalid host.') *)
  | KConnack =>
      ({| k_first := false; k_cs := k_cs st; k_host := k_host st; g_acked := true |}, [])
  | KLoss => (st, [])
  end.

Fixpoint crun (v : version) (clean_session : bool) (st : cstate) (ops : list cop) : list cevent :=
  match ops with
  | [] => []
  | op :: r => let '(st', ev) := cstep v clean_session st op in ev ++ crun v clean_session st' r
  end.

(* the property, per CONNECT on the wire:
   v3: bit = clean_session.  v5: bit = clean_start when it is a boolean; with FIRST_ONLY the CONNECT of
   connect() has the bit set and a CONNECT of reconnect() after a processed CONNACK has it clear. *)
Definition clean_event_ok (v : version) (clean_session : bool) (e : cevent) : bool :=
  if is_v5 v then
    match e_cs e with
    | CS_true => e_flag e
    | CS_false => negb (e_flag e)
    | CS_first_only =>
        if e_by_connect e then e_flag e
        else if e_acked e then negb (e_flag e)
        else true      (* a retry before the first CONNACK: outside C04's statement, see clean_retry_keeps_flag *)
    end
  else Bool.eqb (e_flag e) clean_session.
