(* Correspondence entry points of the C17 models over flat integer lists (see harness/c17.py for the
   encoding).  No proofs.
   pval:    0 n | 1 len bytes (str as UTF-8) | 2 len bytes (bytes) | 3 <sval> <sval>   (sval = 1.. | 2..)
   assign:  0 <pval> | 1 count <pval>*count
   state:   count (id <assign>)*count *)
From PahoV Require Import Base.Prelude Codec.StrBytes Codec.Utf8 Codec.VBI Codec.PropSpec Codec.Props5
  Codec.Props5Gen Codec.Reason Codec.ReasonSpec Codec.SubOpts Gen.GenReasonTable.

Definition take (n : Z) (l : list Z) : list Z * list Z := (firstn (Z.to_nat n) l, skipn (Z.to_nat n) l).

Definition parse_sval (l : list Z) : option (sval * list Z) :=
  match l with
  | k :: n :: r =>
      let '(b, r') := take n r in
      if k =? 1 then Some (SStr b, r') else if k =? 2 then Some (SBin b, r') else None
  | _ => None
  end.

Definition parse_pval (l : list Z) : option (pval * list Z) :=
  match l with
  | 0 :: n :: r => Some (VInt n, r)
  | 3 :: r =>
      match parse_sval r with
      | Some (a, r1) => match parse_sval r1 with Some (b, r2) => Some (VPair a b, r2) | None => None end
      | None => None
      end
  | _ => match parse_sval l with Some (s, r) => Some (VS s, r) | None => None end
  end.

Fixpoint parse_pvals (cnt : nat) (l : list Z) : option (list pval * list Z) :=
  match cnt with
  | O => Some ([], l)
  | S c => match parse_pval l with
           | Some (v, r) => match parse_pvals c r with Some (vs, r') => Some (v :: vs, r') | None => None end
           | None => None
           end
  end.

Definition parse_assign (l : list Z) : option (passign * list Z) :=
  match l with
  | 0 :: r => match parse_pval r with Some (v, r') => Some (One v, r') | None => None end
  | 1 :: cnt :: r => match parse_pvals (Z.to_nat cnt) r with Some (vs, r') => Some (Many vs, r') | None => None end
  | _ => None
  end.

(* (namelen name assign)*cnt *)
Fixpoint parse_assigns (cnt : nat) (l : list Z) : option (list (list Z * passign)) :=
  match cnt with
  | O => Some []
  | S c =>
      match l with
      | n :: r =>
          let '(name, r1) := take n r in
          match parse_assign r1 with
          | Some (a, r2) => match parse_assigns c r2 with Some rest => Some ((name, a) :: rest) | None => None end
          | None => None
          end
      | [] => None
      end
  end.

Fixpoint parse_idvals (cnt : nat) (l : list Z) : option (list (Z * pval)) :=
  match cnt with
  | O => Some []
  | S c =>
      match l with
      | id :: r => match parse_pval r with
                   | Some (v, r') => match parse_idvals c r' with Some rest => Some ((id, v) :: rest) | None => None end
                   | None => None
                   end
      | [] => None
      end
  end.

Definition enc_sval (s : sval) : list Z :=
  match s with SStr u => 1 :: blen u :: u | SBin b => 2 :: blen b :: b end.
Definition enc_pval (v : pval) : list Z :=
  match v with VInt n => [0; n] | VS s => enc_sval s | VPair a b => 3 :: enc_sval a ++ enc_sval b end.
Definition enc_assign (a : passign) : list Z :=
  match a with One v => 0 :: enc_pval v | Many l => 1 :: blen (map (fun _ => 0) l) :: flat_map enc_pval l end.
Definition enc_state (st : pstate) : list Z :=
  Z.of_nat (length st) :: flat_map (fun e => fst e :: enc_assign (snd e)) st.

(* assignments one after the other; on failure the index of the failing assignment *)
Fixpoint set_all_idx (pt : Z) (st : pstate) (l : list (list Z * passign)) (i : Z) : sum pstate (Z * Z)%type :=
  match l with
  | [] => inl st
  | (n, a) :: r =>
      match setattr GT pt st n a with
      | Ok st' => set_all_idx pt st' r (i + 1)
      | Raise k => inr (k, i)
      | OutOfFuel => inr (99, i)
      end
  end.

(* [pt; cnt; assigns] -> [0; len; bytes; state] | [kind; 2; state] (pack raised) | [kind; 1; index] (setattr raised) *)
Definition entry_props_pack (args : list Z) : list Z :=
  match args with
  | pt :: cnt :: r =>
      match parse_assigns (Z.to_nat cnt) r with
      | None => [98]
      | Some l =>
          match set_all_idx pt [] l 0 with
          | inr (k, i) => [coarse k; 1; i]
          | inl st =>
              match pack GT st with
              | Ok b => 0 :: blen b :: b ++ enc_state (norm GT st)
              | Raise k => coarse k :: 2 :: enc_state (norm GT st)
              | OutOfFuel => [99]
              end
          end
      end
  | _ => [98]
  end.

(* [pt; bytes] -> [0; used; state] | [kind] *)
Definition entry_props_unpack (args : list Z) : list Z :=
  match args with
  | pt :: buf =>
      match unpack GT pt buf with
      | Ok (st, n) => 0 :: n :: enc_state (norm GT st)
      | Raise k => [coarse k]
      | OutOfFuel => [99]
      end
  | _ => [98]
  end.

(* [cnt; (id pval)*cnt] -> [0; bytes] | [1]: the SPECIFICATION's encoding of the list *)
Definition entry_spec_pack (args : list Z) : list Z :=
  match args with
  | cnt :: r =>
      match parse_idvals (Z.to_nat cnt) r with
      | None => [98]
      | Some l => match spec_pack l with Some b => 0 :: b | None => [1] end
      end
  | _ => [98]
  end.

(* [n] -> the SPECIFICATION's Variable Byte Integer encoding of n (0 <= n <= 268435455) *)
Definition entry_spec_vbi (args : list Z) : list Z :=
  match args with [n] => spec_vbi n | _ => [98] end.

(* [pt; id; pval] -> [allowed for the packet; value valid; repeatable] per the SPECIFICATION *)
Definition entry_spec_judge (args : list Z) : list Z :=
  match args with
  | pt :: id :: r =>
      match parse_pval r with
      | Some (v, _) => [bit (spec_allowed pt id); bit (spec_value_ok id v); bit (spec_repeatable pt id)]
      | None => [98]
      end
  | _ => [98]
  end.

Definition enc_resz (r : res Z) : list Z :=
  match r with Ok v => [0; v] | Raise k => [coarse k; 0] | OutOfFuel => [99; 0] end.

(* [pt; v] -> constructor by identifier, unpack [v], specification *)
Definition entry_reason (args : list Z) : list Z :=
  match args with
  | [pt; v] =>
      enc_resz (rc_new gen_reason_table pt name_success v)
      ++ enc_resz (match rc_unpack gen_reason_table pt [v] with
                   | Ok (x, _) => Ok x | Raise k => Raise k | OutOfFuel => OutOfFuel end)
      ++ [bit (spec_allows pt v)]
  | _ => [98]
  end.

(* [pt; name bytes] -> constructor by name *)
Definition entry_reason_by_name (args : list Z) : list Z :=
  match args with
  | pt :: name => enc_resz (rc_new gen_reason_table pt name (-1))
  | _ => [98]
  end.

(* [pt; v] -> [0; name bytes] | [kind] *)
Definition entry_reason_name (args : list Z) : list Z :=
  match args with
  | [pt; v] => match rc_get_name gen_reason_table pt v with
               | Ok n => 0 :: n | Raise k => [coarse k] | OutOfFuel => [99] end
  | _ => [98]
  end.

(* [rh; qos; nl; rap] -> [legal; byte] per the SPECIFICATION *)
Definition entry_spec_subopts (args : list Z) : list Z :=
  match args with
  | [rh; qos; nl; rap] =>
      [bit (spec_subopts_legal rh qos); spec_subopts_byte rh qos (negb (nl =? 0)) (negb (rap =? 0))]
  | _ => [98]
  end.
