(* Bridge: the definition generated on every run from client.py's _pack_remaining_length
   (Gen/GenRL.v) equals the hand model rl_encode, for every n >= 0 and sufficient fuel. *)
From PahoV Require Import Base.Prelude Codec.RemLen Codec.RemLenProofs Gen.GenRL.

(* byte |= 0x80 on a 7-bit value is byte + 128 *)
Lemma lor_128 b : 0 <= b < 128 -> Z.lor b 128 = b + 128.
Proof.
  intros H. destruct b as [|p|p]; [reflexivity| |lia].
  do 7 (destruct p as [p|p|]; try reflexivity); lia.
Qed.

Lemma pack_rl_loop_bridge f : forall pkt n rb, 0 <= n < 128 ^ Z.of_nat (S f) ->
  pack_remaining_length_loop1 (S f) pkt n rb = Ok (pkt ++ rl_enc (S f) n).
Proof.
  induction f as [|f IH]; intros pkt n rb Hn.
  - change (128 ^ Z.of_nat 1) with 128 in Hn.
    cbn [pack_remaining_length_loop1 rl_enc]. cbv zeta.
    assert (n / 128 = 0) as -> by lia. cbn. reflexivity.
  - rewrite pow128_S in Hn. pose proof (pow128_pos (Z.of_nat (S f)) ltac:(lia)).
    remember (S f) as g. cbn [pack_remaining_length_loop1 rl_enc]. cbv zeta.
    destruct (n / 128 >? 0) eqn:Hq.
    + assert (n / 128 =? 0 = false) as -> by lia.
      subst g. rewrite IH by nia. rewrite lor_128 by lia. rewrite <- app_assoc. reflexivity.
    + assert (n / 128 =? 0 = true) as -> by lia. reflexivity.
Qed.

(* more fuel than needed changes nothing; the leading range check of the source is the model's rl_pack *)
Lemma pack_remaining_length_bridge fuel pkt n :
  (0 < fuel)%nat -> 0 <= n < 128 ^ Z.of_nat fuel ->
  pack_remaining_length fuel pkt n =
  match rl_pack n with Ok l => Ok (pkt ++ l) | Raise k => Raise k | OutOfFuel => OutOfFuel end.
Proof.
  intros Hf Hn. unfold pack_remaining_length, rl_pack, rl_max. destruct (n >? 268435455); [reflexivity|].
  destruct fuel as [|f]; [lia|].
  rewrite pack_rl_loop_bridge by assumption. rewrite (rl_encode_fuel f) by assumption. reflexivity.
Qed.

(* the fuel the model itself uses is always sufficient *)
Lemma pack_remaining_length_bridge_total pkt n : 0 <= n ->
  pack_remaining_length (rl_fuel n) pkt n =
  match rl_pack n with Ok l => Ok (pkt ++ l) | Raise k => Raise k | OutOfFuel => OutOfFuel end.
Proof. intros H. apply pack_remaining_length_bridge; [unfold rl_fuel; lia|]. split; [lia | apply rl_fuel_enough; lia]. Qed.

(* above the limit the source raises whatever the fuel: nothing is appended to the packet *)
Lemma pack_remaining_length_rejects fuel pkt n : rl_max < n -> pack_remaining_length fuel pkt n = Raise 1.
Proof. unfold rl_max, pack_remaining_length. intros H. assert (n >? 268435455 = true) as -> by lia. reflexivity. Qed.
