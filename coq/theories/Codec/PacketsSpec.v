(* C04: the hypotheses and the expected decoder output of the round-trip theorems.
   representable v it : explicit boolean predicate - every string <= 65535 bytes, keepalive <= 65535,
     packet id in 1..65535 where one is sent, qos <= 2, remaining length <= 268435455, strings that
     MQTT calls "UTF-8 encoded string" are well-formed UTF-8 without U+0000, topic names without
     wildcards, at least one filter, legal options byte, v5 property blocks self-delimiting.
   packet_of v it : "what the application supplied", in the decoder's vocabulary.
   Model only, no proofs. *)
From PahoV Require Import Base.Prelude Codec.RemLen Codec.Wire Codec.Packets Codec.SpecDecode.

(* a packed v5 property block: variable byte integer n, then exactly n bytes (content opaque here) *)
Definition props_wf (p : bytes) : bool :=
  match rl_decode p with Some (n, r) => n =? len r | None => false end.
Definition props_content (p : bytes) : bytes :=
  match rl_decode p with Some (_, r) => r | None => [] end.
Definition vprops_wf (v : version) (p : bytes) : bool := if is_v5 v then props_wf p else true.
Definition vprops (v : version) (p : bytes) : bytes := if is_v5 v then props_content p else [].

Definition mid_ok (m : Z) : bool := (1 <=? m) && (m <=? 65535).
Definition qos_ok (q : Z) : bool := (0 <=? q) && (q <=? 2).
Definition text_ok (s : bytes) : bool := str16_ok s && utf8_ok s.      (* a "UTF-8 encoded string" field *)

(* ---------------------------------------------------------------- CONNECT *)
Definition representable_will (v : version) (w : will_args) : bool :=
  qos_ok (w_qos w) && text_ok (w_topic w) && no_wildcard (w_topic w) && nonempty (w_topic w)
  && str16_ok (w_payload w) && vprops_wf v (w_props w).

Definition representable_connect (v : version) (a : connect_args) : bool :=
  u16_ok (c_keepalive a) && text_ok (c_client_id a)
  && (is_v5 v || nonempty (c_client_id a) || c_clean a)
  && vprops_wf v (c_props a)
  && match c_will a with Some w => representable_will v w | None => true end
  && match c_username a with
     | Some u => text_ok u && match c_password a with Some p => str16_ok p | None => true end
     | None => true        (* username_pw_set(None, pw): documented to mean "no credentials" *)
     end
  && (connect_remlen v a <=? rl_max).

Definition will_of (v : version) (w : will_args) : will_rec :=
  {| wl_qos := w_qos w; wl_retain := w_retain w; wl_props := vprops v (w_props w);
     wl_topic := w_topic w; wl_payload := w_payload w |}.

Definition packet_of_connect (v : version) (a : connect_args) : packet :=
  PConnect (proto_level v) (c_bridge a) (c_clean a) (c_keepalive a) (vprops v (c_props a)) (c_client_id a)
           (match c_will a with Some w => Some (will_of v w) | None => None end)
           (c_username a)
           (match c_username a with Some _ => c_password a | None => None end).

(* ---------------------------------------------------------------- PUBLISH *)
Definition representable_publish (v : version) (a : publish_args) : bool :=
  qos_ok (p_qos a)
  && (negb (p_dup a) || negb (p_qos a =? 0))             (* DUP only on QoS > 0 *)
  && ((p_qos a =? 0) || mid_ok (p_mid a))
  && text_ok (p_topic a) && no_wildcard (p_topic a) && (is_v5 v || nonempty (p_topic a))
  && vprops_wf v (p_props a)
  && (publish_remlen v a <=? rl_max).

Definition packet_of_publish (v : version) (a : publish_args) : packet :=
  PPublish (p_dup a) (p_qos a) (p_retain a) (p_topic a) (if p_qos a =? 0 then 0 else p_mid a)
           (vprops v (p_props a)) (p_payload a).

(* ---------------------------------------------------------------- the rest *)
Definition ack_kind_ok (k : Z) : bool := (4 <=? k) && (k <=? 7).

Definition representable_disconnect (v : version) (reason : option Z) (props : option bytes) : bool :=
  if is_v5 v then
    match reason with Some rc => byte_ok rc | None => true end
    && match props with Some p => props_wf p && (1 + len p <=? rl_max) | None => true end
  else true.

Definition packet_of_disconnect (v : version) (reason : option Z) (props : option bytes) : packet :=
  if is_v5 v then
    match reason, props with
    | r, None => PDisconnect r None
    | r, Some p => PDisconnect (Some (match r with Some rc => rc | None => 0 end)) (Some (props_content p))
    end
  else PDisconnect None None.

Definition filter_text_ok (t : bytes) : bool := text_ok t && nonempty t.

Definition representable_subscribe (v : version) (mid : Z) (topics : list (bytes * Z)) (props : bytes) : bool :=
  mid_ok mid && vprops_wf v props && nonempty topics
  && forallb (fun tq => filter_text_ok (fst tq) && opt_ok v (snd tq)) topics
  && (subscribe_remlen v topics props <=? rl_max).

Definition representable_unsubscribe (v : version) (mid : Z) (topics : list bytes) (props : bytes) : bool :=
  mid_ok mid && vprops_wf v props && nonempty topics
  && forallb filter_text_ok topics
  && (unsubscribe_remlen v topics props <=? rl_max).

Definition representable (v : version) (it : item) : bool :=
  match it with
  | IConnect a => representable_connect v a
  | IPublish a => representable_publish v a
  | IAck k m => ack_kind_ok k && mid_ok m
  | IPing _ => true
  | IDisconnect r p => representable_disconnect v r p
  | ISubscribe m t p => representable_subscribe v m t p
  | IUnsubscribe m t p => representable_unsubscribe v m t p
  end.

Definition packet_of (v : version) (it : item) : packet :=
  match it with
  | IConnect a => packet_of_connect v a
  | IPublish a => packet_of_publish v a
  | IAck k m => PAck k m 0 []
  | IPing r => if r then PPingresp else PPingreq
  | IDisconnect r p => packet_of_disconnect v r p
  | ISubscribe m t p => PSubscribe m (vprops v p) t
  | IUnsubscribe m t p => PUnsubscribe m (vprops v p) t
  end.
