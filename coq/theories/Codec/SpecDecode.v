(* C04: a strict decoder for the control packets a client sends, written from the OASIS texts
   (MQTT 3.1 [IBM/Eurotech 2010], MQTT 3.1.1 [OASIS 2014] sections 1.5.3, 2.2, 2.3, 3.1-3.14,
   MQTT 5.0 [OASIS 2019] sections 1.5, 2.1, 2.2, 3.1-3.14).  INDEPENDENT of Packets.v: it shares only
   Wire.v (types) and RemLen.v's rl_decode (itself written from 2.2.3 / 1.5.5).
   What is checked:
     fixed header    type 1,3,4-8,10,12,13,14; flag nibble per type (PUBLISH dup/qos/retain with qos<>3 and
                     no DUP on QoS 0; SUBSCRIBE/UNSUBSCRIBE/PUBREL = 0010; all others 0000)      [3.1.1: 2.2.2]
     remaining len   minimal, at most 4 bytes, exactly the bytes that are there                   [2.2.3 / 1.5.5]
     strings         2-byte big-endian length that fits inside the packet; well-formed UTF-8 (RFC 3629: no
                     surrogates, no overlong forms, at most U+10FFFF) without U+0000              [1.5.3]
     topic names     PUBLISH topic and Will topic contain no wildcard characters [MQTT-3.3.2-2, 4.7.1];
                     non-empty before v5 and for every filter [MQTT-4.7.3-1]
     packet ids      non-zero where present                                                       [MQTT-2.3.1-1]
     CONNECT         protocol name/level (MQIsdp/3, MQTT/4, MQTT/5; bit 7 of the level byte = mosquitto's
                     bridge marker, tolerated and reported); reserved flag 0; will qos/retain zero without
                     the will flag; will qos <> 3; before v5 a password needs a username [MQTT-3.1.2-22];
                     before v5 an empty client id needs the clean flag [MQTT-3.1.3-7]; nothing after the
                     last field
     v5 properties   a block is present wherever MQTT 5 requires one and its variable-byte length delimits
                     it inside the packet; the content is opaque here (C17 models it)
     SUBSCRIBE       at least one filter; options byte: v3 only the QoS (0..2), v5 QoS<>3, retain handling<>3,
                     bits 6-7 zero                                                                [3.8.3]
     UNSUBSCRIBE     at least one filter                                                          [MQTT-3.10.3-2]
     acks            2 bytes (reason 0), or for v5 also reason code, or reason code + properties
     DISCONNECT      empty; v5 also reason code, or reason code + properties
   Not checked (other properties): which property identifiers / reason codes are legal (C17), the
   wildcard grammar of topic filters (C19/C11), MQTT 3.1's 23-character client id advice.
   Model only, no proofs. *)
From PahoV Require Import Base.Prelude Codec.RemLen Codec.Wire.

(* ---------------------------------------------------------------- 1.5.3 UTF-8 encoded strings *)
(* RFC 3629 table 3.  need = continuation bytes still expected, lo..hi = range of the next one. *)
Fixpoint utf8_run (need : nat) (lo hi : Z) (s : bytes) : bool :=
  match s with
  | [] => match need with O => true | S _ => false end
  | b :: r =>
      match need with
      | O =>
          if b <=? 0 then false                       (* U+0000 is forbidden [MQTT-1.5.3-2]; negatives are no bytes *)
          else if b <=? 127 then utf8_run 0 128 191 r
          else if b <? 194 then false                 (* continuation byte, or overlong C0/C1 *)
          else if b <=? 223 then utf8_run 1 128 191 r
          else if b =? 224 then utf8_run 2 160 191 r  (* E0: no overlong *)
          else if b <=? 236 then utf8_run 2 128 191 r
          else if b =? 237 then utf8_run 2 128 159 r  (* ED: no surrogates U+D800..U+DFFF [MQTT-1.5.3-1] *)
          else if b <=? 239 then utf8_run 2 128 191 r
          else if b =? 240 then utf8_run 3 144 191 r  (* F0: no overlong *)
          else if b <=? 243 then utf8_run 3 128 191 r
          else if b =? 244 then utf8_run 3 128 143 r  (* F4: at most U+10FFFF *)
          else false
      | S n => if (lo <=? b) && (b <=? hi) then utf8_run n 128 191 r else false
      end
  end.
Definition utf8_ok (s : bytes) : bool := utf8_run 0 128 191 s.

Definition no_wildcard (s : bytes) : bool := negb (existsb (fun b => (b =? 35) || (b =? 43)) s).   (* '#' '+' *)
Definition nonempty {A} (s : list A) : bool := match s with [] => false | _ => true end.

(* ---------------------------------------------------------------- field readers *)
Definition rd_u16 (s : bytes) : option (Z * bytes) :=
  match s with
  | h :: l :: r => if byte_ok h && byte_ok l then Some (h * 256 + l, r) else None
  | _ => None
  end.

(* binary data: 2-byte length, then that many bytes, which must be there *)
Definition rd_bin (s : bytes) : option (bytes * bytes) :=
  match rd_u16 s with
  | Some (n, r) => if n <=? len r then Some (firstn (Z.to_nat n) r, skipn (Z.to_nat n) r) else None
  | None => None
  end.

Definition rd_str (s : bytes) : option (bytes * bytes) :=
  match rd_bin s with
  | Some (x, r) => if utf8_ok x then Some (x, r) else None
  | None => None
  end.

(* v5 property block: variable byte integer length, then that many bytes; returns the content *)
Definition rd_props (s : bytes) : option (bytes * bytes) :=
  match rl_decode s with
  | Some (n, r) => if n <=? len r then Some (firstn (Z.to_nat n) r, skipn (Z.to_nat n) r) else None
  | None => None
  end.

Definition rd_props_if (v : version) (s : bytes) : option (bytes * bytes) :=
  if is_v5 v then rd_props s else Some ([], s).

(* non-zero packet identifier *)
Definition rd_mid (s : bytes) : option (Z * bytes) :=
  match rd_u16 s with
  | Some (m, r) => if m =? 0 then None else Some (m, r)
  | None => None
  end.

(* ---------------------------------------------------------------- decoded values *)
Record will_rec := { wl_qos : Z; wl_retain : bool; wl_props : bytes; wl_topic : bytes; wl_payload : bytes }.

Inductive packet :=
| PConnect (level : Z) (bridge : bool) (clean : bool) (keepalive : Z) (props : bytes) (client_id : bytes)
           (will : option will_rec) (username : option bytes) (password : option bytes)
| PPublish (dup : bool) (qos : Z) (retain : bool) (topic : bytes) (mid : Z) (props : bytes) (payload : bytes)
| PAck (kind : Z) (mid : Z) (reason : Z) (props : bytes)       (* kind 4 PUBACK, 5 PUBREC, 6 PUBREL, 7 PUBCOMP *)
| PSubscribe (mid : Z) (props : bytes) (topics : list (bytes * Z))      (* (filter, options byte) *)
| PUnsubscribe (mid : Z) (props : bytes) (topics : list bytes)
| PPingreq
| PPingresp
| PDisconnect (reason : option Z) (props : option bytes).

(* fields of a v5 subscription options byte / the v3 requested QoS byte *)
Definition opt_qos (o : Z) : Z := o mod 4.
Definition opt_nl (o : Z) : bool := z2b ((o / 4) mod 2).
Definition opt_rap (o : Z) : bool := z2b ((o / 8) mod 2).
Definition opt_rh (o : Z) : Z := (o / 16) mod 4.

Definition opt_ok (v : version) (o : Z) : bool :=
  byte_ok o &&
  (if is_v5 v then negb (opt_qos o =? 3) && negb (opt_rh o =? 3) && (o / 64 =? 0)
   else o <=? 2).

(* ---------------------------------------------------------------- CONNECT (3.1) *)
Definition spec_proto_name (v : version) : bytes :=
  match v with V31 => [77; 81; 73; 115; 100; 112] | V311 => [77; 81; 84; 84] | V5 => [77; 81; 84; 84] end.
Definition spec_proto_level (v : version) : Z := match v with V31 => 3 | V311 => 4 | V5 => 5 end.

Definition parse_will (v : version) (wq : Z) (wr : bool) (s : bytes) : option (will_rec * bytes) :=
  match rd_props_if v s with
  | None => None
  | Some (wp, s1) =>
      match rd_str s1 with
      | None => None
      | Some (wt, s2) =>
          if negb (no_wildcard wt) || negb (nonempty wt) then None else
          match rd_bin s2 with
          | None => None
          | Some (wm, s3) =>
              Some ({| wl_qos := wq; wl_retain := wr; wl_props := wp; wl_topic := wt; wl_payload := wm |}, s3)
          end
      end
  end.

Definition parse_connect (v : version) (body : bytes) : option packet :=
  match rd_bin body with
  | None => None
  | Some (name, s1) =>
      if negb (zlist_eqb name (spec_proto_name v)) then None else
      match s1 with
      | lv :: fl :: s2 =>
          if negb (byte_ok lv && byte_ok fl) then None else
          let bridge := 128 <=? lv in
          if negb (lv mod 128 =? spec_proto_level v) then None else
          let reserved := fl mod 2 in
          let clean := z2b ((fl / 2) mod 2) in
          let willf := z2b ((fl / 4) mod 2) in
          let wq := (fl / 8) mod 4 in
          let wr := z2b ((fl / 32) mod 2) in
          let pwf := z2b ((fl / 64) mod 2) in
          let userf := z2b (fl / 128) in
          if negb (reserved =? 0) then None
          else if wq =? 3 then None
          else if negb willf && (negb (wq =? 0) || wr) then None
          else if negb (is_v5 v) && pwf && negb userf then None
          else
          match rd_u16 s2 with
          | None => None
          | Some (ka, s3) =>
              match rd_props_if v s3 with
              | None => None
              | Some (props, s4) =>
                  match rd_str s4 with
                  | None => None
                  | Some (cid, s5) =>
                      if negb (is_v5 v) && negb (nonempty cid) && negb clean then None else
                      match (if willf then
                               match parse_will v wq wr s5 with
                               | Some (w, r) => Some (Some w, r) | None => None end
                             else Some (None, s5)) with
                      | None => None
                      | Some (will, s6) =>
                          match (if userf then
                                   match rd_str s6 with Some (u, r) => Some (Some u, r) | None => None end
                                 else Some (None, s6)) with
                          | None => None
                          | Some (user, s7) =>
                              match (if pwf then
                                       match rd_bin s7 with Some (p, r) => Some (Some p, r) | None => None end
                                     else Some (None, s7)) with
                              | None => None
                              | Some (pw, s8) =>
                                  match s8 with
                                  | [] => Some (PConnect (lv mod 128) bridge clean ka props cid will user pw)
                                  | _ :: _ => None
                                  end
                              end
                          end
                      end
                  end
              end
          end
      | _ => None
      end
  end.

(* ---------------------------------------------------------------- PUBLISH (3.3) *)
Definition parse_publish (v : version) (fl : Z) (body : bytes) : option packet :=
  let dup := z2b (fl / 8) in
  let qos := (fl / 2) mod 4 in
  let retain := z2b (fl mod 2) in
  if qos =? 3 then None
  else if dup && (qos =? 0) then None
  else
  match rd_str body with
  | None => None
  | Some (topic, s1) =>
      if negb (no_wildcard topic) then None
      else if negb (is_v5 v) && negb (nonempty topic) then None
      else
      match (if qos =? 0 then Some (0, s1) else rd_mid s1) with
      | None => None
      | Some (mid, s2) =>
          match rd_props_if v s2 with
          | None => None
          | Some (props, payload) => Some (PPublish dup qos retain topic mid props payload)
          end
      end
  end.

(* ---------------------------------------------------------------- PUBACK PUBREC PUBREL PUBCOMP (3.4-3.7) *)
Definition parse_ack (v : version) (kind : Z) (body : bytes) : option packet :=
  match rd_mid body with
  | None => None
  | Some (mid, s1) =>
      match s1 with
      | [] => Some (PAck kind mid 0 [])
      | rc :: s2 =>
          if negb (is_v5 v) || negb (byte_ok rc) then None else
          match s2 with
          | [] => Some (PAck kind mid rc [])
          | _ :: _ => match rd_props s2 with
                      | Some (p, []) => Some (PAck kind mid rc p)
                      | _ => None
                      end
          end
      end
  end.

(* ---------------------------------------------------------------- SUBSCRIBE (3.8) / UNSUBSCRIBE (3.10) *)
Fixpoint parse_filters (fuel : nat) (v : version) (s : bytes) : option (list (bytes * Z)) :=
  match s with
  | [] => Some []
  | _ :: _ =>
      match fuel with
      | O => None
      | S f =>
          match rd_str s with
          | Some (t, o :: r) =>
              if nonempty t && opt_ok v o then
                match parse_filters f v r with
                | Some l => Some ((t, o) :: l)
                | None => None
                end
              else None
          | _ => None
          end
      end
  end.

Definition parse_subscribe (v : version) (body : bytes) : option packet :=
  match rd_mid body with
  | None => None
  | Some (mid, s1) =>
      match rd_props_if v s1 with
      | None => None
      | Some (props, s2) =>
          match parse_filters (length s2) v s2 with
          | Some (t :: l) => Some (PSubscribe mid props (t :: l))
          | _ => None                                   (* no filter: protocol violation [MQTT-3.8.3-3] *)
          end
      end
  end.

Fixpoint parse_topics (fuel : nat) (s : bytes) : option (list bytes) :=
  match s with
  | [] => Some []
  | _ :: _ =>
      match fuel with
      | O => None
      | S f =>
          match rd_str s with
          | Some (t, r) =>
              if nonempty t then
                match parse_topics f r with
                | Some l => Some (t :: l)
                | None => None
                end
              else None
          | None => None
          end
      end
  end.

Definition parse_unsubscribe (v : version) (body : bytes) : option packet :=
  match rd_mid body with
  | None => None
  | Some (mid, s1) =>
      match rd_props_if v s1 with
      | None => None
      | Some (props, s2) =>
          match parse_topics (length s2) s2 with
          | Some (t :: l) => Some (PUnsubscribe mid props (t :: l))
          | _ => None                                   (* no filter: protocol violation [MQTT-3.10.3-2] *)
          end
      end
  end.

(* ---------------------------------------------------------------- DISCONNECT (3.14) *)
Definition parse_disconnect (v : version) (body : bytes) : option packet :=
  match body with
  | [] => Some (PDisconnect None None)
  | rc :: s1 =>
      if negb (is_v5 v) || negb (byte_ok rc) then None else
      match s1 with
      | [] => Some (PDisconnect (Some rc) None)
      | _ :: _ => match rd_props s1 with
                  | Some (p, []) => Some (PDisconnect (Some rc) (Some p))
                  | _ => None
                  end
      end
  end.

(* ---------------------------------------------------------------- the fixed header *)
Definition parse_body (v : version) (ty fl : Z) (body : bytes) : option packet :=
  if ty =? 3 then parse_publish v fl body
  else if ty =? 1 then (if fl =? 0 then parse_connect v body else None)
  else if (ty =? 4) || (ty =? 5) || (ty =? 7) then (if fl =? 0 then parse_ack v ty body else None)
  else if ty =? 6 then (if fl =? 2 then parse_ack v ty body else None)
  else if ty =? 8 then (if fl =? 2 then parse_subscribe v body else None)
  else if ty =? 10 then (if fl =? 2 then parse_unsubscribe v body else None)
  else if ty =? 12 then (if fl =? 0 then match body with [] => Some PPingreq | _ => None end else None)
  else if ty =? 13 then (if fl =? 0 then match body with [] => Some PPingresp | _ => None end else None)
  else if ty =? 14 then (if fl =? 0 then parse_disconnect v body else None)
  else None.

(* one control packet from the front of a byte stream; returns the decoded values and the rest *)
Definition spec_decode (v : version) (s : bytes) : option (packet * bytes) :=
  match s with
  | [] => None
  | b0 :: s1 =>
      if negb (byte_ok b0) then None else
      match rl_decode s1 with
      | None => None
      | Some (n, r) =>
          if n <=? len r then
            match parse_body v (b0 / 16) (b0 mod 16) (firstn (Z.to_nat n) r) with
            | Some p => Some (p, skipn (Z.to_nat n) r)
            | None => None
            end
          else None
      end
  end.

(* a whole stream: "everything the client writes is a sequence of well-formed control packets" *)
Fixpoint spec_decode_all (fuel : nat) (v : version) (s : bytes) : option (list packet) :=
  match s with
  | [] => Some []
  | _ :: _ =>
      match fuel with
      | O => None
      | S f =>
          match spec_decode v s with
          | Some (p, r) => match spec_decode_all f v r with Some l => Some (p :: l) | None => None end
          | None => None
          end
      end
  end.
