From PahoV Require Import Base.Prelude Codec.Mid.

Lemma mid_next_range m : 0 <= m <= 65535 -> 1 <= mid_next m <= 65535.
Proof. unfold mid_next; intros H; case_if; lia. Qed.

Lemma mid_next_wrap : mid_next 65535 = 1.
Proof. reflexivity. Qed.

Lemma mid_next_nonzero m : 0 <= m <= 65535 -> mid_next m <> 0.
Proof. intros H; pose proof (mid_next_range m H); lia. Qed.

(* closed form for values already in 1..65535 *)
Lemma mid_next_closed m : 1 <= m <= 65535 -> mid_next m = 1 + (m mod 65535).
Proof. unfold mid_next; intros H; case_if; lia. Qed.

Lemma mid_iter_closed k : forall m, 1 <= m <= 65535 ->
  mid_iter k m = 1 + ((m - 1 + Z.of_nat k) mod 65535).
Proof.
  induction k as [|k IH]; intros m Hm; cbn [mid_iter].
  - replace (m - 1 + Z.of_nat 0) with (m - 1) by lia. lia.
  - rewrite IH by (apply mid_next_range; lia).
    rewrite mid_next_closed by lia.
    replace (Z.of_nat (S k)) with (Z.of_nat k + 1) by lia.
    lia.
Qed.

Lemma mid_iter_range k m : 0 <= m <= 65535 -> (0 < k)%nat -> 1 <= mid_iter k m <= 65535.
Proof.
  revert m; induction k as [|k IH]; intros m Hm Hk; [lia|].
  cbn [mid_iter]. destruct k as [|k'].
  - cbn [mid_iter]. apply mid_next_range; assumption.
  - apply IH; [pose proof (mid_next_range m Hm); lia | lia].
Qed.

(* from a fresh client (_last_mid = 0): the k-th allocation (k >= 1) returns 1 + (k-1) mod 65535 *)
Lemma mid_iter_from_zero k : (0 < k)%nat ->
  mid_iter k 0 = 1 + ((Z.of_nat k - 1) mod 65535).
Proof.
  destruct k as [|k]; [lia|]. intros _. cbn [mid_iter].
  change (mid_next 0) with 1. rewrite mid_iter_closed by lia.
  replace (1 - 1 + Z.of_nat k) with (Z.of_nat (S k) - 1) by lia. reflexivity.
Qed.

(* any window of fewer than 65535 further allocations never returns to the same id *)
Lemma mid_iter_distinct m i j : 1 <= m <= 65535 -> (i < j)%nat -> Z.of_nat j - Z.of_nat i < 65535 ->
  mid_iter i m <> mid_iter j m.
Proof.
  intros Hm Hij Hw. rewrite !mid_iter_closed by assumption.
  assert (Hi : 0 <= Z.of_nat i) by lia. assert (Hj : Z.of_nat i < Z.of_nat j) by lia.
  generalize dependent (Z.of_nat i). generalize dependent (Z.of_nat j). intros zj Hw zi Hi Hj. lia.
Qed.

Lemma mid_seq_nth k : forall m i, (i < k)%nat -> nth i (mid_seq k m) 0 = mid_iter (S i) m.
Proof.
  induction k as [|k IH]; intros m i Hi; [lia|].
  cbn [mid_seq]. destruct i as [|i]; [reflexivity|].
  cbn [nth]. rewrite IH by lia. reflexivity.
Qed.

Lemma mid_seq_length k m : length (mid_seq k m) = k.
Proof. revert m; induction k; intros; cbn [mid_seq length]; congruence. Qed.

Lemma mid_seq_range k : forall m, 0 <= m <= 65535 -> Forall (fun x => 1 <= x <= 65535) (mid_seq k m).
Proof.
  induction k as [|k IH]; intros m Hm; cbn [mid_seq]; constructor.
  - apply mid_next_range; assumption.
  - apply IH. pose proof (mid_next_range m Hm); lia.
Qed.

(* 65535 consecutive allocations are pairwise distinct *)
Lemma mid_seq_NoDup k m : 0 <= m <= 65535 -> Z.of_nat k <= 65535 -> NoDup (mid_seq k m).
Proof.
  intros Hm Hk. apply (NoDup_nth _ 0). intros i j Hi Hj Heq.
  rewrite mid_seq_length in Hi, Hj.
  rewrite !mid_seq_nth in Heq by assumption.
  cbn [mid_iter] in Heq.
  pose proof (mid_next_range m Hm) as Hr.
  destruct (Nat.lt_trichotomy i j) as [H|[H|H]]; [|assumption|].
  - exfalso. revert Heq. apply mid_iter_distinct; [assumption|assumption|lia].
  - exfalso. symmetry in Heq. revert Heq. apply mid_iter_distinct; [assumption|assumption|lia].
Qed.
