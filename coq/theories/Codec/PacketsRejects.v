(* C04: "an input that cannot be represented is rejected with an exception, never emitted as a
   malformed packet" - what holds (partial, with explicit exclusions) and what the faithful model
   refutes (witnesses).  API level = PacketsApi.v. *)
From PahoV Require Import Base.Prelude Codec.RemLen Codec.RemLenProofs Codec.Wire Codec.Mid Codec.MidProofs
  Codec.Packets Codec.SpecDecode Codec.PacketsSpec Codec.PacketsLemmas Codec.PacketsProofs Codec.PacketsApi.

(* ---------------------------------------------------------------- encoders: Ok means "the bytes of wire" *)
Ltac enc_cases := repeat match goal with
  | |- context [if ?b then _ else _] => destruct b eqn:?
  end.

Lemma encode_ok_wire v it bs : encode v it = Ok bs -> bs = wire v it.
Proof.
  destruct it as [a|a|k m|r|r p|m t p|m t p]; cbn [encode wire];
    unfold encode_connect, encode_publish, encode_ack, encode_ping, encode_disconnect, encode_subscribe, encode_unsubscribe;
    enc_cases; congruence.
Qed.

Lemma encode_total v it : (exists bs, encode v it = Ok bs) \/ (exists k, encode v it = Raise k).
Proof.
  destruct it as [a|a|k m|r|r p|m t p|m t p]; cbn [encode];
    unfold encode_connect, encode_publish, encode_ack, encode_ping, encode_disconnect, encode_subscribe, encode_unsubscribe;
    enc_cases; eauto.
Qed.

(* every over-long string / out-of-range 16-bit field makes the encoder raise: these inputs are rejected *)
Definition struct_ok (it : item) : bool :=
  match it with
  | IConnect a => connect_struct_ok a
  | IPublish a => publish_struct_ok a
  | IAck _ m => u16_ok m
  | IPing _ => true
  | IDisconnect _ _ => true
  | ISubscribe m t _ => subscribe_struct_ok m t
  | IUnsubscribe m t _ => u16_ok m && forallb str16_ok t
  end.

Lemma struct_rejects v it : struct_ok it = false -> exists k, encode v it = Raise k.
Proof.
  destruct it as [a|a|k m|r|r p|m t p|m t p]; cbn [encode struct_ok]; intros H; try discriminate.
  - unfold encode_connect. rewrite H. enc_cases; eauto.
  - unfold encode_publish. rewrite H. enc_cases; eauto.
  - unfold encode_ack. rewrite H. eauto.
  - unfold encode_subscribe, subscribe_struct_ok in *. destruct (_ >? _); eauto.
    destruct (u16_ok m); cbn [negb andb] in *; eauto. rewrite H. cbn [negb]. eauto.
  - unfold encode_unsubscribe. rewrite H. enc_cases; eauto.
Qed.

(* ---------------------------------------------------------------- F-C04a repaired: the remaining length limit *)
(* whatever the encoders emit announces a remaining length within the limit ... *)
Lemma encode_ok_remlen v it bs : encode v it = Ok bs -> remlen v it <= rl_max.
Proof.
  destruct it as [a|a|k m|r|r p|m t p|m t p]; cbn [encode remlen];
    unfold encode_connect, encode_publish, encode_ack, encode_ping, encode_disconnect, encode_subscribe, encode_unsubscribe;
    try (unfold rl_max; lia); enc_cases; intros; try discriminate; lia.
Qed.

(* ... and a packet whose remaining length would exceed it is rejected with an exception *)
Theorem remlen_rejects v it : rl_max < remlen v it -> exists k, encode v it = Raise k.
Proof.
  intros H. destruct (encode_total v it) as [[bs E]|R]; [|exact R].
  apply encode_ok_remlen in E. lia.
Qed.

(* ---------------------------------------------------------------- auxiliary facts for the partial theorem *)
Lemma map_no_nul s : no_nul s = true -> map (fun b => if b =? 0 then 1 else b) s = s.
Proof.
  unfold no_nul. induction s as [|b s IH]; [reflexivity|]. cbn [existsb map negb]. intros H.
  destruct (b =? 0) eqn:E; [discriminate|]. cbn [orb] in H. rewrite IH by assumption. reflexivity.
Qed.

Lemma utf8_wf_ok s : utf8_wf s = true -> no_nul s = true -> utf8_ok s = true.
Proof. unfold utf8_wf. intros H N. rewrite map_no_nul in H; assumption. Qed.

Lemma oprops_packed p : oprops_wf p = true -> props_wf (packed p) = true.
Proof. destruct p; [trivial | reflexivity]. Qed.

Lemma voprops_packed v p : oprops_wf p = true -> vprops_wf v (packed p) = true.
Proof. intros H. unfold vprops_wf. destruct (is_v5 v); [apply oprops_packed; assumption | reflexivity]. Qed.

Lemma mid_next_ok m : last_mid_ok m = true -> mid_ok (mid_next m) = true.
Proof. unfold last_mid_ok, mid_ok. intros H. pose proof (mid_next_range m ltac:(lia)). lia. Qed.

Lemma not_empty_nonempty {A} (s : list A) : is_empty s = false -> nonempty s = true.
Proof. destruct s; [discriminate | reflexivity]. Qed.

Lemma has_wildcard_no s : has_wildcard s = false -> no_wildcard s = true.
Proof. unfold has_wildcard, no_wildcard. intros ->. reflexivity. Qed.

Lemma qos_bad_ok q : qos_bad q = false -> qos_ok q = true.
Proof. unfold qos_bad, qos_ok. lia. Qed.

(* SubscribeOptions.pack() as arithmetic, and it is a legal options byte *)
Lemma sub_opts_byte_arith q nl rap rh : qos_ok q = true -> 0 <= rh <= 2 ->
  sub_opts_byte q nl rap rh = q + 4 * b2z nl + 8 * b2z rap + 16 * rh /\
  opt_ok V5 (sub_opts_byte q nl rap rh) = true /\
  opt_qos (sub_opts_byte q nl rap rh) = q /\ opt_nl (sub_opts_byte q nl rap rh) = nl /\
  opt_rap (sub_opts_byte q nl rap rh) = rap /\ opt_rh (sub_opts_byte q nl rap rh) = rh.
Proof.
  unfold qos_ok. intros Hq Hr.
  assert (q = 0 \/ q = 1 \/ q = 2) as [-> | [-> | ->]] by lia;
  assert (rh = 0 \/ rh = 1 \/ rh = 2) as [-> | [-> | ->]] by lia;
  destruct nl, rap; vm_compute; repeat split.
Qed.

Lemma existsb_false_forallb {A} (f : A -> bool) l : existsb f l = false -> forallb (fun x => negb (f x)) l = true.
Proof.
  induction l as [|x l IH]; [reflexivity|]. cbn [existsb forallb]. intros H.
  apply orb_false_iff in H as [H1 H2]. rewrite H1, IH by assumption. reflexivity.
Qed.

Lemma forallb_and3 {A} (f g h k : A -> bool) l :
  (forall x, f x = true -> g x = true -> h x = true -> k x = true) ->
  forallb f l = true -> forallb g l = true -> forallb h l = true -> forallb k l = true.
Proof.
  intros Hk. induction l as [|x l IH]; [reflexivity|]. cbn [forallb]. intros F G H. split_andb.
  rewrite Hk, IH by assumption. reflexivity.
Qed.

Lemma forallb_map {A B} (f : B -> bool) (g : A -> B) l : forallb f (map g l) = forallb (fun x => f (g x)) l.
Proof. induction l as [|x l IH]; [reflexivity|]. cbn [map forallb]. rewrite IH. reflexivity. Qed.

Lemma sub_entry_ok v r :
  qos_bad (sr_qos r) = false ->
  is_v5 v && ((sr_rh r <? 0) || (sr_rh r >? 2)) = false ->
  is_empty (sr_filter r) || (len (sr_filter r) >? 65535) = false ->
  utf8_wf (sr_filter r) = true -> no_nul (sr_filter r) = true ->
  filter_text_ok (sr_filter r)
  && opt_ok v (if is_v5 v then sub_opts_byte (sr_qos r) (sr_nl r) (sr_rap r) (sr_rh r) else sr_qos r) = true.
Proof.
  intros Q R E U N. apply orb_false_iff in E as [Hne Hlen]. pose proof (qos_bad_ok _ Q) as Q'.
  apply andb_true_iff; split.
  - unfold filter_text_ok, text_ok, str16_ok, u16_ok. rewrite utf8_wf_ok by assumption.
    rewrite not_empty_nonempty by assumption. pose proof (len_ge0 (sr_filter r)). lia.
  - destruct v; cbn [is_v5 andb] in *.
    + unfold opt_ok, byte_ok, qos_ok in *. cbn [is_v5]. lia.
    + unfold opt_ok, byte_ok, qos_ok in *. cbn [is_v5]. lia.
    + apply (sub_opts_byte_arith (sr_qos r) (sr_nl r) (sr_rap r) (sr_rh r) Q'). lia.
Qed.

Lemma sub_entries_ok v topics :
  existsb (fun r => qos_bad (sr_qos r)) topics = false ->
  is_v5 v && existsb (fun r => (sr_rh r <? 0) || (sr_rh r >? 2)) topics = false ->
  existsb (fun r => is_empty (sr_filter r) || (len (sr_filter r) >? 65535)) topics = false ->
  forallb (fun r => utf8_wf (sr_filter r)) topics = true ->
  forallb (fun r => no_nul (sr_filter r)) topics = true ->
  forallb (fun tq => filter_text_ok (fst tq) && opt_ok v (snd tq))
    (map (fun r => (sr_filter r,
                    if is_v5 v then sub_opts_byte (sr_qos r) (sr_nl r) (sr_rap r) (sr_rh r) else sr_qos r)) topics)
  = true.
Proof.
  induction topics as [|r l IH]; [reflexivity|]. cbn [existsb forallb map fst snd]. intros Q R E U N.
  apply orb_false_iff in Q as [Q1 Q2]. apply orb_false_iff in E as [E1 E2]. split_andb.
  assert (R1 : is_v5 v && ((sr_rh r <? 0) || (sr_rh r >? 2)) = false)
    by (destruct (is_v5 v); [cbn [andb] in *; apply orb_false_iff in R as [R _]; exact R | reflexivity]).
  assert (R2 : is_v5 v && existsb (fun r => (sr_rh r <? 0) || (sr_rh r >? 2)) l = false)
    by (destruct (is_v5 v); [cbn [andb] in *; apply orb_false_iff in R as [_ R]; exact R | reflexivity]).
  rewrite sub_entry_ok, IH by assumption. reflexivity.
Qed.

Lemma unsub_topics_ok topics :
  existsb is_empty topics = false -> forallb str16_ok topics = true ->
  forallb utf8_wf topics = true -> forallb no_nul topics = true ->
  forallb filter_text_ok topics = true.
Proof.
  induction topics as [|t l IH]; [reflexivity|]. cbn [existsb forallb]. intros E S U N.
  apply orb_false_iff in E as [E1 E2]. split_andb. rewrite IH by assumption.
  unfold filter_text_ok, text_ok. rewrite utf8_wf_ok, not_empty_nonempty by assumption.
  assert (str16_ok t = true) as -> by assumption. reflexivity.
Qed.

Ltac split_goal := repeat match goal with |- _ && _ = true => apply andb_true_iff; split end.

(* ---------------------------------------------------------------- the partial theorem *)
(* what passes the API checks, is not excluded and is accepted by the encoder, is representable *)
Theorem api_representable v c it bs :
  api_pre v c = true -> excl v c = true -> api v c = Ok it -> encode v it = Ok bs ->
  representable v it = true.
Proof.
  intros Hpre Hex Hapi Henc. unfold excl in Hex.
  pose proof (encode_ok_remlen v it bs Henc) as Hrl.
  assert (Hrlb : (remlen v it <=? rl_max) = true) by lia. clear Hrl.
  destruct c as [cls cs first bridge ka cid will user pw props | last_mid topic payload qos retain props
                | last_mid topics props | last_mid topics props | reason props];
    cbn [api api_pre excl_nul] in *; split_andb.
  - (* CONNECT *)
    destruct (negb (is_v5 v) && negb cls && is_empty cid) eqn:E1; [discriminate|].
    destruct (match will with
              | Some w => is_empty (wc_topic w) || qos_bad (wc_qos w) || has_wildcard (wc_topic w) || (len (wc_topic w) >? 65535)
              | None => false end) eqn:E2; [discriminate|].
    destruct (ka <? 0) eqn:E3; [discriminate|].
    inv Hapi. cbn [encode representable remlen] in *.
    unfold encode_connect in Henc. destruct (_ >? _); [discriminate|]. destruct (connect_struct_ok _) eqn:S; [|discriminate].
    unfold connect_struct_ok in S.
    cbn [c_keepalive c_client_id c_will c_username c_password] in S. split_andb.
    unfold representable_connect.
    cbn [c_keepalive c_client_id c_will c_username c_password c_props c_clean].
    split_goal; try assumption.
    + unfold text_ok. rewrite utf8_wf_ok by assumption. rewrite andb_true_r. assumption.
    + unfold clean_flag. destruct v; cbn [is_v5 negb andb orb] in *; try reflexivity;
        destruct cid; cbn [is_empty nonempty negb andb orb] in *; try reflexivity;
        destruct cls; cbn in *; congruence.
    + apply voprops_packed; assumption.
    + destruct will as [w|]; [|reflexivity]. unfold representable_will.
      cbn [w_qos w_topic w_payload w_props] in *.
      apply orb_false_iff in E2 as [E2 E2d]. apply orb_false_iff in E2 as [E2 E2c].
      apply orb_false_iff in E2 as [E2a E2b]. split_andb.
      split_goal.
      * apply qos_bad_ok; assumption.
      * unfold text_ok. rewrite utf8_wf_ok by assumption. rewrite andb_true_r. assumption.
      * apply has_wildcard_no; assumption.
      * apply not_empty_nonempty; assumption.
      * assumption.
      * apply voprops_packed; assumption.
    + destruct user as [u|]; [|reflexivity]. split_andb.
      apply andb_true_iff; split; [|destruct pw; assumption].
      unfold text_ok. rewrite utf8_wf_ok by assumption. rewrite andb_true_r. assumption.
  - (* PUBLISH *)
    destruct (negb (is_v5 v) && is_empty topic) eqn:E1; [discriminate|].
    destruct (has_wildcard topic) eqn:E2; [discriminate|].
    destruct (len topic >? 65535) eqn:E3; [discriminate|].
    destruct (qos_bad qos) eqn:E4; [discriminate|].
    destruct (publish_remlen_n v qos topic (packed props) (len payload) >? 268435455) eqn:E5; [discriminate|].
    inv Hapi. cbn [representable remlen] in *. unfold representable_publish.
    cbn [p_dup p_qos p_retain p_mid p_topic p_payload p_props]. split_andb.
    split_goal; try assumption.
    + apply qos_bad_ok; assumption.
    + reflexivity.
    + rewrite mid_next_ok by assumption. apply orb_true_r.
    + unfold text_ok, str16_ok, u16_ok. rewrite utf8_wf_ok by assumption. pose proof (len_ge0 topic). lia.
    + apply has_wildcard_no; assumption.
    + destruct (is_v5 v); [reflexivity|]. cbn [negb andb orb] in *. apply not_empty_nonempty; assumption.
    + apply voprops_packed; assumption.
  - (* SUBSCRIBE *)
    destruct (is_empty topics) eqn:E1; [discriminate|].
    destruct (existsb (fun r => qos_bad (sr_qos r)) topics) eqn:E2; [discriminate|].
    destruct (is_v5 v && existsb (fun r => (sr_rh r <? 0) || (sr_rh r >? 2)) topics) eqn:E3; [discriminate|].
    destruct (existsb (fun r => is_empty (sr_filter r) || (len (sr_filter r) >? 65535)) topics) eqn:E4; [discriminate|].
    inv Hapi. cbn [representable remlen] in *. unfold representable_subscribe. split_andb.
    split_goal; try assumption.
    + apply mid_next_ok; assumption.
    + apply voprops_packed; assumption.
    + destruct topics; [discriminate | reflexivity].
    + apply sub_entries_ok; assumption.
  - (* UNSUBSCRIBE *)
    destruct (is_empty topics) eqn:E0; [discriminate|].
    destruct (existsb is_empty topics) eqn:E1; [discriminate|].
    inv Hapi. cbn [representable remlen encode] in *. unfold representable_unsubscribe. split_andb.
    unfold encode_unsubscribe in Henc. destruct (_ >? _); [discriminate|].
    destruct (u16_ok _ && forallb str16_ok topics) eqn:S; [|discriminate].
    split_andb.
    split_goal; try assumption.
    + apply mid_next_ok; assumption.
    + apply voprops_packed; assumption.
    + apply not_empty_nonempty; assumption.
    + apply unsub_topics_ok; assumption.
  - (* DISCONNECT *)
    inv Hapi. cbn [representable remlen] in *. unfold representable_disconnect, disconnect_remlen in *.
    destruct (is_v5 v); [|reflexivity].
    apply andb_true_iff; split; [assumption|].
    destruct props as [p|]; [|reflexivity]. cbn [oprops_wf] in *.
    apply andb_true_iff; split; [assumption|]. destruct reason; assumption.
Qed.

(* ---------------------------------------------------------------- packet_of (item level) = supplied (call level) *)
Lemma sub_map_supplied v topics :
  existsb (fun r => qos_bad (sr_qos r)) topics = false ->
  is_v5 v && existsb (fun r => (sr_rh r <? 0) || (sr_rh r >? 2)) topics = false ->
  map (fun r => (sr_filter r, if is_v5 v then sub_opts_byte (sr_qos r) (sr_nl r) (sr_rap r) (sr_rh r) else sr_qos r)) topics
  = map (fun r => (sr_filter r, if is_v5 v then sr_qos r + 4 * b2z (sr_nl r) + 8 * b2z (sr_rap r) + 16 * sr_rh r
                                else sr_qos r)) topics.
Proof.
  induction topics as [|r l IH]; [reflexivity|]. cbn [existsb map]. intros Q R.
  apply orb_false_iff in Q as [Q1 Q2].
  assert (R1 : is_v5 v = true -> (sr_rh r <? 0) || (sr_rh r >? 2) = false).
  { intros Hv. rewrite Hv in R. cbn [andb] in R. apply orb_false_iff in R as [R _]. exact R. }
  assert (R2 : is_v5 v && existsb (fun r => (sr_rh r <? 0) || (sr_rh r >? 2)) l = false).
  { destruct (is_v5 v); [|reflexivity]. cbn [andb] in *. apply orb_false_iff in R as [_ R]. exact R. }
  rewrite IH by assumption. f_equal. f_equal.
  destruct (is_v5 v); [|reflexivity]. specialize (R1 eq_refl).
  apply (sub_opts_byte_arith (sr_qos r) (sr_nl r) (sr_rap r) (sr_rh r) (qos_bad_ok _ Q1)). lia.
Qed.

Lemma supplied_packet_of v c it : api v c = Ok it -> packet_of v it = supplied v c.
Proof.
  destruct c as [cls cs first bridge ka cid will user pw props | last_mid topic payload qos retain props
                | last_mid topics props | last_mid topics props | reason props]; cbn [api supplied]; intros H.
  - destruct (_ && _ && _); [discriminate|]. destruct (match will with Some _ => _ | None => _ end); [discriminate|].
    destruct (ka <? 0); [discriminate|]. inv H. cbn [packet_of]. unfold packet_of_connect.
    cbn [c_bridge c_clean c_keepalive c_client_id c_will c_username c_password c_props].
    destruct will as [w|], v; reflexivity.
  - repeat match type of H with (if ?b then _ else _) = _ => destruct b; [discriminate|] end.
    inv H. reflexivity.
  - repeat match type of H with (if ?b then _ else _) = _ => destruct b eqn:?; [discriminate|] end.
    inv H. cbn [packet_of]. rewrite sub_map_supplied by assumption. reflexivity.
  - destruct (is_empty topics); [discriminate|]. destruct (existsb is_empty topics); [discriminate|]. inv H. reflexivity.
  - inv H. cbn [packet_of]. unfold packet_of_disconnect. destruct (is_v5 v), reason, props; reflexivity.
Qed.

Lemma emit_total v c : (exists bs, emit v c = Ok bs) \/ (exists k, emit v c = Raise k).
Proof.
  unfold emit. destruct (api v c) as [it|k|] eqn:E.
  - apply encode_total.
  - eauto.
  - exfalso. destruct c; cbn [api] in E;
      repeat match type of E with (if ?b then _ else _) = _ => destruct b; try discriminate end; discriminate.
Qed.

(* ================================================================== the statements *)
(* FULL (refuted below): whatever the API emits is a well-formed packet that decodes to what was supplied *)
Definition C04_wellformed_full : Prop :=
  forall v c bs, api_pre v c = true -> emit v c = Ok bs ->
  forall rest, spec_decode v (bs ++ rest) = Some (supplied v c, rest).

(* FULL (refuted below): an argument list that cannot be represented is rejected with an exception *)
Definition C04_rejects_full : Prop :=
  forall v c it, api_pre v c = true -> api v c = Ok it -> representable v it = false ->
  exists k, encode v it = Raise k.

(* PARTIAL: both hold outside the one excluded argument family, U+0000 in a text field (F-C04b, open).
   The former exclusions F-C04a/c/d are gone: the repaired code rejects those inputs and so does the model. *)
Theorem wellformed_partial v c bs :
  api_pre v c = true -> excl v c = true -> emit v c = Ok bs ->
  forall rest, spec_decode v (bs ++ rest) = Some (supplied v c, rest).
Proof.
  intros Hpre Hex Hem rest. unfold emit in Hem. destruct (api v c) as [it|k|] eqn:Hapi; try discriminate.
  pose proof (api_representable v c it bs Hpre Hex Hapi Hem) as R.
  apply encode_ok_wire in Hem. subst bs. rewrite roundtrip by assumption.
  rewrite (supplied_packet_of v c it Hapi). reflexivity.
Qed.

Theorem rejects_partial v c it :
  api_pre v c = true -> excl v c = true -> api v c = Ok it -> representable v it = false ->
  exists k, encode v it = Raise k.
Proof.
  intros Hpre Hex Hapi Hrep. destruct (encode_total v it) as [[bs E]|R]; [|exact R].
  rewrite (api_representable v c it bs Hpre Hex Hapi E) in Hrep. discriminate.
Qed.

(* ---------------------------------------------------------------- where F-C04b cannot occur the FULL statement holds *)
Theorem wellformed_disconnect_full v reason props bs :
  api_pre v (CDisconnect reason props) = true -> emit v (CDisconnect reason props) = Ok bs ->
  forall rest, spec_decode v (bs ++ rest) = Some (supplied v (CDisconnect reason props), rest).
Proof. intros P E. apply wellformed_partial; [exact P | reflexivity | exact E]. Qed.

(* a call without any U+0000 in its text arguments: full strength, no other hypothesis about the arguments *)
Theorem wellformed_no_nul v c bs :
  api_pre v c = true -> excl_nul c = true -> emit v c = Ok bs ->
  spec_decode v bs = Some (supplied v c, []).
Proof. intros P N E. rewrite <- (app_nil_r bs). apply wellformed_partial; assumption. Qed.

(* ---------------------------------------------------------------- the repaired families: now rejected (regressions) *)
Definition big_payload : bytes := repeat 0 (Z.to_nat 268435455).     (* never computed *)

Lemma big_payload_len : len big_payload = 268435455.
Proof. unfold len, big_payload. rewrite repeat_length, Z2Nat.id by lia. reflexivity. Qed.

(* F-C04a: publish(1-byte topic, 268435455-byte payload) raises ValueError('Payload too large.') in every version *)
Theorem overflow_publish_rejected v topic payload qos retain props last_mid :
  len topic = 1 -> len payload = 268435455 -> emit v (CPublish last_mid topic payload qos retain props) = Raise E_value.
Proof.
  intros Ht Hp. unfold emit, api.
  repeat match goal with |- context [if ?b then _ else _] =>
    lazymatch b with
    | publish_remlen_n _ _ _ _ _ >? _ => fail
    | _ => destruct b; [reflexivity|]
    end end.
  assert (publish_remlen_n v qos topic (packed props) (len payload) >? 268435455 = true) as ->; [|reflexivity].
  unfold publish_remlen_n. rewrite Ht, Hp. pose proof (len_ge0 (packed props)).
  destruct (qos >? 0), (is_v5 v); lia.
Qed.

Theorem overflow_witness_rejected :
  emit V311 (CPublish 0 [116] big_payload 0 false None) = Raise E_value.
Proof. apply overflow_publish_rejected; [reflexivity | apply big_payload_len]. Qed.

(* F-C04c: unsubscribe([]) raises ValueError('Empty topic list') *)
Theorem unsub_empty_rejected v last_mid props : emit v (CUnsubscribe last_mid [] props) = Raise E_value.
Proof. reflexivity. Qed.

(* F-C04d: will_set("a/#") raises; in general any wildcard in the will topic is rejected *)
Theorem will_wildcard_rejected v cls cs first bridge ka cid w user pw props :
  has_wildcard (wc_topic w) = true ->
  exists k, emit v (CConnect cls cs first bridge ka cid (Some w) user pw props) = Raise k.
Proof.
  intros H. unfold emit, api. destruct (_ && _ && _); [eauto|].
  rewrite H. rewrite orb_true_r. cbn [orb]. eauto.
Qed.

(* ---------------------------------------------------------------- REFUTATION of the full statements (F-C04b, open) *)
(* F-C04b: U+0000 inside a topic is emitted *)
Theorem nul_refuted :
  exists v c bs, api_pre v c = true /\ emit v c = Ok bs /\ spec_decode v bs = None.
Proof.
  exists V311, (CPublish 0 [97; 0; 98] [120] 0 false None), [48; 6; 0; 3; 97; 0; 98; 120].
  vm_compute. repeat split.
Qed.

Theorem wellformed_refuted : ~ C04_wellformed_full.
Proof.
  intros F. destruct nul_refuted as (v & c & bs & P & E & D).
  specialize (F v c bs P E []). rewrite app_nil_r in F. congruence.
Qed.

Theorem rejects_refuted : ~ C04_rejects_full.
Proof.
  intros F.
  pose (a := {| p_dup := false; p_qos := 0; p_retain := false; p_mid := 1; p_topic := [97; 0; 98];
                p_payload := [120]; p_props := [0] |}).
  destruct (F V311 (CPublish 0 [97; 0; 98] [120] 0 false None) (IPublish a)) as [k K];
    try reflexivity. discriminate K.
Qed.
