(* Property codec on the generated tables: a valid assignment is accepted (and keeps the object well formed);
   unknown names, properties not allowed for the packet type and out-of-range values are rejected at
   assignment or by pack() - integers in full; strings / repetition with the open findings F-C17f, g, h as
   `_refuted` witnesses. *)
From Coq Require Import String.
From PahoV Require Import Base.Prelude Codec.StrBytes Codec.Utf8 Codec.VBI Codec.VBIProofs Codec.ReasonSpec
  Codec.PropSpec Codec.Props5 Codec.Props5Defs Codec.Props5Lemmas Codec.Props5Pack Codec.Props5Unpack
  Codec.Props5Valid Codec.Props5Gen Codec.Props5Range Codec.Props5Inst.

Lemma in_names_mem n i : In (n, i) (t_names GT) -> memz i (map snd (t_names GT)) = true.
Proof. intros I. apply memz_in. apply in_map_iff. exists (n, i). split; [reflexivity|assumption]. Qed.

Lemma in_names_b n i :
  existsb (fun p => zlist_eqb (fst p) n && (snd p =? i)) (t_names GT) = true -> In (n, i) (t_names GT).
Proof.
  intros H. apply existsb_exists in H as [[n' i'] [Hin H]]. cbn [fst snd] in H.
  apply andb_true_iff in H as [H1 H2]. apply zlist_eqb_eq in H1. apply Z.eqb_eq in H2. subst. exact Hin.
Qed.

Lemma allowed_pts pt i ty pts : 0 <= pt < 128 -> assoc i (t_table GT) = Some (ty, pts) ->
  memz pt pts = spec_allowed pt i.
Proof.
  intros Hp A. destruct (prop_table_eq_spec i pt Hp) as [_ E]. unfold code_allowed in E. rewrite A in E. exact E.
Qed.

(* ---- a valid single value is accepted ---- *)
Lemma c17_setattr_valid pt st n i name v :
  In (n, i) (t_names GT) -> compress name = compress n -> 0 <= pt < 128 ->
  spec_allowed pt i = true -> spec_value_ok i v = true ->
  wf_state GT pt st = true ->
  exists st', setattr GT pt st name (One v) = Ok st' /\ wf_state GT pt st' = true
    /\ assoc i st' = Some (if memz i (t_multi GT)
                           then Many (match assoc i st with Some (Many old) => old | _ => [] end ++ [v])
                           else One v)
    /\ forall j, j <> i -> assoc j st' = assoc j st.
Proof.
  intros I Hn Hp Ha Hv HW.
  destruct (tables_ok_row GT n i tables_ok_GT I) as [F1 F2 F3 F4 F5 (ty & pts & w & F6 & F7 & F8)].
  pose proof (allowed_pts pt i ty pts Hp F6) as E. rewrite Ha in E.
  unfold spec_value_ok in Hv. rewrite F7 in Hv. apply andb_true_iff in Hv as [Hfit Hrng].
  assert (HR : code_range_ok GT i v = true).
  { rewrite (code_range_vs_spec i w v n I F7 Hfit). exact Hrng. }
  rewrite (setattr_single GT pt st n i name ty pts v tables_ok_GT I Hn F6). rewrite E. cbn [negb].
  unfold code_range_ok in HR. rewrite F2 in HR.
  destruct (range_check (t_groups GT) (compress n) v) as [[]| |]; try discriminate.
  pose proof (in_names_mem n i I) as M.
  assert (WE : forall s, stored_ok (memz i (t_multi GT)) w s = true -> wf_entry GT pt (i, s) = true).
  { intros s Hs. unfold wf_entry. rewrite M, F6, F7, E. cbn [andb]. exact Hs. }
  destruct (memz i (t_multi GT)) eqn:Mu.
  - destruct (assoc i st) as [[u|old]|] eqn:A.
    + exfalso. pose proof (wf_state_assoc GT pt st i _ HW A) as W.
      destruct (wf_entry_elim GT pt i _ W ty pts w F6 F7) as [_ HO]. rewrite Mu in HO. discriminate.
    + pose proof (wf_state_assoc GT pt st i _ HW A) as W.
      destruct (wf_entry_elim GT pt i _ W ty pts w F6 F7) as [_ HO]. rewrite Mu in HO. cbn [stored_ok] in HO.
      apply andb_true_iff in HO as [_ HO].
      exists (store i (Many (old ++ [v])) st). split; [reflexivity|]. split.
      * apply forallb_store; [|exact HW]. apply WE. cbn [stored_ok].
        rewrite forallb_app, HO. cbn [forallb]. rewrite Hfit. destruct old; reflexivity.
      * split; [apply assoc_store_same | intros j Hj; apply assoc_store_other; exact Hj].
    + exists (store i (Many [v]) st). split; [reflexivity|]. split.
      * apply forallb_store; [|exact HW]. apply WE. cbn [stored_ok is_nil negb forallb]. rewrite Hfit. reflexivity.
      * split; [apply assoc_store_same | intros j Hj; apply assoc_store_other; exact Hj].
  - exists (store i (One v) st). split; [reflexivity|]. split.
    + apply forallb_store; [|exact HW]. apply WE. exact Hfit.
    + split; [apply assoc_store_same | intros j Hj; apply assoc_store_other; exact Hj].
Qed.

(* ---- rejection ---- *)
(* unknown name *)
Lemma c17_rejects_unknown pt st name a :
  existsb (zlist_eqb (compress name)) (t_private GT) = false ->
  name_known (t_names GT) (compress name) = false -> setattr GT pt st name a = Raise 3.
Proof. apply setattr_unknown. Qed.

(* property not allowed for the packet type (by the SPECIFICATION's table): refused when assigned;
   the exception is MQTTException, or IndexError when the packet type is not an index of
   PacketTypes.Names (the WILLMESSAGE stand-in 99) *)
Lemma c17_rejects_not_allowed pt st n i name a :
  In (n, i) (t_names GT) -> compress name = compress n -> 0 <= pt < 128 -> spec_allowed pt i = false ->
  setattr GT pt st name a = Raise (if pt <? 16 then 3 else 6).
Proof.
  intros I Hn Hp Ha.
  destruct (tables_ok_row GT n i tables_ok_GT I) as [F1 F2 F3 F4 F5 (ty & pts & w & F6 & F7 & F8)].
  pose proof (allowed_pts pt i ty pts Hp F6) as E. rewrite Ha in E.
  destruct a as [v|l].
  - rewrite (setattr_single GT pt st n i name ty pts v tables_ok_GT I Hn F6). rewrite E. cbn [negb].
    change (t_npackets GT) with 16. repeat case_if; try reflexivity; exfalso; lia.
  - rewrite (setattr_list GT pt st n i name ty pts l tables_ok_GT I Hn F6). rewrite E. cbn [negb].
    change (t_npackets GT) with 16. repeat case_if; try reflexivity; exfalso; lia.
Qed.

(* out-of-range integer, assigned as a single value: refused by __setattr__ or at the latest by pack();
   never bytes *)
Lemma c17_rejects_int pt st n i name x st' b :
  In (n, i) (t_names GT) -> compress name = compress n ->
  spec_value_ok i (VInt x) = false ->
  setattr GT pt st name (One (VInt x)) = Ok st' -> pack GT st' <> Ok b.
Proof.
  intros I Hn Hbad HS HP.
  destruct (tables_ok_row GT n i tables_ok_GT I) as [F1 F2 F3 F4 F5 (ty & pts & w & F6 & F7 & F8)].
  rewrite (setattr_single GT pt st n i name ty pts _ tables_ok_GT I Hn F6) in HS.
  destruct (negb (memz pt pts)); [destruct ((- t_npackets GT <=? pt) && (pt <? t_npackets GT)); discriminate|].
  destruct (range_check (t_groups GT) (compress n) (VInt x)) as [[]| |] eqn:RC; try discriminate.
  assert (HR : code_range_ok GT i (VInt x) = true) by (unfold code_range_ok; rewrite F2, RC; reflexivity).
  unfold spec_value_ok in Hbad. rewrite F7 in Hbad.
  destruct (spec_fits w (VInt x)) eqn:Hfit.
  - (* fits the type but outside the specification's range: __setattr__ would have refused *)
    rewrite (code_range_vs_spec i w _ n I F7 Hfit) in HR. cbn [andb] in Hbad. rewrite Hbad in HR. discriminate.
  - (* does not fit the type: writeProperty refuses *)
    assert (HV : exists S, assoc i st' = Some S /\ In (VInt x) (values_of S)
                            /\ (memz i (t_multi GT) = false -> S = One (VInt x))).
    { destruct (memz i (t_multi GT)).
      - destruct (assoc i st) as [[u|old]|]; try discriminate.
        + inv HS. rewrite assoc_store_same. eexists. split; [reflexivity|]. split; [|discriminate].
          cbn [values_of]. apply in_or_app. right. left. reflexivity.
        + inv HS. rewrite assoc_store_same. eexists. split; [reflexivity|]. split; [|discriminate]. left. reflexivity.
      - inv HS. rewrite assoc_store_same. eexists. split; [reflexivity|]. split; [|reflexivity]. left. reflexivity. }
    destruct HV as (S & AS & Hin & HOne).
    destruct (pack_ok_inv GT st' b n i S tables_ok_GT HP I AS) as (ty' & pts' & e & A' & W).
    assert (ty' = ty) by congruence. subst ty'. subst ty.
    assert (HW : exists e', write_value (wtype_index w) (VInt x) = Ok e').
    { destruct (memz i (t_multi GT)), S as [u|l]; cbn [write_stored] in W; try discriminate; cbn [values_of] in Hin.
      - destruct (write_many_in_inv _ _ _ _ _ W Hin) as [e' He']. exact (write_property_value _ _ _ _ He').
      - destruct Hin as [<-|[]]. exact (write_property_value _ _ _ _ W).
      - specialize (HOne eq_refl). discriminate. }
    destruct HW as [e' He']. exact (write_value_unfit w x e' Hfit He').
Qed.

(* a list assigned to a property that is not collected into a list: pack() always refuses *)
Lemma pair_is_multi_b :
  forallb (fun e => negb (fst (snd e) =? 6) || memz (fst e) (t_multi GT)) (t_table GT)
  && forallb (fun e => zin 0 6 (fst (snd e))) (t_table GT) = true.
Proof. vm_compute. reflexivity. Qed.

Lemma c17_rejects_list_nonrepeatable pt st n i name l st' b :
  In (n, i) (t_names GT) -> compress name = compress n -> memz i (t_multi GT) = false ->
  setattr GT pt st name (Many l) = Ok st' -> pack GT st' <> Ok b.
Proof.
  intros I Hn Mu HS HP.
  destruct (tables_ok_row GT n i tables_ok_GT I) as [F1 F2 F3 F4 F5 (ty & pts & w & F6 & F7 & F8)].
  rewrite (setattr_list GT pt st n i name ty pts l tables_ok_GT I Hn F6) in HS.
  destruct (negb (memz pt pts)); [destruct ((- t_npackets GT <=? pt) && (pt <? t_npackets GT)); discriminate|].
  destruct (range_check_all (t_groups GT) (compress n) l) as [[]| |]; try discriminate.
  rewrite Mu in HS. injection HS as <-.
  destruct (pack_ok_inv GT _ b n i (Many l) tables_ok_GT HP I (assoc_store_same i _ st)) as (ty' & pts' & e & A' & W).
  assert (ty' = wtype_index w) by congruence. subst ty'. rewrite Mu in W. cbn [write_stored] in W.
  apply bind_ok in W as [h [_ W]]. apply bind_ok in W as [e' [W _]].
  pose proof pair_is_multi_b as PB. apply andb_true_iff in PB as [P1 P2].
  rewrite forallb_forall in P1, P2. pose proof (assoc_in _ _ _ F6) as Hin.
  specialize (P1 _ Hin). specialize (P2 _ Hin). cbn [fst snd] in P1, P2. rewrite Mu in P1.
  subst ty. unfold write_list_value in W. unfold zin in P2.
  destruct (wtype_index w =? 6) eqn:E6; [discriminate P1|].
  destruct ((0 <=? wtype_index w) && (wtype_index w <=? 5)) eqn:E5; [discriminate|]. lia.
Qed.

(* a list assigned to any property: an out-of-range integer element is refused by __setattr__ (the checks
   run for every element) or at the latest by pack(); never bytes *)
Lemma c17_rejects_list_int pt st n i name l x st' b :
  In (n, i) (t_names GT) -> compress name = compress n ->
  In (VInt x) l -> spec_value_ok i (VInt x) = false ->
  setattr GT pt st name (Many l) = Ok st' -> pack GT st' <> Ok b.
Proof.
  intros I Hn Hin Hbad HS HP.
  destruct (memz i (t_multi GT)) eqn:Mu; [|exact (c17_rejects_list_nonrepeatable pt st n i name l st' b I Hn Mu HS HP)].
  destruct (tables_ok_row GT n i tables_ok_GT I) as [F1 F2 F3 F4 F5 (ty & pts & w & F6 & F7 & F8)].
  rewrite (setattr_list GT pt st n i name ty pts l tables_ok_GT I Hn F6) in HS.
  destruct (negb (memz pt pts)); [destruct ((- t_npackets GT <=? pt) && (pt <? t_npackets GT)); discriminate|].
  destruct (range_check_all (t_groups GT) (compress n) l) as [[]| |] eqn:RC; try discriminate.
  pose proof (range_check_all_in _ _ _ _ RC Hin) as RC1.
  assert (HR : code_range_ok GT i (VInt x) = true) by (unfold code_range_ok; rewrite F2, RC1; reflexivity).
  unfold spec_value_ok in Hbad. rewrite F7 in Hbad.
  destruct (spec_fits w (VInt x)) eqn:Hfit.
  - rewrite (code_range_vs_spec i w _ n I F7 Hfit) in HR. cbn [andb] in Hbad. rewrite Hbad in HR. discriminate.
  - rewrite Mu in HS.
    assert (HV : exists S, assoc i st' = Some (Many S) /\ In (VInt x) S).
    { destruct (assoc i st) as [[u|old]|]; try discriminate.
      - injection HS as <-. rewrite assoc_store_same. eexists. split; [reflexivity|]. apply in_or_app. right. exact Hin.
      - injection HS as <-. rewrite assoc_store_same. eexists. split; [reflexivity|]. exact Hin. }
    destruct HV as (S & AS & HinS).
    destruct (pack_ok_inv GT st' b n i _ tables_ok_GT HP I AS) as (ty' & pts' & e & A' & W).
    assert (ty' = ty) by congruence. subst ty'. subst ty. rewrite Mu in W. cbn [write_stored] in W.
    destruct (write_many_in_inv _ _ _ _ _ W HinS) as [e' He'].
    destruct (write_property_value _ _ _ _ He') as [e'' He''].
    exact (write_value_unfit w x e'' Hfit He'').
Qed.

(* ---- the full rejection statement and the witnesses that refute it ---- *)
Definition spec_assign_ok (pt i : Z) (a : passign) : bool :=
  spec_allowed pt i &&
  match a with
  | One v => spec_value_ok i v
  | Many l => forallb (spec_value_ok i) l && ((Z.of_nat (length l) <=? 1) || spec_repeatable pt i)
  end.

Definition c17_rejects_full : Prop :=
  forall pt st n i name a st' b, In (n, i) (t_names GT) -> compress name = compress n ->
  spec_assign_ok pt i a = false -> setattr GT pt st name a = Ok st' -> pack GT st' <> Ok b.

(* an assignment the specification does not allow that reaches the wire *)
Definition reaches_wire (pt : Z) (name : string) (i : Z) (a : passign) (wire : list Z) : Prop :=
  In (bytes_of name, i) (t_names GT) /\ spec_assign_ok pt i a = false /\
  exists st', setattr GT pt [] (bytes_of name) a = Ok st' /\ pack GT st' = Ok wire.

Ltac wire st :=
  split; [apply in_names_b; vm_compute; reflexivity|]; split; [vm_compute; reflexivity|];
  exists st; split; vm_compute; reflexivity.

(* F-C17f: ContentType = "a\0b" in PUBLISH packs 06 03 00 03 61 00 62 *)
Lemma c17_rejects_refuted_f : reaches_wire PUBLISH "Content Type" 3 (One (VS (SStr [97; 0; 98]))) [6; 3; 0; 3; 97; 0; 98].
Proof. wire [(3, One (VS (SStr [97; 0; 98])))]. Qed.
(* F-C17g: SubscriptionIdentifier = [1, 2] in SUBSCRIBE packs two Subscription Identifiers *)
Lemma c17_rejects_refuted_g : reaches_wire SUBSCRIBE "Subscription Identifier" 11 (Many [VInt 1; VInt 2]) [4; 11; 1; 11; 2].
Proof. wire [(11, Many [VInt 1; VInt 2])]. Qed.
(* F-C17h: UserProperty = "abc" (a str, not a pair) packs the pair ("a", "b") *)
Lemma c17_rejects_refuted_h : reaches_wire PUBLISH "User Property" 38 (One (VS (SStr [97; 98; 99]))) [7; 38; 0; 1; 97; 0; 1; 98].
Proof. wire [(38, Many [VS (SStr [97; 98; 99])])]. Qed.

Lemma c17_rejects_refuted : ~ c17_rejects_full.
Proof.
  intros H. destruct c17_rejects_refuted_f as (I & B & st' & S & P).
  exact (H PUBLISH [] _ 3 _ _ st' _ I eq_refl B S P).
Qed.
