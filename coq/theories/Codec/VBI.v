(* M1: Variable Byte Integer (properties.py VariableByteIntegers.encode / decode). Model only, no proofs. *)
From PahoV Require Import Base.Prelude.

Definition vbi_max : Z := 268435455.

(* the `while 1` loop of encode: digit = x % 128; x //= 128; if x > 0: digit |= 0x80; emit; stop when x == 0 *)
Fixpoint vbi_digits (fuel : nat) (x : Z) : list Z :=
  match fuel with
  | O => []
  | S f =>
      let d := x mod 128 in
      let x' := x / 128 in
      if x' >? 0 then Z.lor d 128 :: vbi_digits f x' else [d]
  end.

(* if not 0 <= x <= 268435455: raise ValueError.  Four digits are enough below 128^4. *)
Definition vbi_encode (x : Z) : res (list Z) :=
  if (0 <=? x) && (x <=? vbi_max) then Ok (vbi_digits 4 x) else Raise 1.

(* decode: no bound on the number of bytes and no minimality check (as in the source);
   buffer[0] on an exhausted buffer raises IndexError *)
Fixpoint vbi_dec_loop (buf : list Z) (mult value nbytes : Z) : res (Z * Z) :=
  match buf with
  | [] => Raise 6
  | d :: rest =>
      let value' := value + Z.land d 127 * mult in
      if Z.land d 128 =? 0 then Ok (value', nbytes + 1)
      else vbi_dec_loop rest (mult * 128) value' (nbytes + 1)
  end.

Definition vbi_decode (buf : list Z) : res (Z * Z) := vbi_dec_loop buf 1 0 0.

(* result kinds are coarsened for the correspondence: ValueError/TypeError/struct.error/Unicode*Error -> 1 *)
Definition coarse (k : Z) : Z := if (k =? 2) || (k =? 9) then 1 else k.

(* correspondence entries.  [x] -> [0; bytes...] | [kind] *)
Definition entry_vbi_encode (args : list Z) : list Z :=
  match args with
  | [x] => match vbi_encode x with Ok b => 0 :: b | Raise k => [coarse k] | OutOfFuel => [99] end
  | _ => [98]
  end.

(* bytes -> [0; value; used] | [kind] *)
Definition entry_vbi_decode (args : list Z) : list Z :=
  match vbi_decode args with Ok (v, n) => [0; v; n] | Raise k => [coarse k] | OutOfFuel => [99] end.
