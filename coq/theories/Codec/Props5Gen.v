(* The property-codec model instantiated with the tables generated from the current source. *)
From PahoV Require Import Base.Prelude Codec.Props5 Gen.GenPropTable.

Definition GT : ptables :=
  {| t_names := gen_prop_names; t_table := gen_prop_table; t_multi := gen_multi_ids;
     t_private := gen_private_vars; t_groups := gen_range_groups;
     t_npackets := Z.of_nat (length gen_packet_names); t_each := gen_range_each |}.
