(* Reason codes: the generated table agrees with the specification on the whole domain
   (128 packet-type values x 256 byte values), construction / unpack succeed exactly there. *)
From Coq Require Import String.
From PahoV Require Import Base.Prelude Codec.StrBytes Codec.VBIProofs Codec.Reason Codec.ReasonSpec
  Gen.GenReasonTable.

Definition GR : rtable := gen_reason_table.

(* lifting a computed check over a two-dimensional finite domain *)
Lemma range_forall2 (P : Z -> Z -> bool) (n m : nat) :
  forallb (fun a => forallb (P a) (zrange m)) (zrange n) = true ->
  forall a b, 0 <= a < Z.of_nat n -> 0 <= b < Z.of_nat m -> P a b = true.
Proof.
  intros H a b Ha Hb.
  pose proof (range_forall (fun a => forallb (P a) (zrange m)) n H a Ha) as H1. cbv beta in H1.
  exact (range_forall (P a) m H1 b Hb).
Qed.

(* ---- 1. the (packet type, value) relation of the source equals the specification's ---- *)
Definition rc_allows (tbl : rtable) (pt v : Z) : bool := is_ok (rc_new tbl pt name_success v).

Definition reason_pair_check (pt v : Z) : bool := Bool.eqb (rc_allows GR pt v) (spec_allows pt v).

Lemma reason_table_eq_spec_b :
  forallb (fun pt => forallb (reason_pair_check pt) (zrange 256)) (zrange 128) = true.
Proof. vm_compute. reflexivity. Qed.

Lemma reason_table_eq_spec pt v : 0 <= pt < 128 -> 0 <= v < 256 ->
  rc_allows GR pt v = spec_allows pt v.
Proof.
  intros Hp Hv. apply Bool.eqb_prop.
  exact (range_forall2 reason_pair_check 128 256 reason_table_eq_spec_b pt v Hp Hv).
Qed.

(* ---- 2. construct / pack / unpack succeed iff the specification allows the pair ---- *)
Definition res_zeqb (r : res Z) (v : Z) : bool := match r with Ok x => x =? v | _ => false end.
Definition res_z2eqb (r : res (Z * Z)) (v n : Z) : bool :=
  match r with Ok (x, y) => (x =? v) && (y =? n) | _ => false end.

Definition reason_full_check (tbl : rtable) (pt v : Z) : bool :=
  if spec_allows pt v then
    res_zeqb (rc_new tbl pt name_success v) v          (* constructor by identifier *)
    && res_z2eqb (rc_unpack tbl pt [v]) v 1             (* unpack of the byte: same value, one byte used *)
    && match rc_pack v with Ok [b] => b =? v | _ => false end
    && match rc_get_name tbl pt v with                  (* the name constructs the same code again *)
       | Ok n => res_zeqb (rc_new tbl pt n (-1)) v | _ => false end
  else
    negb (is_ok (rc_new tbl pt name_success v)) && negb (is_ok (rc_unpack tbl pt [v])).

Lemma reason_full_check_b :
  forallb (fun pt => forallb (reason_full_check GR pt) (zrange 256)) (zrange 128) = true.
Proof. vm_compute. reflexivity. Qed.

Lemma rc_unpack_head tbl pt v rest : rc_unpack tbl pt (v :: rest) = rc_unpack tbl pt [v].
Proof. reflexivity. Qed.

Lemma rc_get_name_fuel tbl pt v : rc_get_name tbl pt v <> OutOfFuel.
Proof.
  unfold rc_get_name. destruct (assoc v tbl) as [names|]; [|discriminate].
  destruct (filter _ names) as [|p [|q r]]; discriminate.
Qed.

Lemma rc_get_id_fuel tbl pt name : rc_get_id tbl pt name <> OutOfFuel.
Proof.
  induction tbl as [|[code names] r IH]; cbn [rc_get_id]; [discriminate|].
  destruct (assoc_s name names) as [pts|]; [|assumption].
  destruct (memz pt pts); [discriminate|assumption].
Qed.

Lemma rc_new_fuel tbl pt n v : rc_new tbl pt n v <> OutOfFuel.
Proof.
  unfold rc_new. case_if; [apply rc_get_id_fuel|].
  pose proof (rc_get_name_fuel tbl pt v). destruct (rc_get_name tbl pt v); congruence.
Qed.

Lemma rc_unpack_fuel tbl pt buf : rc_unpack tbl pt buf <> OutOfFuel.
Proof.
  unfold rc_unpack. destruct buf as [|c r]; [discriminate|].
  pose proof (rc_get_name_fuel tbl pt c). destruct (rc_get_name tbl pt c) as [a| |]; try congruence.
  pose proof (rc_get_id_fuel tbl pt a). destruct (rc_get_id tbl pt a); congruence.
Qed.

(* generic in the table, so that nothing large is unfolded when the proof is checked *)
Lemma c17_reason_gen (tbl : rtable) pt v rest : reason_full_check tbl pt v = true ->
  (spec_allows pt v = true ->
     rc_new tbl pt name_success v = Ok v /\ rc_unpack tbl pt (v :: rest) = Ok (v, 1) /\ rc_pack v = Ok [v]
     /\ exists n, rc_get_name tbl pt v = Ok n /\ rc_new tbl pt n (-1) = Ok v)
  /\ (spec_allows pt v = false ->
     (exists k, rc_new tbl pt name_success v = Raise k) /\ (exists k, rc_unpack tbl pt (v :: rest) = Raise k)).
Proof.
  intros H. rewrite rc_unpack_head. unfold reason_full_check in H.
  generalize dependent (spec_allows pt v). intros sa H. split; intros Hs; subst sa.
  - apply andb_true_iff in H as [H H4]. apply andb_true_iff in H as [H H3]. apply andb_true_iff in H as [H1 H2].
    repeat split.
    + unfold res_zeqb in H1. destruct (rc_new tbl pt name_success v); try discriminate.
      apply Z.eqb_eq in H1. congruence.
    + unfold res_z2eqb in H2. destruct (rc_unpack tbl pt [v]) as [[x y]| |]; try discriminate.
      apply andb_true_iff in H2 as [A B]. apply Z.eqb_eq in A, B. congruence.
    + unfold rc_pack in *. destruct ((0 <=? v) && (v <=? 255)); [reflexivity|discriminate].
    + destruct (rc_get_name tbl pt v) as [n| |]; try discriminate. exists n. split; [reflexivity|].
      unfold res_zeqb in H4. destruct (rc_new tbl pt n (-1)); try discriminate.
      apply Z.eqb_eq in H4. congruence.
  - apply andb_true_iff in H as [A B]. split.
    + pose proof (rc_new_fuel tbl pt name_success v).
      destruct (rc_new tbl pt name_success v) as [x|k|]; try discriminate; [eauto|congruence].
    + pose proof (rc_unpack_fuel tbl pt [v]).
      destruct (rc_unpack tbl pt [v]) as [x|k|]; try discriminate; [eauto|congruence].
Qed.

Lemma c17_reason pt v rest : 0 <= pt < 128 -> 0 <= v < 256 ->
  (spec_allows pt v = true ->
     rc_new GR pt name_success v = Ok v /\ rc_unpack GR pt (v :: rest) = Ok (v, 1) /\ rc_pack v = Ok [v]
     /\ exists n, rc_get_name GR pt v = Ok n /\ rc_new GR pt n (-1) = Ok v)
  /\ (spec_allows pt v = false ->
     (exists k, rc_new GR pt name_success v = Raise k) /\ (exists k, rc_unpack GR pt (v :: rest) = Raise k)).
Proof.
  intros Hp Hv. apply c17_reason_gen.
  exact (range_forall2 (reason_full_check GR) 128 256 reason_full_check_b pt v Hp Hv).
Qed.

(* ---- 3. construction by name: sound for every string, complete for every table row ---- *)
Lemma rc_get_id_sound tbl pt name : forall c, rc_get_id tbl pt name = Ok c ->
  exists names pts, In (c, names) tbl /\ assoc_s name names = Some pts /\ memz pt pts = true.
Proof.
  induction tbl as [|[code names] r IH]; intros c H; cbn [rc_get_id] in H; [discriminate|].
  destruct (assoc_s name names) as [pts|] eqn:E.
  - destruct (memz pt pts) eqn:M.
    + inv H. exists names, pts. repeat split; [left; reflexivity|assumption|assumption].
    + destruct (IH c H) as (n & p & I & A & B). exists n, p. repeat split; [right|..]; assumption.
  - destruct (IH c H) as (n & p & I & A & B). exists n, p. repeat split; [right|..]; assumption.
Qed.

(* every (value, name, packet type) of the table constructs that value by name (the names of one
   packet type are pairwise distinct) - except that DISCONNECT + "Success" means "Normal disconnection" *)
Definition by_name_row_check (tbl : rtable) (pt : Z) : bool :=
  forallb (fun row => let '(code, names) := row in
     forallb (fun p => let '(n, pts) := p in
        if memz pt pts then res_zeqb (rc_new tbl pt n (-1)) code else true) names) tbl.

Lemma rc_by_name_complete_b : forallb (by_name_row_check GR) (zrange 128) = true.
Proof. vm_compute. reflexivity. Qed.

Lemma rc_by_name_complete_gen (tbl : rtable) pt code names n pts : by_name_row_check tbl pt = true ->
  In (code, names) tbl -> In (n, pts) names -> memz pt pts = true -> rc_new tbl pt n (-1) = Ok code.
Proof.
  intros H I1 I2 M.
  unfold by_name_row_check in H. rewrite forallb_forall in H. specialize (H _ I1). cbv beta iota in H.
  rewrite forallb_forall in H. specialize (H _ I2). cbv beta iota in H. rewrite M in H.
  unfold res_zeqb in H. destruct (rc_new tbl pt n (-1)); try discriminate. apply Z.eqb_eq in H. congruence.
Qed.

Lemma rc_by_name_complete pt code names n pts : 0 <= pt < 128 ->
  In (code, names) GR -> In (n, pts) names -> memz pt pts = true -> rc_new GR pt n (-1) = Ok code.
Proof.
  intros Hp. apply rc_by_name_complete_gen.
  exact (range_forall (by_name_row_check GR) 128 rc_by_name_complete_b pt Hp).
Qed.

(* the default constructor ReasonCode(pt) ("Success") works for exactly the packet types that have a 0 code -
   except SUBACK (9), whose 0 code is called "Granted QoS 0": ReasonCode(SUBACK) raises KeyError *)
Lemma rc_default_b : forallb (fun pt => (pt =? 9) || Bool.eqb (is_ok (rc_new GR pt name_success (-1))) (spec_allows pt 0)) (zrange 128) = true.
Proof. vm_compute. reflexivity. Qed.

(* ---- 4. names: equal to the specification's up to capitalisation, except three rows ---- *)
Definition spec_row_name_ok (row : Z * string * list Z) : bool :=
  let '(c, n, pts) := row in
  match assoc c GR with
  | None => false
  | Some names =>
      existsb (fun p => zlist_eqb (lower (fst p)) (lower (bytes_of n))
                        && forallb (fun pt => Bool.eqb (memz pt (snd p)) (memz pt pts)) (zrange 128)) names
  end.

Definition name_exceptions : list Z := [17; 158; 162].

Lemma reason_names_eq_spec_partial :
  forallb (fun row => memz (fst (fst row)) name_exceptions || spec_row_name_ok row) spec_reasons = true.
Proof. vm_compute. reflexivity. Qed.

(* full statement: every row's name agrees - refuted by rows 17, 158, 162
   ("No subscription found" vs "No subscription existed"; "... subscription not supported" vs
   "... Subscriptions not supported").  Names are API strings of the library, not wire data. *)
Definition reason_names_eq_spec_full : Prop := forallb spec_row_name_ok spec_reasons = true.

Lemma reason_names_eq_spec_refuted : exists row, In row spec_reasons /\ spec_row_name_ok row = false.
Proof.
  exists (17, "No subscription existed"%string, [UNSUBACK]). split; [|vm_compute; reflexivity].
  unfold spec_reasons. repeat (try (left; reflexivity); right).
Qed.

(* the table has no duplicate value keys (a Python dict cannot, but the generated list could) *)
Fixpoint nodupz (l : list Z) : bool :=
  match l with [] => true | x :: r => negb (memz x r) && nodupz r end.
Lemma reason_keys_nodup : nodupz (map fst GR) = true.
Proof. vm_compute. reflexivity. Qed.
