(* C04: one round-trip theorem per packet type - for EVERY argument record within `representable`
   the independent decoder recovers exactly the supplied values and the untouched rest of the stream. *)
From PahoV Require Import Base.Prelude Codec.RemLen Codec.RemLenProofs Codec.Wire Codec.Packets
  Codec.SpecDecode Codec.PacketsSpec Codec.PacketsLemmas.

(* boolean side conditions: case analysis on the named atoms, then computation / lia *)
Ltac bauto := cbn [andb orb negb] in *; try reflexivity; try discriminate; try congruence; try lia.
Tactic Notation "bcases" constr(b1) := destruct b1 eqn:?; bauto.
Tactic Notation "bcases" constr(b1) constr(b2) := destruct b1 eqn:?, b2 eqn:?; bauto.
Tactic Notation "bcases" constr(b1) constr(b2) constr(b3) := destruct b1 eqn:?, b2 eqn:?, b3 eqn:?; bauto.

(* ================================================================== PUBLISH *)
Lemma publish_command_arith dup qos retain : qos_ok qos = true ->
  publish_command dup qos retain = 48 + (8 * b2z dup + 2 * qos + b2z retain).
Proof.
  unfold qos_ok. intros H. assert (qos = 0 \/ qos = 1 \/ qos = 2) as [-> | [-> | ->]] by lia;
    destruct dup, retain; reflexivity.
Qed.

Definition publish_body (v : version) (a : publish_args) : bytes :=
  str16 (p_topic a) ++ (if p_qos a >? 0 then u16 (p_mid a) else [])
  ++ (if is_v5 v then p_props a else []) ++ p_payload a.

Lemma publish_bytes_frame v a rest :
  publish_bytes v a ++ rest =
  publish_command (p_dup a) (p_qos a) (p_retain a) :: rl_encode (publish_remlen v a) ++ publish_body v a ++ rest.
Proof.
  unfold publish_bytes, publish_header, publish_body, publish_remlen. cbn [app].
  rewrite <- !app_assoc. reflexivity.
Qed.

(* the length the code announces is the length of what it writes *)
Lemma publish_body_len v a : len (publish_body v a) = publish_remlen v a.
Proof.
  unfold publish_body, publish_remlen, publish_remlen_n.
  rewrite !len_app, len_str16. destruct (p_qos a >? 0), (is_v5 v); rewrite ?len_u16, ?len_nil; lia.
Qed.

Lemma parse_publish_body v a : representable_publish v a = true ->
  parse_publish v (8 * b2z (p_dup a) + 2 * p_qos a + b2z (p_retain a)) (publish_body v a)
  = Some (packet_of_publish v a).
Proof.
  unfold representable_publish. intros H. split_andb.
  set (fl := 8 * b2z (p_dup a) + 2 * p_qos a + b2z (p_retain a)).
  assert (Hq : p_qos a = 0 \/ p_qos a = 1 \/ p_qos a = 2) by (unfold qos_ok in *; lia).
  assert (E1 : z2b (fl / 8) = p_dup a).
  { unfold fl. destruct Hq as [-> | [-> | ->]]; destruct (p_dup a), (p_retain a); reflexivity. }
  assert (E2 : (fl / 2) mod 4 = p_qos a).
  { unfold fl. destruct Hq as [-> | [-> | ->]]; destruct (p_dup a), (p_retain a); reflexivity. }
  assert (E3 : z2b (fl mod 2) = p_retain a).
  { unfold fl. destruct Hq as [-> | [-> | ->]]; destruct (p_dup a), (p_retain a); reflexivity. }
  unfold parse_publish. cbv zeta. rewrite E1, E2, E3. clear E1 E2 E3 fl.
  assert (p_qos a =? 3 = false) as -> by lia.
  assert (p_dup a && (p_qos a =? 0) = false) as -> by (bcases (p_dup a) (p_qos a =? 0)).
  unfold publish_body. rewrite rd_str_str16 by assumption.
  assert (negb (no_wildcard (p_topic a)) = false) as -> by (bcases (no_wildcard (p_topic a))).
  assert (negb (is_v5 v) && negb (nonempty (p_topic a)) = false) as -> by (bcases (is_v5 v) (nonempty (p_topic a))).
  unfold packet_of_publish.
  destruct (p_qos a =? 0) eqn:Hq0.
  - assert (p_qos a >? 0 = false) as -> by lia. cbn [app].
    rewrite rd_props_if_block by assumption. reflexivity.
  - assert (p_qos a >? 0 = true) as -> by lia.
    rewrite rd_mid_u16 by bauto. rewrite rd_props_if_block by assumption. reflexivity.
Qed.

Theorem publish_roundtrip v a rest : representable_publish v a = true ->
  spec_decode v (publish_bytes v a ++ rest) = Some (packet_of_publish v a, rest).
Proof.
  intros H. pose proof H as H'. unfold representable_publish in H'. split_andb.
  rewrite publish_bytes_frame, publish_command_arith by assumption.
  assert (Hfl : 0 <= 8 * b2z (p_dup a) + 2 * p_qos a + b2z (p_retain a) < 16).
  { unfold qos_ok in *. destruct (p_dup a), (p_retain a); cbn [b2z]; lia. }
  rewrite spec_decode_frame.
  - assert ((48 + (8 * b2z (p_dup a) + 2 * p_qos a + b2z (p_retain a))) / 16 = 3) as -> by lia.
    assert ((48 + (8 * b2z (p_dup a) + 2 * p_qos a + b2z (p_retain a))) mod 16
            = 8 * b2z (p_dup a) + 2 * p_qos a + b2z (p_retain a)) as -> by lia.
    unfold parse_body. cbn [Z.eqb Pos.eqb]. rewrite parse_publish_body by assumption. reflexivity.
  - apply byte_ok_true. lia.
  - pose proof (len_ge0 (publish_body v a)) as P. rewrite publish_body_len in P. lia.
  - apply publish_body_len.
Qed.

Lemma encode_publish_ok v a : representable_publish v a = true -> encode_publish v a = Ok (publish_bytes v a).
Proof.
  intros H. pose proof H as H'. unfold representable_publish in H'. split_andb.
  unfold encode_publish. rewrite publish_command_arith by assumption.
  assert (byte_ok (48 + (8 * b2z (p_dup a) + 2 * p_qos a + b2z (p_retain a))) = true) as ->.
  { unfold qos_ok, byte_ok in *. destruct (p_dup a), (p_retain a); cbn [b2z]; lia. }
  cbn [negb]. assert (publish_remlen v a >? rl_max = false) as -> by lia.
  assert (publish_struct_ok a = true) as ->; [|reflexivity].
  unfold publish_struct_ok, text_ok, mid_ok, str16_ok, u16_ok, qos_ok in *. split_andb.
  apply andb_true_iff; split; [lia|].
  destruct (p_qos a =? 0) eqn:E; cbn [orb] in *.
  - assert (p_qos a <=? 0 = true) as -> by lia. reflexivity.
  - split_andb. apply orb_true_iff; right. lia.
Qed.

(* ================================================================== CONNECT *)
Lemma rd_str_str16' x r : str16_ok x = true -> utf8_ok x = true -> rd_str (str16 x ++ r) = Some (x, r).
Proof. intros. apply rd_str_str16. unfold text_ok. rewrite H, H0. reflexivity. Qed.

Lemma rd_str_str16_end' x : str16_ok x = true -> utf8_ok x = true -> rd_str (str16 x) = Some (x, []).
Proof. intros. apply rd_str_str16_end. unfold text_ok. rewrite H, H0. reflexivity. Qed.

Ltac rd := repeat first
  [ rewrite rd_u16_u16 by assumption
  | rewrite rd_str_str16' by assumption
  | rewrite rd_str_str16_end' by assumption
  | rewrite rd_mid_u16 by assumption
  | rewrite rd_props_if_block by assumption
  | rewrite rd_str_str16 by assumption
  | rewrite rd_bin_str16 by assumption
  | rewrite rd_str_str16_end by assumption
  | rewrite rd_bin_str16_end by assumption ].

(* the connect flags byte, field by field (finite case analysis over the Z.lor/Z.shiftl expression) *)
Lemma connect_flags_fields a :
  match c_will a with Some w => qos_ok (w_qos w) = true | None => True end ->
  byte_ok (connect_flags a) = true /\
  connect_flags a mod 2 = 0 /\
  z2b ((connect_flags a / 2) mod 2) = c_clean a /\
  z2b ((connect_flags a / 4) mod 2) = (match c_will a with Some _ => true | None => false end) /\
  (connect_flags a / 8) mod 4 = (match c_will a with Some w => w_qos w | None => 0 end) /\
  z2b ((connect_flags a / 32) mod 2) = (match c_will a with Some w => w_retain w | None => false end) /\
  z2b ((connect_flags a / 64) mod 2)
    = (match c_username a, c_password a with Some _, Some _ => true | _, _ => false end) /\
  z2b (connect_flags a / 128) = (match c_username a with Some _ => true | None => false end).
Proof.
  destruct a as [br cl ka cid will user pw props].
  unfold connect_flags; cbn [c_clean c_will c_username c_password]. intros Hw.
  destruct will as [[wt wp wq wr wpr]|].
  - cbn [w_qos w_retain] in *. unfold qos_ok in Hw.
    assert (wq = 0 \/ wq = 1 \/ wq = 2) as [-> | [-> | ->]] by lia;
      destruct wr, cl, user, pw; vm_compute; repeat split.
  - destruct cl, user, pw; vm_compute; repeat split.
Qed.

Lemma level_byte (v : version) (b : bool) :
  byte_ok (if b then Z.lor (proto_level v) 128 else proto_level v) = true /\
  (128 <=? (if b then Z.lor (proto_level v) 128 else proto_level v)) = b /\
  (if b then Z.lor (proto_level v) 128 else proto_level v) mod 128 = spec_proto_level v /\
  spec_proto_level v = proto_level v.
Proof. destruct v, b; vm_compute; repeat split. Qed.

Lemma connect_bytes_frame v a rest :
  connect_bytes v a ++ rest = 16 :: rl_encode (connect_remlen v a) ++ connect_body v a ++ rest.
Proof. unfold connect_bytes. cbn [app]. rewrite <- app_assoc. reflexivity. Qed.

Lemma connect_body_len v a : len (connect_body v a) = connect_remlen v a.
Proof.
  unfold connect_body, connect_remlen.
  destruct (c_will a) as [w|], (c_username a) as [u|], (c_password a) as [p|], (is_v5 v);
    rewrite ?len_app, ?len_str16, ?len_u16, ?len_cons, ?len_nil; lia.
Qed.

Lemma parse_connect_body v a : representable_connect v a = true ->
  parse_connect v (connect_body v a) = Some (packet_of_connect v a).
Proof.
  unfold representable_connect. intros H. split_andb.
  assert (Hw : match c_will a with Some w => qos_ok (w_qos w) = true | None => True end).
  { destruct (c_will a) as [w|]; [|exact I]. unfold representable_will in *. split_andb. assumption. }
  destruct (connect_flags_fields a Hw) as (F0 & F1 & F2 & F3 & F4 & F5 & F6 & F7).
  destruct (level_byte v (c_bridge a)) as (L0 & L1 & L2 & L3).
  unfold parse_connect, connect_body, packet_of_connect.
  rewrite rd_bin_raw by (destruct v; reflexivity).
  assert (zlist_eqb (proto_name v) (spec_proto_name v) = true) as -> by (destruct v; reflexivity).
  cbn [negb app]. cbv zeta.
  rewrite L0, L1, L2, L3, F0, F1, F2, F3, F4, F5, F6, F7, Z.eqb_refl. cbn [negb andb Z.eqb].
  clear F0 F1 F2 F3 F4 F5 F6 F7 L0 L1 L2 L3.
  unfold text_ok in *. split_andb.
  destruct a as [br cl ka cid will user pw props].
  cbn [c_bridge c_clean c_keepalive c_client_id c_will c_username c_password c_props] in *.
  assert (Hcid : negb (is_v5 v) && negb (nonempty cid) && negb cl = false)
    by (bcases (is_v5 v) (nonempty cid) cl).
  destruct will as [w|].
  - unfold representable_will, text_ok, qos_ok in *. split_andb.
    assert ((w_qos w =? 3) = false) as -> by lia. cbn [negb andb orb].
    assert (Hp : negb (is_v5 v) &&
                 match user with Some _ => match pw with Some _ => true | None => false end | None => false end &&
                 negb match user with Some _ => true | None => false end = false)
      by (destruct user, pw, (is_v5 v); reflexivity).
    rewrite Hp. unfold text_ok. rd. rewrite Hcid.
    unfold parse_will. rewrite <- !app_assoc. rd.
    assert (negb (no_wildcard (w_topic w)) || negb (nonempty (w_topic w)) = false) as ->
      by (bcases (no_wildcard (w_topic w)) (nonempty (w_topic w))).
    destruct user as [u|]; [destruct pw as [p|]|]; unfold text_ok in *; split_andb.
    + rd. reflexivity.
    + rd. reflexivity.
    + rd. reflexivity.
  - cbn [negb andb orb Z.eqb].
    assert (Hp : negb (is_v5 v) &&
                 match user with Some _ => match pw with Some _ => true | None => false end | None => false end &&
                 negb match user with Some _ => true | None => false end = false)
      by (destruct user, pw, (is_v5 v); reflexivity).
    rewrite Hp. rd. rewrite Hcid. cbn [app].
    destruct user as [u|]; [destruct pw as [p|]|]; unfold text_ok in *; split_andb.
    + rd. reflexivity.
    + rd. reflexivity.
    + rd. reflexivity.
Qed.

Theorem connect_roundtrip v a rest : representable_connect v a = true ->
  spec_decode v (connect_bytes v a ++ rest) = Some (packet_of_connect v a, rest).
Proof.
  intros H. rewrite connect_bytes_frame, spec_decode_frame.
  - change (16 / 16) with 1. change (16 mod 16) with 0. unfold parse_body. cbn [Z.eqb Pos.eqb].
    rewrite parse_connect_body by assumption. reflexivity.
  - reflexivity.
  - unfold representable_connect in H. split_andb.
    pose proof (len_ge0 (connect_body v a)) as P. rewrite connect_body_len in P. lia.
  - apply connect_body_len.
Qed.

Lemma encode_connect_ok v a : representable_connect v a = true -> encode_connect v a = Ok (connect_bytes v a).
Proof.
  unfold representable_connect, encode_connect. intros H. split_andb.
  assert (connect_remlen v a >? rl_max = false) as -> by lia.
  assert (connect_struct_ok a = true) as ->; [|reflexivity].
  unfold connect_struct_ok, text_ok in *. split_andb.
  assert (E1 : u16_ok (c_keepalive a) = true) by assumption.
  assert (E2 : str16_ok (c_client_id a) = true) by assumption.
  rewrite E1, E2. cbn [andb]. clear E1 E2.
  apply andb_true_iff; split.
  - destruct (c_will a) as [w|]; [|reflexivity]. unfold representable_will, text_ok in *. split_andb.
    apply andb_true_iff; split; assumption.
  - destruct (c_username a) as [u|]; [|reflexivity]. split_andb.
    apply andb_true_iff; split; [assumption|]. destruct (c_password a); [assumption | reflexivity].
Qed.

(* ================================================================== PUBACK PUBREC PUBREL PUBCOMP *)
Theorem ack_roundtrip v kind mid rest : ack_kind_ok kind = true -> mid_ok mid = true ->
  spec_decode v (ack_bytes kind mid ++ rest) = Some (PAck kind mid 0 [], rest).
Proof.
  intros Hk Hm. unfold ack_kind_ok in Hk.
  assert (kind = 4 \/ kind = 5 \/ kind = 6 \/ kind = 7) as Hc by lia.
  unfold ack_bytes. cbn [app]. change 2 with (len (u16 mid)) at 1.
  change (len (u16 mid) :: u16 mid ++ rest) with (rl_encode 2 ++ u16 mid ++ rest).
  rewrite spec_decode_frame; [|destruct Hc as [-> | [-> | [-> | ->]]]; reflexivity | unfold rl_max; lia | reflexivity].
  assert (Hp : parse_ack v kind (u16 mid) = Some (PAck kind mid 0 [])).
  { unfold parse_ack. rewrite <- (app_nil_r (u16 mid)). rewrite rd_mid_u16 by assumption. reflexivity. }
  destruct Hc as [-> | [-> | [-> | ->]]]; vm_compute (ack_command _);
    match goal with |- context [parse_body _ (?x / 16) (?x mod 16) _] =>
      let q := eval vm_compute in (x / 16) in let m := eval vm_compute in (x mod 16) in
      change (x / 16) with q; change (x mod 16) with m end;
    unfold parse_body; cbn [Z.eqb Pos.eqb orb]; rewrite Hp; reflexivity.
Qed.

(* ================================================================== PINGREQ PINGRESP *)
Theorem ping_roundtrip v resp rest :
  spec_decode v (ping_bytes resp ++ rest) = Some ((if resp then PPingresp else PPingreq), rest).
Proof.
  destruct resp; unfold ping_bytes; cbn [app].
  - change (208 :: 0 :: rest) with (208 :: rl_encode 0 ++ [] ++ rest).
    rewrite spec_decode_frame; [reflexivity | reflexivity | unfold rl_max; lia | reflexivity].
  - change (192 :: 0 :: rest) with (192 :: rl_encode 0 ++ [] ++ rest).
    rewrite spec_decode_frame; [reflexivity | reflexivity | unfold rl_max; lia | reflexivity].
Qed.

Lemma empty_body_frame v b0 rest :
  byte_ok b0 = true ->
  spec_decode v (b0 :: rl_encode 0 ++ rest) =
  match parse_body v (b0 / 16) (b0 mod 16) [] with Some p => Some (p, rest) | None => None end.
Proof.
  intros H. change (rl_encode 0 ++ rest) with (rl_encode 0 ++ [] ++ rest).
  apply spec_decode_frame; [assumption | unfold rl_max; lia | reflexivity].
Qed.

(* ================================================================== DISCONNECT *)
Lemma disconnect_v3 v reason props rest : is_v5 v = false ->
  spec_decode v (disconnect_bytes v reason props ++ rest) = Some (PDisconnect None None, rest).
Proof.
  intros H. unfold disconnect_bytes. rewrite H. cbn [app]. rewrite empty_body_frame by reflexivity.
  reflexivity.
Qed.

Lemma disconnect_full v rc p rest :
  is_v5 v = true -> byte_ok rc = true -> props_wf p = true -> (1 + len p <=? rl_max) = true ->
  spec_decode v (224 :: rl_encode (1 + len p) ++ (rc :: p) ++ rest)
  = Some (PDisconnect (Some rc) (Some (props_content p)), rest).
Proof.
  intros Hv Hrc Hp Hl. pose proof (props_wf_len p Hp) as Hl1.
  rewrite spec_decode_frame; [| reflexivity | lia | rewrite len_cons; lia].
  change (224 / 16) with 14. change (224 mod 16) with 0. unfold parse_body. cbn [Z.eqb Pos.eqb].
  unfold parse_disconnect. rewrite Hv, Hrc. cbn [negb orb].
  destruct p as [|p0 p']; [unfold len in Hl1; cbn in Hl1; lia|].
  rewrite rd_props_block_end by assumption. reflexivity.
Qed.

Theorem disconnect_roundtrip v reason props rest : representable_disconnect v reason props = true ->
  spec_decode v (disconnect_bytes v reason props ++ rest) = Some (packet_of_disconnect v reason props, rest).
Proof.
  unfold representable_disconnect, packet_of_disconnect. destruct (is_v5 v) eqn:Hv; intros H.
  2:{ apply disconnect_v3; assumption. }
  unfold disconnect_bytes. rewrite Hv. split_andb.
  destruct reason as [rc|], props as [p|]; split_andb; cbn [app].
  - rewrite <- app_assoc. apply disconnect_full; assumption.
  - rewrite <- app_assoc.
    rewrite spec_decode_frame; [| reflexivity | unfold rl_max; lia | reflexivity].
    change (224 / 16) with 14. change (224 mod 16) with 0. unfold parse_body. cbn [Z.eqb Pos.eqb].
    unfold parse_disconnect. rewrite Hv. cbn [negb orb].
    assert (byte_ok rc = true) as -> by assumption. reflexivity.
  - rewrite <- app_assoc. apply disconnect_full; [assumption | reflexivity | assumption | assumption].
  - rewrite empty_body_frame by reflexivity. reflexivity.
Qed.

(* ================================================================== SUBSCRIBE *)
Definition sub_entry (tq : bytes * Z) : bytes := str16 (fst tq) ++ [snd tq].

Lemma parse_filters_entries v topics : forall fuel,
  forallb (fun tq => filter_text_ok (fst tq) && opt_ok v (snd tq)) topics = true ->
  (length (concat (map sub_entry topics)) <= fuel)%nat ->
  parse_filters fuel v (concat (map sub_entry topics)) = Some topics.
Proof.
  induction topics as [|[t o] l IH]; intros fuel H Hf.
  - destruct fuel; reflexivity.
  - cbn [forallb fst snd] in H. apply andb_true_iff in H as [Ht Hl].
    unfold filter_text_ok, text_ok in Ht. split_andb.
    cbn [map concat] in *. unfold sub_entry at 1 in Hf. unfold sub_entry at 1. cbn [fst snd] in *.
    rewrite <- app_assoc in *. cbn [app] in *.
    assert (Hf' : (length (concat (map sub_entry l)) < fuel)%nat).
    { rewrite app_length in Hf. unfold str16, u16 in Hf. cbn [app length] in Hf. lia. }
    destruct fuel as [|fuel]; [lia|].
    unfold parse_filters; fold parse_filters.
    destruct (str16 t ++ o :: concat (map sub_entry l)) eqn:E.
    { unfold str16, u16 in E. cbn [app] in E. discriminate. }
    rewrite <- E. rd.
    assert (nonempty t = true) as -> by assumption. assert (opt_ok v o = true) as -> by assumption.
    cbn [andb]. rewrite IH; [reflexivity | assumption | lia].
Qed.

Lemma subscribe_body_len v mid topics props :
  len (subscribe_body v mid topics props) = subscribe_remlen v topics props.
Proof.
  unfold subscribe_body, subscribe_remlen. rewrite !len_app, len_u16.
  assert (len (concat (map (fun tq : bytes * Z => str16 (fst tq) ++ [snd tq]) topics))
          = sum_len (fun t => 2 + len t + 1) (map fst topics)) as ->.
  { induction topics as [|[t o] l IH]; [reflexivity|]. cbn [map concat sum_len fst snd].
    rewrite !len_app, len_str16, IH, len_cons, len_nil. lia. }
  destruct (is_v5 v); rewrite ?len_nil; lia.
Qed.

Theorem subscribe_roundtrip v mid topics props rest : representable_subscribe v mid topics props = true ->
  spec_decode v (subscribe_bytes v mid topics props ++ rest) = Some (PSubscribe mid (vprops v props) topics, rest).
Proof.
  unfold representable_subscribe. intros H. split_andb.
  unfold subscribe_bytes. cbn [app]. rewrite <- app_assoc.
  rewrite spec_decode_frame.
  - change (subscribe_command / 16) with 8. change (subscribe_command mod 16) with 2.
    unfold parse_body. cbn [Z.eqb Pos.eqb orb]. unfold parse_subscribe, subscribe_body.
    rd. change (fun tq : bytes * Z => str16 (fst tq) ++ [snd tq]) with sub_entry.
    rewrite parse_filters_entries; [| assumption | apply Nat.le_refl].
    destruct topics; [discriminate | reflexivity].
  - reflexivity.
  - pose proof (len_ge0 (subscribe_body v mid topics props)) as P. rewrite subscribe_body_len in P. lia.
  - apply subscribe_body_len.
Qed.

(* ================================================================== UNSUBSCRIBE *)
Lemma parse_topics_entries topics : forall fuel,
  forallb filter_text_ok topics = true ->
  (length (concat (map str16 topics)) <= fuel)%nat ->
  parse_topics fuel (concat (map str16 topics)) = Some topics.
Proof.
  induction topics as [|t l IH]; intros fuel H Hf.
  - destruct fuel; reflexivity.
  - cbn [forallb] in H. apply andb_true_iff in H as [Ht Hl].
    unfold filter_text_ok, text_ok in Ht. split_andb.
    cbn [map concat] in *.
    assert (Hf' : (length (concat (map str16 l)) < fuel)%nat).
    { rewrite app_length in Hf.
      assert (2 <= length (str16 t))%nat by (unfold str16, u16; cbn [app length]; lia). lia. }
    destruct fuel as [|fuel]; [lia|].
    unfold parse_topics; fold parse_topics.
    destruct (str16 t ++ concat (map str16 l)) eqn:E.
    { unfold str16, u16 in E. cbn [app] in E. discriminate. }
    rewrite <- E. rd.
    assert (nonempty t = true) as -> by assumption.
    rewrite IH; [reflexivity | assumption | lia].
Qed.

Lemma unsubscribe_body_len v mid topics props :
  len (unsubscribe_body v mid topics props) = unsubscribe_remlen v topics props.
Proof.
  unfold unsubscribe_body, unsubscribe_remlen. rewrite !len_app, len_u16.
  assert (len (concat (map str16 topics)) = sum_len (fun t => 2 + len t) topics) as ->.
  { induction topics as [|t l IH]; [reflexivity|]. cbn [map concat sum_len].
    rewrite !len_app, len_str16, IH. lia. }
  destruct (is_v5 v); rewrite ?len_nil; lia.
Qed.

Theorem unsubscribe_roundtrip v mid topics props rest : representable_unsubscribe v mid topics props = true ->
  spec_decode v (unsubscribe_bytes v mid topics props ++ rest) = Some (PUnsubscribe mid (vprops v props) topics, rest).
Proof.
  unfold representable_unsubscribe. intros H. split_andb.
  unfold unsubscribe_bytes. cbn [app]. rewrite <- app_assoc.
  rewrite spec_decode_frame.
  - change (unsubscribe_command / 16) with 10. change (unsubscribe_command mod 16) with 2.
    unfold parse_body. cbn [Z.eqb Pos.eqb orb]. unfold parse_unsubscribe, unsubscribe_body.
    rd. rewrite parse_topics_entries; [| assumption | apply Nat.le_refl].
    destruct topics; [discriminate | reflexivity].
  - reflexivity.
  - pose proof (len_ge0 (unsubscribe_body v mid topics props)) as P. rewrite unsubscribe_body_len in P. lia.
  - apply unsubscribe_body_len.
Qed.

(* ================================================================== all packet types at once *)
Lemma forallb_impl {A} (f g : A -> bool) l : (forall x, f x = true -> g x = true) ->
  forallb f l = true -> forallb g l = true.
Proof.
  intros Hfg. induction l as [|x l IH]; [reflexivity|]. cbn [forallb]. intros H. split_andb.
  rewrite Hfg, IH by assumption. reflexivity.
Qed.

Lemma opt_ok_byte v o : opt_ok v o = true -> byte_ok o = true.
Proof. unfold opt_ok. intros H. split_andb. assumption. Qed.

(* within `representable` no struct.pack / bytearray.append raises: the encoder returns the bytes *)
Theorem encode_ok v it : representable v it = true -> encode v it = Ok (wire v it).
Proof.
  destruct it as [a|a|k m|r|r p|m t p|m t p]; cbn [representable encode wire]; intros H.
  - apply encode_connect_ok; assumption.
  - apply encode_publish_ok; assumption.
  - split_andb. unfold encode_ack, mid_ok, u16_ok in *. assert ((0 <=? m) && (m <=? 65535) = true) as -> by lia.
    reflexivity.
  - reflexivity.
  - unfold encode_disconnect, representable_disconnect, disconnect_remlen in *. destruct (is_v5 v); [|reflexivity].
    split_andb.
    assert (match r, p with None, None => 0 | Some _, None => 1 | _, Some p0 => 1 + len p0 end >? rl_max = false) as ->.
    { destruct r, p; split_andb; unfold rl_max in *; lia. }
    destruct r as [rc|]; [|reflexivity]. cbn [andb].
    assert (byte_ok rc = true) as -> by assumption. reflexivity.
  - unfold representable_subscribe, encode_subscribe in *. split_andb.
    assert (subscribe_remlen v t p >? rl_max = false) as -> by lia.
    assert (u16_ok m = true) as -> by (unfold mid_ok, u16_ok in *; lia). cbn [negb].
    assert (forallb (fun tq => str16_ok (fst tq)) t = true) as ->.
    { eapply forallb_impl; [|eassumption]. intros x Hx. cbn beta in Hx.
      unfold filter_text_ok, text_ok in Hx. split_andb. assumption. }
    assert (forallb (fun tq => byte_ok (snd tq)) t = true) as ->.
    { eapply forallb_impl; [|eassumption]. intros x Hx. cbn beta in Hx.
      split_andb. eapply opt_ok_byte; eassumption. }
    reflexivity.
  - unfold representable_unsubscribe, encode_unsubscribe in *. split_andb.
    assert (unsubscribe_remlen v t p >? rl_max = false) as -> by lia.
    assert (u16_ok m = true) as -> by (unfold mid_ok, u16_ok in *; lia).
    assert (forallb str16_ok t = true) as ->.
    { eapply forallb_impl; [|eassumption]. intros x Hx.
      unfold filter_text_ok, text_ok in Hx. split_andb. assumption. }
    reflexivity.
Qed.

(* the decoder recovers exactly what was supplied, and leaves the rest of the stream untouched *)
Theorem roundtrip v it rest : representable v it = true ->
  spec_decode v (wire v it ++ rest) = Some (packet_of v it, rest).
Proof.
  destruct it as [a|a|k m|r|r p|m t p|m t p]; cbn [representable wire packet_of]; intros H.
  - apply connect_roundtrip; assumption.
  - apply publish_roundtrip; assumption.
  - split_andb. apply ack_roundtrip; assumption.
  - apply ping_roundtrip.
  - apply disconnect_roundtrip; assumption.
  - apply subscribe_roundtrip; assumption.
  - apply unsubscribe_roundtrip; assumption.
Qed.

(* every packet is at least two bytes long, so the stream decoder's fuel (the stream length) suffices *)
Lemma spec_decode_consumes v s p r : spec_decode v s = Some (p, r) -> (length r < length s)%nat.
Proof.
  unfold spec_decode. destruct s as [|b0 s1]; [discriminate|].
  destruct (negb (byte_ok b0)); [discriminate|].
  destruct (rl_decode s1) as [[n r']|] eqn:E; [|discriminate].
  destruct (n <=? len r'); [|discriminate].
  destruct (parse_body v (b0 / 16) (b0 mod 16) (firstn (Z.to_nat n) r')); [|discriminate].
  intros H. inv H. apply rl_decode_range in E as [_ E].
  pose proof (skipn_length (Z.to_nat n) r'). cbn [length]. lia.
Qed.

(* "everything the client writes is a sequence of well-formed control packets" *)
Theorem stream_roundtrip v items : forall fuel,
  forallb (representable v) items = true ->
  (length (concat (map (wire v) items)) <= fuel)%nat ->
  spec_decode_all fuel v (concat (map (wire v) items)) = Some (map (packet_of v) items).
Proof.
  induction items as [|it l IH]; intros fuel H Hf.
  - destruct fuel; reflexivity.
  - cbn [forallb] in H. split_andb. cbn [map concat] in *.
    pose proof (roundtrip v it (concat (map (wire v) l)) ltac:(assumption)) as R.
    pose proof (spec_decode_consumes _ _ _ _ R) as C.
    destruct fuel as [|fuel]; [lia|].
    unfold spec_decode_all; fold spec_decode_all.
    destruct (wire v it ++ concat (map (wire v) l)) eqn:E; [cbn [length] in C; lia|].
    rewrite R. rewrite IH; [reflexivity | assumption | cbn [length] in *; lia].
Qed.
