(* C04: correspondence entry points (flat integer lists in, flat integer lists out) for the encoders,
   the API-level model, the specification decoder and the clean-flag state machine.
   Encoding of arguments: booleans 0/1; byte strings length-prefixed [n; b1..bn]; optional byte strings
   [0] or [1; n; b1..bn]; version 3/4/5.  Results of encoders: [0; bytes...] or [1; exception kind].
   Model only, no proofs. *)
From PahoV Require Import Base.Prelude Codec.RemLen Codec.Wire Codec.Packets Codec.SpecDecode
  Codec.PacketsSpec Codec.PacketsApi.

Notation "'do' x <- e ; k" := (match e with Some x => k | None => None end)
  (at level 200, x pattern, e at level 100, k at level 200, right associativity).

Definition tk_z (s : list Z) : option (Z * list Z) := match s with x :: r => Some (x, r) | [] => None end.
Definition tk_b (s : list Z) : option (bool * list Z) := match s with x :: r => Some (z2b x, r) | [] => None end.
Definition tk_bytes (s : list Z) : option (bytes * list Z) :=
  match s with
  | n :: r => if (0 <=? n) && (n <=? len r) then Some (firstn (Z.to_nat n) r, skipn (Z.to_nat n) r) else None
  | [] => None
  end.
Definition tk_obytes (s : list Z) : option (option bytes * list Z) :=
  match s with
  | 0 :: r => Some (None, r)
  | 1 :: r => do (b, r') <- tk_bytes r; Some (Some b, r')
  | _ => None
  end.
Definition tk_oz (s : list Z) : option (option Z * list Z) :=
  match s with
  | 0 :: r => Some (None, r)
  | 1 :: x :: r => Some (Some x, r)
  | _ => None
  end.

Fixpoint tk_list {A} (tk : list Z -> option (A * list Z)) (n : nat) (s : list Z) : option (list A * list Z) :=
  match n with
  | O => Some ([], s)
  | S n' => do (x, r) <- tk s; do (l, r') <- tk_list tk n' r; Some (x :: l, r')
  end.

Definition out_res (r : res bytes) : list Z :=
  match r with Ok b => 0 :: b | Raise k => [1; k] | OutOfFuel => [2] end.
Definition bad_args : list Z := [3].
Definition run (o : option (list Z)) : list Z := match o with Some l => l | None => bad_args end.

(* ---- encoders (the _send_* level) *)
Definition tk_will (s : list Z) : option (option will_args * list Z) :=
  match s with
  | 0 :: r => Some (None, r)
  | 1 :: r =>
      do (t, r1) <- tk_bytes r; do (p, r2) <- tk_bytes r1; do (q, r3) <- tk_z r2; do (rt, r4) <- tk_b r3;
      do (pr, r5) <- tk_bytes r4;
      Some (Some {| w_topic := t; w_payload := p; w_qos := q; w_retain := rt; w_props := pr |}, r5)
  | _ => None
  end.

(* [v; bridge; clean; keepalive; cid; will; username; password; props] *)
Definition entry_connect (s : list Z) : list Z := run (
  do (v, s) <- tk_z s; do (br, s) <- tk_b s; do (cl, s) <- tk_b s; do (ka, s) <- tk_z s;
  do (cid, s) <- tk_bytes s; do (w, s) <- tk_will s; do (u, s) <- tk_obytes s; do (p, s) <- tk_obytes s;
  do (pr, s) <- tk_bytes s;
  Some (out_res (encode_connect (version_of_Z v)
     {| c_bridge := br; c_clean := cl; c_keepalive := ka; c_client_id := cid; c_will := w;
        c_username := u; c_password := p; c_props := pr |}))).

(* [v; dup; qos; retain; mid; topic; payload; props] *)
Definition entry_publish (s : list Z) : list Z := run (
  do (v, s) <- tk_z s; do (d, s) <- tk_b s; do (q, s) <- tk_z s; do (rt, s) <- tk_b s; do (m, s) <- tk_z s;
  do (t, s) <- tk_bytes s; do (p, s) <- tk_bytes s; do (pr, s) <- tk_bytes s;
  Some (out_res (encode_publish (version_of_Z v)
     {| p_dup := d; p_qos := q; p_retain := rt; p_mid := m; p_topic := t; p_payload := p; p_props := pr |}))).

(* large payloads: [v; dup; qos; retain; mid; topic; props; payload length] -> everything before the payload *)
Definition entry_publish_header (s : list Z) : list Z := run (
  do (v, s) <- tk_z s; do (d, s) <- tk_b s; do (q, s) <- tk_z s; do (rt, s) <- tk_b s; do (m, s) <- tk_z s;
  do (t, s) <- tk_bytes s; do (pr, s) <- tk_bytes s; do (n, s) <- tk_z s;
  Some (if negb (byte_ok (publish_command d q rt)) then [1; E_value]
        else if publish_remlen_n (version_of_Z v) q t pr n >? rl_max then [1; E_value]
        else if str16_ok t && ((q <=? 0) || u16_ok m)
             then 0 :: publish_header (version_of_Z v) d q rt m t pr n else [1; E_struct])).

Definition entry_ack (s : list Z) : list Z :=
  match s with [k; m] => out_res (encode_ack k m) | _ => bad_args end.
Definition entry_ping (s : list Z) : list Z :=
  match s with [r] => out_res (encode_ping (z2b r)) | _ => bad_args end.

(* [v; reason option; props option] *)
Definition entry_disconnect (s : list Z) : list Z := run (
  do (v, s) <- tk_z s; do (rc, s) <- tk_oz s; do (p, s) <- tk_obytes s;
  Some (out_res (encode_disconnect (version_of_Z v) rc p))).

Definition tk_filter_opt (s : list Z) : option ((bytes * Z) * list Z) :=
  do (t, s) <- tk_bytes s; do (o, s) <- tk_z s; Some ((t, o), s).

(* [v; mid; props; count; (filter; options byte)*] *)
Definition entry_subscribe (s : list Z) : list Z := run (
  do (v, s) <- tk_z s; do (m, s) <- tk_z s; do (pr, s) <- tk_bytes s; do (n, s) <- tk_z s;
  do (l, s) <- tk_list tk_filter_opt (Z.to_nat n) s;
  Some (out_res (encode_subscribe (version_of_Z v) m l pr))).

(* [v; mid; props; count; filter*] *)
Definition entry_unsubscribe (s : list Z) : list Z := run (
  do (v, s) <- tk_z s; do (m, s) <- tk_z s; do (pr, s) <- tk_bytes s; do (n, s) <- tk_z s;
  do (l, s) <- tk_list tk_bytes (Z.to_nat n) s;
  Some (out_res (encode_unsubscribe (version_of_Z v) m l pr))).

(* ---- the API-level model *)
Definition tk_cs (s : list Z) : option (clean_start * list Z) :=
  match s with
  | x :: r => Some ((if x =? 1 then CS_true else if x =? 0 then CS_false else CS_first_only), r)
  | [] => None
  end.

Definition tk_will_call (s : list Z) : option (option will_call * list Z) :=
  match s with
  | 0 :: r => Some (None, r)
  | 1 :: r =>
      do (t, r1) <- tk_bytes r; do (p, r2) <- tk_bytes r1; do (q, r3) <- tk_z r2; do (rt, r4) <- tk_b r3;
      do (pr, r5) <- tk_obytes r4;
      Some (Some {| wc_topic := t; wc_payload := p; wc_qos := q; wc_retain := rt; wc_props := pr |}, r5)
  | _ => None
  end.

(* [v; clean_session; clean_start(1/0/3); first; bridge; keepalive; cid; will; username; password; props option] *)
Definition entry_emit_connect (s : list Z) : list Z := run (
  do (v, s) <- tk_z s; do (cls, s) <- tk_b s; do (cs, s) <- tk_cs s; do (f, s) <- tk_b s; do (br, s) <- tk_b s;
  do (ka, s) <- tk_z s; do (cid, s) <- tk_bytes s; do (w, s) <- tk_will_call s;
  do (u, s) <- tk_obytes s; do (p, s) <- tk_obytes s; do (pr, s) <- tk_obytes s;
  Some (out_res (emit (version_of_Z v) (CConnect cls cs f br ka cid w u p pr)))).

(* [v; last_mid; topic; payload; qos; retain; props option] *)
Definition entry_emit_publish (s : list Z) : list Z := run (
  do (v, s) <- tk_z s; do (lm, s) <- tk_z s; do (t, s) <- tk_bytes s; do (p, s) <- tk_bytes s;
  do (q, s) <- tk_z s; do (rt, s) <- tk_b s; do (pr, s) <- tk_obytes s;
  Some (out_res (emit (version_of_Z v) (CPublish lm t p q rt pr)))).

Definition tk_sub_req (s : list Z) : option (sub_req * list Z) :=
  do (t, s) <- tk_bytes s; do (q, s) <- tk_z s; do (nl, s) <- tk_b s; do (rap, s) <- tk_b s; do (rh, s) <- tk_z s;
  Some ({| sr_filter := t; sr_qos := q; sr_nl := nl; sr_rap := rap; sr_rh := rh |}, s).

(* [v; last_mid; props option; count; (filter; qos; noLocal; retainAsPublished; retainHandling)*] *)
Definition entry_emit_subscribe (s : list Z) : list Z := run (
  do (v, s) <- tk_z s; do (lm, s) <- tk_z s; do (pr, s) <- tk_obytes s; do (n, s) <- tk_z s;
  do (l, s) <- tk_list tk_sub_req (Z.to_nat n) s;
  Some (out_res (emit (version_of_Z v) (CSubscribe lm l pr)))).

(* [v; last_mid; props option; count; filter*] *)
Definition entry_emit_unsubscribe (s : list Z) : list Z := run (
  do (v, s) <- tk_z s; do (lm, s) <- tk_z s; do (pr, s) <- tk_obytes s; do (n, s) <- tk_z s;
  do (l, s) <- tk_list tk_bytes (Z.to_nat n) s;
  Some (out_res (emit (version_of_Z v) (CUnsubscribe lm l pr)))).

(* [v; reason option; props option] *)
Definition entry_emit_disconnect (s : list Z) : list Z := run (
  do (v, s) <- tk_z s; do (rc, s) <- tk_oz s; do (p, s) <- tk_obytes s;
  Some (out_res (emit (version_of_Z v) (CDisconnect rc p)))).

(* ---- the specification decoder: flat canonical description of the decoded packet *)
Definition lp (b : bytes) : list Z := len b :: b.
Definition olp (o : option bytes) : list Z := match o with Some b => 1 :: lp b | None => [0] end.
Definition fb (b : bool) : Z := if b then 1 else 0.

(* short = true: the PUBLISH payload is replaced by its length (large packets) *)
Definition packet_flat (short : bool) (p : packet) : list Z :=
  match p with
  | PConnect level bridge clean ka props cid will user pw =>
      [1; level; fb bridge; fb clean; ka] ++ lp props ++ lp cid
      ++ match will with
         | Some w => [1; wl_qos w; fb (wl_retain w)] ++ lp (wl_props w) ++ lp (wl_topic w) ++ lp (wl_payload w)
         | None => [0]
         end
      ++ olp user ++ olp pw
  | PPublish dup qos retain topic mid props payload =>
      [3; fb dup; qos; fb retain; mid] ++ lp topic ++ lp props ++ (if short then [len payload] else lp payload)
  | PAck kind mid reason props => [kind; mid; reason] ++ lp props
  | PSubscribe mid props topics =>
      [8; mid] ++ lp props ++ [Z.of_nat (length topics)]
      ++ concat (map (fun tq => lp (fst tq) ++ [snd tq; opt_qos (snd tq); fb (opt_nl (snd tq)); fb (opt_rap (snd tq)); opt_rh (snd tq)]) topics)
  | PUnsubscribe mid props topics =>
      [10; mid] ++ lp props ++ [Z.of_nat (length topics)] ++ concat (map lp topics)
  | PPingreq => [12]
  | PPingresp => [13]
  | PDisconnect reason props =>
      [14] ++ (match reason with Some rc => [1; rc] | None => [0] end) ++ olp props
  end.

(* [v; bytes...] -> [1; bytes consumed; packet...] or [0] *)
Definition entry_spec_decode (s : list Z) : list Z :=
  match s with
  | v :: bs =>
      match spec_decode (version_of_Z v) bs with
      | Some (p, r) => 1 :: (len bs - len r) :: packet_flat false p
      | None => [0]
      end
  | [] => bad_args
  end.

(* [v; pad; bytes...]: decode bytes followed by `pad` zero bytes (a large opaque payload), short form *)
Definition entry_spec_decode_padded (s : list Z) : list Z :=
  match s with
  | v :: pad :: bs =>
      match spec_decode (version_of_Z v) (bs ++ repeat 0 (Z.to_nat pad)) with
      | Some (p, r) => 1 :: (len bs + pad - len r) :: packet_flat true p
      | None => [0]
      end
  | _ => bad_args
  end.

Definition packet_type (p : packet) : Z :=
  match p with
  | PConnect _ _ _ _ _ _ _ _ _ => 1 | PPublish _ _ _ _ _ _ _ => 3 | PAck k _ _ _ => k
  | PSubscribe _ _ _ => 8 | PUnsubscribe _ _ _ => 10 | PPingreq => 12 | PPingresp => 13 | PDisconnect _ _ => 14
  end.

(* a whole byte stream: [v; bytes...] -> [1; type of each packet...] or [0] *)
Definition entry_stream_decode (s : list Z) : list Z :=
  match s with
  | v :: bs =>
      match spec_decode_all (length bs) (version_of_Z v) bs with
      | Some l => 1 :: map packet_type l
      | None => [0]
      end
  | [] => bad_args
  end.

Definition entry_utf8_ok (s : list Z) : list Z := [fb (utf8_ok s)].

(* ---- clean flag: [v; clean_session; op...] with op 0 connect(FIRST_ONLY) 1 connect(True) 2 connect(False)
   3 reconnect 4 CONNACK processed 5 loss 6/7/8 connect_async(FIRST_ONLY/True/False)
   -> for every CONNECT: [issued by connect(); flag bit] *)
Definition cop_of_Z (x : Z) : cop :=
  if x =? 0 then KConnect CS_first_only else if x =? 1 then KConnect CS_true else if x =? 2 then KConnect CS_false
  else if x =? 3 then KReconnect else if x =? 4 then KConnack else if x =? 5 then KLoss
  else if x =? 6 then KConnectAsync CS_first_only else if x =? 7 then KConnectAsync CS_true
  else KConnectAsync CS_false.

Definition entry_clean (s : list Z) : list Z :=
  match s with
  | v :: cls :: ops =>
      concat (map (fun e => [fb (e_by_connect e); fb (e_flag e)])
                  (crun (version_of_Z v) (z2b cls) cstate0 (map cop_of_Z ops)))
  | _ => bad_args
  end.

(* the single-argument clean_flag function: [v; clean_session; clean_start(1/0/3); first_connect] *)
Definition entry_clean_flag (s : list Z) : list Z :=
  match s with
  | [v; cls; cs; f] =>
      [fb (clean_flag (version_of_Z v) (z2b cls)
             (if cs =? 1 then CS_true else if cs =? 0 then CS_false else CS_first_only) (z2b f))]
  | _ => bad_args
  end.
