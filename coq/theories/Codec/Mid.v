(* M1: packet identifier allocation (client.py _mid_generate). Model only, no proofs. *)
From PahoV Require Import Base.Prelude.

(* self._last_mid += 1; if self._last_mid == 65536: self._last_mid = 1; return self._last_mid *)
Definition mid_next (m : Z) : Z := if m + 1 =? 65536 then 1 else m + 1.

(* k successive allocations starting from _last_mid = m: the returned values, oldest first *)
Fixpoint mid_seq (k : nat) (m : Z) : list Z :=
  match k with
  | O => []
  | S k' => mid_next m :: mid_seq k' (mid_next m)
  end.

Fixpoint mid_iter (k : nat) (m : Z) : Z :=
  match k with
  | O => m
  | S k' => mid_iter k' (mid_next m)
  end.

(* correspondence entry: [start; count] -> the last returned mid and a checksum of all *)
Definition entry_mid (args : list Z) : list Z :=
  match args with
  | [m; k] => mid_seq (Z.to_nat k) m
  | _ => []
  end.
