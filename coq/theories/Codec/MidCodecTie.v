(* C14 x C04: the packet ids the allocator hands out meet the codec's packet-id hypothesis (mid_ok),
   so the round-trip theorems of C04 apply to every id a client can ever put on the wire. *)
From PahoV Require Import Base.Prelude Codec.Mid Codec.MidProofs Codec.RemLen Codec.Wire Codec.Packets
  Codec.SpecDecode Codec.PacketsSpec Codec.PacketsProofs.

Lemma mid_next_representable m : 0 <= m <= 65535 -> mid_ok (mid_next m) = true.
Proof. intros H. pose proof (mid_next_range m H). unfold mid_ok. lia. Qed.

Lemma mid_iter_representable k m : 0 <= m <= 65535 -> (0 < k)%nat -> mid_ok (mid_iter k m) = true.
Proof. intros H Hk. pose proof (mid_iter_range k m H Hk). unfold mid_ok. lia. Qed.

Lemma ack_roundtrip_generated v kind k m rest : ack_kind_ok kind = true -> 0 <= m <= 65535 -> (0 < k)%nat ->
  spec_decode v (ack_bytes kind (mid_iter k m) ++ rest) = Some (PAck kind (mid_iter k m) 0 [], rest).
Proof. intros Hk Hm Hpos. apply ack_roundtrip; [assumption | apply mid_iter_representable; assumption]. Qed.
