(* Correspondence entry points (list Z -> list Z) for the models and specifications of C19.
   Encoding (see harness/c19.py):
     bytes    [len; b1; ...; blen]
     version  3 | 4 | 5
     item     0 bytes (str) | 1 bytes (bytes object) | 2 (None) | 3 (other)
     second   0 q (int) | 1 ob (SubscribeOptions, packed byte) | 2 _ (other)      -- always two integers
     optarg   0 _ (None) | 1 ob | 2 _ (other)                                     -- always two integers
     elem     0 item second | 1 (wrong arity) | 2 (not iterable)
     topic    0 item | 1 item second | 2 (tuple of wrong length) | 3 n elem*n
     result   Ok -> 0 :: payload | Raise k -> [k] | OutOfFuel -> [-1] | undecodable input -> [-2]
   No proofs. *)
From PahoV Require Import Base.Prelude Codec.Validate Codec.ValidateSpec.

Definition b2z (b : bool) : Z := if b then 1 else 0.

Definition take_bytes (l : list Z) : option (list Z * list Z) :=
  match l with
  | n :: rest => if n <? 0 then None
                 else Some (firstn (Z.to_nat n) rest, skipn (Z.to_nat n) rest)
  | [] => None
  end.

Definition dec_version (x : Z) : version :=
  if x =? 3 then V31 else if x =? 5 then V5 else V311.

Definition dec_pkind (x : Z) : pkind :=
  if x =? 0 then PStr else if x =? 1 then PBytes else if x =? 2 then PBytearray
  else if x =? 3 then PInt else if x =? 4 then PFloat else if x =? 5 then PNone else POther.

Definition parse_item (l : list Z) : option (item * list Z) :=
  match l with
  | k :: rest =>
      if k =? 0 then match take_bytes rest with Some (s, r) => Some (IStr s, r) | None => None end
      else if k =? 1 then match take_bytes rest with Some (s, r) => Some (IBytes s, r) | None => None end
      else if k =? 2 then Some (INone, rest)
      else Some (IOther, rest)
  | [] => None
  end.

Definition parse_second (l : list Z) : option (second * list Z) :=
  match l with
  | k :: x :: rest =>
      Some (if k =? 0 then QInt x else if k =? 1 then QOpts x else QOther, rest)
  | _ => None
  end.

Definition parse_optarg (l : list Z) : option (optarg * list Z) :=
  match l with
  | k :: x :: rest =>
      Some (if k =? 0 then OAbsent else if k =? 1 then OOpts x else OOther, rest)
  | _ => None
  end.

Definition parse_elem (l : list Z) : option (elem * list Z) :=
  match l with
  | k :: rest =>
      if k =? 0 then
        match parse_item rest with
        | Some (i, r1) => match parse_second r1 with
                          | Some (q, r2) => Some (EPair i q, r2)
                          | None => None
                          end
        | None => None
        end
      else if k =? 1 then Some (EBadArity, rest)
      else Some (ENotIterable, rest)
  | [] => None
  end.

Fixpoint parse_elems (n : nat) (l : list Z) : option (list elem * list Z) :=
  match n with
  | O => Some ([], l)
  | S n' => match parse_elem l with
            | Some (e, r) => match parse_elems n' r with
                             | Some (es, r') => Some (e :: es, r')
                             | None => None
                             end
            | None => None
            end
  end.

Fixpoint parse_items (n : nat) (l : list Z) : option (list item * list Z) :=
  match n with
  | O => Some ([], l)
  | S n' => match parse_item l with
            | Some (e, r) => match parse_items n' r with
                             | Some (es, r') => Some (e :: es, r')
                             | None => None
                             end
            | None => None
            end
  end.

Definition parse_topic (l : list Z) : option (sub_topic * list Z) :=
  match l with
  | k :: rest =>
      if k =? 0 then match parse_item rest with Some (i, r) => Some (TItem i, r) | None => None end
      else if k =? 1 then
        match parse_item rest with
        | Some (i, r1) => match parse_second r1 with
                          | Some (q, r2) => Some (TTuple i q, r2)
                          | None => None
                          end
        | None => None
        end
      else if k =? 2 then Some (TTupleBad, rest)
      else match rest with
           | n :: rest' => if n <? 0 then None
                           else match parse_elems (Z.to_nat n) rest' with
                                | Some (es, r) => Some (TList es, r)
                                | None => None
                                end
           | [] => None
           end
  | [] => None
  end.

(* [v; qos; optarg(2); topic...] *)
Definition parse_sub_call (l : list Z) : option (version * sub_arg) :=
  match l with
  | v :: q :: rest =>
      match parse_optarg rest with
      | Some (o, r1) => match parse_topic r1 with
                        | Some (t, []) => Some (dec_version v, mk_sub_arg t q o)
                        | _ => None
                        end
      | None => None
      end
  | _ => None
  end.

Definition parse_unsub_call (l : list Z) : option unsub_arg :=
  match l with
  | k :: rest =>
      if k =? 0 then match parse_item rest with Some (i, []) => Some (UItem i) | _ => None end
      else match rest with
           | n :: rest' => if n <? 0 then None
                           else match parse_items (Z.to_nat n) rest' with
                                | Some (is, []) => Some (UList is)
                                | _ => None
                                end
           | [] => None
           end
  | [] => None
  end.

Definition enc_bytes (s : list Z) : list Z := Z.of_nat (length s) :: s.

Definition enc_res {A} (enc : A -> list Z) (r : res A) : list Z :=
  match r with
  | Ok a => 0 :: enc a
  | Raise k => [k]
  | OutOfFuel => [-1]
  end.

Definition enc_pairs (l : list (filter * opts)) : list Z :=
  Z.of_nat (length l) :: flat_map (fun p => enc_bytes (fst p) ++ [snd p]) l.

Definition enc_filters (l : list filter) : list Z :=
  Z.of_nat (length l) :: flat_map enc_bytes l.

(* 1: _filter_wildcard_len_check model *)
Definition entry_filter_check (args : list Z) : list Z :=
  match take_bytes args with
  | Some (s, []) => [filter_check s]
  | _ => [-2]
  end.

(* 2: the MQTT 4.7 filter grammar *)
Definition entry_spec_filter_ok (args : list Z) : list Z :=
  match take_bytes args with
  | Some (s, []) => [b2z (spec_filter_ok s)]
  | _ => [-2]
  end.

(* 3: _raise_for_invalid_topic model *)
Definition entry_topic_check (args : list Z) : list Z :=
  match take_bytes args with
  | Some (s, []) => enc_res (fun _ => []) (topic_check s)
  | _ => [-2]
  end.

(* 4: publish() checks: [v; qos; kind; plen; proplen; topic bytes] *)
Definition entry_publish_args_check (args : list Z) : list Z :=
  match args with
  | v :: q :: k :: n :: pl :: rest =>
      match take_bytes rest with
      | Some (s, []) => enc_res (fun _ => []) (publish_args_check (dec_version v) s q (dec_pkind k) n pl)
      | _ => [-2]
      end
  | _ => [-2]
  end.

(* 5: subscribe() normalisation *)
Definition entry_subscribe_norm (args : list Z) : list Z :=
  match parse_sub_call args with
  | Some (v, a) => enc_res enc_pairs (subscribe_norm v a)
  | None => [-2]
  end.

(* 6: the docstring's contract: [documented_ok; documented_shape] *)
Definition entry_documented_ok (args : list Z) : list Z :=
  match parse_sub_call args with
  | Some (v, a) => [b2z (documented_ok v a); b2z (documented_shape v a)]
  | None => [-2]
  end.

(* 7: unsubscribe() normalisation *)
Definition entry_unsubscribe_norm (args : list Z) : list Z :=
  match parse_unsub_call args with
  | Some a => enc_res enc_filters (unsubscribe_norm a)
  | None => [-2]
  end.

(* 8: the publish() contract: same input as 4 -> [spec_publish_ok; spec_topic_ok] *)
Definition entry_spec_publish_ok (args : list Z) : list Z :=
  match args with
  | v :: q :: k :: n :: pl :: rest =>
      match take_bytes rest with
      | Some (s, []) => [b2z (spec_publish_ok (dec_version v) s q (dec_pkind k) n pl);
                         b2z (spec_topic_ok (dec_version v) s)]
      | _ => [-2]
      end
  | _ => [-2]
  end.

(* 9: the unsubscribe() contract *)
Definition entry_unsub_documented_ok (args : list Z) : list Z :=
  match parse_unsub_call args with
  | Some a => [b2z (unsub_documented_ok a)]
  | None => [-2]
  end.

(* combined entries (one pass over large batches) *)
(* 10: bytes -> [filter_check; spec_filter_ok; topic_check result code] *)
Definition entry_strings_all (args : list Z) : list Z :=
  match take_bytes args with
  | Some (s, []) => filter_check s :: b2z (spec_filter_ok s) :: enc_res (fun _ => []) (topic_check s)
  | _ => [-2]
  end.

(* 11: input of 4 -> [publish_args_check result code; spec_publish_ok; spec_topic_ok] *)
Definition entry_publish_both (args : list Z) : list Z :=
  match args with
  | v :: q :: k :: n :: pl :: rest =>
      match take_bytes rest with
      | Some (s, []) =>
          enc_res (fun _ => []) (publish_args_check (dec_version v) s q (dec_pkind k) n pl) ++
          [b2z (spec_publish_ok (dec_version v) s q (dec_pkind k) n pl); b2z (spec_topic_ok (dec_version v) s)]
      | _ => [-2]
      end
  | _ => [-2]
  end.

(* 12: input of 5 -> documented_ok :: documented_shape :: result of 5 *)
Definition entry_subscribe_both (args : list Z) : list Z :=
  match parse_sub_call args with
  | Some (v, a) => b2z (documented_ok v a) :: b2z (documented_shape v a) :: enc_res enc_pairs (subscribe_norm v a)
  | None => [-2]
  end.

(* 13: proplen :: input of 5 -> [documented_ok; documented_shape; spec remaining length of the
   documented request] ++ result of subscribe() on a connected client *)
Definition entry_subscribe_connected (args : list Z) : list Z :=
  match args with
  | pl :: rest =>
      match parse_sub_call rest with
      | Some (v, a) =>
          b2z (documented_ok v a) :: b2z (documented_shape v a)
          :: spec_subscribe_remaining_length v pl (documented_request v a)
          :: enc_res enc_pairs (subscribe_connected v pl a)
      | None => [-2]
      end
  | [] => [-2]
  end.
