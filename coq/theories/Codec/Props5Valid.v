(* Property codec: what one assignment does (generic in the tables), and what a successful pack() implies. *)
From PahoV Require Import Base.Prelude Codec.StrBytes Codec.Utf8 Codec.VBI Codec.VBIProofs Codec.PropSpec
  Codec.Props5 Codec.Props5Defs Codec.Props5Lemmas Codec.Props5Pack Codec.Props5Unpack.

Lemma bind_ok {A B} (r : res A) (f : A -> res B) b : bind r f = Ok b -> exists a, r = Ok a /\ f a = Ok b.
Proof. destruct r as [a| |]; cbn [bind]; try discriminate. eauto. Qed.

(* ---- store ---- *)
Lemma assoc_store_same i x (st : pstate) : assoc i (store i x st) = Some x.
Proof.
  induction st as [|[k y] r IH]; cbn [store assoc].
  - rewrite Z.eqb_refl. reflexivity.
  - destruct (k =? i) eqn:E; cbn [assoc]; rewrite E; [reflexivity|exact IH].
Qed.

Lemma assoc_store_other i j x (st : pstate) : j <> i -> assoc j (store i x st) = assoc j st.
Proof.
  intros H. induction st as [|[k y] r IH]; cbn [store assoc].
  - destruct (i =? j) eqn:E; [apply Z.eqb_eq in E; congruence|reflexivity].
  - destruct (k =? i) eqn:E; cbn [assoc].
    + apply Z.eqb_eq in E. subst k. destruct (i =? j) eqn:E2; [apply Z.eqb_eq in E2; congruence|reflexivity].
    + destruct (k =? j); [reflexivity|exact IH].
Qed.

Lemma forallb_store (P : Z * passign -> bool) i x st :
  P (i, x) = true -> forallb P st = true -> forallb P (store i x st) = true.
Proof.
  intros Hx. induction st as [|[k y] r IH]; cbn [store forallb]; intros H.
  - rewrite Hx. reflexivity.
  - apply andb_true_iff in H as [H1 H2]. destruct (k =? i) eqn:E; cbn [forallb].
    + apply Z.eqb_eq in E. subst k. rewrite Hx, H2. reflexivity.
    + rewrite H1, (IH H2). reflexivity.
Qed.

(* ---- one assignment of a single value under a name of the table ---- *)
Lemma setattr_single T pt st n i name ty pts v : tables_ok T = true -> In (n, i) (t_names T) ->
  compress name = compress n -> assoc i (t_table T) = Some (ty, pts) ->
  setattr T pt st name (One v) =
    if negb (memz pt pts) then (if (- t_npackets T <=? pt) && (pt <? t_npackets T) then Raise 3 else Raise 6)
    else match range_check (t_groups T) (compress n) v with
         | Ok _ =>
             if memz i (t_multi T) then
               match assoc i st with
               | None => Ok (store i (Many [v]) st)
               | Some (Many old) => Ok (store i (Many (old ++ [v])) st)
               | Some (One _) => Raise 2
               end
             else Ok (store i (One v) st)
         | Raise k => Raise k
         | OutOfFuel => OutOfFuel
         end.
Proof.
  intros HT I Hn A. destruct (tables_ok_row T n i HT I) as [F1 F2 F3 F4 F5 _].
  unfold setattr. rewrite Hn, F3, F4. cbn [negb]. rewrite F1, A.
  destruct (negb (memz pt pts)); [reflexivity|]. cbn [checked_items range_check_all].
  destruct (range_check (t_groups T) (compress n) v) as [[]| |]; cbn [bind]; try reflexivity.
  unfold allows_multiple. rewrite F1. reflexivity.
Qed.

Lemma setattr_list T pt st n i name ty pts l : tables_ok T = true -> In (n, i) (t_names T) ->
  compress name = compress n -> assoc i (t_table T) = Some (ty, pts) ->
  setattr T pt st name (Many l) =
    if negb (memz pt pts) then (if (- t_npackets T <=? pt) && (pt <? t_npackets T) then Raise 3 else Raise 6)
    else match range_check_all (t_groups T) (compress n) l with
         | Ok _ =>
             if memz i (t_multi T) then
               match assoc i st with
               | None => Ok (store i (Many l) st)
               | Some (Many old) => Ok (store i (Many (old ++ l)) st)
               | Some (One _) => Raise 2
               end
             else Ok (store i (Many l) st)
         | Raise k => Raise k
         | OutOfFuel => OutOfFuel
         end.
Proof.
  intros HT I Hn A. destruct (tables_ok_row T n i HT I) as [F1 F2 F3 F4 F5 _].
  unfold setattr. rewrite Hn, F3, F4. cbn [negb]. rewrite F1, A.
  destruct (negb (memz pt pts)); [reflexivity|]. unfold checked_items. rewrite (tables_ok_each T HT).
  destruct (range_check_all (t_groups T) (compress n) l) as [[]| |]; cbn [bind]; try reflexivity.
  unfold allows_multiple. rewrite F1. reflexivity.
Qed.

(* every element of a list that passed the checks passed them individually *)
Lemma range_check_all_in groups cn l v : range_check_all groups cn l = Ok tt -> In v l ->
  range_check groups cn v = Ok tt.
Proof.
  induction l as [|x r IH]; intros H Hin; [contradiction|]. cbn [range_check_all] in H.
  apply bind_ok in H as [[] [H1 H2]]. destruct Hin as [<-|Hin]; [exact H1|exact (IH H2 Hin)].
Qed.

(* an unknown name (and not one of the object's own attributes) is refused *)
Lemma setattr_unknown T pt st name a :
  existsb (zlist_eqb (compress name)) (t_private T) = false ->
  name_known (t_names T) (compress name) = false -> setattr T pt st name a = Raise 3.
Proof. intros H1 H2. unfold setattr. rewrite H1, H2. reflexivity. Qed.

(* ---- a successful pack() wrote every stored attribute ---- *)
Lemma pack_names_ok_inv T st : tables_ok T = true -> forall ns, incl ns (t_names T) ->
  forall body, pack_names T ns st = Ok body ->
  forall n i s, In (n, i) ns -> assoc i st = Some s ->
  exists ty pts e, assoc i (t_table T) = Some (ty, pts) /\ write_stored (memz i (t_multi T)) i ty s = Ok e.
Proof.
  intros HT. induction ns as [|[n0 i0] r IH]; intros Hincl body HP n i s Hin A; [contradiction|].
  assert (I0 : In (n0, i0) (t_names T)) by (apply Hincl; left; reflexivity).
  destruct (tables_ok_row T n0 i0 HT I0) as [F1 _ _ _ _ _].
  cbn [pack_names] in HP. rewrite F1 in HP. unfold allows_multiple in HP. rewrite F1 in HP.
  assert (Hr : incl r (t_names T)) by exact (fun x Hx => Hincl x (or_intror Hx)).
  destruct Hin as [E|Hin].
  - injection E as -> ->. rewrite A in HP. destruct (assoc i (t_table T)) as [[ty pts]|]; [|discriminate].
    apply bind_ok in HP as [e [E1 _]]. eauto.
  - destruct (assoc i0 st) as [s0|].
    + destruct (assoc i0 (t_table T)) as [[ty0 pts0]|]; [|discriminate].
      apply bind_ok in HP as [e0 [_ HP]]. apply bind_ok in HP as [rest [HP _]].
      exact (IH Hr rest HP n i s Hin A).
    + exact (IH Hr body HP n i s Hin A).
Qed.

Lemma pack_ok_inv T st b n i s : tables_ok T = true -> pack T st = Ok b -> In (n, i) (t_names T) ->
  assoc i st = Some s ->
  exists ty pts e, assoc i (t_table T) = Some (ty, pts) /\ write_stored (memz i (t_multi T)) i ty s = Ok e.
Proof.
  intros HT HP I A. unfold pack in HP. apply bind_ok in HP as [body [HP _]].
  exact (pack_names_ok_inv T st HT (t_names T) (incl_refl _) body HP n i s I A).
Qed.

Lemma write_many_app_inv i ty a v e : write_many i ty (a ++ [v]) = Ok e -> exists e', write_property i ty v = Ok e'.
Proof.
  revert e. induction a as [|x r IH]; intros e H; cbn [app write_many] in H.
  - apply bind_ok in H as [e' [H _]]. eauto.
  - apply bind_ok in H as [e0 [_ H]]. apply bind_ok in H as [rest [H _]]. eauto.
Qed.

Lemma write_many_in_inv i ty l v e : write_many i ty l = Ok e -> In v l -> exists e', write_property i ty v = Ok e'.
Proof.
  revert e. induction l as [|x r IH]; intros e H Hin; [contradiction|]. cbn [write_many] in H.
  apply bind_ok in H as [e1 [H1 H]]. apply bind_ok in H as [rest [H2 _]].
  destruct Hin as [<-|Hin]; eauto.
Qed.

(* an integer that the data type cannot carry is refused by writeProperty *)
Lemma write_value_unfit w x e : spec_fits w (VInt x) = false -> write_value (wtype_index w) (VInt x) <> Ok e.
Proof.
  intros H. destruct w; cbn [spec_fits] in H; unfold write_value; cbn [wtype_index Z.eqb Pos.eqb];
    try discriminate.
  - rewrite H. discriminate.
  - unfold write_int16. rewrite H. discriminate.
  - unfold write_int32. rewrite H. discriminate.
  - unfold zin in H. rewrite vbi_rejects by (unfold vbi_max; lia). discriminate.
Qed.

Lemma write_property_value i ty v e : write_property i ty v = Ok e -> exists e', write_value ty v = Ok e'.
Proof. unfold write_property. intros H. apply bind_ok in H as [h [_ H]]. apply bind_ok in H as [e' [H _]]. eauto. Qed.
