(* The fuel handed to the while loop of unpack() is always enough: OutOfFuel is never returned. *)
From PahoV Require Import Base.Prelude Codec.StrBytes Codec.Utf8 Codec.VBI Codec.PropSpec Codec.Props5.

Lemma vbi_dec_loop_fuel : forall buf m v n, vbi_dec_loop buf m v n <> OutOfFuel.
Proof. induction buf as [|d r IH]; intros m v n; cbn [vbi_dec_loop]; [discriminate|]. case_if; [discriminate|apply IH]. Qed.

(* a successful decode used at least one byte and no more than there are *)
Lemma vbi_dec_loop_used : forall buf m v n x k, vbi_dec_loop buf m v n = Ok (x, k) ->
  n + 1 <= k <= n + Z.of_nat (length buf).
Proof.
  induction buf as [|d r IH]; intros m v n x k H; cbn [vbi_dec_loop] in H; [discriminate|].
  cbn [length]. case_if_in H.
  - inv H. lia.
  - apply IH in H. lia.
Qed.

Lemma bind_fuel {A B} (r : res A) (f : A -> res B) :
  r <> OutOfFuel -> (forall a, r = Ok a -> f a <> OutOfFuel) -> bind r f <> OutOfFuel.
Proof. destruct r; cbn [bind]; intros H1 H2; [apply H2; reflexivity|discriminate|congruence]. Qed.

Lemma read_int16_fuel buf : read_int16 buf <> OutOfFuel.
Proof. unfold read_int16. destruct buf as [|a [|b r]]; discriminate. Qed.
Lemma read_int32_fuel buf : read_int32 buf <> OutOfFuel.
Proof. unfold read_int32. destruct buf as [|a [|b [|c [|d r]]]]; discriminate. Qed.

Lemma read_utf_fuel buf m : read_utf buf m <> OutOfFuel.
Proof.
  unfold read_utf. case_if; [discriminate|]. apply bind_fuel; [apply read_int16_fuel|].
  intros len _. repeat case_if; discriminate.
Qed.

Lemma read_property_fuel ty buf m : read_property ty buf m <> OutOfFuel.
Proof.
  unfold read_property. repeat case_if; try discriminate.
  - destruct buf; discriminate.
  - apply bind_fuel; [apply read_int16_fuel|discriminate].
  - apply bind_fuel; [apply read_int32_fuel|discriminate].
  - apply bind_fuel; [apply vbi_dec_loop_fuel|discriminate].
  - unfold read_bytes. apply bind_fuel; [apply bind_fuel; [apply read_int16_fuel|discriminate]|discriminate].
  - apply bind_fuel; [apply read_utf_fuel|discriminate].
  - apply bind_fuel; [apply read_utf_fuel|]. intros r1 _. apply bind_fuel; [apply read_utf_fuel|discriminate].
Qed.

Lemma range_check_fuel groups cn v : range_check groups cn v <> OutOfFuel.
Proof.
  induction groups as [|[[ns kind] ps] r IH]; cbn [range_check]; [discriminate|].
  case_if; [|exact IH]. unfold group_fails. case_if.
  - destruct ps as [|lo [|hi [|]]], v; try discriminate. case_if; [discriminate|exact IH].
  - destruct v; try discriminate. case_if; [discriminate|exact IH].
Qed.

Lemma range_check_all_fuel groups cn l : range_check_all groups cn l <> OutOfFuel.
Proof.
  induction l as [|v r IH]; cbn [range_check_all]; [discriminate|].
  apply bind_fuel; [apply range_check_fuel|]. intros _ _. exact IH.
Qed.

Lemma setattr_fuel T pt st name a : setattr T pt st name a <> OutOfFuel.
Proof.
  unfold setattr. cbv zeta.
  destruct (existsb (zlist_eqb (compress name)) (t_private T)); [discriminate|].
  destruct (negb (name_known (t_names T) (compress name))); [discriminate|].
  destruct (assoc _ (t_table T)) as [[ty pts]|]; [|discriminate].
  destruct (negb (memz pt pts)).
  - destruct ((- t_npackets T <=? pt) && (pt <? t_npackets T)); discriminate.
  - apply bind_fuel.
    + apply range_check_all_fuel.
    + intros _ _. destruct (allows_multiple T (compress name)); [|discriminate].
      destruct (assoc _ st) as [[u|old]|]; discriminate.
Qed.

Lemma unpack_loop_fuel T pt : forall fuel buf left st, (length buf < fuel)%nat ->
  unpack_loop T pt fuel buf left st <> OutOfFuel.
Proof.
  induction fuel as [|f IH]; intros buf left st Hf; [lia|].
  cbn [unpack_loop]. case_if; [discriminate|].
  apply bind_fuel; [apply vbi_dec_loop_fuel|]. intros [id k] Hd. cbn [fst snd].
  apply vbi_dec_loop_used in Hd.
  destruct (assoc id (t_table T)) as [[ty pts]|]; [|discriminate].
  apply bind_fuel; [apply read_property_fuel|]. intros [v vl] _. cbn [fst snd].
  destruct (get_name (t_names T) id) as [pn|]; [|discriminate].
  case_if; [discriminate|].
  apply bind_fuel; [apply setattr_fuel|]. intros st' _. apply IH.
  rewrite !skipn_length. lia.
Qed.

Lemma unpack_fuel T pt buf : unpack T pt buf <> OutOfFuel.
Proof.
  unfold unpack. apply bind_fuel; [apply vbi_dec_loop_fuel|]. intros [len k] _. cbn [fst snd].
  apply bind_fuel; [|discriminate]. apply unpack_loop_fuel. rewrite skipn_length. lia.
Qed.
