(* Proofs for C19: the code's checks (Codec/Validate.v) against the specification
   (Codec/ValidateSpec.v). *)
From PahoV Require Import Base.Prelude Base.SplitLemmas Codec.Validate Codec.ValidateSpec.

(* ------------------------------------------------------------------ small facts *)

Lemma mem_has_byte c s : mem c s = has_byte c s.
Proof.
  unfold mem, has_byte. induction s as [|x s IH]; [reflexivity|].
  cbn [existsb]. rewrite IH, (Z.eqb_sym x c). reflexivity.
Qed.

Lemma has_byte_In c s : has_byte c s = true <-> In c s.
Proof. apply existsb_eqb_In. Qed.

Lemma has_byte_notIn c s : has_byte c s = false <-> ~ In c s.
Proof. apply existsb_eqb_notIn. Qed.

Lemma blen_nonneg s : 0 <= blen s.
Proof. unfold blen. lia. Qed.

Lemma blen_zero s : (blen s =? 0) = true <-> s = [].
Proof.
  unfold blen. destruct s; cbn [length]; split; intro H; try reflexivity; try discriminate; lia.
Qed.

Lemma blen_zero_nat s : (blen s =? 0) = Nat.eqb (length s) 0.
Proof. unfold blen. destruct s; cbn [length Nat.eqb]; [reflexivity|]. lia. Qed.

Lemma blen_gtb s n : (blen s >? n) = negb (Z.of_nat (length s) <=? n).
Proof. unfold blen. lia. Qed.

(* ------------------------------------------------------------------ the spec's own splitter *)

Lemma spec_levels_acc_split s : forall cur,
  spec_levels_acc cur s =
  match split_on 47 s with
  | p :: ps => (rev cur ++ p) :: ps
  | [] => []
  end.
Proof.
  induction s as [|c s IH]; intros cur.
  - cbn [spec_levels_acc split_on]. rewrite rev_append_rev. reflexivity.
  - cbn [spec_levels_acc split_on]. destruct (c =? 47) eqn:E.
    + rewrite rev_append_rev. rewrite (IH []). cbn [rev app].
      destruct (split_on 47 s) eqn:Es; [exfalso; eapply split_on_nonempty; eassumption|reflexivity].
    + rewrite (IH (c :: cur)).
      destruct (split_on 47 s) as [|p ps] eqn:Es; [exfalso; eapply split_on_nonempty; eassumption|].
      cbn [rev]. rewrite <- app_assoc. reflexivity.
Qed.

Lemma spec_levels_split s : spec_levels s = split_on 47 s.
Proof.
  unfold spec_levels. rewrite spec_levels_acc_split. cbn [rev app].
  destruct (split_on 47 s) eqn:E; [exfalso; eapply split_on_nonempty; eassumption|reflexivity].
Qed.

(* ------------------------------------------------------------------ one level *)

Lemma has_byte_cons c x s : has_byte c (x :: s) = (c =? x) || has_byte c s.
Proof. reflexivity. Qed.

(* the code's per-level test against the spec's, for the last level ... *)
Lemma level_bad_last p : level_bad p = negb (spec_level_ok true p).
Proof.
  unfold level_bad, spec_level_ok. rewrite !mem_has_byte.
  destruct p as [|c [|d p']].
  - reflexivity.
  - cbn [zlist_eqb]. rewrite !andb_true_r. unfold blen. cbn [length].
    rewrite !has_byte_cons. cbn [has_byte existsb]. rewrite !orb_false_r.
    rewrite (Z.eqb_sym 43 c), (Z.eqb_sym 35 c).
    destruct (c =? 43) eqn:E1; [reflexivity|]. destruct (c =? 35) eqn:E2; reflexivity.
  - cbn [zlist_eqb]. rewrite !andb_false_r.
    assert (H : (blen (c :: d :: p') >? 1) = true) by (unfold blen; cbn [length]; lia).
    rewrite H. cbn [andb]. rewrite negb_andb, !negb_involutive. reflexivity.
Qed.

(* ... and for a level that is followed by a '/' (where "#" alone is not allowed either; the code
   catches that case with its  b'#/' in sub  test) *)
Lemma level_bad_inner p : level_bad p || ends_with 35 p = negb (spec_level_ok false p).
Proof.
  unfold level_bad, spec_level_ok. rewrite !mem_has_byte.
  destruct p as [|c [|d p']].
  - reflexivity.
  - cbn [zlist_eqb ends_with]. rewrite !andb_true_r. unfold blen. cbn [length].
    rewrite !has_byte_cons. cbn [has_byte existsb]. rewrite !orb_false_r.
    rewrite (Z.eqb_sym 43 c), (Z.eqb_sym 35 c).
    destruct (c =? 43) eqn:E1; destruct (c =? 35) eqn:E2; try reflexivity.
    apply Z.eqb_eq in E1, E2. lia.
  - cbn [zlist_eqb]. rewrite !andb_false_r.
    assert (H : (blen (c :: d :: p') >? 1) = true) by (unfold blen; cbn [length]; lia).
    rewrite H. cbn [andb]. rewrite negb_andb, !negb_involutive.
    destruct (ends_with 35 (c :: d :: p')) eqn:E; [|apply orb_false_r].
    apply ends_with_In in E. apply has_byte_In in E. rewrite E.
    rewrite !orb_true_r. reflexivity.
Qed.

(* ------------------------------------------------------------------ all levels: induction over the split *)

Lemma levels_main s :
  existsb level_bad (split_on 47 s) || infixb [35; 47] s = negb (spec_levels_ok (split_on 47 s)).
Proof.
  induction s as [p Hp | p r Hp IH] using (split_ind 47).
  - rewrite split_on_nosep by assumption. cbn [existsb spec_levels_ok].
    rewrite infixb2_nosep by assumption. rewrite !orb_false_r. apply level_bad_last.
  - rewrite split_on_app_sep by assumption.
    rewrite infixb2_app_sep by (assumption || lia).
    destruct (split_on 47 r) as [|q qs] eqn:E; [exfalso; eapply split_on_nonempty; eassumption|].
    change (spec_levels_ok (p :: q :: qs)) with (spec_level_ok false p && spec_levels_ok (q :: qs)).
    rewrite negb_andb, <- IH, <- level_bad_inner.
    change (existsb level_bad (p :: q :: qs)) with (level_bad p || existsb level_bad (q :: qs)).
    destruct (level_bad p), (ends_with 35 p), (existsb level_bad (q :: qs)), (infixb [35; 47] r); reflexivity.
Qed.

(* C19.1 in boolean form: for every byte string the code's answer is the spec's *)
Lemma filter_check_spec s : filter_check s = if spec_filter_ok s then OK else INVAL.
Proof.
  unfold filter_check, spec_filter_ok. rewrite spec_levels_split, levels_main.
  rewrite blen_zero_nat, blen_gtb.
  destruct (Nat.eqb (length s) 0), (Z.of_nat (length s) <=? 65535), (spec_levels_ok (split_on 47 s)); reflexivity.
Qed.

Lemma filter_grammar s : filter_check s = OK <-> spec_filter_ok s = true.
Proof.
  rewrite filter_check_spec. destruct (spec_filter_ok s); unfold OK, INVAL; split; intro H;
    try reflexivity; discriminate.
Qed.

Lemma filter_check_eqb s : (filter_check s =? OK) = spec_filter_ok s.
Proof. rewrite filter_check_spec. destruct (spec_filter_ok s); reflexivity. Qed.

Lemma filter_check_values s : filter_check s = OK \/ filter_check s = INVAL.
Proof. rewrite filter_check_spec. destruct (spec_filter_ok s); [left|right]; reflexivity. Qed.

(* the grammar spelled out in Prop, as a reading aid for spec_filter_ok *)
Lemma spec_filter_ok_prop s :
  spec_filter_ok s = true <->
  s <> [] /\ Z.of_nat (length s) <= 65535 /\ spec_levels_ok (split_on 47 s) = true.
Proof.
  unfold spec_filter_ok. rewrite spec_levels_split.
  destruct s as [|c s'].
  - cbn. split; [discriminate|intros [H _]; contradiction].
  - change (Nat.eqb (length (c :: s')) 0) with false. cbn [negb andb].
    rewrite andb_true_iff, Z.leb_le. split.
    + intros [H1 H2]. repeat split; [discriminate|assumption|assumption].
    + intros (_ & H1 & H2). split; assumption.
Qed.

(* ------------------------------------------------------------------ publish() *)

Lemma topic_check_spec t :
  topic_check t = if negb (mem 43 t) && negb (mem 35 t) && (Z.of_nat (length t) <=? 65535) then Ok 0 else Raise 1.
Proof.
  unfold topic_check. rewrite !mem_has_byte, blen_gtb.
  destruct (has_byte 43 t), (has_byte 35 t), (Z.of_nat (length t) <=? 65535); reflexivity.
Qed.

Lemma topic_grammar t :
  topic_check t = Ok 0 <-> ~ In 43 t /\ ~ In 35 t /\ blen t <= 65535.
Proof.
  unfold topic_check. rewrite <- !has_byte_notIn.
  destruct (has_byte 43 t), (has_byte 35 t); cbn [orb];
    try (split; [discriminate|intros (H1 & H2 & _); discriminate]).
  destruct (blen t >? 65535) eqn:E; split.
  - discriminate.
  - intros (_ & _ & H). lia.
  - intros _. repeat split; lia.
  - reflexivity.
Qed.

Lemma topic_check_values t : topic_check t = Ok 0 \/ topic_check t = Raise 1.
Proof. rewrite topic_check_spec. case_if; [left|right]; reflexivity. Qed.

Lemma publish_remaining_length_spec v t q n pl :
  publish_remaining_length v t q n pl = spec_publish_remaining_length v t q n pl.
Proof.
  unfold publish_remaining_length, spec_publish_remaining_length, blen.
  destruct (q >? 0) eqn:E1; destruct (1 <=? q) eqn:E2; destruct (is_v5 v); lia.
Qed.

Lemma publish_check_spec v t q k n pl :
  publish_args_check v t q k n pl =
  if spec_publish_ok v t q k n pl then Ok 0
  else if spec_topic_ok v t && spec_qos_ok q && negb (spec_payload_type_ok k) then Raise 2
  else Raise 1.
Proof.
  unfold publish_args_check, spec_publish_ok, spec_topic_ok, spec_qos_ok.
  rewrite topic_check_spec, blen_zero_nat, publish_remaining_length_spec.
  assert (Hq : (q <? 0) || (q >? 2) = negb ((0 <=? q) && (q <=? 2))) by lia.
  rewrite Hq.
  assert (Hn : (spec_publish_remaining_length v t q n pl >? 268435455)
               = negb (spec_publish_remaining_length v t q n pl <=? 268435455)) by lia.
  rewrite Hn.
  assert (Hk : payload_supported k = spec_payload_type_ok k) by (destruct k; reflexivity).
  rewrite Hk.
  destruct (is_v5 v), (Nat.eqb (length t) 0), (negb (mem 43 t) && negb (mem 35 t) && (Z.of_nat (length t) <=? 65535)),
    ((0 <=? q) && (q <=? 2)), (spec_payload_type_ok k), (spec_publish_remaining_length v t q n pl <=? 268435455); reflexivity.
Qed.

Lemma spec_topic_ok_false v t : spec_topic_ok v t = false <-> topic_bad v t.
Proof.
  unfold spec_topic_ok, topic_bad. rewrite !mem_has_byte.
  destruct (has_byte 43 t) eqn:E43.
  { apply has_byte_In in E43. cbn [negb andb]. split; auto. }
  destruct (has_byte 35 t) eqn:E35.
  { apply has_byte_In in E35. cbn [negb andb]. split; auto. }
  apply has_byte_notIn in E43, E35. cbn [negb andb].
  destruct (Z.of_nat (length t) <=? 65535) eqn:El; cbn [andb].
  2:{ split; [intros _|reflexivity]. right; right; right. lia. }
  assert (Hl : ~ 65535 < Z.of_nat (length t)) by lia.
  destruct t as [|c t'].
  - destruct v; cbn [is_v5 orb length Nat.eqb negb].
    + split; [intros _|reflexivity]. right; right; left. split; [discriminate|reflexivity].
    + split; [intros _|reflexivity]. right; right; left. split; [discriminate|reflexivity].
    + split; [discriminate|]. intros [H|[H|[[H _]|H]]]; try contradiction; try (exfalso; apply H; reflexivity).
  - change (Nat.eqb (length (c :: t')) 0) with false. cbn [negb]. rewrite orb_true_r.
    split; [discriminate|]. intros [H|[H|[[_ H]|H]]]; try contradiction. discriminate.
Qed.

Lemma spec_topic_ok_true v t : spec_topic_ok v t = true <-> ~ topic_bad v t.
Proof.
  rewrite <- spec_topic_ok_false. destruct (spec_topic_ok v t); split; intro H; congruence.
Qed.

(* C19.2 *)
Lemma publish_rejects v t q k n pl :
  (publish_args_check v t q k n pl = Raise ValueError <->
     topic_bad v t \/ q < 0 \/ 2 < q \/
     (payload_supported k = true /\ 268435455 < spec_publish_remaining_length v t q n pl))
  /\ (publish_args_check v t q k n pl = Raise TypeError <->
     ~ topic_bad v t /\ 0 <= q <= 2 /\ k = POther)
  /\ (publish_args_check v t q k n pl = Ok 0 <->
     ~ topic_bad v t /\ 0 <= q <= 2 /\ k <> POther /\ spec_publish_remaining_length v t q n pl <= 268435455).
Proof.
  rewrite publish_check_spec. unfold spec_publish_ok, spec_qos_ok, ValueError, TypeError.
  destruct (spec_topic_ok v t) eqn:Et;
    [apply spec_topic_ok_true in Et|apply spec_topic_ok_false in Et];
    destruct ((0 <=? q) && (q <=? 2)) eqn:Eq;
    destruct (spec_publish_remaining_length v t q n pl <=? 268435455) eqn:En;
    destruct k; cbn [andb negb spec_payload_type_ok payload_supported];
    (split; [|split]; split; intros HH; try discriminate HH; try reflexivity;
     intuition (try lia; try congruence; try discriminate)).
Qed.

Lemma publish_accepts_documented v t q k n pl :
  publish_args_check v t q k n pl = Ok 0 <-> spec_publish_ok v t q k n pl = true.
Proof.
  rewrite publish_check_spec. destruct (spec_publish_ok v t q k n pl); [split; reflexivity|].
  case_if; split; discriminate.
Qed.

(* every payload over 268,435,455 bytes is rejected with ValueError, whatever else is passed
   (TypeError is impossible: the payload has a length) *)
Lemma publish_payload_over_limit v t q k n pl :
  payload_supported k = true -> 0 <= pl -> 268435455 < n ->
  publish_args_check v t q k n pl = Raise ValueError.
Proof.
  intros Hk Hpl Hn. apply (proj1 (publish_rejects v t q k n pl)).
  destruct (Z_lt_dec q 0) as [Hq|Hq]; [right; left; assumption|].
  right; right; right. split; [assumption|].
  unfold spec_publish_remaining_length.
  destruct (1 <=? q); destruct (is_v5 v); lia.
Qed.

(* conversely a payload is refused for its size only when the packet would not fit: with a valid
   topic, QoS and payload type, anything up to 268435455 - 2 - len(topic) - 2 - proplen is accepted *)
Lemma publish_payload_fits v t q k n pl :
  ~ topic_bad v t -> 0 <= q <= 2 -> k <> POther ->
  n + Z.of_nat (length t) + (if is_v5 v then pl else 0) <= 268435451 ->
  publish_args_check v t q k n pl = Ok 0.
Proof.
  intros Ht Hq Hk Hn. apply (proj2 (proj2 (publish_rejects v t q k n pl))).
  repeat split; try assumption; try lia.
  unfold spec_publish_remaining_length. destruct (1 <=? q); destruct (is_v5 v); lia.
Qed.

(* ------------------------------------------------------------------ subscribe() *)

Lemma qos_bad_spec q : qos_bad q = negb (spec_qos_ok q).
Proof. unfold qos_bad, spec_qos_ok. lia. Qed.

Lemma spec_filter_ok_empty s : blen s =? 0 = true -> spec_filter_ok s = false.
Proof.
  rewrite blen_zero_nat. unfold spec_filter_ok. intros ->. reflexivity.
Qed.

Lemma spec_filter_ok_nil : spec_filter_ok [] = false.
Proof. reflexivity. Qed.

Definition bad_pair (p : filter * opts) : bool := negb (filter_check (fst p) =? OK).

Lemma filters_checked_unfold r :
  filters_checked r = match r with
                      | Ok l => if existsb bad_pair l then Raise 1 else Ok l
                      | other => other
                      end.
Proof. reflexivity. Qed.

(* one list element *)
Lemma sub_elem_char v e :
  match sub_elem v e with
  | Ok p => doc_elem_request e = [p] /\ doc_elem_ok v e = negb (bad_pair p)
  | Raise k => doc_elem_ok v e = false /\ (doc_elem_shape v e = true -> k = 1)
  | OutOfFuel => False
  end.
Proof.
  unfold bad_pair.
  destruct e as [i q| |]; [|cbn; split; [reflexivity|discriminate]|cbn; split; [reflexivity|discriminate]].
  unfold sub_elem. destruct (is_v5 v) eqn:Ev.
  - destruct q as [q|ob|].
    + rewrite qos_bad_spec. destruct (spec_qos_ok q) eqn:Eq; cbn [negb].
      * destruct i; cbn [encode_item doc_elem_request doc_elem_ok doc_elem_shape fst];
          try (split; [reflexivity|discriminate]).
        rewrite Eq, filter_check_eqb, negb_involutive. split; reflexivity.
      * destruct i; cbn [doc_elem_ok doc_elem_shape]; try (split; [reflexivity|reflexivity]).
        rewrite Eq. split; reflexivity.
    + destruct i; cbn [encode_item doc_elem_request doc_elem_ok doc_elem_shape fst];
        try (split; [reflexivity|discriminate]).
      rewrite Ev, filter_check_eqb, negb_involutive. split; reflexivity.
    + destruct i; cbn [doc_elem_ok doc_elem_shape]; split; try reflexivity; discriminate.
  - destruct q as [q|ob|].
    + rewrite qos_bad_spec. destruct (spec_qos_ok q) eqn:Eq; cbn [negb].
      * destruct i as [s|s| |]; cbn [doc_elem_request doc_elem_ok doc_elem_shape fst];
          try (split; [reflexivity|discriminate]).
        -- destruct (blen s =? 0) eqn:Es.
           ++ rewrite (spec_filter_ok_empty s Es), andb_false_r. split; reflexivity.
           ++ rewrite Eq, filter_check_eqb, negb_involutive. split; reflexivity.
        -- destruct (blen s =? 0); split; try reflexivity; discriminate.
      * destruct i; cbn [doc_elem_ok doc_elem_shape]; try (split; [reflexivity|reflexivity]).
        rewrite Eq. split; reflexivity.
    + destruct i; cbn [doc_elem_ok doc_elem_shape]; rewrite ?Ev; split; try reflexivity; discriminate.
    + destruct i; cbn [doc_elem_ok doc_elem_shape]; split; try reflexivity; discriminate.
Qed.

(* the whole list *)
Lemma sub_elems_char v l :
  match sub_elems v l with
  | Ok ps => ps = flat_map doc_elem_request l /\ forallb (doc_elem_ok v) l = negb (existsb bad_pair ps)
  | Raise k => forallb (doc_elem_ok v) l = false /\ (forallb (doc_elem_shape v) l = true -> k = 1)
  | OutOfFuel => False
  end.
Proof.
  induction l as [|e l IH]; [cbn; split; reflexivity|].
  cbn [sub_elems forallb flat_map].
  pose proof (sub_elem_char v e) as He.
  destruct (sub_elem v e) as [p|k|]; [|destruct He as [He1 He2]|contradiction].
  - destruct He as [He1 He2].
    destruct (sub_elems v l) as [ps|k|]; [|destruct IH as [IH1 IH2]|contradiction].
    + destruct IH as [IH1 IH2]. split.
      * rewrite He1, <- IH1. reflexivity.
      * rewrite He2, IH2. cbn [existsb]. rewrite negb_orb. reflexivity.
    + split.
      * rewrite IH1. apply andb_false_r.
      * intros H. apply andb_true_iff in H as [_ H]. apply IH2. assumption.
  - split.
    + rewrite He1. reflexivity.
    + intros H. apply andb_true_iff in H as [H _]. apply He2. assumption.
Qed.

(* case analysis machinery for the non-list forms *)
Ltac sub_step :=
  match goal with
  | |- context [qos_bad ?q] => rewrite (qos_bad_spec q)
  | |- context [filter_check ?s =? OK] => rewrite (filter_check_eqb s)
  | |- context [spec_qos_ok ?q] => destruct (spec_qos_ok q) eqn:?
  | |- context [blen ?s =? 0] => destruct (blen s =? 0) eqn:?
  | |- context [?q =? 0] => destruct (q =? 0) eqn:?
  | |- context [spec_filter_ok ?s] => destruct (spec_filter_ok s) eqn:?
  end;
  cbn [filters_checked encode_item existsb fst orb andb negb].

Ltac sub_absurd :=
  match goal with
  | H1 : (?q =? 0) = true, H2 : spec_qos_ok ?q = false |- _ =>
      apply Z.eqb_eq in H1; subst q; vm_compute in H2; discriminate H2
  | H1 : (blen ?s =? 0) = true, H2 : spec_filter_ok ?s = true |- _ =>
      rewrite (spec_filter_ok_empty s H1) in H2; discriminate H2
  end.

Ltac sub_finish :=
  first [ sub_absurd
        | split; first [reflexivity | discriminate | intros _; reflexivity] ].

(* one characterisation from which the C19.3 statements follow *)
Lemma subscribe_norm_char v a :
  match subscribe_norm v a with
  | Ok l => documented_ok v a = true /\ l = documented_request v a
  | Raise k => documented_ok v a = false /\ (documented_shape v a = true -> k = 1)
  | OutOfFuel => False
  end.
Proof.
  destruct a as [tp q0 o0]. unfold subscribe_norm, documented_ok, documented_shape, documented_request.
  cbn [sa_topic sa_qos sa_options].
  destruct tp as [i|i s| |l].
  - (* a plain object *)
    destruct v, i, o0; cbn [is_v5 item_is_string]; unfold sub_string_branch;
      cbn [is_v5 filters_checked encode_item existsb fst orb andb negb];
      repeat sub_step; sub_finish.
  - (* a 2-tuple *)
    destruct v, s, i, o0; cbn [is_v5 item_is_string]; unfold sub_string_branch;
      cbn [is_v5 filters_checked encode_item existsb fst orb andb negb];
      repeat sub_step; sub_finish.
  - split; [reflexivity|discriminate].
  - (* a list *)
    destruct l as [|e l]; [split; reflexivity|].
    pose proof (sub_elems_char v (e :: l)) as H.
    change (Nat.eqb (length (e :: l)) 0) with false. cbn [negb andb].
    rewrite filters_checked_unfold.
    destruct (sub_elems v (e :: l)) as [ps|k|]; [|exact H|contradiction].
    destruct H as [H1 H2]. rewrite H2.
    destruct (existsb bad_pair ps); cbn [negb]; split; try reflexivity; try assumption.
Qed.

(* subscribe_norm never runs out of fuel (it has none) *)
Lemma subscribe_norm_total v a : subscribe_norm v a <> OutOfFuel.
Proof. pose proof (subscribe_norm_char v a) as H. destruct (subscribe_norm v a); [discriminate|discriminate|contradiction]. Qed.

(* C19.3: rejected exactly when not documented - both directions *)
Lemma subscribe_exact v a :
  (exists k, subscribe_norm v a = Raise k) <-> documented_ok v a = false.
Proof.
  pose proof (subscribe_norm_char v a) as H. destruct (subscribe_norm v a) as [l|k|].
  - destruct H as [H _]. split; [intros [k Hk]; discriminate|congruence].
  - destruct H as [H _]. split; [intros _; assumption|intros _; exists k; reflexivity].
  - contradiction.
Qed.

Lemma subscribe_result v a :
  documented_ok v a = true -> subscribe_norm v a = Ok (documented_request v a).
Proof.
  pose proof (subscribe_norm_char v a) as H. destruct (subscribe_norm v a) as [l|k|].
  - destruct H as [_ ->]. reflexivity.
  - destruct H as [H _]. congruence.
  - contradiction.
Qed.

(* calls of a documented shape are only ever rejected with ValueError *)
Lemma subscribe_valueerror v a :
  documented_shape v a = true -> documented_ok v a = false -> subscribe_norm v a = Raise ValueError.
Proof.
  intros Hs Hd. pose proof (subscribe_norm_char v a) as H. destruct (subscribe_norm v a) as [l|k|].
  - destruct H as [H _]. congruence.
  - destruct H as [_ H]. rewrite (H Hs). reflexivity.
  - contradiction.
Qed.

(* every filter of an accepted call satisfies the grammar, every option byte of an
   integer-QoS request is 0..2 *)
Lemma subscribe_accepts_only_valid v a l :
  subscribe_norm v a = Ok l -> Forall (fun p => spec_filter_ok (fst p) = true) l.
Proof.
  intros H. unfold subscribe_norm in H.
  assert (Hfc : forall r, filters_checked r = Ok l -> Forall (fun p => spec_filter_ok (fst p) = true) l).
  { intros r Hr. rewrite filters_checked_unfold in Hr. destruct r as [ps|k|]; try discriminate.
    destruct (existsb bad_pair ps) eqn:E; [discriminate|]. inversion Hr; subst.
    apply Forall_forall. intros p Hp.
    assert (Hb : bad_pair p = false).
    { destruct (bad_pair p) eqn:Eb; [|reflexivity].
      assert (existsb bad_pair l = true) by (apply existsb_exists; exists p; split; assumption). congruence. }
    unfold bad_pair in Hb. rewrite filter_check_eqb in Hb. apply negb_false_iff in Hb. assumption. }
  destruct (sa_topic a) as [i|i s| |ls].
  - destruct (item_is_string i); [eapply Hfc; eassumption|discriminate].
  - destruct (is_v5 v).
    + destruct s; try discriminate; (destruct (item_is_string i); [eapply Hfc; eassumption|discriminate]).
    + destruct (item_is_string i); [eapply Hfc; eassumption|discriminate].
  - discriminate.
  - destruct ls; [discriminate|]. eapply Hfc; eassumption.
Qed.

(* "Not used" read literally: the two readings differ only for forms 2 and 4 with qos <> 0 ... *)
Definition options_and_qos (v : version) (a : sub_arg) : bool :=
  is_v5 v && negb (sa_qos a =? 0) &&
  match sa_topic a, sa_options a with
  | TItem (IStr _), OOpts _ => true
  | TTuple (IStr _) (QOpts _), _ => true
  | _, _ => false
  end.

Lemma documented_literal_agree v a :
  options_and_qos v a = false -> documented_ok_literal v a = documented_ok v a.
Proof.
  unfold options_and_qos, documented_ok_literal, documented_ok.
  destruct a as [tp q0 o0]. cbn [sa_topic sa_qos sa_options].
  destruct tp as [i|i s| |l]; try reflexivity.
  - destruct i; try reflexivity. destruct o0; try reflexivity.
    destruct (is_v5 v); [|reflexivity]. cbn [andb]. rewrite andb_true_r.
    intros H. apply negb_false_iff in H. rewrite H. reflexivity.
  - destruct i; try reflexivity. destruct s; try reflexivity.
    destruct (is_v5 v); [|reflexivity]. cbn [andb]. rewrite andb_true_r.
    intros H. apply negb_false_iff in H. rewrite H. reflexivity.
Qed.

(* ... and there the code raises 'Subscribe options and qos parameters cannot be combined.' *)
Lemma subscribe_literal_refuted :
  exists v a, documented_ok_literal v a = true /\ subscribe_norm v a = Raise ValueError.
Proof.
  exists V5, (mk_sub_arg (TItem (IStr [97])) 1 (OOpts 2)). split; vm_compute; reflexivity.
Qed.

(* ------------------------------------------------------------------ unsubscribe() *)

Lemma unsub_elems_char l :
  match unsub_elems l with
  | Ok ss => forallb (fun i => match i with IStr s => negb (Nat.eqb (length s) 0) | _ => false end) l = true
             /\ map IStr ss = l
  | Raise k => forallb (fun i => match i with IStr s => negb (Nat.eqb (length s) 0) | _ => false end) l = false
  | OutOfFuel => False
  end.
Proof.
  induction l as [|i l IH]; [cbn; split; reflexivity|].
  cbn [unsub_elems forallb].
  destruct i as [s|s| |]; cbn [unsub_elem]; try reflexivity.
  - rewrite blen_zero_nat. destruct (Nat.eqb (length s) 0); cbn [negb andb]; [reflexivity|].
    destruct (unsub_elems l) as [ss|k|]; [|assumption|contradiction].
    destruct IH as [IH1 IH2]. split; [assumption|]. cbn [map]. rewrite IH2. reflexivity.
  - destruct (blen s =? 0); reflexivity.
Qed.

Lemma unsubscribe_exact a :
  (exists k, unsubscribe_norm a = Raise k) <-> unsub_documented_ok a = false.
Proof.
  destruct a as [i|l].
  - destruct i as [s|s| |]; cbn [unsubscribe_norm unsub_documented_ok].
    + rewrite blen_zero_nat. destruct (Nat.eqb (length s) 0); cbn [negb]; split;
        try (intros [k Hk]; discriminate); try discriminate; try reflexivity.
      intros _. exists 1. reflexivity.
    + split; [reflexivity|]. intros _. destruct (blen s =? 0); eexists; reflexivity.
    + split; [reflexivity|]. intros _. eexists; reflexivity.
    + split; [reflexivity|]. intros _. eexists; reflexivity.
  - destruct l as [|i l]; [cbn; split; [reflexivity|intros _; exists 1; reflexivity]|].
    change (unsubscribe_norm (UList (i :: l))) with (unsub_elems (i :: l)).
    unfold unsub_documented_ok. change (Nat.eqb (length (i :: l)) 0) with false. cbn [negb andb].
    pose proof (unsub_elems_char (i :: l)) as H.
    destruct (unsub_elems (i :: l)) as [ss|k|].
    + destruct H as [H _]. split; [intros [k Hk]; discriminate|congruence].
    + split; [intros _; assumption|intros _; exists k; reflexivity].
    + contradiction.
Qed.

(* ------------------------------------------------------------------ subscribe(): total packet size *)

Lemma sub_rl_fold (l : list (filter * opts)) : forall a,
  fold_left (fun acc (p : filter * opts) => acc + (2 + blen (fst p) + 1)) l a
  = a + spec_subscribe_payload_length l.
Proof.
  induction l as [|p l IH]; intros a; cbn [fold_left spec_subscribe_payload_length]; [lia|].
  rewrite IH. unfold blen. lia.
Qed.

Lemma subscribe_remaining_length_spec v pl l :
  subscribe_remaining_length v pl l = spec_subscribe_remaining_length v pl l.
Proof. exact (sub_rl_fold l _). Qed.

(* on a connected client: rejected exactly when undocumented, or when the SUBSCRIBE packet cannot
   be represented at all *)
Lemma subscribe_connected_exact v pl a :
  (exists k, subscribe_connected v pl a = Raise k) <->
  documented_ok v a = false \/
  268435455 < spec_subscribe_remaining_length v pl (documented_request v a).
Proof.
  unfold subscribe_connected. pose proof (subscribe_norm_char v a) as H.
  destruct (subscribe_norm v a) as [l|k|]; [|destruct H as [H _]|contradiction].
  - destruct H as [Hd ->]. rewrite subscribe_remaining_length_spec.
    destruct (spec_subscribe_remaining_length v pl (documented_request v a) >? 268435455) eqn:E; split.
    + intros _. right. lia.
    + intros _. exists 1. reflexivity.
    + intros [k Hk]. discriminate.
    + intros [Hc|Hc]; [congruence|lia].
  - split; [intros _; left; assumption|intros _; exists k; reflexivity].
Qed.

Lemma subscribe_connected_valueerror v pl a :
  documented_shape v a = true ->
  (exists k, subscribe_connected v pl a = Raise k) -> subscribe_connected v pl a = Raise ValueError.
Proof.
  unfold subscribe_connected. intros Hs. pose proof (subscribe_norm_char v a) as H.
  destruct (subscribe_norm v a) as [l|k|]; [|destruct H as [_ H]|contradiction].
  - destruct (subscribe_remaining_length v pl l >? 268435455); [reflexivity|intros [k Hk]; discriminate].
  - intros _. rewrite (H Hs). reflexivity.
Qed.

(* the size limit is out of reach for ordinary requests: up to 4095 filters (each at most 65535
   bytes, as the grammar demands) with at most 57343 bytes of properties always fit *)
Lemma spec_subscribe_payload_bound l :
  Forall (fun p => spec_filter_ok (fst p) = true) l ->
  spec_subscribe_payload_length l <= 65538 * Z.of_nat (length l).
Proof.
  induction 1 as [|p l Hp Hl IH]; [cbn; lia|].
  cbn [spec_subscribe_payload_length length].
  apply spec_filter_ok_prop in Hp. destruct Hp as (_ & Hp & _). unfold filter, opts in *. lia.
Qed.

Lemma subscribe_connected_small_fits v pl a :
  documented_ok v a = true -> Z.of_nat (length (documented_request v a)) <= 4095 -> pl <= 57343 ->
  subscribe_connected v pl a = Ok (documented_request v a).
Proof.
  intros Hd Hn Hpl. unfold subscribe_connected.
  pose proof (subscribe_accepts_only_valid v a (documented_request v a) (subscribe_result v a Hd)) as Hall.
  rewrite (subscribe_result v a Hd), subscribe_remaining_length_spec.
  pose proof (spec_subscribe_payload_bound _ Hall) as Hb.
  unfold spec_subscribe_remaining_length.
  assert (E : (2 + (if is_v5 v then pl else 0) + spec_subscribe_payload_length (documented_request v a) >? 268435455) = false).
  { unfold filter, opts in *. destruct (is_v5 v); lia. }
  rewrite E. reflexivity.
Qed.
