(* The if/elif chain of value checks in __setattr__, reduced to the links that apply to one name. *)
From PahoV Require Import Base.Prelude Codec.StrBytes Codec.PropSpec Codec.Props5.

Definition sel_of (groups : list (list (list Z) * Z * list Z)) (cn : list Z) : list (Z * list Z) :=
  map (fun g => (snd (fst g), snd g)) (filter (fun g => existsb (zlist_eqb cn) (fst (fst g))) groups).

Fixpoint range_check_sel (sel : list (Z * list Z)) (v : pval) : res unit :=
  match sel with
  | [] => Ok tt
  | (kind, ps) :: r =>
      match group_fails kind ps v with
      | Ok true => Raise 3
      | Ok false => range_check_sel r v
      | Raise k => Raise k
      | OutOfFuel => OutOfFuel
      end
  end.

Lemma range_check_sel_eq groups cn v : range_check groups cn v = range_check_sel (sel_of groups cn) v.
Proof.
  unfold sel_of. induction groups as [|[[ns kind] ps] r IH]; [reflexivity|].
  cbn [range_check filter fst snd]. destruct (existsb (zlist_eqb cn) ns); [|exact IH].
  cbn [map range_check_sel fst snd]. rewrite IH. reflexivity.
Qed.

(* on integers a well-shaped selection is a conjunction of interval / membership tests *)
Definition sel_wf (sel : list (Z * list Z)) : bool :=
  forallb (fun g => negb (fst g =? 0) || match snd g with [_; _] => true | _ => false end) sel.

Definition sel_ok (sel : list (Z * list Z)) (x : Z) : bool :=
  forallb (fun g => if fst g =? 0 then match snd g with [lo; hi] => zin lo hi x | _ => false end
                    else memz x (snd g)) sel.

Lemma range_check_sel_int sel x : sel_wf sel = true ->
  range_check_sel sel (VInt x) = if sel_ok sel x then Ok tt else Raise 3.
Proof.
  induction sel as [|[kind ps] r IH]; intros W; [reflexivity|].
  cbn [sel_wf forallb fst snd] in W. apply andb_true_iff in W as [W1 W2].
  cbn [range_check_sel sel_ok forallb fst snd]. unfold group_fails.
  destruct (kind =? 0) eqn:K.
  - cbn [negb orb] in W1. destruct ps as [|lo [|hi [|]]]; try discriminate.
    unfold zin. destruct ((x <? lo) || (x >? hi)) eqn:E.
    + replace ((lo <=? x) && (x <=? hi)) with false by lia. reflexivity.
    + replace ((lo <=? x) && (x <=? hi)) with true by lia. cbn [andb]. apply IH. exact W2.
  - destruct (memz x ps); cbn [negb andb]; [apply IH; exact W2 | reflexivity].
Qed.

(* a non-integer value passes iff no link applies... only the empty selection is needed *)
Lemma range_check_sel_nil v : range_check_sel [] v = Ok tt.
Proof. reflexivity. Qed.
