(* C04: remaining-length codec - round trip, minimality, byte shape for ALL n in 0..268435455
   (by the 4-digit base-128 decomposition, no enumeration), and the refutation at the level of this
   function: any n above the limit is emitted in five or more bytes, which the specification
   decoder rejects. *)
From PahoV Require Import Base.Prelude Codec.RemLen.

Lemma pow128_pos k : 0 <= k -> 0 < 128 ^ k.
Proof. intros; apply Z.pow_pos_nonneg; lia. Qed.

Lemma pow128_S (f : nat) : 128 ^ Z.of_nat (S f) = 128 * 128 ^ Z.of_nat f.
Proof. rewrite Nat2Z.inj_succ, Z.pow_succ_r by lia. reflexivity. Qed.

(* extra fuel does not change the result once the value fits *)
Lemma rl_enc_more f : forall k n, 0 <= n < 128 ^ Z.of_nat (S f) ->
  rl_enc (S f + k) n = rl_enc (S f) n.
Proof.
  induction f as [|f IH]; intros k n Hn.
  - change (128 ^ Z.of_nat 1) with 128 in Hn.
    cbn [rl_enc Nat.add]. assert (n / 128 = 0) as -> by lia. reflexivity.
  - rewrite pow128_S in Hn.
    change (S (S f) + k)%nat with (S (S f + k)).
    cbn [rl_enc]. case_if; [|reflexivity].
    f_equal. apply IH.
    pose proof (pow128_pos (Z.of_nat (S f)) ltac:(lia)). nia.
Qed.

Lemma rl_fuel_enough n : 0 <= n -> n < 128 ^ Z.of_nat (rl_fuel n).
Proof.
  intros Hn. unfold rl_fuel.
  destruct (Z.eq_dec n 0) as [->|Hz].
  - cbn. lia.
  - rewrite Nat2Z.inj_succ, Z2Nat.id by apply Z.log2_nonneg.
    pose proof (Z.log2_spec n ltac:(lia)) as [_ H].
    eapply Z.lt_le_trans; [exact H|].
    apply Z.pow_le_mono_l. pose proof (Z.log2_nonneg n). lia.
Qed.

Lemma rl_encode_fuel f n : 0 <= n < 128 ^ Z.of_nat (S f) -> rl_encode n = rl_enc (S f) n.
Proof.
  intros Hn. unfold rl_encode.
  pose proof (rl_fuel_enough n ltac:(lia)) as Hf.
  unfold rl_fuel in *. set (g := Z.to_nat (Z.log2 n)) in *.
  rewrite <- (rl_enc_more g (S f) n) by lia.
  rewrite <- (rl_enc_more f (S g) n) by lia.
  f_equal. lia.
Qed.

Lemma rl_encode_4 n : 0 <= n <= rl_max -> rl_encode n = rl_enc 4 n.
Proof. intros H. apply (rl_encode_fuel 3). unfold rl_max in H. change (128 ^ Z.of_nat 4) with 268435456. lia. Qed.

Ltac list_eq := repeat match goal with |- _ :: _ = _ :: _ => f_equal end; try reflexivity; lia.

(* ---- explicit shape per length class *)
Lemma rl_encode_1 n : 0 <= n <= 127 -> rl_encode n = [n].
Proof.
  intros H. rewrite rl_encode_4 by (unfold rl_max; lia). cbn [rl_enc].
  assert (n / 128 = 0) as -> by lia. cbn. list_eq.
Qed.

Lemma rl_encode_2 n : 128 <= n <= 16383 ->
  rl_encode n = [n mod 128 + 128; n / 128].
Proof.
  intros H. rewrite rl_encode_4 by (unfold rl_max; lia). cbn [rl_enc].
  assert (n / 128 >? 0 = true) as -> by lia.
  assert (n / 128 / 128 = 0) as -> by lia. cbn. list_eq.
Qed.

Lemma rl_encode_3 n : 16384 <= n <= 2097151 ->
  rl_encode n = [n mod 128 + 128; n / 128 mod 128 + 128; n / 128 / 128].
Proof.
  intros H. rewrite rl_encode_4 by (unfold rl_max; lia). cbn [rl_enc].
  assert (n / 128 >? 0 = true) as -> by lia.
  assert (n / 128 / 128 >? 0 = true) as -> by lia.
  assert (n / 128 / 128 / 128 = 0) as -> by lia. cbn. list_eq.
Qed.

Lemma rl_encode_4b n : 2097152 <= n <= rl_max ->
  rl_encode n = [n mod 128 + 128; n / 128 mod 128 + 128; n / 128 / 128 mod 128 + 128; n / 128 / 128 / 128].
Proof.
  unfold rl_max. intros H. rewrite rl_encode_4 by (unfold rl_max; lia). cbn [rl_enc].
  assert (n / 128 >? 0 = true) as -> by lia.
  assert (n / 128 / 128 >? 0 = true) as -> by lia.
  assert (n / 128 / 128 / 128 >? 0 = true) as -> by lia.
  assert (n / 128 / 128 / 128 / 128 = 0) as -> by lia. cbn. list_eq.
Qed.

Ltac rl_classes n H :=
  let H1 := fresh in let H2 := fresh in let H3 := fresh in
  assert (n <= 127 \/ 128 <= n <= 16383 \/ 16384 <= n <= 2097151 \/ 2097152 <= n <= rl_max) as [H1|[H1|[H1|H1]]]
    by (unfold rl_max in *; lia);
  [rewrite rl_encode_1 by lia | rewrite rl_encode_2 by lia | rewrite rl_encode_3 by lia | rewrite rl_encode_4b by lia].

(* ---- minimality: exactly the number of bytes the specification prescribes *)
Lemma rl_encode_length n : 0 <= n <= rl_max -> Z.of_nat (length (rl_encode n)) = rl_size n.
Proof.
  intros H. unfold rl_size. rl_classes n H; cbn [length]; unfold rl_max in *;
    repeat case_if; lia.
Qed.

(* ---- byte shape: the last byte is below 128, every other byte is in 128..255 *)
Definition rl_shape (l : list Z) : Prop :=
  exists front last, l = front ++ [last] /\ 0 <= last < 128 /\ Forall (fun b => 128 <= b <= 255) front.

Lemma rl_encode_shape n : 0 <= n <= rl_max -> rl_shape (rl_encode n).
Proof.
  intros H. unfold rl_shape. rl_classes n H.
  - exists [], n. repeat split; [lia | lia | constructor].
  - exists [n mod 128 + 128], (n / 128). repeat split; [lia | lia | repeat constructor; lia].
  - exists [n mod 128 + 128; n / 128 mod 128 + 128], (n / 128 / 128).
    repeat split; [lia | lia | repeat constructor; lia].
  - exists [n mod 128 + 128; n / 128 mod 128 + 128; n / 128 / 128 mod 128 + 128], (n / 128 / 128 / 128).
    unfold rl_max in *. repeat split; [lia | lia | repeat constructor; lia].
Qed.

Lemma rl_encode_bytes n : 0 <= n <= rl_max -> Forall (fun b => 0 <= b <= 255) (rl_encode n).
Proof.
  intros H. rl_classes n H; unfold rl_max in *; repeat constructor; lia.
Qed.

(* ---- round trip with an arbitrary suffix *)
Lemma byte_ok_true b : 0 <= b <= 255 -> byte_ok b = true.
Proof. unfold byte_ok; lia. Qed.

Lemma rl_roundtrip n rest : 0 <= n <= rl_max -> rl_decode (rl_encode n ++ rest) = Some (n, rest).
Proof.
  intros H. unfold rl_decode. rl_classes n H; unfold rl_max in *; cbn [app rl_dec].
  - rewrite byte_ok_true by lia. cbn [negb]. assert (n <? 128 = true) as -> by lia.
    cbn [negb andb]. rewrite andb_false_r. do 2 f_equal. lia.
  - rewrite !byte_ok_true by lia. cbn [negb].
    assert (n mod 128 + 128 <? 128 = false) as -> by lia.
    assert (n / 128 <? 128 = true) as -> by lia.
    assert (n / 128 =? 0 = false) as -> by lia. cbn [negb andb]. do 2 f_equal. lia.
  - rewrite !byte_ok_true by lia. cbn [negb].
    assert (n mod 128 + 128 <? 128 = false) as -> by lia.
    assert (n / 128 mod 128 + 128 <? 128 = false) as -> by lia.
    assert (n / 128 / 128 <? 128 = true) as -> by lia.
    assert (n / 128 / 128 =? 0 = false) as -> by lia. cbn [negb andb]. do 2 f_equal. lia.
  - rewrite !byte_ok_true by lia. cbn [negb].
    assert (n mod 128 + 128 <? 128 = false) as -> by lia.
    assert (n / 128 mod 128 + 128 <? 128 = false) as -> by lia.
    assert (n / 128 / 128 mod 128 + 128 <? 128 = false) as -> by lia.
    assert (n / 128 / 128 / 128 <? 128 = true) as -> by lia.
    assert (n / 128 / 128 / 128 =? 0 = false) as -> by lia. cbn [negb andb]. do 2 f_equal. lia.
Qed.

(* the decoder never looks past the bytes it consumes: appending data to the input only appends
   it to the returned remainder (used for the opaque v5 property blocks) *)
Lemma rl_dec_app k : forall mult acc first s n r rest,
  rl_dec k mult acc first s = Some (n, r) -> rl_dec k mult acc first (s ++ rest) = Some (n, r ++ rest).
Proof.
  induction k as [|k IH]; intros mult acc first s n r rest H; cbn [rl_dec] in *; [discriminate|].
  destruct s as [|b s]; [discriminate|]. cbn [app].
  destruct (negb (byte_ok b)); [discriminate|].
  destruct (b <? 128).
  - destruct ((b =? 0) && negb first); [discriminate|]. inv H. reflexivity.
  - apply IH; assumption.
Qed.

Lemma rl_decode_app s n r rest : rl_decode s = Some (n, r) -> rl_decode (s ++ rest) = Some (n, r ++ rest).
Proof. apply rl_dec_app. Qed.

(* what the decoder accepts is in range and it consumed between one and four bytes *)
Lemma rl_dec_range k : forall mult acc first s n r, 0 <= acc -> 0 < mult ->
  rl_dec k mult acc first s = Some (n, r) ->
  acc <= n <= acc + mult * (128 ^ Z.of_nat k - 1) /\ (length r < length s)%nat.
Proof.
  induction k as [|k IH]; intros mult acc first s n r Ha Hm H; cbn [rl_dec] in *; [discriminate|].
  destruct s as [|b s]; [discriminate|].
  destruct (negb (byte_ok b)) eqn:Hb; [discriminate|]. unfold byte_ok in Hb.
  rewrite pow128_S. pose proof (pow128_pos (Z.of_nat k) ltac:(lia)).
  destruct (b <? 128) eqn:Hlt.
  - destruct ((b =? 0) && negb first); [discriminate|]. inv H. cbn [length]. split; [nia|lia].
  - apply IH in H; [|nia|lia]. cbn [length]. split; [nia|lia].
Qed.

Lemma rl_decode_range s n r : rl_decode s = Some (n, r) -> 0 <= n <= rl_max /\ (length r < length s)%nat.
Proof.
  intros H. apply rl_dec_range in H; [|lia|lia]. change (128 ^ Z.of_nat 4) with 268435456 in H.
  unfold rl_max. lia.
Qed.

(* ---- above the limit: five or more length bytes, rejected by the specification decoder *)
Lemma rl_fuel_big n : rl_max < n -> exists f, rl_fuel n = S (S (S (S (S f)))).
Proof.
  unfold rl_max, rl_fuel. intros H.
  assert (28 <= Z.log2 n).
  { change 28 with (Z.log2 268435456). apply Z.log2_le_mono. lia. }
  exists (Z.to_nat (Z.log2 n) - 4)%nat. lia.
Qed.

Lemma rl_encode_over n : rl_max < n ->
  exists b0 b1 b2 b3 b4 tl, rl_encode n = b0 :: b1 :: b2 :: b3 :: b4 :: tl /\
    128 <= b0 <= 255 /\ 128 <= b1 <= 255 /\ 128 <= b2 <= 255 /\ 128 <= b3 <= 255.
Proof.
  intros H. destruct (rl_fuel_big n H) as [f Hf]. unfold rl_encode. rewrite Hf.
  unfold rl_max in H. cbn [rl_enc].
  assert (n / 128 >? 0 = true) as -> by lia.
  assert (n / 128 / 128 >? 0 = true) as -> by lia.
  assert (n / 128 / 128 / 128 >? 0 = true) as -> by lia.
  assert (n / 128 / 128 / 128 / 128 >? 0 = true) as -> by lia.
  destruct (n / 128 / 128 / 128 / 128 / 128 >? 0);
    do 6 eexists; (split; [reflexivity|]); lia.
Qed.

Lemma rl_encode_over_length n : rl_max < n -> (5 <= length (rl_encode n))%nat.
Proof.
  intros H. destruct (rl_encode_over n H) as (b0&b1&b2&b3&b4&tl&E&_). rewrite E. cbn [length]. lia.
Qed.

Lemma rl_decode_over n rest : rl_max < n -> rl_decode (rl_encode n ++ rest) = None.
Proof.
  intros H. destruct (rl_encode_over n H) as (b0&b1&b2&b3&b4&tl&E&H0&H1&H2&H3). rewrite E.
  unfold rl_decode. cbn [app rl_dec]. rewrite !byte_ok_true by lia. cbn [negb].
  assert (b0 <? 128 = false) as -> by lia. assert (b1 <? 128 = false) as -> by lia.
  assert (b2 <? 128 = false) as -> by lia. assert (b3 <? 128 = false) as -> by lia. reflexivity.
Qed.

(* class boundaries, as closed computations *)
Lemma rl_boundaries :
  rl_encode 0 = [0] /\ rl_encode 127 = [127] /\ rl_encode 128 = [128; 1] /\
  rl_encode 16383 = [255; 127] /\ rl_encode 16384 = [128; 128; 1] /\
  rl_encode 2097151 = [255; 255; 127] /\ rl_encode 2097152 = [128; 128; 128; 1] /\
  rl_encode 268435455 = [255; 255; 255; 127] /\
  rl_encode 268435456 = [128; 128; 128; 128; 1] /\ rl_encode 268435458 = [130; 128; 128; 128; 1].
Proof. vm_compute. repeat split. Qed.

(* only non-negative lengths exist *)
Lemma len_nonneg {A} (l : list A) : 0 <= Z.of_nat (length l).
Proof. lia. Qed.
