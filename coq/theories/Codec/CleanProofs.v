(* C04.4: the CONNECT clean flag over arbitrary histories of connect()/connect_async()/reconnect()/
   processed CONNACK/connection loss (state machine cstep/crun in Packets.v). *)
From PahoV Require Import Base.Prelude Codec.Wire Codec.Packets.

(* the exact flag of every CONNECT, including the case C04 does not constrain (retry before any CONNACK) *)
Definition clean_event_exact (v : version) (clean_session : bool) (e : cevent) : bool :=
  Bool.eqb (e_flag e)
    (if is_v5 v then
       match e_cs e with
       | CS_true => true
       | CS_false => false
       | CS_first_only => if e_by_connect e then true else negb (e_acked e)
       end
     else clean_session).

(* invariant: for v5, _mqttv5_first_connect is exactly "no CONNACK processed since the last connect()" *)
Definition cinv (v : version) (st : cstate) : Prop := is_v5 v = true -> k_first st = negb (g_acked st).

Lemma cinv0 v : cinv v cstate0.
Proof. intros _. reflexivity. Qed.

Lemma cstep_inv v cls st op : cinv v st ->
  cinv v (fst (cstep v cls st op)) /\ forallb (clean_event_exact v cls) (snd (cstep v cls st op)) = true.
Proof.
  intros I. unfold cinv in *.
  destruct op as [cs|cs| | |]; cbn [cstep].
  - destruct (is_v5 v) eqn:Hv; cbn [negb andb].
    + cbn [fst snd forallb]. split; [reflexivity|].
      unfold clean_event_exact, clean_flag. cbn [e_flag e_cs e_by_connect e_acked]. rewrite Hv.
      destruct cs; reflexivity.
    + destruct cs; cbn [cs_eqb negb fst snd forallb]; split; try reflexivity; try (intros; discriminate).
      unfold clean_event_exact, clean_flag. cbn [e_flag]. rewrite Hv. rewrite andb_true_r. apply eqb_reflx.
  - cbn [fst snd forallb k_first g_acked]. split; [assumption | reflexivity].
  - destruct (k_host st); cbn [fst snd forallb]; (split; [assumption|]); [|reflexivity].
    unfold clean_event_exact, clean_flag. cbn [e_flag e_cs e_by_connect e_acked].
    destruct (is_v5 v) eqn:Hv; [|rewrite andb_true_r; apply eqb_reflx].
    rewrite (I eq_refl). destruct (k_cs st), (g_acked st); reflexivity.
  - cbn [fst snd forallb k_first g_acked]. split; [reflexivity | reflexivity].
  - cbn [fst snd forallb]. split; [assumption | reflexivity].
Qed.

Lemma crun_exact v cls ops : forall st, cinv v st ->
  forallb (clean_event_exact v cls) (crun v cls st ops) = true.
Proof.
  induction ops as [|op ops IH]; intros st I; [reflexivity|].
  cbn [crun]. pose proof (cstep_inv v cls st op I) as [I' E].
  destruct (cstep v cls st op) as [st' ev]. cbn [fst snd] in *.
  rewrite forallb_app, E, IH by assumption. reflexivity.
Qed.

Lemma exact_ok v cls e : clean_event_exact v cls e = true -> clean_event_ok v cls e = true.
Proof.
  unfold clean_event_exact, clean_event_ok. intros H. apply eqb_prop in H.
  destruct (is_v5 v); [|rewrite H; apply eqb_reflx].
  destruct (e_cs e); rewrite H; try reflexivity.
  destruct (e_by_connect e); [reflexivity|]. destruct (e_acked e); reflexivity.
Qed.

(* the property as stated in C04, for every history from a fresh client *)
Theorem clean_flag_ok v cls ops : forallb (clean_event_ok v cls) (crun v cls cstate0 ops) = true.
Proof.
  pose proof (crun_exact v cls ops cstate0 (cinv0 v)) as H.
  apply forallb_forall. intros e He. apply exact_ok. eapply forallb_forall in H; eassumption.
Qed.

(* readable corollaries *)
Theorem clean_v3_is_clean_session v cls ops e : is_v5 v = false ->
  In e (crun v cls cstate0 ops) -> e_flag e = cls.
Proof.
  intros Hv He. pose proof (crun_exact v cls ops cstate0 (cinv0 v)) as H.
  eapply forallb_forall in H; [|eassumption]. unfold clean_event_exact in H. rewrite Hv in H.
  apply eqb_prop in H. exact H.
Qed.

Theorem clean_v5_follows_clean_start cls ops e :
  In e (crun V5 cls cstate0 ops) ->
  (e_cs e = CS_true -> e_flag e = true) /\ (e_cs e = CS_false -> e_flag e = false).
Proof.
  intros He. pose proof (crun_exact V5 cls ops cstate0 (cinv0 V5)) as H.
  eapply forallb_forall in H; [|eassumption]. unfold clean_event_exact in H. cbn [is_v5] in H.
  apply eqb_prop in H. split; intros E; rewrite E in H; exact H.
Qed.

Theorem clean_v5_first_only cls ops e :
  In e (crun V5 cls cstate0 ops) -> e_cs e = CS_first_only ->
  (e_by_connect e = true -> e_flag e = true) /\
  (e_by_connect e = false -> e_acked e = true -> e_flag e = false).
Proof.
  intros He Ecs. pose proof (crun_exact V5 cls ops cstate0 (cinv0 V5)) as H.
  eapply forallb_forall in H; [|eassumption]. unfold clean_event_exact in H. cbn [is_v5] in H.
  apply eqb_prop in H. rewrite Ecs in H. split.
  - intros B. rewrite B in H. exact H.
  - intros B A. rewrite B, A in H. exact H.
Qed.

(* not hidden: a reconnect() BEFORE any CONNACK was processed keeps the bit set (the first connection
   attempt never completed, so it still is the "first connect"); outside C04's statement *)
Lemma clean_retry_keeps_flag cls ops e :
  In e (crun V5 cls cstate0 ops) -> e_cs e = CS_first_only ->
  e_by_connect e = false -> e_acked e = false -> e_flag e = true.
Proof.
  intros He Ecs B A. pose proof (crun_exact V5 cls ops cstate0 (cinv0 V5)) as H.
  eapply forallb_forall in H; [|eassumption]. unfold clean_event_exact in H. cbn [is_v5] in H.
  apply eqb_prop in H. rewrite Ecs, B, A in H. exact H.
Qed.

(* the ghost field is what its name says: the events of a history, with e_acked recomputed from the
   operation list alone, agree with the model's *)
Fixpoint acked_spec (acked : bool) (host : bool) (v : version) (ops : list cop) : list bool :=
  match ops with
  | [] => []
  | KConnect cs :: r =>
      if negb (is_v5 v) && negb (cs_eqb cs CS_first_only) then acked_spec acked host v r
      else false :: acked_spec false true v r
  | KConnectAsync _ :: r => acked_spec acked true v r
  | KReconnect :: r => if host then acked :: acked_spec acked host v r else acked_spec acked host v r
  | KConnack :: r => acked_spec true host v r
  | KLoss :: r => acked_spec acked host v r
  end.

Lemma acked_is_spec v cls ops : forall st,
  map e_acked (crun v cls st ops) = acked_spec (g_acked st) (k_host st) v ops.
Proof.
  induction ops as [|op ops IH]; intros st; [reflexivity|].
  cbn [crun acked_spec]. destruct op as [cs|cs| | |]; cbn [cstep].
  - destruct (negb (is_v5 v) && negb (cs_eqb cs CS_first_only)); cbn [app map e_acked]; rewrite IH; reflexivity.
  - cbn [app]. rewrite IH. reflexivity.
  - destruct (k_host st) eqn:Hh; cbn [app map e_acked]; rewrite IH, ?Hh; reflexivity.
  - cbn [app]. rewrite IH. reflexivity.
  - cbn [app]. rewrite IH. reflexivity.
Qed.
