(* ASCII string literals as byte lists, so that hand-written tables stay readable. Stdlib only. *)
From Coq Require Import String Ascii.
From PahoV Require Import Base.Prelude.

Fixpoint bytes_of (s : string) : list Z :=
  match s with
  | EmptyString => []
  | String c r => Z.of_N (N_of_ascii c) :: bytes_of r
  end.

(* ASCII lower case, for comparing names up to capitalisation *)
Definition lower_byte (c : Z) : Z := if (65 <=? c) && (c <=? 90) then c + 32 else c.
Definition lower (s : list Z) : list Z := map lower_byte s.

(* name.replace(' ', '') *)
Definition compress (s : list Z) : list Z := filter (fun c => negb (c =? 32)) s.

Definition memz (x : Z) (l : list Z) : bool := existsb (Z.eqb x) l.

Fixpoint assoc {A} (k : Z) (l : list (Z * A)) : option A :=
  match l with
  | [] => None
  | (k', a) :: r => if k' =? k then Some a else assoc k r
  end.

Fixpoint assoc_s {A} (k : list Z) (l : list (list Z * A)) : option A :=
  match l with
  | [] => None
  | (k', a) :: r => if zlist_eqb k' k then Some a else assoc_s k r
  end.

(* 0, 1, ..., n-1 *)
Definition zrange (n : nat) : list Z := map Z.of_nat (seq 0 n).
