(* Bridge: the definition generated from client.py's _mid_generate equals the model. *)
From PahoV Require Import Base.Prelude Codec.Mid Gen.GenMid.

Lemma mid_generate_bridge fuel m :
  mid_generate fuel m = Ok (mid_next m, mid_next m).
Proof. unfold mid_generate, mid_next. cbv zeta. case_if; reflexivity. Qed.
