(* Well-formed UTF-8 (Unicode 15 table 3-7 / RFC 3629) on byte lists.  This is the model of what
   CPython's strict 'utf-8' codec accepts on decode (trusted; exercised by the correspondence run):
   no overlong forms, no surrogates D800-DFFF, nothing above U+10FFFF.  Model only, no proofs. *)
From PahoV Require Import Base.Prelude.

Definition brange (lo hi b : Z) : bool := (lo <=? b) && (b <=? hi).
Definition cont (b : Z) : bool := brange 128 191 b.

Fixpoint utf8_valid (s : list Z) : bool :=
  match s with
  | [] => true
  | b0 :: r0 =>
    if brange 0 127 b0 then utf8_valid r0 else
    match r0 with
    | [] => false
    | b1 :: r1 =>
      if brange 194 223 b0 then cont b1 && utf8_valid r1 else
      match r1 with
      | [] => false
      | b2 :: r2 =>
        if brange 224 239 b0 then
          (if b0 =? 224 then brange 160 191 b1 else if b0 =? 237 then brange 128 159 b1 else cont b1)
          && cont b2 && utf8_valid r2
        else
        match r2 with
        | [] => false
        | b3 :: r3 =>
          if brange 240 244 b0 then
            (if b0 =? 240 then brange 144 191 b1 else if b0 =? 244 then brange 128 143 b1 else cont b1)
            && cont b2 && cont b3 && utf8_valid r3
          else false
        end
      end
    end
  end.

(* number of bytes of the character starting with lead byte b ("generalised" UTF-8: a Python str
   holding lone surrogates is carried as its 'surrogatepass' encoding, lead byte ED) *)
Definition utf8_char_len (b : Z) : nat :=
  if b <? 192 then 1 else if b <? 224 then 2 else if b <? 240 then 3 else 4.

(* first character and the rest; None on the empty string *)
Definition utf8_uncons (s : list Z) : option (list Z * list Z) :=
  match s with
  | [] => None
  | b :: _ => Some (firstn (utf8_char_len b) s, skipn (utf8_char_len b) s)
  end.

(* [bytes] -> [1] if well formed else [0] *)
Definition entry_utf8_valid (args : list Z) : list Z := [if utf8_valid args then 1 else 0].
