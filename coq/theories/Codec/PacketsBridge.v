(* Bridge: the flag bytes generated on every run from client.py (_send_publish's `command = ...` and every
   statement of _send_connect that assigns connect_flags, the clean-flag selection included; Gen/GenPubCmd.v,
   Gen/GenConnFlags.v, cut out by tools/py2v/specs/packets.py) equal the hand model of Packets.v. *)
From PahoV Require Import Base.Prelude Codec.Wire Codec.Packets Gen.GenPubCmd Gen.GenConnFlags Gen.GenSendPublishCalls.

Lemma publish_command_bridge fuel dup qos retain :
  gen_publish_command fuel (b2z dup) qos (b2z retain) = Ok (publish_command dup qos retain).
Proof. reflexivity. Qed.

(* how the Python values are presented to the generated function *)
Definition cs_code (cs : clean_start) : Z := match cs with CS_true => 1 | CS_false => 0 | CS_first_only => 3 end.
Definition is_some {A} (o : option A) : bool := match o with Some _ => true | None => false end.

(* self._clean_session / _clean_start / _mqttv5_first_connect select the clean bit exactly as clean_flag does,
   and the other flag bits are as in connect_flags *)
Lemma connect_flags_bridge fuel v cls cs first bridge ka cid will user pw props :
  gen_connect_flags fuel (proto_level v) (cs_code cs) first cls
    (is_some will)
    (match will with Some w => w_qos w | None => 0 end)
    (match will with Some w => b2z (w_retain w) | None => 0 end)
    (is_some user) (is_some pw)
  = Ok (connect_flags {| c_bridge := bridge; c_clean := clean_flag v cls cs first; c_keepalive := ka;
                         c_client_id := cid; c_will := will; c_username := user; c_password := pw;
                         c_props := props |}).
Proof.
  unfold gen_connect_flags, connect_flags, clean_flag. cbv zeta.
  cbn [c_clean c_will c_username c_password].
  destruct v, cs, first, cls, will, user, pw; reflexivity.
Qed.

(* Every call site of _send_publish in class Client (publish() itself, the CONNACK retransmission loop, the release
   from the in-flight window in _update_inflight) hands the encoder the stored message's own fields: each of
   mid, topic, payload, qos, retain, dup, properties receives the message attribute of the same name (1) or publish()'s
   local for it (2); info may be absent (0).  So the packet written later for a stored message is
   encode_publish of the arguments that were given to publish(), with dup as the session set it. *)
Definition send_publish_call_ok (row : list Z) : bool :=
  match row with
  | [mid; topic; payload; qos; retain; dup; info; props] =>
      forallb (fun c => (c =? 1) || (c =? 2)) [mid; topic; payload; qos; retain; dup; props]
      && ((info =? 0) || (info =? 1) || (info =? 2))
  | _ => false
  end.

Lemma send_publish_calls_ok :
  forallb send_publish_call_ok gen_send_publish_calls = true /\ (6 <= length gen_send_publish_calls)%nat.
Proof. split; [vm_compute; reflexivity | cbn; lia]. Qed.
