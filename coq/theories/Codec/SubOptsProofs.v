(* SubscribeOptions: pack = specification byte, round trip over all legal tuples, rejection; bridges. *)
From PahoV Require Import Base.Prelude Codec.VBIProofs Codec.SubOpts Gen.GenSubOptsPack Gen.GenSubOptsUnpack.

Lemma in012_iff x : in012 x = true <-> x = 0 \/ x = 1 \/ x = 2.
Proof. unfold in012. cbn [existsb]. lia. Qed.

Lemma spec_legal_in012 rh qos : spec_subopts_legal rh qos = in012 rh && in012 qos.
Proof. unfold spec_subopts_legal, in012. cbn [existsb]. lia. Qed.

(* pack succeeds exactly on the legal tuples and then yields the specification's byte *)
Lemma subopts_pack_spec rh qos nl rap :
  subopts_pack rh qos nl rap =
  if spec_subopts_legal rh qos then Ok [spec_subopts_byte rh qos nl rap] else Raise 8.
Proof.
  rewrite spec_legal_in012. unfold subopts_pack, subopts_check.
  destruct (in012 rh) eqn:Hr; cbn [negb andb]; [|reflexivity].
  destruct (in012 qos) eqn:Hq; cbn [negb]; [|reflexivity].
  apply in012_iff in Hr, Hq.
  destruct Hr as [->|[->| ->]], Hq as [->|[->| ->]], nl, rap; reflexivity.
Qed.

Lemma subopts_roundtrip rh qos nl rap b rest :
  subopts_pack rh qos nl rap = Ok b -> subopts_unpack (b ++ rest) = Ok (rh, qos, nl, rap).
Proof.
  rewrite subopts_pack_spec, spec_legal_in012.
  destruct (in012 rh) eqn:Hr; cbn [andb]; [|discriminate].
  destruct (in012 qos) eqn:Hq; [|discriminate].
  intros H. injection H as <-. apply in012_iff in Hr, Hq.
  destruct Hr as [->|[->| ->]], Hq as [->|[->| ->]], nl, rap; reflexivity.
Qed.

(* on every byte value: unpack succeeds iff neither two-bit field is 3, and then re-packs to the
   byte with the reserved bits cleared *)
Definition unpack_ok_byte (b : Z) : bool :=
  match subopts_unpack [b] with
  | Ok (rh, qos, nl, rap) =>
      negb ((b / 16) mod 4 =? 3) && negb (b mod 4 =? 3)
      && match subopts_pack rh qos nl rap with Ok [c] => c =? b mod 64 | _ => false end
  | Raise 8 => ((b / 16) mod 4 =? 3) || (b mod 4 =? 3)
  | _ => false
  end.

Lemma subopts_unpack_all b : 0 <= b < 256 -> unpack_ok_byte b = true.
Proof. apply (range_forall unpack_ok_byte 256). vm_compute. reflexivity. Qed.

(* ---- bridges to the generated definitions ---- *)
Lemma subopts_pack_bridge fuel rh qos nl rap :
  gen_subopts_pack fuel rh qos nl rap =
  match subopts_pack rh qos nl rap with
  | Ok d => Ok (rh, qos, nl, rap, d) | Raise k => Raise k | OutOfFuel => OutOfFuel end.
Proof.
  unfold gen_subopts_pack, subopts_pack, subopts_check, in012, bit. cbv zeta.
  repeat case_if; reflexivity.
Qed.

Lemma subopts_unpack_bridge fuel s1 s2 s3 s4 buf :
  gen_subopts_unpack fuel s1 s2 s3 s4 buf =
  match subopts_unpack buf with
  | Ok (rh, qos, nl, rap) => Ok (rh, qos, nl, rap, 1) | Raise k => Raise k | OutOfFuel => OutOfFuel end.
Proof.
  unfold gen_subopts_unpack, subopts_unpack, subopts_check, in012. destruct buf as [|b0 rest]; [reflexivity|].
  cbn [nth_error]. cbv zeta.
  destruct (negb (existsb (Z.eqb (Z.land (Z.shiftr b0 4) 3)) [0; 1; 2])); [reflexivity|].
  destruct (negb (existsb (Z.eqb (Z.land b0 3)) [0; 1; 2])); [reflexivity|].
  destruct (Z.land (Z.shiftr b0 3) 1 =? 1), (Z.land (Z.shiftr b0 2) 1 =? 1); reflexivity.
Qed.
