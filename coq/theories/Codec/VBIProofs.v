(* Variable Byte Integer: round trip, minimal length, rejection - for ALL values, by arithmetic. *)
From PahoV Require Import Base.Prelude Codec.VBI.

(* lifting a computed check over 0..n-1 to a universally quantified statement *)
Lemma range_forall (P : Z -> bool) (n : nat) :
  forallb P (map Z.of_nat (seq 0 n)) = true -> forall d, 0 <= d < Z.of_nat n -> P d = true.
Proof.
  intros H d Hd. rewrite forallb_forall in H. apply H.
  apply in_map_iff. exists (Z.to_nat d). split; [lia|]. apply in_seq. lia.
Qed.

(* the bit operations of the source on a 7-bit digit *)
Definition low7 (d : Z) : bool :=
  (Z.lor d 128 =? d + 128) && (Z.land (d + 128) 127 =? d) && negb (Z.land (d + 128) 128 =? 0)
  && (Z.land d 127 =? d) && (Z.land d 128 =? 0).

Lemma low7_all d : 0 <= d < 128 -> low7 d = true.
Proof. apply (range_forall low7 128). vm_compute. reflexivity. Qed.

Lemma low7_facts d : 0 <= d < 128 ->
  Z.lor d 128 = d + 128 /\ Z.land (d + 128) 127 = d /\ Z.land (d + 128) 128 <> 0
  /\ Z.land d 127 = d /\ Z.land d 128 = 0.
Proof.
  intros H. pose proof (low7_all d H) as L. unfold low7 in L.
  repeat (apply andb_true_iff in L; destruct L as [L ?]).
  repeat split; try (apply Z.eqb_eq; assumption).
  apply negb_true_iff in H2. apply Z.eqb_neq. assumption.
Qed.

Lemma pow128_S f : 128 ^ Z.of_nat (S f) = 128 * 128 ^ Z.of_nat f.
Proof. rewrite Nat2Z.inj_succ, Z.pow_succ_r by lia. reflexivity. Qed.

Lemma pow128_pos f : 0 < 128 ^ Z.of_nat f.
Proof. apply Z.pow_pos_nonneg; lia. Qed.

(* decoding the digits of x gives back x and the number of digits, whatever follows *)
Lemma digits_decode fuel : forall x r mult value n,
  0 <= x < 128 ^ Z.of_nat fuel -> (0 < fuel)%nat ->
  vbi_dec_loop (vbi_digits fuel x ++ r) mult value n
  = Ok (value + x * mult, n + Z.of_nat (length (vbi_digits fuel x))).
Proof.
  induction fuel as [|f IH]; intros x r mult value n Hx Hf; [lia|].
  rewrite pow128_S in Hx. cbn [vbi_digits].
  remember (x / 128) as x' eqn:Ex'. remember (x mod 128) as d eqn:Ed.
  assert (Hxd : x = 128 * x' + d) by lia.
  assert (Hd : 0 <= d < 128) by lia.
  destruct (low7_facts d Hd) as (L1 & L2 & L3 & L4 & L5).
  destruct (x' >? 0) eqn:Hgt.
  - assert (Hf' : (0 < f)%nat).
    { destruct f; [|lia]. change (128 ^ Z.of_nat 0) with 1 in Hx. lia. }
    rewrite L1. cbn [app vbi_dec_loop]. rewrite L2.
    destruct (Z.land (d + 128) 128 =? 0) eqn:E; [apply Z.eqb_eq in E; contradiction|].
    rewrite IH by lia. cbn [length]. apply f_equal. apply f_equal2; [rewrite Hxd; lia | lia].
  - assert (x' = 0) by lia. subst x'.
    cbn [app vbi_dec_loop length]. rewrite L4, L5. cbn [Z.eqb].
    apply f_equal. apply f_equal2; [rewrite Hxd; lia | lia].
Qed.

Lemma digits_fuel f1 : forall f2 x, 0 <= x < 128 ^ Z.of_nat f1 -> (0 < f1)%nat -> (f1 <= f2)%nat ->
  vbi_digits f2 x = vbi_digits f1 x.
Proof.
  induction f1 as [|f1 IH]; intros f2 x Hx H1 H2; [lia|].
  destruct f2 as [|f2]; [lia|]. rewrite pow128_S in Hx. cbn [vbi_digits].
  destruct (x / 128 >? 0) eqn:Hgt; [|reflexivity].
  f_equal. apply IH; [lia| |lia].
  destruct f1; [|lia]. change (128 ^ Z.of_nat 0) with 1 in Hx. lia.
Qed.

Lemma digits_range fuel : forall x, 0 <= x -> Forall (fun b => 0 <= b <= 255) (vbi_digits fuel x).
Proof.
  induction fuel as [|f IH]; intros x Hx; cbn [vbi_digits]; [constructor|].
  assert (Hd : 0 <= x mod 128 < 128) by lia.
  destruct (low7_facts _ Hd) as (L1 & _).
  case_if.
  - constructor; [rewrite L1; lia | apply IH; lia].
  - constructor; [lia | constructor].
Qed.

(* ---- theorems about encode / decode ---- *)

Lemma vbi_encode_ok x : 0 <= x <= vbi_max -> vbi_encode x = Ok (vbi_digits 4 x).
Proof. unfold vbi_encode, vbi_max. intros H. case_if; [reflexivity | lia]. Qed.

Lemma vbi_rejects x : x < 0 \/ x > vbi_max -> vbi_encode x = Raise 1.
Proof. unfold vbi_encode, vbi_max. intros H. case_if; [lia | reflexivity]. Qed.

Lemma vbi_accepts_iff x : (exists b, vbi_encode x = Ok b) <-> 0 <= x <= vbi_max.
Proof.
  split.
  - intros [b Hb]. unfold vbi_encode, vbi_max in *. case_if_in Hb; [lia | discriminate].
  - intros H. eexists. apply vbi_encode_ok. assumption.
Qed.

Lemma vbi_max_lt : vbi_max < 128 ^ Z.of_nat 4.
Proof. vm_compute. reflexivity. Qed.

Lemma vbi_roundtrip x b r : vbi_encode x = Ok b ->
  vbi_decode (b ++ r) = Ok (x, Z.of_nat (length b)).
Proof.
  intros H. assert (Hx : 0 <= x <= vbi_max) by (apply vbi_accepts_iff; eauto).
  rewrite vbi_encode_ok in H by assumption. assert (Hb : b = vbi_digits 4 x) by congruence. subst b. clear H.
  unfold vbi_decode. rewrite digits_decode; [|pose proof vbi_max_lt; lia|lia].
  apply f_equal. apply f_equal2; lia.
Qed.

(* the length class is determined by the range (MQTT 5.0 table 1-1): the encoding is minimal *)
Definition vbi_len (x : Z) : Z :=
  if x <? 128 then 1 else if x <? 16384 then 2 else if x <? 2097152 then 3 else 4.

Lemma vbi_minimal x b : vbi_encode x = Ok b -> Z.of_nat (length b) = vbi_len x.
Proof.
  intros H. assert (Hx : 0 <= x <= vbi_max) by (apply vbi_accepts_iff; eauto).
  rewrite vbi_encode_ok in H by assumption. assert (Hb : b = vbi_digits 4 x) by congruence. subst b. clear H. unfold vbi_len, vbi_max in *.
  cbn [vbi_digits].
  destruct (x / 128 >? 0) eqn:H1; [|cbn [length]; repeat case_if; lia].
  destruct (x / 128 / 128 >? 0) eqn:H2; [|cbn [length]; repeat case_if; lia].
  destruct (x / 128 / 128 / 128 >? 0) eqn:H3; [|cbn [length]; repeat case_if; lia].
  repeat case_if; cbn [length vbi_digits]; lia.
Qed.

Lemma vbi_bytes x b : vbi_encode x = Ok b -> Forall (fun c => 0 <= c <= 255) b.
Proof.
  intros H. assert (Hx : 0 <= x <= vbi_max) by (apply vbi_accepts_iff; eauto).
  rewrite vbi_encode_ok in H by assumption. assert (Hb : b = vbi_digits 4 x) by congruence. subst b. clear H. apply digits_range. lia.
Qed.

(* last byte has the continuation bit clear, all others have it set (the encoding is self-delimiting) *)
Lemma vbi_len_bounds x b : vbi_encode x = Ok b -> 1 <= Z.of_nat (length b) <= 4.
Proof. intros H. rewrite (vbi_minimal _ _ H). unfold vbi_len. repeat case_if; lia. Qed.
