(* Property codec: unpack (pack ps ++ rest) reproduces the property set and uses exactly the packed length. *)
From PahoV Require Import Base.Prelude Codec.StrBytes Codec.Utf8 Codec.VBI Codec.VBIProofs Codec.PropSpec
  Codec.Props5 Codec.Props5Defs Codec.Props5Lemmas Codec.Props5Pack.

Ltac some_inv S := match type of S with Some ?a = Some ?b => let E := fresh in assert (E : b = a) by congruence; subst b; clear S end.

(* ---- reading one value back ---- *)
Lemma read_utf_ok u tail left : spec_str_ok u = true -> 2 + blen u <= left ->
  read_utf (spec_lp u ++ tail) left = Ok (u, blen (spec_lp u)).
Proof.
  intros H L. unfold spec_str_ok in H. apply andb_true_iff in H as [H H3]. apply andb_true_iff in H as [H1 H2].
  apply negb_true_iff in H3. pose proof (blen_nonneg u) as Hn.
  destruct (read_lp u tail ltac:(lia)) as (R1 & R2 & _).
  unfold read_utf. destruct (left <? 2) eqn:E; [lia|]. rewrite R1. cbn [bind].
  destruct (blen u >? left - 2) eqn:E2; [lia|]. rewrite R2, H1, H3. cbn [negb].
  rewrite blen_spec_lp. f_equal. f_equal. lia.
Qed.

Lemma blen_be16 n : blen (be16 n) = 2. Proof. reflexivity. Qed.
Lemma blen_be32 n : blen (be32 n) = 4. Proof. reflexivity. Qed.

Lemma read_value_ok w v e tail left :
  spec_fits w v = true -> spec_value w v = Some e -> blen e <= left ->
  read_property (wtype_index w) (e ++ tail) left = Ok (v, blen e).
Proof.
  intros H S L.
  destruct w; destruct v as [n|[u|b]|[ua|ba] [ub|bb]]; cbn [spec_fits] in H; try discriminate;
    cbn [spec_value] in S; some_inv S; unfold read_property; cbn [wtype_index Z.eqb Pos.eqb].
  - reflexivity.
  - apply zin_iff in H. rewrite read_be16 by lia. reflexivity.
  - apply zin_iff in H. rewrite read_be32 by lia. reflexivity.
  - apply zin_iff in H. rewrite vbi_decode_spec by (unfold vbi_max; lia). reflexivity.
  - destruct (read_lp b tail ltac:(lia)) as (R1 & R2 & _).
    unfold read_bytes. rewrite R1. cbn [bind fst snd]. rewrite R2, blen_spec_lp. f_equal. f_equal. lia.
  - rewrite blen_spec_lp in L.
    rewrite read_utf_ok by (assumption || lia). reflexivity.
  - apply andb_true_iff in H as [Ha Hb].
    rewrite blen_app, !blen_spec_lp in L. pose proof (blen_nonneg ua). pose proof (blen_nonneg ub).
    rewrite <- app_assoc.
    rewrite read_utf_ok by (assumption || lia). cbn [bind fst snd].
    rewrite skipn_blen_app.
    rewrite read_utf_ok by (assumption || rewrite blen_spec_lp; lia). cbn [bind fst snd].
    rewrite blen_app. reflexivity.
Qed.

(* ---- what unpack's setattr does to the attributes: a pure insertion ---- *)
Definition ins (T : ptables) (s : pstate) (x : Z * pval) : pstate :=
  let '(i, v) := x in
  if memz i (t_multi T) then
    match assoc i s with
    | None => store i (Many [v]) s
    | Some (Many old) => store i (Many (old ++ [v])) s
    | Some (One _) => s
    end
  else store i (One v) s.

Definition step_ok (T : ptables) (s : pstate) (x : Z * pval) : Prop :=
  if memz (fst x) (t_multi T) then (forall u, assoc (fst x) s <> Some (One u)) else assoc (fst x) s = None.

Fixpoint steps_ok (T : ptables) (s : pstate) (items : list (Z * pval)) : Prop :=
  match items with
  | [] => True
  | x :: r => step_ok T s x /\ steps_ok T (ins T s x) r
  end.

Definition item_ok (T : ptables) (pt : Z) (x : Z * pval) : Prop :=
  let '(i, v) := x in
  exists n ty pts w, In (n, i) (t_names T) /\ assoc i (t_table T) = Some (ty, pts) /\ memz pt pts = true
    /\ spec_type i = Some w /\ spec_fits w v = true /\ code_range_ok T i v = true.

Lemma setattr_one T pt s n i v : tables_ok T = true -> item_ok T pt (i, v) -> get_name (t_names T) i = Some n ->
  step_ok T s (i, v) -> setattr T pt s n (One v) = Ok (ins T s (i, v)).
Proof.
  intros HT (n' & ty & pts & w & I & A & M & S & Fi & R) G St.
  destruct (tables_ok_row T n' i HT I) as [F1 F2 F3 F4 F5 _].
  assert (n' = n) by congruence. subst n'.
  unfold code_range_ok in R. rewrite G in R.
  destruct (range_check (t_groups T) (compress n) v) as [[]| |] eqn:RC; try discriminate.
  unfold setattr. rewrite F3, F4. cbn [negb]. rewrite F1, A, M. cbn [negb checked_items range_check_all]. rewrite RC. cbn [bind].
  unfold allows_multiple. rewrite F1. unfold ins, step_ok in *. cbn [fst] in St.
  destruct (memz i (t_multi T)); [|reflexivity].
  destruct (assoc i s) as [[u|old]|]; [exfalso; apply (St u); reflexivity | reflexivity | reflexivity].
Qed.

(* one iteration of the while loop *)
Lemma unpack_step T pt f i v e tail k s w : tables_ok T = true -> item_ok T pt (i, v) ->
  spec_type i = Some w -> spec_value w v = Some e -> step_ok T s (i, v) -> 0 <= k ->
  unpack_loop T pt (S f) (spec_vbi i ++ e ++ tail) (blen (spec_vbi i) + blen e + k) s
  = unpack_loop T pt f tail k (ins T s (i, v)).
Proof.
  intros HT Hit S E St Hk.
  pose proof Hit as (n & ty & pts & w' & I & A & M & S' & Fi & R).
  assert (w' = w) by congruence. subst w'.
  destruct (tables_ok_row T n i HT I) as [F1 F2 F3 F4 F5 (ty' & pts' & w'' & A' & S'' & Ety)].
  assert (w'' = w) by congruence. subst w''. assert (ty' = ty) by congruence. subst ty'.
  pose proof (spec_vbi_len i ltac:(unfold vbi_max; lia)) as Hl. pose proof (blen_nonneg e) as He.
  cbn [unpack_loop].
  destruct (blen (spec_vbi i) + blen e + k <=? 0) eqn:E0; [lia|].
  rewrite vbi_decode_spec by (unfold vbi_max; lia). cbn [bind fst snd].
  rewrite skipn_blen_app, A. subst ty.
  rewrite (read_value_ok w v e tail) by (assumption || lia). cbn [bind fst snd].
  rewrite skipn_blen_app, F2. unfold allows_multiple. rewrite F1.
  assert (D : negb (memz i (t_multi T)) && match assoc i s with Some _ => true | None => false end = false).
  { unfold step_ok in St. cbn [fst] in St. destruct (memz i (t_multi T)); [reflexivity|]. rewrite St. reflexivity. }
  rewrite D. rewrite (setattr_one T pt s n i v HT Hit F2 St). cbn [bind].
  f_equal. lia.
Qed.

Lemma unpack_flat T pt : tables_ok T = true -> forall items s fuel tail body,
  spec_body items = Some body -> Forall (item_ok T pt) items -> steps_ok T s items ->
  (length body < fuel)%nat ->
  unpack_loop T pt fuel (body ++ tail) (blen body) s = Ok (fold_left (ins T) items s).
Proof.
  intros HT. induction items as [|[i v] r IH]; intros s fuel tail body B Hit Hst Hf.
  - cbn [spec_body] in B. inv B. cbn [fold_left app]. destruct fuel; reflexivity.
  - cbn [spec_body] in B. destruct (spec_type i) as [w|] eqn:S; [|discriminate].
    destruct (spec_value w v) as [e|] eqn:E; [|discriminate].
    destruct (spec_body r) as [br|] eqn:Br; [|discriminate]. inv B.
    inversion Hit as [|x l Hx Hl]; subst. destruct Hst as [St Hst].
    destruct fuel as [|f]; [lia|].
    rewrite <- !app_assoc. rewrite !blen_app.
    replace (blen (spec_vbi i) + (blen e + blen br)) with (blen (spec_vbi i) + blen e + blen br) by lia.
    rewrite (unpack_step T pt f i v e (br ++ tail) (blen br) s w) by (assumption || apply blen_nonneg).
    cbn [fold_left]. apply IH; try assumption; try reflexivity.
    pose proof Hx as (n0 & ? & ? & ? & I0 & _). destruct (tables_ok_row T n0 i HT I0) as [_ _ _ _ F5 _].
    pose proof (spec_vbi_len i ltac:(unfold vbi_max; lia)) as Hlen. unfold blen in Hlen.
    rewrite !app_length in Hf. lia.
Qed.

(* ---- the insertions, in table order, rebuild the normalised attribute list ---- *)
Lemma assoc_app_none {A} k (s t : list (Z * A)) : assoc k s = None -> assoc k (s ++ t) = assoc k t.
Proof.
  induction s as [|[k' a] r IH]; cbn [assoc app]; [reflexivity|].
  destruct (k' =? k); [discriminate|assumption].
Qed.

Lemma store_app_none k x (s : pstate) : assoc k s = None -> store k x s = s ++ [(k, x)].
Proof.
  induction s as [|[k' a] r IH]; cbn [assoc store app]; [reflexivity|].
  destruct (k' =? k); [discriminate|]. intros H. rewrite IH by assumption. reflexivity.
Qed.

Lemma store_app_last k x y (s : pstate) : assoc k s = None -> store k x (s ++ [(k, y)]) = s ++ [(k, x)].
Proof.
  induction s as [|[k' a] r IH]; cbn [assoc store app].
  - rewrite Z.eqb_refl. reflexivity.
  - destruct (k' =? k); [discriminate|]. intros H. rewrite IH by assumption. reflexivity.
Qed.

Lemma assoc_last k x (s : pstate) : assoc k s = None -> assoc k (s ++ [(k, x)]) = Some x.
Proof. intros H. rewrite assoc_app_none by assumption. cbn [assoc]. rewrite Z.eqb_refl. reflexivity. Qed.

Lemma assoc_last_other k j x (s : pstate) : j <> k -> assoc j (s ++ [(k, x)]) = assoc j s.
Proof.
  intros H. induction s as [|[k' a] r IH]; cbn [assoc app].
  - destruct (k =? j) eqn:E; [apply Z.eqb_eq in E; congruence | reflexivity].
  - destruct (k' =? j); [reflexivity | assumption].
Qed.

Lemma fold_many T i (l : list pval) : memz i (t_multi T) = true -> forall s done, assoc i s = None ->
  fold_left (ins T) (map (pair i) l) (s ++ [(i, Many done)]) = s ++ [(i, Many (done ++ l))]
  /\ steps_ok T (s ++ [(i, Many done)]) (map (pair i) l).
Proof.
  intros M. induction l as [|v r IH]; intros s done A.
  - cbn [map fold_left steps_ok]. rewrite app_nil_r. split; [reflexivity|exact I].
  - assert (Hins : ins T (s ++ [(i, Many done)]) (i, v) = s ++ [(i, Many (done ++ [v]))]).
    { unfold ins. rewrite M, (assoc_last i _ s A), (store_app_last i _ _ s A). reflexivity. }
    cbn [map fold_left steps_ok]. rewrite Hins.
    destruct (IH s (done ++ [v]) A) as [E1 E2]. rewrite E1, <- app_assoc. split; [reflexivity|].
    split; [|exact E2]. unfold step_ok. cbn [fst]. rewrite M. intros u. rewrite (assoc_last i _ s A). discriminate.
Qed.

Lemma fold_entry T i st_i w (s : pstate) : assoc i s = None -> stored_ok (memz i (t_multi T)) w st_i = true ->
  fold_left (ins T) (entries_of i st_i) s = s ++ [(i, st_i)] /\ steps_ok T s (entries_of i st_i).
Proof.
  intros A H. unfold stored_ok in H. destruct (memz i (t_multi T)) eqn:M; destruct st_i as [v|l]; try discriminate.
  - apply andb_true_iff in H as [N _]. destruct l as [|v r]; [discriminate|].
    assert (Hins : ins T s (i, v) = s ++ [(i, Many [v])]).
    { unfold ins. rewrite M, A, (store_app_none i _ s A). reflexivity. }
    cbn [entries_of map fold_left steps_ok]. rewrite Hins.
    destruct (fold_many T i r M s [v] A) as [E1 E2]. rewrite E1. cbn [app]. split; [reflexivity|].
    split; [|exact E2]. unfold step_ok. cbn [fst]. rewrite M, A. discriminate.
  - cbn [entries_of fold_left steps_ok]. unfold ins. rewrite M, (store_app_none i _ s A).
    split; [reflexivity|]. split; [|exact I]. unfold step_ok. cbn [fst]. rewrite M. exact A.
Qed.

Lemma steps_ok_app T : forall a b s, steps_ok T s a -> steps_ok T (fold_left (ins T) a s) b -> steps_ok T s (a ++ b).
Proof.
  induction a as [|x r IH]; intros b s Ha Hb; cbn [app]; [exact Hb|].
  destruct Ha as [H1 H2]. split; [exact H1|]. apply IH; assumption.
Qed.

Lemma fold_norm T pt st : tables_ok T = true -> wf_state T pt st = true ->
  forall ns, incl ns (t_names T) -> NoDup (map snd ns) ->
  forall s, (forall p, In p ns -> assoc (snd p) s = None) ->
  fold_left (ins T) (flat (norm_names ns st)) s = s ++ norm_names ns st
  /\ steps_ok T s (flat (norm_names ns st)).
Proof.
  intros HT HS. induction ns as [|[n i] r IH]; intros Hincl Hnd s Hs.
  - cbn [norm_names flat flat_map fold_left]. rewrite app_nil_r. split; [reflexivity|exact I].
  - assert (In_ : In (n, i) (t_names T)) by (apply Hincl; left; reflexivity).
    cbn [map snd] in Hnd. inversion Hnd as [|x l Hni Hnd']; subst.
    cbn [norm_names]. destruct (assoc i st) as [si|] eqn:A.
    + destruct (tables_ok_row T n i HT In_) as [_ _ _ _ _ (ty & pts & w & F6 & F7 & F8)].
      destruct (wf_entry_elim T pt i si (wf_state_assoc T pt st i si HS A) ty pts w F6 F7) as [_ HO].
      assert (Ai : assoc i s = None) by (apply (Hs (n, i)); left; reflexivity).
      destruct (fold_entry T i si w s Ai HO) as [E1 E2].
      unfold flat. cbn [flat_map fst snd]. fold (flat (norm_names r st)).
      rewrite fold_left_app, E1.
      destruct (IH (fun x Hx => Hincl x (or_intror Hx)) Hnd' (s ++ [(i, si)])) as [E3 E4].
      { intros [n' j] Hp. cbn [snd]. rewrite assoc_last_other.
        - apply (Hs (n', j)). right. assumption.
        - intros ->. apply Hni. apply in_map_iff. exists (n', i). split; [reflexivity|assumption]. }
      rewrite E3, <- app_assoc. split; [reflexivity|].
      apply steps_ok_app; [exact E2|]. rewrite E1. exact E4.
    + apply IH; [exact (fun x Hx => Hincl x (or_intror Hx)) | assumption |].
      intros p Hp. apply Hs. right. assumption.
Qed.

Lemma nodupz_NoDup l : nodupz l = true -> NoDup l.
Proof.
  induction l as [|x r IH]; cbn [nodupz]; intros H; constructor.
  - apply andb_true_iff in H as [H _]. apply negb_true_iff in H. intros I. apply memz_in in I. congruence.
  - apply andb_true_iff in H as [_ H]. apply IH. assumption.
Qed.

(* every item of the flattened normal form satisfies the per-item conditions *)
Lemma state_all_assoc f st i s v : state_all f st = true -> assoc i st = Some s -> In v (values_of s) -> f i v = true.
Proof.
  intros H A I. unfold state_all in H. rewrite forallb_forall in H. specialize (H _ (assoc_in _ _ _ A)).
  cbn [fst snd] in H. rewrite forallb_forall in H. apply H. assumption.
Qed.

Lemma entries_values i s x : In x (entries_of i s) -> fst x = i /\ In (snd x) (values_of s).
Proof.
  destruct s as [v|l]; cbn [entries_of values_of].
  - intros [<-|[]]. split; [reflexivity|left; reflexivity].
  - intros H. apply in_map_iff in H as [v [<- Hv]]. split; [reflexivity|assumption].
Qed.

Lemma stored_ok_fits multi w s v : stored_ok multi w s = true -> In v (values_of s) -> spec_fits w v = true.
Proof.
  unfold stored_ok. destruct multi, s as [u|l]; try discriminate; cbn [values_of].
  - intros H I. apply andb_true_iff in H as [_ H]. rewrite forallb_forall in H. apply H. assumption.
  - intros H [<-|[]]. assumption.
Qed.

Lemma items_ok T pt st : tables_ok T = true -> wf_state T pt st = true ->
  code_range_state T st = true ->
  forall ns, incl ns (t_names T) -> Forall (item_ok T pt) (flat (norm_names ns st)).
Proof.
  intros HT HS HR. induction ns as [|[n i] r IH]; intros Hincl; [constructor|].
  assert (In_ : In (n, i) (t_names T)) by (apply Hincl; left; reflexivity).
  cbn [norm_names]. destruct (assoc i st) as [si|] eqn:A; [|apply IH; exact (fun x Hx => Hincl x (or_intror Hx))].
  unfold flat. cbn [flat_map fst snd]. apply Forall_app. split; [|apply IH; exact (fun x Hx => Hincl x (or_intror Hx))].
  destruct (tables_ok_row T n i HT In_) as [_ _ _ _ _ (ty & pts & w & F6 & F7 & F8)].
  destruct (wf_entry_elim T pt i si (wf_state_assoc T pt st i si HS A) ty pts w F6 F7) as [HM HO].
  apply Forall_forall. intros [j v] Hx. destruct (entries_values i si _ Hx) as [Ej Hv]. cbn [fst snd] in Ej, Hv. subst j.
  exists n, ty, pts, w. repeat split; try assumption.
  - eapply stored_ok_fits; eassumption.
  - exact (state_all_assoc _ st i si v HR A Hv).
Qed.

(* ---- the round trip ---- *)
Lemma unpack_pack T pt st rest : tables_ok T = true -> wf_state T pt st = true -> body_small T st = true ->
  code_range_state T st = true ->
  exists b, pack T st = Ok b /\ unpack T pt (b ++ rest) = Ok (norm T st, blen b).
Proof.
  intros HT HS HB HR.
  destruct (pack_names_spec T pt st HT HS (t_names T) (incl_refl _)) as [body [B1 B2]].
  pose proof HB as HB'. unfold body_small, canon, norm in HB'. fold (flat (norm_names (t_names T) st)) in HB'.
  rewrite B2 in HB'. pose proof (blen_nonneg body) as Hn.
  exists (spec_vbi (blen body) ++ body). split.
  - unfold pack. rewrite B1. cbn [bind]. rewrite vbi_encode_spec by lia. reflexivity.
  - unfold unpack. rewrite <- app_assoc. rewrite vbi_decode_spec by lia. cbn [bind fst snd].
    rewrite skipn_blen_app.
    assert (Hnd : NoDup (map snd (t_names T))).
    { pose proof HT as HT'. unfold tables_ok in HT'. apply andb_true_iff in HT' as [HT' _].
      apply andb_true_iff in HT' as [_ HT']. apply nodupz_NoDup. assumption. }
    destruct (fold_norm T pt st HT HS (t_names T) (incl_refl _) Hnd [] (fun _ _ => eq_refl)) as [E1 E2].
    rewrite (unpack_flat T pt HT (flat (norm_names (t_names T) st)) [] _ rest body B2
               (items_ok T pt st HT HS HR (t_names T) (incl_refl _)) E2).
    + rewrite E1. cbn [app bind]. unfold norm. f_equal. f_equal. rewrite blen_app. lia.
    + rewrite !app_length. lia.
Qed.
