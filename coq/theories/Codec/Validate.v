(* M1: argument validation of publish() / subscribe() / unsubscribe() (client.py 1754-1772,
   1980-2037, 2064-2088, 3330-3350, 468-483). Model only, no proofs.
   Strings are the UTF-8 byte strings (`list Z`) the code computes with `.encode('utf-8')`. *)
From PahoV Require Import Base.Prelude.

(* exception kinds carried by [Raise] (1 and 2 as in Prelude; 8 = AttributeError) *)
Definition ValueError : Z := 1.
Definition TypeError : Z := 2.
Definition AttributeError : Z := 8.

(* MQTTErrorCode values returned by _filter_wildcard_len_check *)
Definition OK : Z := 0.
Definition INVAL : Z := 3.

Definition blen (s : list Z) : Z := Z.of_nat (length s).
Definition has_byte (c : Z) (s : list Z) : bool := existsb (Z.eqb c) s.   (* b'c' in s *)

Inductive version := V31 | V311 | V5.
Definition is_v5 (v : version) : bool := match v with V5 => true | _ => false end.

(* ------------------------------------------------------------------ the two leaf predicates *)

(* _raise_for_invalid_topic(topic):
     if b'+' in topic or b'#' in topic: raise ValueError
     if len(topic) > 65535: raise ValueError *)
Definition topic_check (topic : list Z) : res Z :=
  if has_byte 43 topic || has_byte 35 topic then Raise 1
  else if blen topic >? 65535 then Raise 1
  else Ok 0.

(* one level of   any(b'+' in p or b'#' in p for p in sub.split(b'/') if len(p) > 1) *)
Definition level_bad (p : list Z) : bool :=
  (blen p >? 1) && (has_byte 43 p || has_byte 35 p).

(* _filter_wildcard_len_check(sub) -> MQTT_ERR_INVAL (3) | MQTT_ERR_SUCCESS (0) *)
Definition filter_check (sub : list Z) : Z :=
  if (blen sub =? 0) || ((blen sub >? 65535) ||
     (existsb level_bad (split_on 47 sub) || infixb [35; 47] sub))
  then INVAL else OK.

(* ------------------------------------------------------------------ publish() *)

(* the classes _encode_payload distinguishes; bool is an int for isinstance, so it is PInt *)
Inductive pkind := PStr | PBytes | PBytearray | PInt | PFloat | PNone | POther.

Definition payload_supported (k : pkind) : bool :=
  match k with POther => false | _ => true end.

(* remaining_length = 2 + len(topic_bytes) + len(local_payload) + (2 if qos > 0 else 0)
   if self._protocol == MQTTv5: remaining_length += 1 if properties is None else len(properties.pack()) *)
Definition publish_remaining_length (v : version) (topic : list Z) (qos plen proplen : Z) : Z :=
  2 + blen topic + plen + (if qos >? 0 then 2 else 0) + (if is_v5 v then proplen else 0).

(* publish(topic, payload, qos, properties): the checks of client.py 1754-1772 in source order.
   plen = len(_encode_payload(payload)) (irrelevant for POther); proplen = 1 when properties is None,
   else len(properties.pack()) (irrelevant for MQTT 3.x). Ok 0 = all checks passed, i.e. the call goes
   on to _mid_generate(). *)
Definition publish_args_check (v : version) (topic : list Z) (qos : Z) (k : pkind) (plen proplen : Z) : res Z :=
  if negb (is_v5 v) && (blen topic =? 0) then Raise 1                (* 'Invalid topic.' *)
  else match topic_check topic with
       | Raise e => Raise e
       | OutOfFuel => OutOfFuel
       | Ok _ =>
           if (qos <? 0) || (qos >? 2) then Raise 1                   (* 'Invalid QoS level.' *)
           else if negb (payload_supported k) then Raise 2            (* _encode_payload TypeError *)
           else if publish_remaining_length v topic qos plen proplen >? 268435455
                then Raise 1                                          (* 'Payload too large.' *)
           else Ok 0
       end.

(* ------------------------------------------------------------------ subscribe() *)

(* what can stand where a topic string is expected *)
Inductive item :=
| IStr (s : list Z)       (* a str, by its UTF-8 encoding *)
| IBytes (s : list Z)     (* a bytes object (passes isinstance(.., (bytes, str)), has no .encode) *)
| INone
| IOther.                 (* any other object without len()/encode, e.g. an int *)

(* what can stand where a QoS / SubscribeOptions is expected *)
Inductive second :=
| QInt (q : Z)            (* an int (not bool) *)
| QOpts (ob : Z)          (* a SubscribeOptions instance; ob = the byte its pack() yields *)
| QOther.                 (* None, a str, ...: neither int nor SubscribeOptions, not comparable with int *)

(* the `options=` keyword argument *)
Inductive optarg :=
| OAbsent                 (* None, the default *)
| OOpts (ob : Z)
| OOther.                 (* any non-None object that is not a SubscribeOptions *)

(* an element of a list argument *)
Inductive elem :=
| EPair (i : item) (q : second)   (* a 2-tuple *)
| EBadArity                       (* a tuple/sequence of length <> 2: unpacking raises ValueError *)
| ENotIterable.                   (* e.g. an int: unpacking raises TypeError *)

Inductive sub_topic :=
| TItem (i : item)
| TTuple (i : item) (q : second)
| TTupleBad                       (* tuple of length <> 2 *)
| TList (l : list elem).

Record sub_arg := mk_sub_arg { sa_topic : sub_topic; sa_qos : Z; sa_options : optarg }.

Definition filter := list Z.
Definition opts := Z.      (* the byte written after the filter: QoS (v3) or the packed options (v5) *)

Definition qos_bad (q : Z) : bool := (q <? 0) || (q >? 2).

(* t.encode('utf-8') *)
Definition encode_item (i : item) : res filter :=
  match i with
  | IStr s => Ok s
  | _ => Raise 8
  end.

(* the `isinstance(topic, (bytes, str))` branch, 1993-2010; q is what `qos` is bound to by then *)
Definition sub_string_branch (v : version) (i : item) (ilen : Z) (q : second) (o : optarg)
  : res (list (filter * opts)) :=
  match q with
  | QInt q =>
      if qos_bad q then Raise 1 else
      if is_v5 v then
        match o with
        | OAbsent => match encode_item i with Ok s => Ok [(s, q)] | Raise e => Raise e | OutOfFuel => OutOfFuel end
        | OOpts ob => if negb (q =? 0) then Raise 1
                      else match encode_item i with Ok s => Ok [(s, ob)] | Raise e => Raise e | OutOfFuel => OutOfFuel end
        | OOther => Raise 1
        end
      else
        if ilen =? 0 then Raise 1
        else match encode_item i with Ok s => Ok [(s, q)] | Raise e => Raise e | OutOfFuel => OutOfFuel end
  | _ => Raise 2          (* `qos < 0` between a non-number and an int *)
  end.

(* one iteration of `for t, o in topic:` (v5, 2017-2023) / `for t, q in topic:` (v3, 2025-2030) *)
Definition sub_elem (v : version) (e : elem) : res (filter * opts) :=
  match e with
  | EBadArity => Raise 1
  | ENotIterable => Raise 2
  | EPair i q =>
      if is_v5 v then
        match q with
        | QOpts ob => match encode_item i with Ok s => Ok (s, ob) | Raise e => Raise e | OutOfFuel => OutOfFuel end
        | QInt q => if qos_bad q then Raise 1
                    else match encode_item i with Ok s => Ok (s, q) | Raise e => Raise e | OutOfFuel => OutOfFuel end
        | QOther => Raise 2
        end
      else
        match q with
        | QOpts _ => Raise 1
        | QOther => Raise 2
        | QInt q =>
            if qos_bad q then Raise 1 else
            match i with
            | INone => Raise 1
            | IOther => Raise 2                       (* len(t) on an object without len() *)
            | IStr s => if blen s =? 0 then Raise 1 else Ok (s, q)
            | IBytes s => if blen s =? 0 then Raise 1 else Raise 8
            end
        end
  end.

Fixpoint sub_elems (v : version) (l : list elem) : res (list (filter * opts)) :=
  match l with
  | [] => Ok []
  | e :: l' =>
      match sub_elem v e with
      | Ok p => match sub_elems v l' with
                | Ok ps => Ok (p :: ps)
                | Raise k => Raise k
                | OutOfFuel => OutOfFuel
                end
      | Raise k => Raise k
      | OutOfFuel => OutOfFuel
      end
  end.

Definition item_is_string (i : item) : option Z :=      (* Some len when isinstance(i, (bytes, str)) *)
  match i with
  | IStr s => Some (blen s)
  | IBytes s => Some (blen s)
  | _ => None
  end.

(* `if any(self._filter_wildcard_len_check(topic) != MQTT_ERR_SUCCESS for topic, _ in topic_qos_list)` *)
Definition filters_checked (r : res (list (filter * opts))) : res (list (filter * opts)) :=
  match r with
  | Ok l => if existsb (fun p => negb (filter_check (fst p) =? OK)) l then Raise 1 else Ok l
  | other => other
  end.

(* subscribe(topic, qos, options): Ok l = the call goes on to `if self._sock is None` /
   _send_subscribe with topic_qos_list = l; Raise k = exception of kind k, raised before that *)
Definition subscribe_norm (v : version) (a : sub_arg) : res (list (filter * opts)) :=
  let after_tuple (i : item) (q : second) (o : optarg) :=
    match item_is_string i with
    | Some n => filters_checked (sub_string_branch v i n q o)
    | None => Raise 1                                   (* 'No topic specified, or incorrect topic type.' *)
    end in
  match sa_topic a with
  | TTupleBad => Raise 1                                (* unpacking error is a ValueError *)
  | TTuple i s =>
      if is_v5 v then
        match s with
        | QInt q => after_tuple i (QInt q) OAbsent
        | QOpts ob => after_tuple i (QInt (sa_qos a)) (OOpts ob)
        | QOther => Raise 1
        end
      else after_tuple i s (sa_options a)
  | TItem i => after_tuple i (QInt (sa_qos a)) (sa_options a)
  | TList l =>
      match l with
      | [] => Raise 1                                   (* 'Empty topic list' *)
      | _ => filters_checked (sub_elems v l)
      end
  end.

(* _send_subscribe (connected client only), before _mid_generate():
     remaining_length = 2 [+ len(packed properties) for v5]; for t, _ in topics: remaining_length += 2 + len(t) + 1
     _pack_remaining_length raises ValueError('Packet too large.') above 268435455 *)
Definition subscribe_remaining_length (v : version) (proplen : Z) (l : list (filter * opts)) : Z :=
  fold_left (fun acc p => acc + (2 + blen (fst p) + 1)) l (2 + (if is_v5 v then proplen else 0)).

(* subscribe() on a connected client up to the point where the packet is queued *)
Definition subscribe_connected (v : version) (proplen : Z) (a : sub_arg) : res (list (filter * opts)) :=
  match subscribe_norm v a with
  | Ok l => if subscribe_remaining_length v proplen l >? 268435455 then Raise 1 else Ok l
  | other => other
  end.

(* ------------------------------------------------------------------ unsubscribe() *)

Inductive unsub_arg :=
| UItem (i : item)             (* a str / bytes / None / other non-list object *)
| UList (l : list item).

Definition unsub_elem (i : item) : res filter :=
  match i with
  | IStr s => if blen s =? 0 then Raise 1 else Ok s
  | IBytes s => if blen s =? 0 then Raise 1 else Raise 8
  | INone => Raise 2                                    (* len(None) *)
  | IOther => Raise 2
  end.

Fixpoint unsub_elems (l : list item) : res (list filter) :=
  match l with
  | [] => Ok []
  | i :: l' =>
      match unsub_elem i with
      | Ok s => match unsub_elems l' with
                | Ok ss => Ok (s :: ss)
                | Raise k => Raise k
                | OutOfFuel => OutOfFuel
                end
      | Raise k => Raise k
      | OutOfFuel => OutOfFuel
      end
  end.

Definition unsubscribe_norm (a : unsub_arg) : res (list filter) :=
  match a with
  | UItem INone => Raise 1
  | UItem IOther => Raise 1
  | UItem (IStr s) => if blen s =? 0 then Raise 1 else Ok [s]
  | UItem (IBytes s) => if blen s =? 0 then Raise 1 else Raise 8
  | UList [] => Raise 1                                  (* 'Empty topic list' *)
  | UList l => unsub_elems l
  end.

(* ------------------------------------------------------------------ effect of a rejected call
   Every Raise above is raised before _mid_generate(), before any store to _out_messages /
   _inflight_messages and before _packet_queue() (the size check of _send_subscribe sits in
   _pack_remaining_length, which _send_subscribe calls before _mid_generate()): a rejected
   publish()/subscribe() leaves the client object unchanged, _last_mid included. The session-level
   statement lives in model M2. *)
