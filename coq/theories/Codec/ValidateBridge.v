(* Bridge: the definitions generated on every run from client.py's _raise_for_invalid_topic and
   _filter_wildcard_len_check (Gen/GenTopic.v, Gen/GenFilter.v) equal the hand models of
   Codec/Validate.v. The proofs are conversion only: any semantic change of the source makes the
   generated term differ and these lemmas stop compiling. *)
From PahoV Require Import Base.Prelude Codec.Validate Gen.GenTopic Gen.GenFilter.

Lemma raise_for_invalid_topic_bridge fuel topic :
  raise_for_invalid_topic fuel topic = topic_check topic.
Proof. reflexivity. Qed.

Lemma filter_wildcard_len_check_cond fuel sub :
  filter_wildcard_len_check fuel sub =
  if (blen sub =? 0) || ((blen sub >? 65535) ||
     (existsb level_bad (split_on 47 sub) || infixb [35; 47] sub))
  then Ok INVAL else Ok OK.
Proof. reflexivity. Qed.

Lemma filter_wildcard_len_check_bridge fuel sub :
  filter_wildcard_len_check fuel sub = Ok (filter_check sub).
Proof.
  rewrite filter_wildcard_len_check_cond. unfold filter_check. case_if; reflexivity.
Qed.
