(* M1: the MQTT 5 property codec of properties.py: Properties.__setattr__, pack / writeProperty,
   unpack / readProperty, readUTF, readBytes, readInt16/32, getIdentFromName, getNameFromIdent,
   allowsMultiple.  Parameterised by the tables generated from the source (record ptables).
   Model only, no proofs.

   Values (pval, from Codec/PropSpec.v): VInt = Python int; VS (SStr u) = Python str carried as its UTF-8
   bytes (a str holding lone surrogates is carried in its 'surrogatepass' form and is then not utf8_valid);
   VS (SBin b) = Python bytes; VPair a b = a 2-tuple of str/bytes; an assigned value is One v or a list Many l.
   Exception kinds: 1 ValueError/Unicode*Error, 2 TypeError (also AttributeError/UnboundLocalError),
   3 MQTTException, 4 MalformedPacket, 6 IndexError, 7 KeyError, 9 struct.error; the correspondence
   compares them after `coarse` (1, 2, 9 -> 1).
   The object's attribute dictionary is modelled as an association list keyed by the property IDENTIFIER;
   the source keys it by the compressed name - the same thing as long as names <-> identifiers is a
   bijection, which tables_ok checks on the generated tables on every run. *)
From PahoV Require Import Base.Prelude Codec.StrBytes Codec.Utf8 Codec.VBI Codec.PropSpec.

Record ptables := {
  t_names : list (list Z * Z);              (* Properties.names: (name, identifier), dict order *)
  t_table : list (Z * (Z * list Z));        (* Properties.properties: identifier -> (type index, packet types) *)
  t_multi : list Z;                         (* the literal list in allowsMultiple *)
  t_private : list (list Z);                (* privateVars of __setattr__ *)
  t_groups : list (list (list Z) * Z * list Z); (* value checks of __setattr__: (names, kind, params) *)
  t_npackets : Z;                           (* len(PacketTypes.Names), indexed by the error message below *)
  t_each : bool                             (* the value checks run for every element of an assigned list *)
}.

Inductive passign := One (v : pval) | Many (l : list pval).
Definition pstate := list (Z * passign).

Definition bind {A B} (r : res A) (f : A -> res B) : res B :=
  match r with Ok a => f a | Raise k => Raise k | OutOfFuel => OutOfFuel end.

(* ---- name <-> identifier ---- *)
(* getIdentFromName: first name whose compressed form matches, else -1 *)
Fixpoint get_ident (names : list (list Z * Z)) (cn : list Z) : Z :=
  match names with
  | [] => -1
  | (n, i) :: r => if zlist_eqb cn (compress n) then i else get_ident r cn
  end.

(* getNameFromIdent: LAST name with that identifier, else None *)
Fixpoint get_name (names : list (list Z * Z)) (id : Z) : option (list Z) :=
  match names with
  | [] => None
  | (n, i) :: r => match get_name r id with
                   | Some x => Some x
                   | None => if i =? id then Some n else None
                   end
  end.

Definition name_known (names : list (list Z * Z)) (cn : list Z) : bool :=
  existsb (fun p => zlist_eqb cn (compress (fst p))) names.

Definition allows_multiple (T : ptables) (cn : list Z) : bool := memz (get_ident (t_names T) cn) (t_multi T).

Fixpoint store (id : Z) (x : passign) (st : pstate) : pstate :=
  match st with
  | [] => [(id, x)]
  | (k, y) :: r => if k =? id then (k, x) :: r else (k, y) :: store id x r
  end.

(* ---- __setattr__ ---- *)
(* one link of the if/elif chain: does the test raise? (comparing a non-int with `<` is a TypeError;
   `!=` never raises) *)
Definition group_fails (kind : Z) (params : list Z) (v : pval) : res bool :=
  if kind =? 0 then
    match params, v with
    | [lo; hi], VInt n => Ok ((n <? lo) || (n >? hi))
    | _, _ => Raise 2
    end
  else
    match v with
    | VInt n => Ok (negb (memz n params))
    | _ => Ok true
    end.

Fixpoint range_check (groups : list (list (list Z) * Z * list Z)) (cn : list Z) (v : pval) : res unit :=
  match groups with
  | [] => Ok tt
  | (ns, kind, ps) :: r =>
      if existsb (zlist_eqb cn) ns then
        match group_fails kind ps v with
        | Ok true => Raise 3
        | Ok false => range_check r cn v
        | Raise k => Raise k
        | OutOfFuel => OutOfFuel
        end
      else range_check r cn v
  end.

(* for item in (value if isinstance(value, list) else [value]): <chain> - the first failing item raises *)
Fixpoint range_check_all (groups : list (list (list Z) * Z * list Z)) (cn : list Z) (l : list pval) : res unit :=
  match l with
  | [] => Ok tt
  | v :: r => bind (range_check groups cn v) (fun _ => range_check_all groups cn r)
  end.

(* the items the checks look at (an older source skipped lists: t_each = false) *)
Definition checked_items (T : ptables) (a : passign) : list pval :=
  match a with One v => [v] | Many l => if t_each T then l else [] end.

(* setattr(props, name, value) on an object of packet type pt.
   Raise 0 = the name is one of the object's own attributes (packetType/types/names/properties):
   Python replaces that table; this is outside the model. *)
Definition setattr (T : ptables) (pt : Z) (st : pstate) (name : list Z) (a : passign) : res pstate :=
  let cn := compress name in
  if existsb (zlist_eqb cn) (t_private T) then Raise 0
  else if negb (name_known (t_names T) cn) then Raise 3
  else
    let id := get_ident (t_names T) cn in
    match assoc id (t_table T) with
    | None => Raise 7
    | Some (_, pts) =>
        if negb (memz pt pts) then
          (* raise MQTTException(f"... {PacketTypes.Names[self.packetType]}"): the message itself raises
             IndexError when the packet type is not an index of Names (e.g. WILLMESSAGE = 99) *)
          if (- t_npackets T <=? pt) && (pt <? t_npackets T) then Raise 3 else Raise 6
        else
          bind (range_check_all (t_groups T) cn (checked_items T a)) (fun _ =>
          if allows_multiple T cn then
            let l := match a with One v => [v] | Many l => l end in
            match assoc id st with
            | None => Ok (store id (Many l) st)
            | Some (Many old) => Ok (store id (Many (old ++ l)) st)
            | Some (One _) => Raise 2        (* unreachable: a repeatable property is always stored as a list *)
            end
          else Ok (store id a st))
    end.

(* assigning a list of (name, value) in order, from the empty object *)
Fixpoint set_all (T : ptables) (pt : Z) (st : pstate) (l : list (list Z * passign)) : res pstate :=
  match l with
  | [] => Ok st
  | (n, a) :: r => bind (setattr T pt st n a) (fun st' => set_all T pt st' r)
  end.

(* ---- writing ---- *)
Definition write_int16 (n : Z) : res (list Z) := if zin 0 65535 n then Ok (be16 n) else Raise 9.
Definition write_int32 (n : Z) : res (list Z) := if zin 0 4294967295 n then Ok (be32 n) else Raise 9.
Definition write_lp (b : list Z) : res (list Z) := bind (write_int16 (blen b)) (fun h => Ok (h ++ b)).

(* writeUTF: bytes pass through unchanged; a str is encoded (UnicodeEncodeError for surrogates) *)
Definition write_utf (s : sval) : res (list Z) :=
  match s with
  | SBin b => write_lp b
  | SStr u => if utf8_valid u then write_lp u else Raise 1
  end.

Definition write_value (ty : Z) (v : pval) : res (list Z) :=
  if ty =? 0 then match v with VInt n => if zin 0 255 n then Ok [n] else Raise 1 | _ => Raise 2 end
  else if ty =? 1 then match v with VInt n => write_int16 n | _ => Raise 9 end
  else if ty =? 2 then match v with VInt n => write_int32 n | _ => Raise 9 end
  else if ty =? 3 then match v with VInt n => vbi_encode n | _ => Raise 2 end
  else if ty =? 4 then match v with VS (SBin b) => write_lp b | _ => Raise 2 end
  else if ty =? 5 then match v with VS s => write_utf s | _ => Raise 2 end
  else if ty =? 6 then
    match v with
    | VPair a b => bind (write_utf a) (fun x => bind (write_utf b) (fun y => Ok (x ++ y)))
    | VS (SStr u) =>       (* value[0], value[1] of a str are its first two characters *)
        match utf8_uncons u with
        | None => Raise 6
        | Some (c0, r) =>
            bind (write_utf (SStr c0)) (fun x =>
            match utf8_uncons r with
            | None => Raise 6
            | Some (c1, _) => bind (write_utf (SStr c1)) (fun y => Ok (x ++ y))
            end)
        end
    | VS (SBin b) => match b with [] => Raise 6 | _ => Raise 2 end   (* value[0] is an int *)
    | VInt _ => Raise 2
    end
  else Ok [].                      (* no branch of writeProperty matches: only the identifier is written *)

(* writeProperty with a list as the value (a list assigned to a non-repeatable property) *)
Definition write_str_item (v : pval) : res (list Z) :=
  match v with VS a => write_utf a | _ => Raise 2 end.

Definition write_list_value (ty : Z) (l : list pval) : res (list Z) :=
  if ty =? 6 then
    match l with
    | [] => Raise 6
    | x :: r => bind (write_str_item x) (fun xa =>
                match r with
                | [] => Raise 6
                | y :: _ => bind (write_str_item y) (fun yb => Ok (xa ++ yb))
                end)
    end
  else if (0 <=? ty) && (ty <=? 5) then Raise 2
  else Ok [].

Definition write_property (id ty : Z) (v : pval) : res (list Z) :=
  bind (vbi_encode id) (fun h => bind (write_value ty v) (fun e => Ok (h ++ e))).

Fixpoint write_many (id ty : Z) (l : list pval) : res (list Z) :=
  match l with
  | [] => Ok []
  | v :: r => bind (write_property id ty v) (fun e => bind (write_many id ty r) (fun rest => Ok (e ++ rest)))
  end.

Definition write_stored (multi : bool) (id ty : Z) (s : passign) : res (list Z) :=
  if multi then
    match s with Many l => write_many id ty l | One _ => Raise 2 end
  else
    match s with
    | One v => write_property id ty v
    | Many l => bind (vbi_encode id) (fun h => bind (write_list_value ty l) (fun e => Ok (h ++ e)))
    end.

(* the loop of pack() over self.names.keys() *)
Fixpoint pack_names (T : ptables) (ns : list (list Z * Z)) (st : pstate) : res (list Z) :=
  match ns with
  | [] => Ok []
  | (n, _) :: r =>
      let cn := compress n in
      let id := get_ident (t_names T) cn in
      match assoc id st with
      | None => pack_names T r st
      | Some s =>
          match assoc id (t_table T) with
          | None => Raise 7
          | Some (ty, _) =>
              bind (write_stored (allows_multiple T cn) id ty s) (fun e =>
              bind (pack_names T r st) (fun rest => Ok (e ++ rest)))
          end
      end
  end.

Definition pack (T : ptables) (st : pstate) : res (list Z) :=
  bind (pack_names T (t_names T) st) (fun body =>
  bind (vbi_encode (blen body)) (fun h => Ok (h ++ body))).

(* ---- reading ---- *)
Definition read_int16 (buf : list Z) : res Z :=
  match buf with a :: b :: _ => Ok (a * 256 + b) | _ => Raise 9 end.
Definition read_int32 (buf : list Z) : res Z :=
  match buf with a :: b :: c :: d :: _ => Ok (((a * 256 + b) * 256 + c) * 256 + d) | _ => Raise 9 end.

(* readUTF(buffer, maxlen): the decoded text (as UTF-8 bytes) and the bytes used *)
Definition read_utf (buf : list Z) (maxlen : Z) : res (list Z * Z) :=
  if maxlen <? 2 then Raise 4
  else
    bind (read_int16 buf) (fun len =>
    if len >? maxlen - 2 then Raise 4
    else
      let s := firstn (Z.to_nat len) (skipn 2 buf) in
      if negb (utf8_valid s) then Raise 1            (* UnicodeDecodeError *)
      else if memz 0 s then Raise 4                  (* "[MQTT-1.5.4-2] Null found" *)
      else Ok (s, len + 2)).

(* readBytes: no check that `length` bytes are present *)
Definition read_bytes (buf : list Z) : res (list Z * Z) :=
  bind (read_int16 buf) (fun len => Ok (firstn (Z.to_nat len) (skipn 2 buf), len + 2)).

Definition read_property (ty : Z) (buf : list Z) (propslen : Z) : res (pval * Z) :=
  if ty =? 0 then match buf with [] => Raise 6 | b :: _ => Ok (VInt b, 1) end
  else if ty =? 1 then bind (read_int16 buf) (fun n => Ok (VInt n, 2))
  else if ty =? 2 then bind (read_int32 buf) (fun n => Ok (VInt n, 4))
  else if ty =? 3 then bind (vbi_decode buf) (fun r => Ok (VInt (fst r), snd r))
  else if ty =? 4 then bind (read_bytes buf) (fun r => Ok (VS (SBin (fst r)), snd r))
  else if ty =? 5 then bind (read_utf buf propslen) (fun r => Ok (VS (SStr (fst r)), snd r))
  else if ty =? 6 then
    bind (read_utf buf propslen) (fun r1 =>
    bind (read_utf (skipn (Z.to_nat (snd r1)) buf) (propslen - snd r1)) (fun r2 =>
    Ok (VPair (SStr (fst r1)) (SStr (fst r2)), snd r1 + snd r2)))
  else Raise 2.                                      (* `value` is unbound: UnboundLocalError *)

(* the while loop of unpack(); every iteration uses at least one byte, fuel = bytes available + 1 *)
Fixpoint unpack_loop (T : ptables) (pt : Z) (fuel : nat) (buf : list Z) (left : Z) (st : pstate)
  : res pstate :=
  if left <=? 0 then Ok st
  else
    match fuel with
    | O => OutOfFuel
    | S f =>
        bind (vbi_decode buf) (fun r =>
        let id := fst r in
        let buf1 := skipn (Z.to_nat (snd r)) buf in
        let left1 := left - snd r in
        match assoc id (t_table T) with
        | None => Raise 7
        | Some (ty, _) =>
            bind (read_property ty buf1 left1) (fun rv =>
            let buf2 := skipn (Z.to_nat (snd rv)) buf1 in
            let left2 := left1 - snd rv in
            match get_name (t_names T) id with
            | None => Raise 2                        (* None.replace: AttributeError *)
            | Some pn =>
                let cn := compress pn in
                if negb (allows_multiple T cn)
                   && match assoc (get_ident (t_names T) cn) st with Some _ => true | None => false end
                then Raise 3                         (* "must not exist more than once" *)
                else bind (setattr T pt st pn (One (fst rv))) (fun st' => unpack_loop T pt f buf2 left2 st')
            end)
        end)
    end.

(* unpack(buffer) on a Properties object of packet type pt (clear() first): (attributes, bytes used) *)
Definition unpack (T : ptables) (pt : Z) (buf : list Z) : res (pstate * Z) :=
  bind (vbi_decode buf) (fun r =>
  bind (unpack_loop T pt (S (length buf)) (skipn (Z.to_nat (snd r)) buf) (fst r) []) (fun st =>
  Ok (st, fst r + snd r))).

(* ---- the attributes in the order of the names table ---- *)
Definition entries_of (id : Z) (s : passign) : list (Z * pval) :=
  match s with One v => [(id, v)] | Many l => map (pair id) l end.

Fixpoint norm_names (ns : list (list Z * Z)) (st : pstate) : pstate :=
  match ns with
  | [] => []
  | (_, i) :: r => match assoc i st with
                   | Some s => (i, s) :: norm_names r st
                   | None => norm_names r st
                   end
  end.

Definition norm (T : ptables) (st : pstate) : pstate := norm_names (t_names T) st.
(* as a flat property list: repeated properties in the order they were added *)
Definition canon (T : ptables) (st : pstate) : list (Z * pval) :=
  flat_map (fun e => entries_of (fst e) (snd e)) (norm T st).
