(* C14: the identifier sequence is one cycle through ALL of 1..65535 - exact period, full coverage. *)
From PahoV Require Import Base.Prelude Codec.Mid Codec.MidProofs.

(* two allocations of one run return the same id exactly when their distance is a multiple of 65535 *)
Lemma mid_iter_same_iff m i j : 1 <= m <= 65535 ->
  mid_iter i m = mid_iter j m <-> (Z.of_nat i - Z.of_nat j) mod 65535 = 0.
Proof.
  intros Hm. rewrite !mid_iter_closed by assumption.
  assert (Hi : 0 <= Z.of_nat i) by lia. assert (Hj : 0 <= Z.of_nat j) by lia.
  generalize dependent (Z.of_nat i). generalize dependent (Z.of_nat j). intros zj Hj zi Hi.
  split; intros H; lia.
Qed.

(* 65535 further allocations come back to the same id, from every state of the counter *)
Lemma mid_iter_period m i j : 1 <= m <= 65535 -> Z.of_nat j = Z.of_nat i + 65535 ->
  mid_iter j m = mid_iter i m.
Proof.
  intros Hm Hj. apply mid_iter_same_iff; [assumption|].
  replace (Z.of_nat j - Z.of_nat i) with 65535 by lia. reflexivity.
Qed.

(* no shorter period *)
Lemma mid_iter_min_period m i j : 1 <= m <= 65535 ->
  0 < Z.of_nat j - Z.of_nat i < 65535 -> mid_iter j m <> mid_iter i m.
Proof.
  intros Hm Hd H. apply mid_iter_same_iff in H; [|assumption].
  assert (Hi : 0 <= Z.of_nat i) by lia.
  generalize dependent (Z.of_nat i). generalize dependent (Z.of_nat j). intros zj zi Hd H Hi. lia.
Qed.

(* every id of 1..65535 is handed out within 65535 allocations, whatever the counter holds: the
   allocator skips no id (a skipped id would shorten the distance to a collision) *)
Lemma mid_iter_covers m v : 1 <= m <= 65535 -> 1 <= v <= 65535 ->
  exists k, Z.of_nat k < 65535 /\ mid_iter k m = v.
Proof.
  intros Hm Hv. exists (Z.to_nat ((v - m) mod 65535)).
  rewrite mid_iter_closed by assumption.
  rewrite Z2Nat.id by (apply Z.mod_pos_bound; lia).
  split; [apply Z.mod_pos_bound; lia|].
  lia.
Qed.

(* ... and the successor of every id other than 65535 is the next integer: nothing but the documented
   wrap interrupts the count *)
Lemma mid_next_succ m : 0 <= m < 65535 -> mid_next m = m + 1.
Proof. unfold mid_next; intros H; case_if; lia. Qed.
