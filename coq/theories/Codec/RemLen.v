(* M1 / C04: the MQTT "remaining length" (variable byte integer) codec.
   rl_encode is the hand model of client.py _pack_remaining_length (bridge: RemLenBridge.v);
   rl_decode is the decoder written from the OASIS text (MQTT 3.1.1 section 2.2.3, MQTT 5.0 section 1.5.5):
   at most four bytes, 7 value bits per byte, bit 7 = "more bytes follow", least significant group
   first, and the encoding must use the minimum number of bytes.  Model only, no proofs. *)
From PahoV Require Import Base.Prelude.

Definition byte_ok (b : Z) : bool := (0 <=? b) && (b <=? 255).

Definition rl_max : Z := 268435455.    (* 128^4 - 1 *)

(* while True: byte = n % 128; n = n // 128; if n > 0: byte |= 0x80; append(byte); if n == 0: return *)
Fixpoint rl_enc (fuel : nat) (n : Z) : list Z :=
  match fuel with
  | O => []
  | S f => if n / 128 >? 0 then (n mod 128 + 128) :: rl_enc f (n / 128) else [n mod 128]
  end.

(* one iteration per base-128 digit; log2 n + 1 iterations are always enough *)
Definition rl_fuel (n : Z) : nat := S (Z.to_nat (Z.log2 n)).

Definition rl_encode (n : Z) : list Z := rl_enc (rl_fuel n) n.

(* _pack_remaining_length since the repair of F-C04a (commit 4b93c7d):
   if remaining_length > 268435455: raise ValueError('Packet too large.')  -- before anything is appended *)
Definition rl_pack (n : Z) : res (list Z) := if n >? rl_max then Raise 1 else Ok (rl_encode n).

(* Specification decoder. k = bytes still allowed (4 at the start), mult = 128^(bytes read),
   acc = value so far, first = no byte read yet.  A final byte 0 after a continuation byte is a
   non-minimal encoding and is rejected. *)
Fixpoint rl_dec (k : nat) (mult acc : Z) (first : bool) (s : list Z) : option (Z * list Z) :=
  match k with
  | O => None
  | S k' =>
      match s with
      | [] => None
      | b :: r =>
          if negb (byte_ok b) then None
          else if b <? 128 then
            (if (b =? 0) && negb first then None else Some (acc + b * mult, r))
          else rl_dec k' (mult * 128) (acc + (b - 128) * mult) false r
      end
  end.

Definition rl_decode (s : list Z) : option (Z * list Z) := rl_dec 4 1 0 true s.

(* number of bytes the specification prescribes for a value *)
Definition rl_size (n : Z) : Z :=
  if n <=? 127 then 1 else if n <=? 16383 then 2 else if n <=? 2097151 then 3 else 4.

(* correspondence entries *)
Definition entry_rl_encode (args : list Z) : list Z :=
  match args with
  | [n] => rl_encode n
  | _ => []
  end.

(* the repaired _pack_remaining_length: [n] -> [0; bytes...] or [1; exception kind] *)
Definition entry_rl_pack (args : list Z) : list Z :=
  match args with
  | [n] => match rl_pack n with Ok l => 0 :: l | Raise k => [1; k] | OutOfFuel => [2] end
  | _ => [3]
  end.

(* [bytes...] -> [1; value; bytes consumed]  or [0] *)
Definition entry_rl_decode (args : list Z) : list Z :=
  match rl_decode args with
  | Some (n, r) => [1; n; Z.of_nat (length args) - Z.of_nat (length r)]
  | None => [0]
  end.
