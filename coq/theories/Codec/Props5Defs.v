(* Boolean predicates used as hypotheses of the C17 theorems (no proofs here):
   tables_ok  - what the proofs need from the generated tables (decided by vm_compute on every run);
   wf_state   - a Properties object holding a type-correct property set for a packet type;
   spec_range_state - every stored value is in the specification's range. *)
From PahoV Require Import Base.Prelude Codec.StrBytes Codec.Utf8 Codec.VBI Codec.PropSpec Codec.Props5.

Fixpoint nodupz (l : list Z) : bool :=
  match l with [] => true | x :: r => negb (memz x r) && nodupz r end.

(* per row (name, identifier) of Properties.names *)
Definition name_facts (T : ptables) (p : list Z * Z) : bool :=
  let '(n, i) := p in
  let cn := compress n in
  (get_ident (t_names T) cn =? i)                                   (* getIdentFromName finds it *)
  && match get_name (t_names T) i with Some n' => zlist_eqb n' n | None => false end  (* and back *)
  && negb (existsb (zlist_eqb cn) (t_private T))
  && name_known (t_names T) cn
  && zin 0 127 i                                                    (* one-byte identifier *)
  && match assoc i (t_table T), spec_type i with                    (* has a row, same data type as the spec *)
     | Some (ty, _), Some w => ty =? wtype_index w
     | _, _ => false
     end.

Definition tables_ok (T : ptables) : bool :=
  t_each T
  && forallb (name_facts T) (t_names T)
  && nodupz (map snd (t_names T))
  && forallb (fun e => memz (fst e) (map snd (t_names T))) (t_table T).

Definition is_nil {A} (l : list A) : bool := match l with [] => true | _ => false end.

(* the stored attribute for identifier id is a type-correct value (a non-empty list of them for a
   repeatable property) and the property is allowed for the packet type *)
Definition wf_entry (T : ptables) (pt : Z) (e : Z * passign) : bool :=
  let '(id, s) := e in
  memz id (map snd (t_names T))
  && match assoc id (t_table T), spec_type id with
     | Some (_, pts), Some w =>
         memz pt pts
         && (if memz id (t_multi T)
             then match s with Many l => negb (is_nil l) && forallb (spec_fits w) l | One _ => false end
             else match s with One v => spec_fits w v | Many _ => false end)
     | _, _ => false
     end.

Definition wf_state (T : ptables) (pt : Z) (st : pstate) : bool := forallb (wf_entry T pt) st.

Definition values_of (s : passign) : list pval := match s with One v => [v] | Many l => l end.

(* the Property Length fits a Variable Byte Integer *)
Definition body_small (T : ptables) (st : pstate) : bool :=
  match spec_body (canon T st) with Some b => blen b <=? vbi_max | None => false end.

(* ---- value conditions ---- *)
(* what __setattr__ checks for a single value of the property with identifier id *)
Definition code_range_ok (T : ptables) (id : Z) (v : pval) : bool :=
  match get_name (t_names T) id with
  | Some n => match range_check (t_groups T) (compress n) v with Ok _ => true | _ => false end
  | None => false
  end.

Definition state_all (f : Z -> pval -> bool) (st : pstate) : bool :=
  forallb (fun e => forallb (f (fst e)) (values_of (snd e))) st.

Definition code_range_state (T : ptables) (st : pstate) : bool := state_all (code_range_ok T) st.
Definition spec_range_state (st : pstate) : bool := state_all spec_in_range st.
