(* Bridge: the definitions generated from VariableByteIntegers.encode / decode equal the hand model. *)
From PahoV Require Import Base.Prelude Codec.VBI Codec.VBIProofs Gen.GenVBIEnc Gen.GenVBIDec.

Lemma gen_enc_loop_digits fuel : forall x buf,
  0 <= x < 128 ^ Z.of_nat fuel -> (0 < fuel)%nat ->
  gen_vbi_encode_loop1 fuel x buf = Ok (buf ++ vbi_digits fuel x).
Proof.
  induction fuel as [|f IH]; intros x buf Hx Hf; [lia|].
  rewrite pow128_S in Hx. cbn [gen_vbi_encode_loop1 vbi_digits]. cbv zeta.
  destruct (x / 128 >? 0) eqn:Hgt.
  - destruct (x / 128 =? 0) eqn:E; [lia|].
    rewrite IH; [rewrite <- app_assoc; reflexivity | lia |].
    destruct f; [|lia]. change (128 ^ Z.of_nat 0) with 1 in Hx. lia.
  - destruct (x / 128 =? 0) eqn:E; [reflexivity | lia].
Qed.

(* any fuel >= 4 is enough, and out-of-range arguments raise ValueError on both sides *)
Lemma vbi_encode_bridge fuel x : (4 <= fuel)%nat -> gen_vbi_encode fuel x = vbi_encode x.
Proof.
  intros Hf. unfold gen_vbi_encode, vbi_encode, vbi_max.
  destruct ((0 <=? x) && (x <=? 268435455)) eqn:E; cbn [negb]; [|reflexivity].
  assert (Hx : 0 <= x < 128 ^ Z.of_nat 4) by (pose proof vbi_max_lt; unfold vbi_max in *; lia).
  rewrite gen_enc_loop_digits.
  - cbn [app]. f_equal. apply digits_fuel; [assumption | lia | assumption].
  - split; [lia|]. eapply Z.lt_le_trans; [apply Hx|]. apply Z.pow_le_mono_r; lia.
  - lia.
Qed.

Lemma gen_dec_loop_model : forall buf fuel mult value n, (length buf < fuel)%nat ->
  gen_vbi_decode_loop1 fuel buf mult value n = vbi_dec_loop buf mult value n.
Proof.
  induction buf as [|d rest IH]; intros fuel mult value n Hf; (destruct fuel as [|f]; [cbn [length] in Hf; lia|]).
  - reflexivity.
  - cbn [gen_vbi_decode_loop1 vbi_dec_loop nth_error]. cbv zeta.
    change (Z.to_nat 1) with 1%nat. cbn [skipn].
    case_if; [reflexivity|]. apply IH. cbn [length] in Hf. lia.
Qed.

Lemma vbi_decode_bridge fuel buf : (length buf < fuel)%nat -> gen_vbi_decode fuel buf = vbi_decode buf.
Proof. intros H. unfold gen_vbi_decode, vbi_decode. cbv zeta. apply gen_dec_loop_model. assumption. Qed.
