(* SPECIFICATION: OASIS MQTT Version 5.0 - transcribed by hand, nothing derived from /repo.
   - section 2.2.2.2 table 2-4 "Properties": identifier, name, data type, packets;
   - section 1.5 data representation (Two/Four Byte Integer big-endian, UTF-8 Encoded String,
     Variable Byte Integer table 1-1, Binary Data, UTF-8 String Pair);
   - value restrictions stated with the individual properties (3.1.2.11, 3.2.2.3, 3.3.2.3, 3.8.2.1);
   - spec_pack: Property Length as Variable Byte Integer, then each property as identifier (VBI) + value. *)
From Coq Require Import String.
From PahoV Require Import Base.Prelude Codec.StrBytes Codec.Utf8 Codec.ReasonSpec.

(* "Will Properties" is not a packet; the library uses the stand-in packet type 99 *)
Definition WILL := 99.

Inductive wtype := WByte | WInt2 | WInt4 | WVbi | WBin | WStr | WPair.

(* the data type names of section 1.5 / table 2-4, in the order the library enumerates them *)
Definition spec_type_names : list string :=
  [ "Byte"; "Two Byte Integer"; "Four Byte Integer"; "Variable Byte Integer"; "Binary Data";
    "UTF-8 Encoded String"; "UTF-8 String Pair" ]%string.
Definition wtype_index (w : wtype) : Z :=
  match w with WByte => 0 | WInt2 => 1 | WInt4 => 2 | WVbi => 3 | WBin => 4 | WStr => 5 | WPair => 6 end.

Definition spec_props : list (Z * string * wtype * list Z) :=
  [ (1,  "Payload Format Indicator"%string,    WByte, [PUBLISH; WILL]);
    (2,  "Message Expiry Interval"%string,     WInt4, [PUBLISH; WILL]);
    (3,  "Content Type"%string,                WStr,  [PUBLISH; WILL]);
    (8,  "Response Topic"%string,              WStr,  [PUBLISH; WILL]);
    (9,  "Correlation Data"%string,            WBin,  [PUBLISH; WILL]);
    (11, "Subscription Identifier"%string,     WVbi,  [PUBLISH; SUBSCRIBE]);
    (17, "Session Expiry Interval"%string,     WInt4, [CONNECT; CONNACK; DISCONNECT]);
    (18, "Assigned Client Identifier"%string,  WStr,  [CONNACK]);
    (19, "Server Keep Alive"%string,           WInt2, [CONNACK]);
    (21, "Authentication Method"%string,       WStr,  [CONNECT; CONNACK; AUTH]);
    (22, "Authentication Data"%string,         WBin,  [CONNECT; CONNACK; AUTH]);
    (23, "Request Problem Information"%string, WByte, [CONNECT]);
    (24, "Will Delay Interval"%string,         WInt4, [WILL]);
    (25, "Request Response Information"%string, WByte, [CONNECT]);
    (26, "Response Information"%string,        WStr,  [CONNACK]);
    (28, "Server Reference"%string,            WStr,  [CONNACK; DISCONNECT]);
    (31, "Reason String"%string,               WStr,  [CONNACK; PUBACK; PUBREC; PUBREL; PUBCOMP; SUBACK;
                                                       UNSUBACK; DISCONNECT; AUTH]);
    (33, "Receive Maximum"%string,             WInt2, [CONNECT; CONNACK]);
    (34, "Topic Alias Maximum"%string,         WInt2, [CONNECT; CONNACK]);
    (35, "Topic Alias"%string,                 WInt2, [PUBLISH]);
    (36, "Maximum QoS"%string,                 WByte, [CONNACK]);
    (37, "Retain Available"%string,            WByte, [CONNACK]);
    (38, "User Property"%string,               WPair, [CONNECT; CONNACK; PUBLISH; WILL; PUBACK; PUBREC; PUBREL;
                                                       PUBCOMP; SUBSCRIBE; SUBACK; UNSUBSCRIBE; UNSUBACK;
                                                       DISCONNECT; AUTH]);
    (39, "Maximum Packet Size"%string,         WInt4, [CONNECT; CONNACK]);
    (40, "Wildcard Subscription Available"%string,   WByte, [CONNACK]);
    (41, "Subscription Identifier Available"%string, WByte, [CONNACK]);
    (42, "Shared Subscription Available"%string,     WByte, [CONNACK]) ].

Definition spec_row (id : Z) : option (string * wtype * list Z) :=
  assoc id (map (fun r => let '(i, n, w, p) := r in (i, (n, w, p))) spec_props).
Definition spec_type (id : Z) : option wtype :=
  match spec_row id with Some (_, w, _) => Some w | None => None end.
Definition spec_allowed (pt id : Z) : bool :=
  match spec_row id with Some (_, _, p) => memz pt p | None => false end.

(* may appear more than once: User Property anywhere; Subscription Identifier in PUBLISH only
   (3.3.2.3.8); in SUBSCRIBE a second Subscription Identifier is a Protocol Error (3.8.2.1.2) *)
Definition spec_repeatable (pt id : Z) : bool := (id =? 38) || ((id =? 11) && (pt =? PUBLISH)).

(* value restrictions beyond the data type: (lowest, highest) *)
Definition spec_range (id : Z) : option (Z * Z) :=
  match id with
  | 1 | 23 | 25 | 36 | 37 | 40 | 41 | 42 => Some (0, 1)     (* "a value other than 0 or 1" is a Protocol Error *)
  | 33 | 35 => Some (1, 65535)                              (* Receive Maximum, Topic Alias: 0 not permitted *)
  | 39 => Some (1, 4294967295)                              (* Maximum Packet Size: 0 is a Protocol Error *)
  | 11 => Some (1, 268435455)                               (* Subscription Identifier: 1 to 268,435,455 *)
  | _ => None
  end.

(* ---- values ---- *)
(* character data: a text string carried as its UTF-8 bytes, or raw bytes *)
Inductive sval := SStr (u : list Z) | SBin (b : list Z).
Inductive pval := VInt (n : Z) | VS (s : sval) | VPair (a b : sval).

Definition blen (b : list Z) : Z := Z.of_nat (length b).

(* 1.5.4: well-formed UTF-8 (hence no surrogates [MQTT-1.5.4-1]), no U+0000 [MQTT-1.5.4-2], at most
   65535 bytes.  U+FEFF is an ordinary character [MQTT-1.5.4-3]. *)
Definition spec_str_ok (u : list Z) : bool := utf8_valid u && (blen u <=? 65535) && negb (memz 0 u).

Definition zin (lo hi n : Z) : bool := (lo <=? n) && (n <=? hi).

(* the value can be carried by the data type *)
Definition spec_fits (w : wtype) (v : pval) : bool :=
  match w, v with
  | WByte, VInt n => zin 0 255 n
  | WInt2, VInt n => zin 0 65535 n
  | WInt4, VInt n => zin 0 4294967295 n
  | WVbi, VInt n => zin 0 268435455 n
  | WBin, VS (SBin b) => blen b <=? 65535
  | WStr, VS (SStr u) => spec_str_ok u
  | WPair, VPair (SStr a) (SStr b) => spec_str_ok a && spec_str_ok b
  | _, _ => false
  end.

Definition spec_in_range (id : Z) (v : pval) : bool :=
  match spec_range id, v with
  | Some (lo, hi), VInt n => zin lo hi n
  | _, _ => true
  end.

(* a valid value of property id *)
Definition spec_value_ok (id : Z) (v : pval) : bool :=
  match spec_type id with
  | Some w => spec_fits w v && spec_in_range id v
  | None => false
  end.

(* ---- encodings ---- *)
(* 1.5.5 table 1-1: one byte up to 127, two up to 16 383, three up to 2 097 151, four up to 268 435 455;
   least significant group first, bit 7 set on all but the last byte *)
Definition spec_vbi (n : Z) : list Z :=
  if n <? 128 then [n]
  else if n <? 16384 then [n mod 128 + 128; n / 128]
  else if n <? 2097152 then [n mod 128 + 128; (n / 128) mod 128 + 128; n / 16384]
  else [n mod 128 + 128; (n / 128) mod 128 + 128; (n / 16384) mod 128 + 128; n / 2097152].

Definition be16 (n : Z) : list Z := [n / 256; n mod 256].
Definition be32 (n : Z) : list Z := [n / 16777216; (n / 65536) mod 256; (n / 256) mod 256; n mod 256].
Definition spec_lp (b : list Z) : list Z := be16 (blen b) ++ b.     (* two byte length prefix + data *)

Definition spec_value (w : wtype) (v : pval) : option (list Z) :=
  match w, v with
  | WByte, VInt n => Some [n]
  | WInt2, VInt n => Some (be16 n)
  | WInt4, VInt n => Some (be32 n)
  | WVbi, VInt n => Some (spec_vbi n)
  | WBin, VS (SBin b) => Some (spec_lp b)
  | WStr, VS (SStr u) => Some (spec_lp u)
  | WPair, VPair (SStr a) (SStr b) => Some (spec_lp a ++ spec_lp b)
  | _, _ => None
  end.

(* the properties in the given order *)
Fixpoint spec_body (l : list (Z * pval)) : option (list Z) :=
  match l with
  | [] => Some []
  | (id, v) :: r =>
      match spec_type id with
      | None => None
      | Some w =>
          match spec_value w v, spec_body r with
          | Some e, Some b => Some (spec_vbi id ++ e ++ b)
          | _, _ => None
          end
      end
  end.

Definition spec_pack (l : list (Z * pval)) : option (list Z) :=
  match spec_body l with
  | Some b => Some (spec_vbi (blen b) ++ b)
  | None => None
  end.
