(* M1: ReasonCode (reasoncodes.py): constructor by identifier / by name, __getName__, getId, pack, unpack.
   Parameterised by the table `tbl` generated from ReasonCode.names (Gen/GenReasonTable.v):
   (value, [(name, packet types)]) in dict order.  Model only, no proofs. *)
From Coq Require Import String.
From PahoV Require Import Base.Prelude Codec.StrBytes.

Definition rtable := list (Z * list (list Z * list Z)).

(* __getName__: KeyError when the identifier is not a key; ValueError unless exactly one name of
   that identifier lists the packet type *)
Definition rc_get_name (tbl : rtable) (pt v : Z) : res (list Z) :=
  match assoc v tbl with
  | None => Raise 7
  | Some names =>
      match filter (fun p => memz pt (snd p)) names with
      | [p] => Ok (fst p)
      | _ => Raise 1
      end
  end.

(* getId: first code (dict order) that has this name with this packet type; KeyError otherwise *)
Fixpoint rc_get_id (tbl : rtable) (pt : Z) (name : list Z) : res Z :=
  match tbl with
  | [] => Raise 7
  | (code, names) :: r =>
      match assoc_s name names with
      | Some pts => if memz pt pts then Ok code else rc_get_id r pt name
      | None => rc_get_id r pt name
      end
  end.

Definition name_success : list Z := bytes_of "Success".
Definition name_normal_disconnection : list Z := bytes_of "Normal disconnection".

(* ReasonCode(packetType, aName, identifier): the object is (packetType, value); result = value.
   identifier = -1 means "by name"; DISCONNECT (14) + "Success" is renamed first *)
Definition rc_new (tbl : rtable) (pt : Z) (name : list Z) (identifier : Z) : res Z :=
  if identifier =? -1 then
    rc_get_id tbl pt (if (pt =? 14) && zlist_eqb name name_success then name_normal_disconnection else name)
  else
    match rc_get_name tbl pt identifier with
    | Ok _ => Ok identifier
    | Raise k => Raise k
    | OutOfFuel => OutOfFuel
    end.

(* unpack(buffer) on an object of packet type pt: (new value, bytes used) *)
Definition rc_unpack (tbl : rtable) (pt : Z) (buf : list Z) : res (Z * Z) :=
  match buf with
  | [] => Raise 6
  | c :: _ =>
      match rc_get_name tbl pt c with
      | Ok name => match rc_get_id tbl pt name with
                   | Ok v => Ok (v, 1) | Raise k => Raise k | OutOfFuel => OutOfFuel end
      | Raise k => Raise k
      | OutOfFuel => OutOfFuel
      end
  end.

(* pack(): bytearray([value]) - ValueError outside 0..255 *)
Definition rc_pack (v : Z) : res (list Z) :=
  if (0 <=? v) && (v <=? 255) then Ok [v] else Raise 1.

Definition is_ok {A} (r : res A) : bool := match r with Ok _ => true | _ => false end.
