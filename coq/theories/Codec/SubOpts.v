(* M1: SubscribeOptions (subscribeoptions.py __init__ / pack / unpack) and the specification's
   Subscription Options byte (MQTT 5.0 section 3.8.3.1).  Model only, no proofs. *)
From PahoV Require Import Base.Prelude.

Definition in012 (x : Z) : bool := existsb (Z.eqb x) [0; 1; 2].
Definition bit (b : bool) : Z := if b then 1 else 0.

(* the two `not in (0, 1, 2)` tests shared by __init__, pack and unpack: AssertionError *)
Definition subopts_check (rh qos : Z) : res unit :=
  if negb (in012 rh) then Raise 8 else if negb (in012 qos) then Raise 8 else Ok tt.

Definition subopts_pack (rh qos : Z) (nl rap : bool) : res (list Z) :=
  match subopts_check rh qos with
  | Ok _ => Ok [Z.lor (Z.lor (Z.lor (Z.shiftl rh 4) (Z.shiftl (bit rap) 3)) (Z.shiftl (bit nl) 2)) qos]
  | Raise k => Raise k
  | OutOfFuel => OutOfFuel
  end.

(* returns (retainHandling, QoS, noLocal, retainAsPublished); bits 6-7 are not looked at *)
Definition subopts_unpack (buf : list Z) : res (Z * Z * bool * bool) :=
  match buf with
  | [] => Raise 6
  | b0 :: _ =>
      let rh := Z.land (Z.shiftr b0 4) 3 in
      let rap := Z.land (Z.shiftr b0 3) 1 =? 1 in
      let nl := Z.land (Z.shiftr b0 2) 1 =? 1 in
      let qos := Z.land b0 3 in
      match subopts_check rh qos with
      | Ok _ => Ok (rh, qos, nl, rap)
      | Raise k => Raise k
      | OutOfFuel => OutOfFuel
      end
  end.

(* ---- specification, 3.8.3.1: bits 0-1 Maximum QoS, bit 2 No Local, bit 3 Retain As Published,
   bits 4-5 Retain Handling, bits 6-7 reserved (0); QoS 3 and Retain Handling 3 are Protocol Errors *)
Definition spec_subopts_legal (rh qos : Z) : bool :=
  (0 <=? rh) && (rh <=? 2) && (0 <=? qos) && (qos <=? 2).
Definition spec_subopts_byte (rh qos : Z) (nl rap : bool) : Z :=
  qos + 4 * bit nl + 8 * bit rap + 16 * rh.

(* correspondence entries. [rh; qos; nl; rap] -> [0; byte] | [kind] *)
Definition entry_subopts_pack (args : list Z) : list Z :=
  match args with
  | [rh; qos; nl; rap] =>
      match subopts_pack rh qos (negb (nl =? 0)) (negb (rap =? 0)) with
      | Ok b => 0 :: b | Raise k => [k] | OutOfFuel => [99] end
  | _ => [98]
  end.

(* bytes -> [0; rh; qos; nl; rap] | [kind] *)
Definition entry_subopts_unpack (args : list Z) : list Z :=
  match subopts_unpack args with
  | Ok (rh, qos, nl, rap) => [0; rh; qos; bit nl; bit rap]
  | Raise k => [k] | OutOfFuel => [99]
  end.
