(* Property codec instantiated with the tables generated from the current source (GT):
   the tables agree with the specification; pack = spec_pack; round trip; the open findings as
   `_refuted` witnesses with the explicit exclusions of the `_partial` statements. *)
From Coq Require Import String.
From PahoV Require Import Base.Prelude Codec.StrBytes Codec.Utf8 Codec.VBI Codec.VBIProofs Codec.ReasonSpec
  Codec.PropSpec Codec.Props5 Codec.Props5Defs Codec.Props5Lemmas Codec.Props5Pack Codec.Props5Unpack
  Codec.Props5Gen Gen.GenPropTable.

(* ---- 1. the generated tables have the shape the generic proofs need (incl. same data types as the spec) ---- *)
Lemma tables_ok_GT : tables_ok GT = true.
Proof. vm_compute. reflexivity. Qed.

(* ---- 2. identifier -> (data type, packet types): generated table = specification, for ALL identifiers and
   all packet type values 0..127 ---- *)
Definition code_type (T : ptables) (id : Z) : option Z :=
  match assoc id (t_table T) with Some (ty, _) => Some ty | None => None end.
Definition code_allowed (T : ptables) (pt id : Z) : bool :=
  match assoc id (t_table T) with Some (_, pts) => memz pt pts | None => false end.
Definition spec_type_index (id : Z) : option Z :=
  match spec_type id with Some w => Some (wtype_index w) | None => None end.

Definition opt_zeqb (a b : option Z) : bool :=
  match a, b with Some x, Some y => x =? y | None, None => true | _, _ => false end.
Lemma opt_zeqb_eq a b : opt_zeqb a b = true -> a = b.
Proof. destruct a, b; cbn; try discriminate; try reflexivity. intros H. apply Z.eqb_eq in H. congruence. Qed.

Definition spec_keys : list Z := map (fun r => fst (fst (fst r))) spec_props.
Definition all_ids : list Z := map fst (t_table GT) ++ spec_keys.

Definition prop_row_check (id : Z) : bool :=
  opt_zeqb (code_type GT id) (spec_type_index id)
  && forallb (fun pt => Bool.eqb (code_allowed GT pt id) (spec_allowed pt id)) (zrange 128).

Lemma prop_table_eq_spec_b : forallb prop_row_check all_ids = true.
Proof. vm_compute. reflexivity. Qed.

Lemma assoc_none {A} k (l : list (Z * A)) : memz k (map fst l) = false -> assoc k l = None.
Proof.
  induction l as [|[k' a] r IH]; cbn [map fst assoc]; [reflexivity|].
  unfold memz. cbn [existsb]. intros H. apply orb_false_iff in H as [H1 H2].
  rewrite Z.eqb_sym in H1. rewrite H1. apply IH. exact H2.
Qed.

Lemma spec_row_none id : memz id spec_keys = false -> spec_row id = None.
Proof.
  intros H. unfold spec_row. apply assoc_none. unfold spec_keys in H.
  rewrite map_map. erewrite map_ext; [exact H|]. intros [[[i n] w] p]. reflexivity.
Qed.

Lemma prop_table_eq_spec id pt : 0 <= pt < 128 ->
  code_type GT id = spec_type_index id /\ code_allowed GT pt id = spec_allowed pt id.
Proof.
  intros Hp. destruct (memz id all_ids) eqn:M.
  - apply memz_in in M. pose proof prop_table_eq_spec_b as H. rewrite forallb_forall in H.
    specialize (H id M). unfold prop_row_check in H. apply andb_true_iff in H as [H1 H2]. split.
    + apply opt_zeqb_eq. exact H1.
    + apply Bool.eqb_prop. exact (range_forall _ 128 H2 pt Hp).
  - unfold all_ids, memz in M. rewrite existsb_app in M. apply orb_false_iff in M as [M1 M2].
    unfold code_type, code_allowed, spec_type_index, spec_type, spec_allowed.
    rewrite (assoc_none id (t_table GT) M1), (spec_row_none id M2). split; reflexivity.
Qed.

(* names, data type names and packet type constants: same sets as the specification's *)
Definition names_check : bool :=
  forallb (fun r => let '(i, n, _, _) := r in
             existsb (fun g => zlist_eqb (fst g) (bytes_of n) && (snd g =? i)) (t_names GT)) spec_props
  && (Z.of_nat (length (t_names GT)) =? Z.of_nat (length spec_props)).
Lemma prop_names_eq_spec : names_check = true.
Proof. vm_compute. reflexivity. Qed.

Lemma prop_types_eq_spec : gen_prop_types = map bytes_of spec_type_names.
Proof. vm_compute. reflexivity. Qed.

Definition spec_packet_types : list (string * Z) :=
  [ ("CONNECT", CONNECT); ("CONNACK", CONNACK); ("PUBLISH", PUBLISH); ("PUBACK", PUBACK); ("PUBREC", PUBREC);
    ("PUBREL", PUBREL); ("PUBCOMP", PUBCOMP); ("SUBSCRIBE", SUBSCRIBE); ("SUBACK", SUBACK);
    ("UNSUBSCRIBE", UNSUBSCRIBE); ("UNSUBACK", UNSUBACK); ("PINGREQ", PINGREQ); ("PINGRESP", PINGRESP);
    ("DISCONNECT", DISCONNECT); ("AUTH", AUTH); ("WILLMESSAGE", WILL) ]%string.
Definition packet_types_check : bool :=
  forallb (fun r => existsb (fun g => zlist_eqb (fst g) (bytes_of (fst r)) && (snd g =? snd r)) gen_packet_types)
          spec_packet_types
  && (Z.of_nat (length gen_packet_types) =? 16) && (Z.of_nat (length gen_packet_names) =? 16).
Lemma packet_types_eq_spec : packet_types_check = true.
Proof. vm_compute. reflexivity. Qed.

(* ---- 3. repeatable properties ---- *)
Definition multi_check (pt id : Z) : bool :=
  negb (spec_allowed pt id) || ((pt =? SUBSCRIBE) && (id =? 11))
  || Bool.eqb (memz id (t_multi GT)) (spec_repeatable pt id).

Lemma multi_eq_spec_partial_b : forallb (fun id => forallb (fun pt => multi_check pt id) (zrange 128)) all_ids = true.
Proof. vm_compute. reflexivity. Qed.

(* full statement: allowsMultiple agrees with the specification wherever the property is allowed -
   refuted by Subscription Identifier in SUBSCRIBE (3.8.2.1.2: more than once is a Protocol Error) *)
Definition multi_eq_spec_full : Prop :=
  forall pt id, spec_allowed pt id = true -> memz id (t_multi GT) = spec_repeatable pt id.
Lemma multi_eq_spec_refuted : exists pt id, spec_allowed pt id = true /\ memz id (t_multi GT) <> spec_repeatable pt id.
Proof. exists SUBSCRIBE, 11. split; vm_compute; [reflexivity|discriminate]. Qed.

(* ---- 4. value ranges: what __setattr__ checks per property, against the specification ---- *)
From PahoV Require Import Codec.Props5Range.

(* the links of the if/elif chain that apply to each identifier, as read off the generated groups *)
Definition code_sel_expected (id : Z) : list (Z * list Z) :=
  match id with
  | 33 | 35 => [(0, [1; 65535])]
  | 34 => [(0, [0; 65535])]
  | 11 => [(0, [1; 268435455])]
  | 39 => [(0, [1; 4294967295])]
  | 1 | 23 | 25 | 36 | 37 | 40 | 41 | 42 => [(1, [0; 1])]
  | _ => []
  end.

Fixpoint sel_eqb (a b : list (Z * list Z)) : bool :=
  match a, b with
  | [], [] => true
  | (k, p) :: r, (k', p') :: r' => (k =? k') && zlist_eqb p p' && sel_eqb r r'
  | _, _ => false
  end.
Lemma sel_eqb_eq a : forall b, sel_eqb a b = true -> a = b.
Proof.
  induction a as [|[k p] r IH]; intros [|[k' p'] r']; cbn [sel_eqb]; try discriminate; [reflexivity|].
  intros H. apply andb_true_iff in H as [H H3]. apply andb_true_iff in H as [H1 H2].
  apply Z.eqb_eq in H1. apply zlist_eqb_eq in H2. apply IH in H3. congruence.
Qed.

Lemma code_sel_GT_b :
  forallb (fun p => sel_eqb (sel_of (t_groups GT) (compress (fst p))) (code_sel_expected (snd p))
                    && sel_wf (code_sel_expected (snd p))) (t_names GT) = true.
Proof. vm_compute. reflexivity. Qed.

Lemma code_range_sel n i v : In (n, i) (t_names GT) ->
  code_range_ok GT i v = match range_check_sel (code_sel_expected i) v with Ok _ => true | _ => false end.
Proof.
  intros I. destruct (tables_ok_row GT n i tables_ok_GT I) as [_ F2 _ _ _ _].
  pose proof code_sel_GT_b as H. rewrite forallb_forall in H. specialize (H _ I). cbn [fst snd] in H.
  apply andb_true_iff in H as [H _]. apply sel_eqb_eq in H.
  unfold code_range_ok. rewrite F2, range_check_sel_eq, H. reflexivity.
Qed.

Lemma code_range_int n i x : In (n, i) (t_names GT) -> code_range_ok GT i (VInt x) = sel_ok (code_sel_expected i) x.
Proof.
  intros I. rewrite (code_range_sel n i _ I).
  pose proof code_sel_GT_b as H. rewrite forallb_forall in H. specialize (H _ I). cbn [fst snd] in H.
  apply andb_true_iff in H as [_ W]. rewrite range_check_sel_int by exact W.
  destruct (sel_ok (code_sel_expected i) x); reflexivity.
Qed.

Definition ids27 : list Z := map snd (t_names GT).

Ltac each_id H := vm_compute in H; repeat (destruct H as [<-|H]); [..|contradiction].

(* on type-correct values the source's check IS the specification's range *)
Lemma code_range_vs_spec i w v n : In (n, i) (t_names GT) -> spec_type i = Some w -> spec_fits w v = true ->
  code_range_ok GT i v = spec_in_range i v.
Proof.
  intros I Hw Hf. rewrite (code_range_sel n i v I).
  assert (Hi : In i ids27) by (apply in_map_iff; exists (n, i); split; [reflexivity|assumption]).
  clear I. each_id Hi;
    vm_compute in Hw; injection Hw as <-;
    destruct v as [x|[u|b]|[ua|ba] [ub|bb]]; cbn [spec_fits] in Hf; try discriminate; try reflexivity;
    cbv [code_sel_expected range_check_sel group_fails memz existsb spec_in_range spec_range];
    unfold zin in *; repeat case_if; try reflexivity; lia.
Qed.

(* ---- 5. pack = spec_pack, round trip ---- *)
Lemma wf_entry_parts pt i s : wf_entry GT pt (i, s) = true ->
  exists n w, In (n, i) (t_names GT) /\ spec_type i = Some w /\ stored_ok (memz i (t_multi GT)) w s = true.
Proof.
  intros H. pose proof H as H0. unfold wf_entry in H0. apply andb_true_iff in H0 as [M _].
  destruct (in_names_of_mem _ _ M) as [n I]. exists n.
  destruct (tables_ok_row GT n i tables_ok_GT I) as [_ _ _ _ _ (ty & pts & w & F6 & F7 & F8)].
  exists w. repeat split; try assumption.
  exact (proj2 (wf_entry_elim GT pt i s H ty pts w F6 F7)).
Qed.

Lemma code_range_state_of_spec pt st : wf_state GT pt st = true -> spec_range_state st = true ->
  code_range_state GT st = true.
Proof.
  intros HW HR. unfold code_range_state, spec_range_state, state_all, wf_state in *.
  rewrite forallb_forall in *. intros [i s] Hin. cbn [fst snd].
  specialize (HW _ Hin). specialize (HR _ Hin). cbn [fst snd] in HR.
  rewrite forallb_forall in *. intros v Hv. specialize (HR _ Hv).
  destruct (wf_entry_parts pt i s HW) as (n & w & I & Hw & HO).
  rewrite (code_range_vs_spec i w v n I Hw (stored_ok_fits _ _ _ _ HO Hv)). exact HR.
Qed.

Lemma c17_pack_spec pt st : wf_state GT pt st = true -> body_small GT st = true ->
  exists b, pack GT st = Ok b /\ spec_pack (canon GT st) = Some b.
Proof. apply pack_spec. exact tables_ok_GT. Qed.

(* every type-correct property set whose values are in the specification's ranges survives pack + unpack:
   same values, repeated properties in the same order, exactly the packed length used *)
Lemma c17_roundtrip pt st rest :
  wf_state GT pt st = true -> body_small GT st = true -> spec_range_state st = true ->
  exists b, pack GT st = Ok b /\ unpack GT pt (b ++ rest) = Ok (norm GT st, blen b).
Proof.
  intros HW HB HR. apply unpack_pack; try assumption; [exact tables_ok_GT|].
  exact (code_range_state_of_spec pt st HW HR).
Qed.

(* allowsMultiple vs the specification, wherever the property is allowed - except Subscription Identifier in SUBSCRIBE *)
Lemma multi_eq_spec_partial pt id : 0 <= pt < 128 -> spec_allowed pt id = true ->
  ~ (pt = SUBSCRIBE /\ id = 11) ->                         (* exclusion F-C17g *)
  memz id (t_multi GT) = spec_repeatable pt id.
Proof.
  intros Hp Ha Hex. destruct (memz id all_ids) eqn:M.
  - apply memz_in in M. pose proof multi_eq_spec_partial_b as H. rewrite forallb_forall in H.
    specialize (H id M). pose proof (range_forall _ 128 H pt Hp) as H1. cbv beta in H1.
    unfold multi_check in H1. rewrite Ha in H1. cbn [negb orb] in H1.
    apply orb_true_iff in H1 as [H1|H1]; [|apply Bool.eqb_prop; exact H1].
    apply andb_true_iff in H1 as [A B]. apply Z.eqb_eq in A, B. exfalso. apply Hex. split; assumption.
  - unfold all_ids, memz in M. rewrite existsb_app in M. apply orb_false_iff in M as [_ M2].
    unfold spec_allowed in Ha. rewrite (spec_row_none id M2) in Ha. discriminate.
Qed.
