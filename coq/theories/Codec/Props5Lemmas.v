(* Property codec: encoding lemmas per data type and the facts read off the tables. *)
From PahoV Require Import Base.Prelude Codec.StrBytes Codec.Utf8 Codec.VBI Codec.VBIProofs Codec.PropSpec
  Codec.Props5.

(* ---- Variable Byte Integer: the model's loop equals the specification's table 1-1 form ---- *)
Lemma lor128 d : 0 <= d < 128 -> Z.lor d 128 = d + 128.
Proof. intros H. apply low7_facts. assumption. Qed.

Ltac list_eq := repeat (apply (f_equal2 (@cons Z)); [lia|]); try reflexivity.

Lemma vbi_encode_spec n : 0 <= n <= vbi_max -> vbi_encode n = Ok (spec_vbi n).
Proof.
  intros H. rewrite vbi_encode_ok by assumption. f_equal. unfold vbi_max in H. unfold spec_vbi.
  cbn [vbi_digits].
  rewrite !lor128 by lia.
  destruct (n / 128 >? 0) eqn:H1.
  2:{ destruct (n <? 128) eqn:E; [list_eq | exfalso; lia]. }
  destruct (n <? 128) eqn:E1; [exfalso; lia|].
  destruct (n / 128 / 128 >? 0) eqn:H2.
  2:{ destruct (n <? 16384) eqn:E; [list_eq | exfalso; lia]. }
  destruct (n <? 16384) eqn:E2; [exfalso; lia|].
  destruct (n / 128 / 128 / 128 >? 0) eqn:H3.
  2:{ destruct (n <? 2097152) eqn:E; [list_eq | exfalso; lia]. }
  destruct (n <? 2097152) eqn:E3; [exfalso; lia|].
  destruct (n / 128 / 128 / 128 / 128 >? 0) eqn:H4; [exfalso; lia|].
  list_eq.
Qed.

Lemma spec_vbi_len n : 0 <= n <= vbi_max -> 1 <= blen (spec_vbi n) <= 4.
Proof.
  intros H. pose proof (vbi_len_bounds n _ (vbi_encode_spec n H)). unfold blen. lia.
Qed.

Lemma vbi_decode_spec n r : 0 <= n <= vbi_max -> vbi_decode (spec_vbi n ++ r) = Ok (n, blen (spec_vbi n)).
Proof. intros H. apply vbi_roundtrip. apply vbi_encode_spec. assumption. Qed.

(* ---- big-endian integers ---- *)
Lemma read_be16 n r : 0 <= n <= 65535 -> read_int16 (be16 n ++ r) = Ok n.
Proof. intros H. unfold be16, read_int16. cbn [app]. f_equal. lia. Qed.

Lemma read_be32 n r : 0 <= n <= 4294967295 -> read_int32 (be32 n ++ r) = Ok n.
Proof. intros H. unfold be32, read_int32. cbn [app]. f_equal. lia. Qed.

Lemma zin_iff lo hi n : zin lo hi n = true <-> lo <= n <= hi.
Proof. unfold zin. lia. Qed.

Lemma blen_app (a b : list Z) : blen (a ++ b) = blen a + blen b.
Proof. unfold blen. rewrite app_length. lia. Qed.

Lemma blen_nonneg (a : list Z) : 0 <= blen a.
Proof. unfold blen. lia. Qed.

Lemma blen_cons x (a : list Z) : blen (x :: a) = 1 + blen a.
Proof. unfold blen. cbn [length]. lia. Qed.

Lemma skipn_blen_app (a b : list Z) : skipn (Z.to_nat (blen a)) (a ++ b) = b.
Proof. unfold blen. rewrite Nat2Z.id. rewrite skipn_app, Nat.sub_diag, skipn_all. reflexivity. Qed.

Lemma firstn_blen_app (a b : list Z) : firstn (Z.to_nat (blen a)) (a ++ b) = a.
Proof.
  unfold blen. rewrite Nat2Z.id. rewrite firstn_app, Nat.sub_diag, firstn_all. cbn [firstn].
  apply app_nil_r.
Qed.

(* length-prefixed data *)
Lemma write_lp_spec b : blen b <= 65535 -> write_lp b = Ok (spec_lp b).
Proof.
  intros H. unfold write_lp, write_int16, spec_lp.
  pose proof (blen_nonneg b).
  destruct (zin 0 65535 (blen b)) eqn:E; [reflexivity|]. unfold zin in E. lia.
Qed.

Lemma blen_spec_lp b : blen (spec_lp b) = 2 + blen b.
Proof. unfold spec_lp, be16. rewrite blen_app. unfold blen at 1. cbn [length]. lia. Qed.

Lemma read_lp b r : blen b <= 65535 ->
  read_int16 (spec_lp b ++ r) = Ok (blen b) /\
  firstn (Z.to_nat (blen b)) (skipn 2 (spec_lp b ++ r)) = b /\
  skipn (Z.to_nat (blen (spec_lp b))) (spec_lp b ++ r) = r.
Proof.
  intros H. pose proof (blen_nonneg b). repeat split.
  - unfold spec_lp. rewrite <- app_assoc. apply read_be16. lia.
  - unfold spec_lp, be16. cbn [app skipn]. apply firstn_blen_app.
  - apply skipn_blen_app.
Qed.
