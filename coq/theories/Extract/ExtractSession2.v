From Coq Require Import Extraction ExtrOcamlBasic.
From PahoV Require Import Base.Prelude Session2.Model Session2.Check Session2.Wire.
Extraction Language OCaml.
Definition entries : list (Z * (list Z -> list Z)) :=
  [ (1, entry_session); (2, entry_check) ].
Extraction "model_session2.ml" entries.
