(* Extraction of the inbound path models (Link/Reader.v, Link/Handle.v, Link/WsReader.v) for the
   correspondence driver.  Only ExtrOcamlBasic's directives are used. *)
From Coq Require Import Extraction ExtrOcamlBasic.
From PahoV Require Import Base.Prelude Link.Reader Link.Handle Link.WsReader.
Extraction Language OCaml.

Definition entries : list (Z * (list Z -> list Z)) :=
  [ (1, entry_read);          (* n :: bytes ++ schedule -> status, frames, residual _in_packet, bytes left *)
    (2, entry_feed);          (* bytes -> err, frames, residual, bytes unused   (feed1 fold) *)
    (3, entry_handle);        (* ver api rof cid_empty command body -> res hval *)
    (4, entry_loop_error);    (* ver api rc -> on_disconnect arguments after a loop error *)
    (5, entry_ws);            (* n :: raw bytes ++ schedule -> MQTT reader over the WebSocket wrapper *)
    (6, entry_ws_payloads) ]. (* raw bytes -> complete?, payload bytes of the data frames (specification) *)

Extraction "model_reader.ml" entries.
