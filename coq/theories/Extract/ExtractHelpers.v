(* Extraction of the helper models (C20) for the correspondence driver.
   Only ExtrOcamlBasic's directives are used; Z/positive/nat stay extracted inductives. *)
From Coq Require Import Extraction ExtrOcamlBasic.
From PahoV Require Import Base.Prelude Session.Helpers.
Extraction Language OCaml.

Definition entries : list (Z * (list Z -> list Z)) :=
  [ (1, entry_multiple);     (* message list + callback events (or coop) -> API calls of the publish helper *)
    (2, entry_pub_check);    (* a recorded API/packet trace -> c20_pub_ok, c20_pub_complete *)
    (3, entry_subscribe);    (* simple()/callback() on callback events (or coop_sub) -> API calls + returned value *)
    (4, entry_collect) ].    (* the closed form simple_collect / enough of the theorem *)

Extraction "model_helpers.ml" entries.
