(* Extraction of the writer models (C06) for the correspondence driver (tag "writer").
   entry 1: ops on the raw socket; entry 2: ops over the WebSocket wrapper; entry 3: deframe. *)
From Coq Require Import Extraction ExtrOcamlBasic.
From PahoV Require Import Base.Prelude Link.Writer Link.WsWriter.
Extraction Language OCaml.

Definition entries : list (Z * (list Z -> list Z)) :=
  [ (1, entry_raw); (2, entry_ws); (3, entry_deframe) ].

Extraction "model_writer.ml" entries.
