(* Extraction of the writer models (C06) for the correspondence driver (tag "writer").
   entry 1: ops on the raw socket; entry 2: ops over the WebSocket wrapper; entry 3: deframe;
   entry 4: _send_impl / _send_control_frame call sequences on the WebSocket wrapper. *)
From Coq Require Import Extraction ExtrOcamlBasic.
From PahoV Require Import Base.Prelude Link.Writer Link.WsWriter Link.WsControl.
Extraction Language OCaml.

Definition entries : list (Z * (list Z -> list Z)) :=
  [ (1, entry_raw); (2, entry_ws); (3, entry_deframe); (4, entry_wsctl) ].

Extraction "model_writer.ml" entries.
