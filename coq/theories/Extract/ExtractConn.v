From Coq Require Import Extraction ExtrOcamlBasic.
From PahoV Require Import Base.Prelude Link.Conn Link.ConnCheck Link.ConnWire Link.ConnInv Link.ConnStatements.
Extraction Language OCaml.
(* entry 4: [ext; sockcb; proto; nops; ops...] -> [c10_ops_ok; c16_ops_ok] ++ verdicts of the model's own trace ++ [hypotheses hold when exclusion D/R alone is dropped]
   (used to test the theorem statements themselves on random inputs) *)
Definition entry_stmt (args : list Z) : list Z :=
  match args with
  | e :: sc :: p :: n :: rest =>
      let c := mkCfg (z2b e) (z2b sc) p in
      let ops := dec_ops (Z.to_nat n) rest in
      [b2z (c10_ops_ok c ops); b2z (c16_ops_ok ops)] ++ verdicts c (optrace c ops)
      ++ [b2z (c10_ops_sel false true c ops); b2z (c10_ops_sel true false c ops)]
  | _ => []
  end.
Definition entries : list (Z * (list Z -> list Z)) :=
  [ (1, entry_conn); (2, entry_check); (3, entry_explore); (4, entry_stmt) ].
Extraction "model_conn.ml" entries.
