From Coq Require Import Extraction ExtrOcamlBasic.
From PahoV Require Import Base.Prelude Link.Conn Link.ConnCheck Link.ConnWire.
Extraction Language OCaml.
Definition entries : list (Z * (list Z -> list Z)) :=
  [ (1, entry_conn); (2, entry_check); (3, entry_explore) ].
Extraction "model_conn.ml" entries.
