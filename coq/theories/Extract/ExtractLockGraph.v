(* Extraction of the lock-graph interpreter applied to the generated program (tag "lockgraph"). *)
From Coq Require Import Extraction ExtrOcamlBasic.
From PahoV Require Import Base.Prelude Conc.LockGraph Conc.LockGraphEntry.
Extraction Language OCaml.

Definition entries : list (Z * (list Z -> list Z)) :=
  [ (1%Z, entry_stuck); (2%Z, entry_cbctx); (3%Z, entry_predict); (4%Z, entry_stats) ].

Extraction "model_lockgraph.ml" entries.
