(* Extraction of the C17 models (VBI, property codec, reason codes, subscribe options and the
   hand-transcribed specification) for the correspondence driver.  ExtrOcamlBasic only. *)
From Coq Require Import Extraction ExtrOcamlBasic.
From PahoV Require Import Base.Prelude Codec.VBI Codec.Utf8 Codec.SubOpts Codec.Codec17Entries.
Extraction Language OCaml.

Definition entries : list (Z * (list Z -> list Z)) :=
  [ (1, entry_vbi_encode); (2, entry_vbi_decode); (3, entry_utf8_valid);
    (4, entry_props_pack); (5, entry_props_unpack); (6, entry_spec_pack); (7, entry_spec_judge);
    (8, entry_reason); (9, entry_reason_by_name); (10, entry_reason_name);
    (11, entry_subopts_pack); (12, entry_subopts_unpack); (13, entry_spec_subopts); (14, entry_spec_vbi) ].

Extraction "model_codec17.ml" entries.
