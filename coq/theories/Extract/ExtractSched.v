(* Extraction of the interleaving model M5 (tag "sched"): run a schedule on a configuration and return
   wire, returned mids and residual queue, so that implementation runs can be compared with the model
   on the same abstract schedule. *)
From Coq Require Import Extraction ExtrOcamlBasic.
From PahoV Require Import Base.Prelude Conc.Sched Conc.LockOrder.
Extraction Language OCaml.

Definition entries : list (Z * (list Z -> list Z)) :=
  [ (1, entry_sched); (2, entry_lock_edges) ].

Extraction "model_sched.ml" entries.
