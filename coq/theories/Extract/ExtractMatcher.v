(* Extraction of the Matcher models (C11, C15) for the correspondence driver.
   Only ExtrOcamlBasic's directives are used; Z/positive/nat stay extracted inductives. *)
From Coq Require Import Extraction ExtrOcamlBasic.
From PahoV Require Import Base.Prelude Matcher.MatcherEntries.
Extraction Language OCaml.

Definition entries : list (Z * (list Z -> list Z)) :=
  [ (1, entry_match_matrix);   (* filters x topics -> topic_matches_sub / spec_match / validity codes *)
    (2, entry_trie_ops);       (* op sequence on the trie model: results + canonical dump after every op *)
    (3, entry_dict_ops);       (* the same op sequence on the reference dictionary (specification side) *)
    (4, entry_dispatch);       (* dispatch history -> log, c15_ok *)
    (5, entry_c15_ok) ].       (* a recorded log -> c15_ok *)

Extraction "model_matcher.ml" entries.
