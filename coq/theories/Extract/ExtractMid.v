(* Extraction of the executable models for the correspondence driver.
   Only ExtrOcamlBasic's directives are used; Z/positive/nat stay extracted inductives. *)
From Coq Require Import Extraction ExtrOcamlBasic.
From PahoV Require Import Base.Prelude Codec.Mid.
Extraction Language OCaml.

Definition entries : list (Z * (list Z -> list Z)) :=
  [ (1, entry_mid) ].

Extraction "model_mid.ml" entries.
