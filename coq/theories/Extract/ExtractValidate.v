(* Extraction of the C19 models and specifications for the correspondence driver (tag "validate").
   Only ExtrOcamlBasic's directives are used; Z/positive/nat stay extracted inductives. *)
From Coq Require Import Extraction ExtrOcamlBasic.
From PahoV Require Import Base.Prelude Codec.Validate Codec.ValidateSpec Codec.ValidateEntry.
Extraction Language OCaml.

Definition entries : list (Z * (list Z -> list Z)) :=
  [ (1, entry_filter_check);
    (2, entry_spec_filter_ok);
    (3, entry_topic_check);
    (4, entry_publish_args_check);
    (5, entry_subscribe_norm);
    (6, entry_documented_ok);
    (7, entry_unsubscribe_norm);
    (8, entry_spec_publish_ok);
    (9, entry_unsub_documented_ok);
    (10, entry_strings_all);
    (11, entry_publish_both);
    (12, entry_subscribe_both);
    (13, entry_subscribe_connected) ].

Extraction "model_validate.ml" entries.
