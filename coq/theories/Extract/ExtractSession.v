From Coq Require Import Extraction ExtrOcamlBasic.
From PahoV Require Import Base.Prelude Session.Model Session.Check Session.Wire.
Extraction Language OCaml.
Definition entries : list (Z * (list Z -> list Z)) :=
  [ (1, entry_session); (2, entry_check) ].
Extraction "model_session.ml" entries.
