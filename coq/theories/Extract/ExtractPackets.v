(* Extraction of the C04 models (tag "packets") for the correspondence driver.
   Only ExtrOcamlBasic's directives are used; Z/positive/nat stay extracted inductives. *)
From Coq Require Import Extraction ExtrOcamlBasic.
From PahoV Require Import Base.Prelude Codec.RemLen Codec.PacketsEntry.
Extraction Language OCaml.

Definition entries : list (Z * (list Z -> list Z)) :=
  [ (1, entry_rl_encode); (2, entry_rl_decode);
    (3, entry_connect); (4, entry_publish); (5, entry_publish_header); (6, entry_ack); (7, entry_ping);
    (8, entry_disconnect); (9, entry_subscribe); (10, entry_unsubscribe);
    (11, entry_spec_decode); (12, entry_spec_decode_padded); (13, entry_stream_decode); (14, entry_utf8_ok);
    (15, entry_clean); (16, entry_clean_flag); (17, entry_rl_pack);
    (20, entry_emit_connect); (21, entry_emit_publish); (22, entry_emit_subscribe);
    (23, entry_emit_unsubscribe); (24, entry_emit_disconnect) ].

Extraction "model_packets.ml" entries.
