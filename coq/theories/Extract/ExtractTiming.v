(* Extraction of the timed models (C08 keepalive, C09 back-off) for the correspondence driver.
   Only ExtrOcamlBasic's directives are used; Z/positive/nat stay extracted inductives. *)
From Coq Require Import Extraction ExtrOcamlBasic.
From PahoV Require Import Base.Prelude Link.Keepalive Link.Backoff.
Extraction Language OCaml.

(* 1: keepalive op list -> events + final state;  2: judges of a recorded keepalive trace;
   3: back-off script -> events (attempt times, waits, callbacks) + return *)
Definition entries : list (Z * (list Z -> list Z)) :=
  [ (1, entry_keepalive); (2, entry_judge); (3, entry_backoff) ].

Extraction "model_timing.ml" entries.
