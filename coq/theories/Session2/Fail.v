(* What the model's operations do on a DEAD socket (there is a socket, and its next write fails hard), expressed
   through the two-mode operations of Session2/Legacy.v on the same state - which they treat as a socket that
   refuses writes: an operation that attempts no write behaves exactly like the two-mode operation; an
   operation that attempts a write behaves like the two-mode operation FOLLOWED BY the loss of the connection
   (the packet of the failed write stays in the queue, the socket is closed, on_disconnect runs).  The two
   exceptions are the operations whose remaining statements look at the result of the failed write:
   publish(qos>0) (the message leaves the window again) and the CONNACK retransmission loop (it stops);
   they are characterised directly.  No property is proved here; Inv.v, C12Proofs.v, ... use these lemmas. *)
From PahoV Require Import Base.Prelude Codec.Mid Codec.MidProofs Session2.Model Session2.Bridge.
From PahoV Require Session2.Legacy.

Definition lost (s : sess) : sess := with_sock s false.

(* there is a socket and its next write fails hard *)
Definition dead (s : sess) : Prop := sock s = true /\ failing s = true /\ blocked s = true.

Lemma tm_dead s : dead s -> tm s = TFail.
Proof. intros (_ & Hf & _). unfold tm. rewrite Hf. reflexivity. Qed.

Lemma canw_dead s : dead s -> Legacy.can_write s = false.
Proof. intros (Hs & _ & Hb). unfold Legacy.can_write. rewrite Hs, Hb. reflexivity. Qed.

Lemma pq_fail cn q x : pq cn TFail true q x = (q ++ [x], [Handed cn (q_pkt x); SockLost], false).
Proof. unfold pq, lw. destruct (q ++ [x]) eqn:E; [destruct q; discriminate|]. reflexivity. Qed.

Lemma lw_fail_nil cn : lw cn TFail true [] = ([], [], true).
Proof. reflexivity. Qed.

Lemma lw_fail_cons cn x q : lw cn TFail true (x :: q) = (x :: q, [SockLost], false).
Proof. reflexivity. Qed.

Lemma lost_with_q s q : lost (with_q s q) = with_q (lost s) q.
Proof. reflexivity. Qed.

(* ---- one hand-over ---- *)
Lemma send_dead s x : dead s ->
  send s x = (lost (fst (Legacy.send s x)), snd (Legacy.send s x) ++ [SockLost]).
Proof.
  intros Hd. unfold send, Legacy.send. destruct Hd as (Hs & Hf & Hb).
  unfold Legacy.can_write, tm. rewrite Hs, Hf, Hb. cbn [andb negb].
  rewrite pq_fail. unfold Legacy.pq, Legacy.lw. cbn [fst snd app settle]. reflexivity.
Qed.

Lemma legacy_send_blocked s x : Legacy.can_write s = false ->
  Legacy.send s x = (with_q s (outq s ++ [x]), [Handed (conn s) (q_pkt x)]).
Proof. intros Hc. unfold Legacy.send, Legacy.pq, Legacy.lw. rewrite Hc. reflexivity. Qed.

(* ---- _update_inflight: the first release fails; the two-mode loop on a refusing socket releases every message
        the window admits - at most one when it was full before the acknowledgement ---- *)
Lemma legacy_ui_stay c cn : forall l k q,
  snd (Legacy.update_inflight c cn false k q l) = [] ->
  Legacy.update_inflight c cn false k q l = (l, k, q, []).
Proof.
  induction l as [|m l IH]; intros k q; cbn [Legacy.update_inflight]; [reflexivity|].
  destruct (k <? c_max c); [|reflexivity].
  destruct (is_queued m).
  - unfold Legacy.pq, Legacy.lw.
    destruct (Legacy.update_inflight c cn false (k + 1) (q ++ [mkQ (pub_pkt m) false]) l) as [[[r n] q2] ev2].
    cbn [snd app]. discriminate.
  - specialize (IH k q). destruct (Legacy.update_inflight c cn false k q l) as [[[r n] q2] ev2].
    cbn [snd] in *. intros H. specialize (IH H). inversion IH; subst. reflexivity.
Qed.

Lemma ui_dead c cn : forall l k q,
  (length (snd (Legacy.update_inflight c cn false k q l)) <= 1)%nat ->
  update_inflight c cn TFail k q l =
    let '(r, n, q', ev) := Legacy.update_inflight c cn false k q l in
    match ev with
    | [] => (r, n, q', [], true)
    | _ :: _ => (r, n, q', ev ++ [SockLost], false)
    end.
Proof.
  induction l as [|m l IH]; intros k q; cbn [update_inflight Legacy.update_inflight]; [reflexivity|].
  destruct (k <? c_max c); [|reflexivity].
  destruct (is_queued m).
  - rewrite pq_fail. unfold Legacy.pq, Legacy.lw.
    pose proof (legacy_ui_stay c cn l (k + 1) (q ++ [mkQ (pub_pkt m) false])) as Hstay.
    destruct (Legacy.update_inflight c cn false (k + 1) (q ++ [mkQ (pub_pkt m) false]) l) as [[[r n] q2] ev2].
    cbn [snd app length] in *. intros Hlen.
    assert (ev2 = []) by (destruct ev2; [reflexivity | cbn [length] in Hlen; lia]). subst ev2.
    specialize (Hstay eq_refl). inversion Hstay; subst. reflexivity.
  - specialize (IH k q). destruct (Legacy.update_inflight c cn false k q l) as [[[r n] q2] ev2].
    cbn [snd] in *. intros Hlen. rewrite (IH Hlen). destruct ev2; reflexivity.
Qed.

(* ---- an operation that wrote something on a dead socket: the two-mode result, then the loss ---- *)
Definition is_handed (e : event) : bool := match e with Handed _ _ => true | _ => false end.
Definition wrote (ev : list event) : bool := existsb is_handed ev.
Definition fail_after (r : sess * list event) : sess * list event :=
  if wrote (snd r) then (lost (fst r), snd r ++ [SockLost]) else r.

Lemma wrote_app a b : wrote (a ++ b) = wrote a || wrote b.
Proof. apply existsb_app. Qed.

Lemma deliver_nowrite c mid q tag r : wrote (fst (deliver c mid q tag r)) = false.
Proof. unfold deliver. destruct (r && negb (c_suppress c)); reflexivity. Qed.

(* the hypothesis under which _update_inflight on a dead socket is the two-mode loop cut after its first release:
   the two-mode loop releases at most one message (the invariant provides this: the window was full) *)
Definition ui_le1 (c : cfg) (s : sess) (mid : Z) : Prop :=
  forall m, find_mid mid (out s) = Some m -> (length (snd (Legacy.do_on_publish c s m)) <= 3)%nat.

Lemma legacy_ui_handed c cn : forall l k q,
  Forall (fun e => is_handed e = true) (snd (Legacy.update_inflight c cn false k q l)).
Proof.
  induction l as [|x l IH]; intros k q; cbn [Legacy.update_inflight]; [constructor|].
  destruct (k <? c_max c); [|constructor]. destruct (is_queued x).
  - unfold Legacy.pq, Legacy.lw. specialize (IH (k + 1) (q ++ [mkQ (pub_pkt x) false])).
    destruct (Legacy.update_inflight c cn false (k + 1) (q ++ [mkQ (pub_pkt x) false]) l) as [[[r1 n1] q1] ev1].
    cbn [snd app] in *. constructor; [reflexivity | exact IH].
  - specialize (IH k q). destruct (Legacy.update_inflight c cn false k q l) as [[[r1 n1] q1] ev1]. exact IH.
Qed.

Lemma on_publish_dead c s m : dead s ->
  (length (snd (Legacy.do_on_publish c s m)) <= 3)%nat ->
  do_on_publish c s m = fail_after (Legacy.do_on_publish c s m).
Proof.
  intros Hd Hle0.
  assert (Hle : (c_max c >? 0) = true ->
     (length (snd (Legacy.update_inflight c (conn s) false (inflight s - 1) (outq s) (remove_mid (o_mid m) (out s)))) <= 1)%nat).
  { intros Hm. unfold Legacy.do_on_publish in Hle0. rewrite Hm, (canw_dead s Hd) in Hle0.
    destruct (Legacy.update_inflight c (conn s) false (inflight s - 1) (outq s) (remove_mid (o_mid m) (out s))) as [[[r n] q'] ev].
    cbn [snd length] in *. lia. }
  clear Hle0. unfold do_on_publish, Legacy.do_on_publish. rewrite (tm_dead s Hd), (canw_dead s Hd).
  destruct (c_max c >? 0); [|reflexivity].
  rewrite (ui_dead c (conn s) _ _ _ (Hle eq_refl)).
  destruct (Legacy.update_inflight c (conn s) false (inflight s - 1) (outq s) (remove_mid (o_mid m) (out s)))
    as [[[r n] q'] ev] eqn:E.
  unfold fail_after. cbn [fst snd wrote existsb is_handed orb].
  destruct ev as [|e ev].
  - cbn [existsb settle]. reflexivity.
  - (* every event of the two-mode loop on a refusing socket is a hand-over *)
    pose proof (legacy_ui_handed c (conn s) (remove_mid (o_mid m) (out s)) (inflight s - 1) (outq s)) as He.
    rewrite E in He. cbn [snd] in He. apply Forall_inv in He.
    cbn [existsb]. rewrite He. cbn [orb settle app]. reflexivity.
Qed.

Lemma send_dead_after s x : dead s -> send s x = fail_after (Legacy.send s x).
Proof.
  intros Hd. rewrite (send_dead s x Hd), (legacy_send_blocked s x (canw_dead s Hd)). reflexivity.
Qed.

Lemma dead_with_out s o n : dead s -> dead (with_out s o n).
Proof. exact (fun H => H). Qed.
Lemma dead_with_inm s i : dead s -> dead (with_inm s i).
Proof. exact (fun H => H). Qed.

(* one inbound packet other than an accepting CONNACK *)
Lemma rx_dead c s p r : dead s -> (forall mid, p = IPuback mid \/ p = IPubcomp mid -> ui_le1 c s mid) ->
  (forall rc, p = IConnack rc -> rc <> 0) ->
  do_rx c s p r = fail_after (Legacy.do_rx c s p r).
Proof.
  intros Hd Hui Hp. pose proof Hd as (Hs & _ & _). unfold do_rx, Legacy.do_rx. rewrite Hs. cbn [negb].
  destruct p as [rc|mid|mid|mid|mid|q mid tag].
  - specialize (Hp rc eq_refl). replace (rc =? 0) with false by lia. reflexivity.
  - destruct (find_mid mid (out s)) as [m|] eqn:Ef; [|reflexivity].
    rewrite (on_publish_dead c s m Hd (Hui mid ltac:(tauto) m Ef)).
    destruct (Legacy.do_on_publish c s m) as [s' ev]. unfold fail_after. cbn [fst snd wrote existsb is_handed orb].
    destruct (existsb is_handed ev); reflexivity.
  - destruct (find_mid mid (out s)) as [m|] eqn:Ef; [|reflexivity].
    rewrite (send_dead_after _ _ (dead_with_out s _ _ Hd)).
    destruct (Legacy.send _ _) as [s' ev]. unfold fail_after. cbn [fst snd wrote existsb is_handed orb].
    destruct (existsb is_handed ev); reflexivity.
  - destruct (find_mid mid (out s)) as [m|] eqn:Ef; [|reflexivity].
    rewrite (on_publish_dead c s m Hd (Hui mid ltac:(tauto) m Ef)).
    destruct (Legacy.do_on_publish c s m) as [s' ev]. unfold fail_after. cbn [fst snd wrote existsb is_handed orb].
    destruct (existsb is_handed ev); reflexivity.
  - destruct (in_find mid (inm s)) as [tag|].
    + pose proof (deliver_nowrite c mid 2 tag r) as Hn.
      destruct (deliver c mid 2 tag r) as [ev pr]. cbn [fst] in Hn.
      destruct pr; [unfold fail_after; cbn [fst snd wrote existsb is_handed orb]; fold (wrote ev); rewrite Hn; reflexivity|].
      destruct (c_manual c); [unfold fail_after; cbn [fst snd wrote existsb is_handed orb]; fold (wrote ev); rewrite Hn; reflexivity|].
      rewrite (send_dead _ _ (dead_with_inm s _ Hd)), (legacy_send_blocked _ _ (canw_dead _ (dead_with_inm s _ Hd))).
      unfold fail_after. cbn [fst snd]. unfold wrote. cbn [existsb is_handed orb]. rewrite existsb_app. cbn [existsb is_handed orb].
      rewrite orb_true_r. cbn [app]. rewrite <- ?app_assoc. reflexivity.
    + destruct (c_manual c); [reflexivity|].
      rewrite (send_dead _ _ Hd), (legacy_send_blocked _ _ (canw_dead _ Hd)). reflexivity.
  - destruct (q =? 0).
    + pose proof (deliver_nowrite c 0 0 tag r) as Hn. destruct (deliver c 0 0 tag r) as [ev pr]. cbn [fst] in Hn.
      unfold fail_after; cbn [fst snd wrote existsb is_handed orb]; fold (wrote ev); rewrite Hn; reflexivity.
    + destruct (q =? 1).
      * pose proof (deliver_nowrite c mid 1 tag r) as Hn. destruct (deliver c mid 1 tag r) as [ev pr]. cbn [fst] in Hn.
        destruct pr; [unfold fail_after; cbn [fst snd wrote existsb is_handed orb]; fold (wrote ev); rewrite Hn; reflexivity|].
        destruct (c_manual c); [unfold fail_after; cbn [fst snd wrote existsb is_handed orb]; fold (wrote ev); rewrite Hn; reflexivity|].
        rewrite (send_dead _ _ Hd), (legacy_send_blocked _ _ (canw_dead _ Hd)).
        unfold fail_after. cbn [fst snd]. unfold wrote. cbn [existsb is_handed orb]. rewrite existsb_app. cbn [existsb is_handed orb].
        rewrite orb_true_r. cbn [app]. rewrite <- ?app_assoc. reflexivity.
      * rewrite (send_dead _ _ Hd), (legacy_send_blocked _ _ (canw_dead _ Hd)). reflexivity.
Qed.

Lemma ack_dead c s mid q : dead s -> do_ack c s mid q = fail_after (Legacy.do_ack c s mid q).
Proof.
  intros Hd. unfold do_ack, Legacy.do_ack. destruct (c_manual c); [|reflexivity].
  destruct (q =? 1); [apply send_dead_after; exact Hd|]. destruct (q =? 2); [apply send_dead_after; exact Hd | reflexivity].
Qed.

(* ---- publish() on a dead socket ---- *)
Lemma publish0_dead c s : dead s ->
  do_publish c s 0 =
    (lost (fst (Legacy.do_publish c s 0)),
     [Handed (conn s) (PPublish (mid_next (last_mid s)) 0 false (ntag s)); SockLost;
      Ret (ntag s) (mid_next (last_mid s)) 0 7]).
Proof.
  intros Hd. pose proof Hd as (Hs & Hf & Hb). unfold do_publish, Legacy.do_publish. cbv zeta. cbn [Z.eqb]. rewrite Hs.
  set (s1 := mkS _ _ _ _ _ _ _ _ _ _ _ _).
  assert (Hd1 : dead s1) by (repeat split; assumption).
  rewrite (send_dead s1 _ Hd1), (legacy_send_blocked s1 _ (canw_dead s1 Hd1)). cbn [fst snd sock lost with_sock with_q app].
  reflexivity.
Qed.

(* QoS>0: every exit that attempts no write is the two-mode one; when the PUBLISH is handed over the write fails,
   the message goes back to state publish and leaves the window: the result is what publish() does WITHOUT a
   socket (on the state after the loss), plus the packet that stays in the queue *)
Definition pub_wrote (c : cfg) (s : sess) (q : Z) : bool :=
  negb (q =? 0) && negb ((c_maxq c >? 0) && (Z.of_nat (length (out s)) >=? c_maxq c))
  && negb (has_mid (mid_next (last_mid s)) (out s)) && window_free c (inflight s).

Lemma publish_dead_nowrite c s q : dead s -> (q =? 0) = false -> pub_wrote c s q = false ->
  do_publish c s q = Legacy.do_publish c s q.
Proof.
  intros Hd Hq Hw. unfold pub_wrote in Hw. rewrite Hq in Hw. cbn [negb andb] in Hw.
  unfold do_publish, Legacy.do_publish. cbv zeta. rewrite Hq.
  destruct ((c_maxq c >? 0) && (Z.of_nat (length (out s)) >=? c_maxq c)); [reflexivity|].
  destruct (has_mid (mid_next (last_mid s)) (out s)); [reflexivity|].
  cbn [negb andb] in Hw. rewrite Hw. reflexivity.
Qed.

Lemma publish_dead_wrote c s q : dead s -> pub_wrote c s q = true ->
  do_publish c s q =
    (with_q (fst (Legacy.do_publish c (lost s) q))
            (outq s ++ [mkQ (PPublish (mid_next (last_mid s)) q false (ntag s)) true]),
     [Handed (conn s) (PPublish (mid_next (last_mid s)) q false (ntag s)); SockLost;
      Ret (ntag s) (mid_next (last_mid s)) q 4]).
Proof.
  intros Hd Hw. pose proof Hd as (Hs & Hf & Hb). unfold pub_wrote in Hw.
  apply andb_true_iff in Hw as [Hw Hw4]. apply andb_true_iff in Hw as [Hw Hw3]. apply andb_true_iff in Hw as [Hw1 Hw2].
  apply negb_true_iff in Hw1, Hw2, Hw3.
  unfold do_publish, Legacy.do_publish. cbv zeta. unfold lost, with_sock.
  cbn [out inflight sock last_mid ntag inm first cack conn outq blocked failing].
  rewrite Hw1, Hw2, Hw3, Hw4, Hs. cbn [fst].
  set (s1 := mkS _ _ _ _ true _ _ _ _ _ _ _).
  set (s2 := with_out s1 _ _).
  assert (Hd2 : dead s2) by (repeat split; assumption).
  rewrite (send_dead s2 _ Hd2), (legacy_send_blocked s2 _ (canw_dead s2 Hd2)). cbn [fst snd sock lost with_sock with_q app].
  unfold s2, s1, with_out, with_q. cbn. rewrite andb_false_r. reflexivity.
Qed.

(* ---- the CONNACK retransmission loop on a dead socket: it either attempts no write at all (nothing was queued,
        no stored message needed a packet before the first queued one) - then it is the two-mode loop -, or it
        stops at the first write: at a loop_write() that finds the queue non-empty, or right after handing over
        the packet of the first message that needs one ---- *)
From PahoV Require Import Session2.LLemmas.

Definition quiet (m : omsg) : Prop := cl_pk m = [] /\ is_queued m = false.

Lemma connack_dead cn : forall l q,
  (connack_loop cn TFail q l = (l, q, [], true) /\ Legacy.connack_loop cn false q l = (l, q, []))
  \/ (q <> [] /\ connack_loop cn TFail q l = (l, q, [SockLost], false) /\ l <> [])
  \/ (exists l1 m l2 x, l = l1 ++ m :: l2 /\ cl_pk m = [x] /\ Forall quiet l1 /\ (l1 <> [] -> q = []) /\
        connack_loop cn TFail q l = (l1 ++ cl1 m :: l2, q ++ [x], [Handed cn (q_pkt x); SockLost], false)).
Proof.
  induction l as [|m l IH]; intros q.
  - left. split; reflexivity.
  - (* a message that needs no packet and is not queued: loop_write(), then the rest *)
    assert (Hskip : quiet m ->
       connack_loop cn TFail q (m :: l) =
       (let '(q1, ev1, a1) := lw cn TFail true q in
        if a1 then let '(r, q2, ev2, a2) := connack_loop cn TFail q1 l in (m :: r, q2, ev1 ++ ev2, a2)
        else (m :: l, q1, ev1, false)) ->
       Legacy.connack_loop cn false q (m :: l) =
       (let (q1, ev1) := Legacy.lw cn false q in
        let '(r, q2, ev2) := Legacy.connack_loop cn false q1 l in (m :: r, q2, ev1 ++ ev2)) ->
       (connack_loop cn TFail q (m :: l) = (m :: l, q, [], true) /\ Legacy.connack_loop cn false q (m :: l) = (m :: l, q, []))
       \/ (q <> [] /\ connack_loop cn TFail q (m :: l) = (m :: l, q, [SockLost], false) /\ m :: l <> [])
       \/ (exists l1 m0 l2 x, m :: l = l1 ++ m0 :: l2 /\ cl_pk m0 = [x] /\ Forall quiet l1 /\ (l1 <> [] -> q = []) /\
             connack_loop cn TFail q (m :: l) = (l1 ++ cl1 m0 :: l2, q ++ [x], [Handed cn (q_pkt x); SockLost], false))).
    { intros Hqm E1 E2. rewrite E1, E2. clear E1 E2. destruct q as [|y q].
      - cbn [lw Legacy.lw app]. destruct (IH []) as [[H1 H2]|[[Hne _]|(l1 & m0 & l2 & x & El & Ex & Hq1 & Hq & E)]].
        + left. rewrite H1, H2. split; reflexivity.
        + exfalso. apply Hne. reflexivity.
        + right. right. exists (m :: l1), m0, l2, x. rewrite E, El. cbn [app].
          split; [reflexivity|]. split; [exact Ex|]. split; [constructor; assumption|]. split; [reflexivity|]. reflexivity.
      - right. left. split; [discriminate|]. split; [reflexivity | discriminate]. }
    assert (Hsend : forall x, cl_pk m = [x] ->
       connack_loop cn TFail q (m :: l) =
             (let '(q1, ev1, a1) := pq cn TFail true q x in
              if a1 then let '(r, q2, ev2, a2) := connack_loop cn TFail q1 l in (cl1 m :: r, q2, ev1 ++ ev2, a2)
              else (cl1 m :: l, q1, ev1, false)) ->
       (exists l1 m0 l2 x0, m :: l = l1 ++ m0 :: l2 /\ cl_pk m0 = [x0] /\ Forall quiet l1 /\ (l1 <> [] -> q = []) /\
             connack_loop cn TFail q (m :: l) =
             (l1 ++ cl1 m0 :: l2, q ++ [x0], [Handed cn (q_pkt x0); SockLost], false))).
    { intros x Ex E. exists [], m, l, x. rewrite E, pq_fail. cbn [app].
      split; [reflexivity|]. split; [exact Ex|]. split; [constructor|]. split; [intros H; exfalso; apply H; reflexivity | reflexivity]. }
    destruct (o_st m) eqn:Est.
    + right. right. apply (Hsend (mkQ (pub_pkt m) false)); [unfold cl_pk; rewrite Est; reflexivity|].
      cbn [connack_loop]. unfold cl1. rewrite Est. reflexivity.
    + apply Hskip; [unfold quiet, cl_pk, is_queued; rewrite Est; split; reflexivity | |]; cbn [connack_loop Legacy.connack_loop]; rewrite Est; reflexivity.
    + apply Hskip; [unfold quiet, cl_pk, is_queued; rewrite Est; split; reflexivity | |]; cbn [connack_loop Legacy.connack_loop]; rewrite Est; reflexivity.
    + destruct (o_qos m =? 2) eqn:Eq.
      * right. right. apply (Hsend (mkQ (rel_pkt m) false)); [unfold cl_pk; rewrite Est, Eq; reflexivity|].
        cbn [connack_loop]. unfold cl1. rewrite Est, Eq. reflexivity.
      * apply Hskip; [unfold quiet, cl_pk, is_queued; rewrite Est, Eq; split; reflexivity | |]; cbn [connack_loop Legacy.connack_loop]; rewrite Est, Eq; reflexivity.
    + apply Hskip; [unfold quiet, cl_pk, is_queued; rewrite Est; split; reflexivity | |]; cbn [connack_loop Legacy.connack_loop]; rewrite Est; reflexivity.
    + (* a queued message: one more loop_write(), the loop ends *)
      cbn [connack_loop Legacy.connack_loop]. rewrite Est. destruct q as [|y q].
      * left. split; reflexivity.
      * right. left. split; [discriminate|]. split; [reflexivity | discriminate].
Qed.

(* ---- the transport changes its mind on a state whose socket is or becomes dead.  The two-mode operations do
        not look at [failing]; states that differ in that flag only are related by [same_but_failing] ---- *)
Definition set_failing (s : sess) (b : bool) : sess :=
  mkS (out s) (inm s) (inflight s) (last_mid s) (sock s) (first s) (cack s) (conn s) (ntag s) (outq s) (blocked s) b.

Lemma transport_block s : sock s = true ->
  do_transport s TBlock = (set_failing (fst (Legacy.do_block s true)) false, snd (Legacy.do_block s true)).
Proof. intros Hs. unfold do_transport, Legacy.do_block. rewrite Hs. reflexivity. Qed.

Lemma transport_accept s : sock s = true ->
  do_transport s TAccept = (set_failing (fst (Legacy.do_block s false)) false, snd (Legacy.do_block s false)).
Proof. intros Hs. unfold do_transport, Legacy.do_block. rewrite Hs. reflexivity. Qed.

(* the peer vanishes: the event loop calls loop_write(); with an empty queue nothing is attempted (the socket is dead
   from now on), otherwise the write fails at once *)
Lemma transport_fail s : sock s = true ->
  do_transport s TFail =
    match outq s with
    | [] => (set_failing (fst (Legacy.do_block s true)) true, snd (Legacy.do_block s true))
    | _ :: _ => (lost (set_failing (fst (Legacy.do_block s true)) true), snd (Legacy.do_block s true) ++ [SockLost])
    end.
Proof.
  intros Hs. unfold do_transport, Legacy.do_block. rewrite Hs. cbn [lw]. destruct s as [o i n lm sk f ck cn nt q b fl].
  cbn [outq] in *. destruct q; reflexivity.
Qed.

(* ---- the two-mode operations other than reconnect(), the loss itself and a refused CONNACK keep the socket ---- *)
Lemma legacy_send_sock s x : sock (fst (Legacy.send s x)) = sock s.
Proof. unfold Legacy.send. destruct (Legacy.pq (conn s) (Legacy.can_write s) (outq s) x). reflexivity. Qed.

Lemma legacy_on_publish_sock c s m : sock (fst (Legacy.do_on_publish c s m)) = sock s.
Proof.
  unfold Legacy.do_on_publish. destruct (c_max c >? 0); [|reflexivity].
  destruct (Legacy.update_inflight c (conn s) (Legacy.can_write s) (inflight s - 1) (outq s) (remove_mid (o_mid m) (out s))) as [[[o' n] q'] ev].
  reflexivity.
Qed.

Lemma legacy_rx_sock c s p r : (forall rc, p <> IConnack rc) -> sock (fst (Legacy.do_rx c s p r)) = sock s.
Proof.
  intros Hp. unfold Legacy.do_rx. destruct (sock s) eqn:Hs; cbn [negb]; [|exact Hs].
  destruct p as [rc|mid|mid|mid|mid|q mid tag].
  - exfalso. exact (Hp rc eq_refl).
  - destruct (find_mid mid (out s)) as [m|]; [|exact Hs].
    pose proof (legacy_on_publish_sock c s m) as H. destruct (Legacy.do_on_publish c s m). cbn [fst] in *. congruence.
  - destruct (find_mid mid (out s)) as [m|]; [|exact Hs].
    match goal with |- context [Legacy.send ?s0 ?x0] => pose proof (legacy_send_sock s0 x0) as H; destruct (Legacy.send s0 x0) end.
    cbn [fst sock with_out] in *. congruence.
  - destruct (find_mid mid (out s)) as [m|]; [|exact Hs].
    pose proof (legacy_on_publish_sock c s m) as H. destruct (Legacy.do_on_publish c s m). cbn [fst] in *. congruence.
  - destruct (in_find mid (inm s)) as [tag|].
    + destruct (deliver c mid 2 tag r) as [ev pr]. destruct pr; [exact Hs|]. destruct (c_manual c); [exact Hs|].
      match goal with |- context [Legacy.send ?s0 ?x0] => pose proof (legacy_send_sock s0 x0) as H; destruct (Legacy.send s0 x0) end.
      cbn [fst sock with_inm] in *. congruence.
    + destruct (c_manual c); [exact Hs|].
      match goal with |- context [Legacy.send ?s0 ?x0] => pose proof (legacy_send_sock s0 x0) as H; destruct (Legacy.send s0 x0) end.
      cbn [fst] in *. congruence.
  - destruct (q =? 0); [destruct (deliver c 0 0 tag r); exact Hs|].
    destruct (q =? 1).
    + destruct (deliver c mid 1 tag r) as [ev pr]. destruct pr; [exact Hs|]. destruct (c_manual c); [exact Hs|].
      match goal with |- context [Legacy.send ?s0 ?x0] => pose proof (legacy_send_sock s0 x0) as H; destruct (Legacy.send s0 x0) end.
      cbn [fst] in *. congruence.
    + match goal with |- context [Legacy.send ?s0 ?x0] => pose proof (legacy_send_sock s0 x0) as H; destruct (Legacy.send s0 x0) end.
      cbn [fst sock with_inm] in *. congruence.
Qed.

Lemma legacy_ack_sock c s mid q : sock (fst (Legacy.do_ack c s mid q)) = sock s.
Proof.
  unfold Legacy.do_ack. destruct (c_manual c); [|reflexivity].
  destruct (q =? 1); [apply legacy_send_sock|]. destruct (q =? 2); [apply legacy_send_sock | reflexivity].
Qed.

Lemma legacy_publish_sock c s q : sock (fst (Legacy.do_publish c s q)) = sock s.
Proof.
  unfold Legacy.do_publish. cbv zeta. destruct (q =? 0).
  - destruct (sock s) eqn:Hs; [|reflexivity].
    match goal with |- context [Legacy.send ?s0 ?x0] => pose proof (legacy_send_sock s0 x0) as H; destruct (Legacy.send s0 x0) end.
    cbn [fst sock] in *. congruence.
  - destruct ((c_maxq c >? 0) && (Z.of_nat (length (out s)) >=? c_maxq c)); [reflexivity|].
    destruct (has_mid (mid_next (last_mid s)) (out s)); [reflexivity|].
    destruct (window_free c (inflight s)); [|reflexivity]. destruct (sock s) eqn:Hs; [|reflexivity].
    match goal with |- context [Legacy.send ?s0 ?x0] => pose proof (legacy_send_sock s0 x0) as H; destruct (Legacy.send s0 x0) end.
    cbn [fst sock with_out] in *. congruence.
Qed.

(* ---- the same operations as the two-mode model sees them on a dead socket (a socket that refuses writes): what
        the property proofs compare the results above with ---- *)
Lemma legacy_publish_dead_wrote c s q : dead s -> pub_wrote c s q = true ->
  exists sb, Legacy.do_publish c s q =
    (sb, [Handed (conn s) (PPublish (mid_next (last_mid s)) q false (ntag s)); Ret (ntag s) (mid_next (last_mid s)) q 0]) /\
    out sb = out s ++ [mkO (mid_next (last_mid s)) q (wait_of q) false (ntag s)] /\ ntag sb = ntag s + 1 /\
    outq sb = outq s ++ [mkQ (PPublish (mid_next (last_mid s)) q false (ntag s)) true].
Proof.
  intros Hd Hw. pose proof Hd as (Hs & Hf & Hb). unfold pub_wrote in Hw.
  apply andb_true_iff in Hw as [Hw Hw4]. apply andb_true_iff in Hw as [Hw Hw3]. apply andb_true_iff in Hw as [Hw1 Hw2].
  apply negb_true_iff in Hw1, Hw2, Hw3.
  unfold Legacy.do_publish. cbv zeta. rewrite Hw1, Hw2, Hw3, Hw4, Hs.
  set (s1 := mkS _ _ _ _ _ _ _ _ _ _ _ _). set (s2 := with_out s1 _ _).
  assert (Hc2 : Legacy.can_write s2 = false) by (unfold Legacy.can_write; cbn; rewrite Hb; reflexivity).
  rewrite (legacy_send_blocked s2 _ Hc2). eexists. split; [reflexivity|]. cbn. repeat split; reflexivity.
Qed.

Lemma legacy_connack_first cn : forall l1 m l2 x q, Forall quiet l1 -> cl_pk m = [x] ->
  exists r q' rest, Legacy.connack_loop cn false q (l1 ++ m :: l2) = (r, q', Handed cn (q_pkt x) :: rest).
Proof.
  induction l1 as [|w l1 IH]; intros m l2 x q Hq Hx.
  - cbn [app Legacy.connack_loop]. unfold cl_pk in Hx. destruct (o_st m) eqn:Est; try discriminate.
    + inversion Hx; subst. unfold Legacy.pq, Legacy.lw.
      destruct (Legacy.connack_loop cn false (q ++ [mkQ (pub_pkt m) false]) l2) as [[r q2] ev2]. cbn [app]. do 3 eexists. reflexivity.
    + destruct (o_qos m =? 2) eqn:Eq; [|discriminate]. inversion Hx; subst. unfold Legacy.pq, Legacy.lw.
      destruct (Legacy.connack_loop cn false (q ++ [mkQ (rel_pkt m) false]) l2) as [[r q2] ev2]. cbn [app]. do 3 eexists. reflexivity.
  - inversion Hq as [|? ? [Hw1 Hw2] Hq']; subst. cbn [app Legacy.connack_loop].
    destruct (IH m l2 x q Hq' Hx) as (r & q' & rest & E).
    unfold cl_pk, is_queued in Hw1, Hw2. destruct (o_st w) eqn:Est; try discriminate.
    all: try (unfold Legacy.lw; rewrite E; cbn [app]; do 3 eexists; reflexivity).
    destruct (o_qos w =? 2); [discriminate|]. unfold Legacy.lw. rewrite E. cbn [app]. do 3 eexists. reflexivity.
Qed.

Lemma legacy_rx_connack_dead c s r : dead s ->
  snd (Legacy.do_rx c s (IConnack 0) r) = Inp (IConnack 0) :: snd (Legacy.connack_loop (conn s) false (outq s) (out s)).
Proof.
  intros Hd. pose proof Hd as (Hs & _ & _). unfold Legacy.do_rx. rewrite Hs. cbn [negb Z.eqb]. rewrite (canw_dead s Hd).
  destruct (Legacy.connack_loop (conn s) false (outq s) (out s)) as [[o q'] ev]. reflexivity.
Qed.

(* the three shapes of the accepting CONNACK on a dead socket, with state and events spelled out *)
Lemma connack_dead_cases c s r : dead s ->
  do_rx c s (IConnack 0) r = Legacy.do_rx c s (IConnack 0) r
  \/ (exists sd, do_rx c s (IConnack 0) r = (sd, [Inp (IConnack 0); SockLost]) /\
        sock sd = false /\ out sd = out s /\ outq sd = outq s /\ ntag sd = ntag s /\ cack sd = false /\ first sd = false)
  \/ (exists sd l1 m l2 x rest, do_rx c s (IConnack 0) r = (sd, [Inp (IConnack 0); Handed (conn s) (q_pkt x); SockLost]) /\
        sock sd = false /\ out s = l1 ++ m :: l2 /\ out sd = l1 ++ cl1 m :: l2 /\ outq sd = outq s ++ [x] /\ ntag sd = ntag s /\
        cl_pk m = [x] /\
        snd (Legacy.do_rx c s (IConnack 0) r) = Inp (IConnack 0) :: Handed (conn s) (q_pkt x) :: rest /\
        cack sd = false /\ first sd = false).
Proof.
  intros Hd. pose proof Hd as (Hs & _ & _).
  destruct (connack_dead (conn s) (out s) (outq s)) as [[H1 H2]|[(Hne & H1 & _)|(l1 & m & l2 & x & El & Ex & Hq1 & Hq & H1)]].
  - left. unfold do_rx, Legacy.do_rx. rewrite Hs. cbn [negb Z.eqb]. rewrite (tm_dead s Hd), (canw_dead s Hd), H1, H2. reflexivity.
  - right. left. unfold do_rx. rewrite Hs. cbn [negb Z.eqb]. rewrite (tm_dead s Hd), H1. eexists. split; [reflexivity|].
    cbn. repeat split; reflexivity.
  - right. right. unfold do_rx. rewrite Hs. cbn [negb Z.eqb]. rewrite (tm_dead s Hd), H1.
    destruct (legacy_connack_first (conn s) l1 m l2 x (outq s) Hq1 Ex) as (r0 & q0 & rest & E).
    eexists. exists l1, m, l2, x, rest. split; [reflexivity|]. cbn [settle sock with_q with_sock with_out out outq ntag cack first].
    repeat split; try reflexivity; try assumption.
    rewrite (legacy_rx_connack_dead c s r Hd), El, E. reflexivity.
Qed.

(* publish(qos>0) without a socket, when nothing refuses it: stored for the next connection, nothing handed over *)
Lemma legacy_publish_offline_wrote c s q : sock s = false -> pub_wrote c s q = true ->
  exists so, Legacy.do_publish c s q = (so, [Ret (ntag s) (mid_next (last_mid s)) q 4]) /\
    out so = out s ++ [mkO (mid_next (last_mid s)) q MsPublish false (ntag s)] /\ ntag so = ntag s + 1 /\
    outq so = outq s /\ sock so = false.
Proof.
  intros Hs Hw. unfold pub_wrote in Hw.
  apply andb_true_iff in Hw as [Hw Hw4]. apply andb_true_iff in Hw as [Hw Hw3]. apply andb_true_iff in Hw as [Hw1 Hw2].
  apply negb_true_iff in Hw1, Hw2, Hw3.
  unfold Legacy.do_publish. cbv zeta. rewrite Hw1, Hw2, Hw3, Hw4, Hs. eexists. split; [reflexivity|]. cbn. repeat split; reflexivity.
Qed.

Lemma pub_wrote_lost c s q : pub_wrote c (lost s) q = pub_wrote c s q.
Proof. reflexivity. Qed.

Lemma legacy_publish_ntag0 c s : ntag (lost (fst (Legacy.do_publish c s 0))) = ntag s + 1.
Proof.
  unfold Legacy.do_publish. cbv zeta. cbn [Z.eqb]. destruct (sock s); [|reflexivity].
  match goal with |- context [Legacy.send ?s0 ?x0] => unfold Legacy.send; destruct (Legacy.pq (conn s0) (Legacy.can_write s0) (outq s0) x0) end.
  reflexivity.
Qed.
