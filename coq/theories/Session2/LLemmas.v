(* Characterisation lemmas for the list-walking loops and the output queue of the second-generation
   Session model. *)
From PahoV Require Import Base.Prelude Codec.Mid Session2.Model Session2.Legacy.

Definition mids (l : list omsg) : list Z := map o_mid l.
Definition tags (l : list omsg) : list Z := map o_tag l.
Definition toQ (m : omsg) : omsg := set_st m MsQueued.

Lemma find_mid_In mid l m : find_mid mid l = Some m -> In m l /\ o_mid m = mid.
Proof.
  induction l as [|x l IH]; cbn [find_mid]; [discriminate|].
  destruct (o_mid x =? mid) eqn:E; intros H.
  - inversion H; subst. split; [left; reflexivity | lia].
  - destruct (IH H) as [H1 H2]. split; [right; assumption | assumption].
Qed.

Lemma find_mid_None mid l : find_mid mid l = None -> ~ In mid (mids l).
Proof.
  induction l as [|x l IH]; cbn [find_mid mids map]; [intros _ []|].
  destruct (o_mid x =? mid) eqn:E; [discriminate|]. intros H [H1|H1]; [lia | exact (IH H H1)].
Qed.

Lemma find_mid_notin mid l : ~ In mid (mids l) -> find_mid mid l = None.
Proof.
  induction l as [|x l IH]; cbn [find_mid mids map]; [reflexivity|].
  intros H. destruct (o_mid x =? mid) eqn:E.
  - exfalso. apply H. left. lia.
  - apply IH. intros H1. apply H. right. exact H1.
Qed.

Lemma find_mid_split mid l m : find_mid mid l = Some m ->
  exists l1 l2, l = l1 ++ m :: l2 /\ ~ In mid (mids l1) /\ o_mid m = mid.
Proof.
  induction l as [|x l IH]; cbn [find_mid]; [discriminate|].
  destruct (o_mid x =? mid) eqn:E; intros H.
  - inversion H; subst. exists [], l. split; [reflexivity|]. split; [intros []|lia].
  - destruct (IH H) as (l1 & l2 & -> & Hn & Hm). exists (x :: l1), l2.
    split; [reflexivity|]. split; [|assumption].
    cbn [mids map]. intros [H1|H1]; [lia | exact (Hn H1)].
Qed.

Lemma has_mid_true mid l : has_mid mid l = true <-> In mid (mids l).
Proof.
  unfold has_mid. destruct (find_mid mid l) eqn:E; split; intros H; try reflexivity; try discriminate.
  - apply find_mid_In in E as [H1 H2]. subst. apply in_map. assumption.
  - exfalso. exact (find_mid_None _ _ E H).
Qed.

Lemma remove_mid_split mid l1 m l2 : ~ In mid (mids l1) -> o_mid m = mid ->
  remove_mid mid (l1 ++ m :: l2) = l1 ++ l2.
Proof.
  intros Hn Hm. induction l1 as [|x l1 IH]; cbn [remove_mid app].
  - replace (o_mid m =? mid) with true by lia. reflexivity.
  - cbn [mids map] in Hn. destruct (o_mid x =? mid) eqn:E.
    + exfalso. apply Hn. left. lia.
    + f_equal. apply IH. intros H. apply Hn. right. exact H.
Qed.

Lemma update_mid_split mid f l1 m l2 : ~ In mid (mids l1) -> o_mid m = mid ->
  update_mid mid f (l1 ++ m :: l2) = l1 ++ f m :: l2.
Proof.
  intros Hn Hm. induction l1 as [|x l1 IH]; cbn [update_mid app].
  - replace (o_mid m =? mid) with true by lia. reflexivity.
  - cbn [mids map] in Hn. destruct (o_mid x =? mid) eqn:E.
    + exfalso. apply Hn. left. lia.
    + f_equal. apply IH. intros H. apply Hn. right. exact H.
Qed.

(* ---- reset ---- *)
Lemma reset1_mid cl m : o_mid (reset1 cl m) = o_mid m.
Proof. unfold reset1. destruct (o_qos m =? 1), cl, (o_st m); reflexivity. Qed.
Lemma reset1_tag cl m : o_tag (reset1 cl m) = o_tag m.
Proof. unfold reset1. destruct (o_qos m =? 1), cl, (o_st m); reflexivity. Qed.
Lemma reset1_qos cl m : o_qos (reset1 cl m) = o_qos m.
Proof. unfold reset1. destruct (o_qos m =? 1), cl, (o_st m); reflexivity. Qed.
Lemma reset1_nq cl m : is_queued (reset1 cl m) = false.
Proof. unfold reset1, is_queued. destruct (o_qos m =? 1), cl, (o_st m); reflexivity. Qed.
Lemma reset1_notwait cl m : is_wait (reset1 cl m) = false.
Proof. unfold reset1, is_wait. destruct (o_qos m =? 1), cl, (o_st m); reflexivity. Qed.

Lemma reset_out_char c cl : 0 <= c_max c -> forall l k, 0 <= k ->
  exists j, (j <= length l)%nat /\
    reset_out_list c cl k l =
      (map (reset1 cl) (firstn j l) ++ map toQ (skipn j l), k + Z.of_nat j) /\
    ((j < length l)%nat -> 0 < c_max c /\ c_max c <= k + Z.of_nat j) /\
    (0 < c_max c -> k <= c_max c -> k + Z.of_nat j <= c_max c).
Proof.
  intros Hmax. induction l as [|m l IH]; intros k Hk.
  - exists O. cbn. split; [lia|]. split; [f_equal; lia|]. split; [lia|lia].
  - cbn [reset_out_list]. unfold window_free at 1.
    destruct ((c_max c =? 0) || (k <? c_max c)) eqn:W.
    + destruct (IH (k + 1) ltac:(lia)) as (j & Hj & E & Hfull & Hle).
      exists (S j). rewrite E. cbn [firstn skipn map app length]. split; [lia|].
      split; [f_equal; lia|]. split; [intros H; destruct (Hfull ltac:(lia)); lia | intros; lia].
    + exists O. cbn [firstn skipn map app length].
      assert (Hstay : forall l' , reset_out_list c cl k l' = (map toQ l', k)).
      { induction l' as [|x l' IH']; cbn [reset_out_list map]; [reflexivity|].
        unfold window_free. rewrite W. rewrite IH'. reflexivity. }
      rewrite Hstay. split; [lia|]. split; [f_equal; lia|]. split; intros; lia.
Qed.

(* ---- the output queue ---- *)
Definition pkts (q : list qpkt) : list pkt := map q_pkt q.

(* hand the packets of H over one by one, loop_write() after each *)
Fixpoint hand_all (cn : Z) (can : bool) (q : list qpkt) (H : list qpkt) : list qpkt * list event :=
  match H with
  | [] => (q, [])
  | x :: H' =>
      let (q1, ev1) := pq cn can q x in
      let (q2, ev2) := hand_all cn can q1 H' in (q2, ev1 ++ ev2)
  end.

(* on a transport that accepts writes nothing is ever left in the queue, so loop_write() finds it empty *)
Lemma lw_idle cn can q : (can = true -> q = []) -> lw cn can q = (q, []).
Proof. unfold lw. destruct can; [|reflexivity]. intros H. rewrite (H eq_refl). reflexivity. Qed.

Lemma pq_fst_can cn q x : fst (pq cn true q x) = [].
Proof. reflexivity. Qed.

Lemma pq_idle cn can q x : (can = true -> fst (pq cn can q x) = []).
Proof. intros ->. reflexivity. Qed.

Lemma flush_evs_app cn q1 q2 : flush_evs cn (q1 ++ q2) = flush_evs cn q1 ++ flush_evs cn q2.
Proof.
  induction q1 as [|x q1 IH]; cbn [app flush_evs]; [reflexivity|].
  rewrite IH, <- app_assoc. reflexivity.
Qed.

Lemma hand_all_can cn : forall H,
  hand_all cn true [] H = ([], flat_map (fun x => Handed cn (q_pkt x) :: flush_evs cn [x]) H).
Proof.
  induction H as [|x H IH]; cbn [hand_all flat_map]; [reflexivity|].
  unfold pq, lw. cbn [app]. rewrite IH. reflexivity.
Qed.

Lemma hand_all_blocked cn : forall H q,
  hand_all cn false q H = (q ++ H, map (fun x => Handed cn (q_pkt x)) H).
Proof.
  induction H as [|x H IH]; intros q; cbn [hand_all map].
  - rewrite app_nil_r. reflexivity.
  - unfold pq, lw. rewrite IH, <- app_assoc. reflexivity.
Qed.

Lemma hand_all_idle cn can q H : (can = true -> q = []) -> can = true -> fst (hand_all cn can q H) = [].
Proof. intros Hq ->. rewrite (Hq eq_refl), hand_all_can. reflexivity. Qed.

(* ---- connack loop ---- *)
Definition cl1 (m : omsg) : omsg :=
  match o_st m with
  | MsPublish => set_st m (wait_of (o_qos m))
  | MsResendPubrel => if o_qos m =? 2 then set_st m MsWaitPubcomp else m
  | _ => m
  end.
(* the packet the retransmission loop hands over for a stored message *)
Definition cl_pk (m : omsg) : list qpkt :=
  match o_st m with
  | MsPublish => [mkQ (pub_pkt m) false]
  | MsResendPubrel => if o_qos m =? 2 then [mkQ (rel_pkt m) false] else []
  | _ => []
  end.

Lemma connack_loop_char cn can : forall C Q q,
  Forall (fun m => is_queued m = false) C ->
  Forall (fun m => is_queued m = true) Q ->
  (can = true -> q = []) ->
  connack_loop cn can q (C ++ Q) =
    (map cl1 C ++ Q, fst (hand_all cn can q (flat_map cl_pk C)), snd (hand_all cn can q (flat_map cl_pk C))).
Proof.
  induction C as [|m C IH]; intros Q q HC HQ Hq.
  - cbn [app map flat_map hand_all fst snd]. destruct Q as [|q0 Q]; [reflexivity|].
    cbn [connack_loop]. inversion HQ as [|? ? Hq0 _]; subst. unfold is_queued in Hq0.
    destruct (o_st q0); try discriminate. rewrite (lw_idle cn can q Hq). reflexivity.
  - inversion HC as [|? ? Hm HC']; subst. cbn [app connack_loop map flat_map].
    assert (Hskip : (let (q1, ev1) := lw cn can q in
                     let '(r, q2, ev2) := connack_loop cn can q1 (C ++ Q) in (m :: r, q2, ev1 ++ ev2)) =
                    (m :: map cl1 C ++ Q, fst (hand_all cn can q (flat_map cl_pk C)), snd (hand_all cn can q (flat_map cl_pk C)))).
    { rewrite (lw_idle cn can q Hq), (IH Q q HC' HQ Hq). reflexivity. }
    assert (Hsend : forall x m', (let (q1, ev1) := pq cn can q x in
                     let '(r, q2, ev2) := connack_loop cn can q1 (C ++ Q) in (m' :: r, q2, ev1 ++ ev2)) =
                    (m' :: map cl1 C ++ Q, fst (hand_all cn can q (x :: flat_map cl_pk C)),
                     snd (hand_all cn can q (x :: flat_map cl_pk C)))).
    { intros x m'. cbn [hand_all]. pose proof (pq_idle cn can q x) as Hq1.
      destruct (pq cn can q x) as [q1 ev1]. cbn [fst] in Hq1. rewrite (IH Q q1 HC' HQ Hq1).
      destruct (hand_all cn can q1 (flat_map cl_pk C)) as [q2 ev2]. reflexivity. }
    unfold cl1, cl_pk, is_queued in *.
    destruct (o_st m); try discriminate; cbn [app]; try exact Hskip.
    + apply Hsend.
    + destruct (o_qos m =? 2); cbn [app]; [apply Hsend | exact Hskip].
Qed.

(* ---- update_inflight ---- *)
Definition rel1 (m : omsg) : omsg := set_st m (wait_of (o_qos m)).
Definition rel_pk (m : omsg) : qpkt := mkQ (pub_pkt m) false.

Lemma update_inflight_Q c cn can : forall Q k q,
  Forall (fun m => is_queued m = true) Q -> k <= c_max c ->
  exists j, (j <= length Q)%nat /\
    update_inflight c cn can k q Q =
      (map rel1 (firstn j Q) ++ skipn j Q, k + Z.of_nat j,
       fst (hand_all cn can q (map rel_pk (firstn j Q))), snd (hand_all cn can q (map rel_pk (firstn j Q)))) /\
    k + Z.of_nat j <= c_max c /\
    ((j < length Q)%nat -> k + Z.of_nat j = c_max c).
Proof.
  induction Q as [|m Q IH]; intros k q HQ Hk.
  - exists O. cbn. split; [lia|]. split; [replace (k + Z.of_nat 0) with k by lia; reflexivity|]. split; lia.
  - inversion HQ as [|? ? Hm HQ']; subst. cbn [update_inflight].
    destruct (k <? c_max c) eqn:W.
    + rewrite Hm. fold (rel_pk m). destruct (pq cn can q (rel_pk m)) as [q1 ev1] eqn:Epq.
      destruct (IH (k + 1) q1 HQ' ltac:(lia)) as (j & Hj & E & Hle & Hfull).
      exists (S j). rewrite E. cbn [firstn skipn map app length hand_all]. rewrite Epq.
      destruct (hand_all cn can q1 (map rel_pk (firstn j Q))) as [q2 ev2]. cbn [fst snd].
      split; [lia|].
      split; [replace (k + Z.of_nat (S j)) with (k + 1 + Z.of_nat j) by lia; reflexivity|].
      split; [lia|]. intros H. rewrite <- Hfull by lia. lia.
    + exists O. cbn [firstn skipn map app length hand_all fst snd]. split; [lia|].
      split; [replace (k + Z.of_nat 0) with k by lia; reflexivity|]. split; lia.
Qed.

Lemma update_inflight_C c cn can : forall C R k q,
  Forall (fun m => is_queued m = false) C ->
  update_inflight c cn can k q (C ++ R) =
    let '(r, n, q', ev) := update_inflight c cn can k q R in (C ++ r, n, q', ev).
Proof.
  induction C as [|m C IH]; intros R k q HC.
  - cbn [app]. destruct (update_inflight c cn can k q R) as [[[r n] q'] ev]. reflexivity.
  - inversion HC as [|? ? Hm HC']; subst. cbn [app update_inflight].
    destruct (k <? c_max c) eqn:W.
    + rewrite Hm. rewrite (IH R k q HC').
      destruct (update_inflight c cn can k q R) as [[[r n] q'] ev]. reflexivity.
    + (* window already full: nothing changes anywhere *)
      assert (Hstay : forall l, update_inflight c cn can k q l = (l, k, q, [])).
      { intros [|x l]; cbn [update_inflight]; [reflexivity|]. rewrite W. reflexivity. }
      rewrite Hstay. reflexivity.
Qed.
