(* A fact about traces, not about the model: on ANY op-structured trace that obeys the queue
   discipline [fifo_ok] (written packets = a prefix, per reconnect() epoch, of the handed packets;
   written only on an open socket), publish() order of the hand-overs [c13_handed_ok] implies
   publish() order of the writes [c13_tx_ok].
   Proof: the write-order checker, after virtually writing the packets still in the queue, is in the
   state of the hand-over-order checker. *)
From PahoV Require Import Base.Prelude Session2.Model Session2.Check Session2.Statements.

Lemma pkt_eqb_eq a b : pkt_eqb a b = true -> a = b.
Proof.
  destruct a as [|m q d t|m t|m|m|m], b as [|m' q' d' t'|m' t'|m'|m'|m']; cbn; try discriminate; intros H.
  - reflexivity.
  - apply andb_true_iff in H as [H H4]. apply andb_true_iff in H as [H H3]. apply andb_true_iff in H as [H1 H2].
    apply Bool.eqb_prop in H3. f_equal; try lia. exact H3.
  - apply andb_true_iff in H as [H1 H2]. f_equal; lia.
  - f_equal; lia.
  - f_equal; lia.
  - f_equal; lia.
Qed.

(* ---------------------------------------------------------------- the order checker on packets *)
Definition feq (a b : k13) : Prop :=
  k3_next a = k3_next b /\ k3_bound a = k3_bound b /\ k3_old a = k3_old b /\ k3_new a = k3_new b /\ k3_seen a = k3_seen b.

Definition vflush (k : k13) (q : list pkt) : k13 := fold_left k13_pkt q k.

Lemma tx_ok_mono k t : k3_ok (k13_tx k t) = true -> k3_ok k = true.
Proof.
  unfold k13_tx. destruct (zin t (k3_seen k)); [exact (fun H => H)|].
  destruct (t <? k3_bound k); cbn [k3_ok]; intros H; apply andb_true_iff in H; tauto.
Qed.
Lemma pkt_ok_mono k p : k3_ok (k13_pkt k p) = true -> k3_ok k = true.
Proof. unfold k13_pkt. destruct (ptag p); [apply tx_ok_mono | exact (fun H => H)]. Qed.
Lemma vflush_ok_mono : forall q k, k3_ok (vflush k q) = true -> k3_ok k = true.
Proof.
  induction q as [|p q IH]; intros k H; [exact H|]. cbn [vflush fold_left] in H.
  apply pkt_ok_mono with (p := p). apply IH. exact H.
Qed.

Lemma tx_next k t : k3_next (k13_tx k t) = k3_next k.
Proof. unfold k13_tx. destruct (zin t (k3_seen k)); [reflexivity|]. destruct (t <? k3_bound k); reflexivity. Qed.
Lemma pkt_next k p : k3_next (k13_pkt k p) = k3_next k.
Proof. unfold k13_pkt. destruct (ptag p); [apply tx_next | reflexivity]. Qed.
Lemma vflush_next : forall q k, k3_next (vflush k q) = k3_next k.
Proof. induction q as [|p q IH]; intros k; [reflexivity|]. cbn [vflush fold_left]. fold (vflush (k13_pkt k p) q). rewrite IH. apply pkt_next. Qed.

(* one more packet on both sides *)
Lemma pkt_feq a b p : feq a b -> (k3_ok b = true -> k3_ok a = true) ->
  feq (k13_pkt a p) (k13_pkt b p) /\ (k3_ok (k13_pkt b p) = true -> k3_ok (k13_pkt a p) = true).
Proof.
  intros (E1 & E2 & E3 & E4 & E5) Hok. unfold k13_pkt. destruct (ptag p) as [t|]; [|split; [repeat split; assumption | exact Hok]].
  unfold k13_tx. rewrite E5. destruct (zin t (k3_seen b)); [split; [repeat split; assumption | exact Hok]|].
  rewrite E2. destruct (t <? k3_bound b); cbn [k3_ok k3_next k3_bound k3_old k3_new k3_seen]; rewrite ?E1, ?E2, ?E3, ?E4, ?E5.
  - split; [repeat split|]. intros H. apply andb_true_iff in H as [H1 H2]. rewrite (Hok H1), H2. reflexivity.
  - split; [repeat split|]. intros H. apply andb_true_iff in H as [H1 H2]. rewrite (Hok H1), H2. reflexivity.
Qed.

(* the tag counter does not interfere with the packets *)
Definition setn (k : k13) (n : Z) : k13 := mkK13 n (k3_bound k) (k3_old k) (k3_new k) (k3_seen k) (k3_ok k).
Lemma pkt_setn k p n : k13_pkt (setn k n) p = setn (k13_pkt k p) n.
Proof.
  unfold k13_pkt. destruct (ptag p) as [t|]; [|reflexivity]. unfold k13_tx, setn. cbn [k3_seen k3_bound k3_old k3_new k3_ok k3_next].
  destruct (zin t (k3_seen k)); [reflexivity|]. destruct (t <? k3_bound k); reflexivity.
Qed.
Lemma vflush_setn : forall q k n, vflush (setn k n) q = setn (vflush k q) n.
Proof.
  induction q as [|p q IH]; intros k n; [reflexivity|]. cbn [vflush fold_left]. rewrite pkt_setn. apply IH.
Qed.

(* ---------------------------------------------------------------- the simulation *)
Definition sync_ev (b : bool) (e : event) : bool :=
  match e with Reconn => false | SockOpened _ => true | _ => b end.

Definition J (kF : kf) (sync : bool) (kT kH : k13) : Prop :=
  k3_next kT = k3_next kH /\
  (k3_ok kH = true -> k3_ok kT = true) /\
  (kf_open kF = true -> sync = true) /\
  (sync = true -> feq (vflush kT (kf_q kF)) kH /\ (k3_ok kH = true -> k3_ok (vflush kT (kf_q kF)) = true)).

Lemma kf_ev_ok_mono k e : kf_ok (kf_ev k e) = true -> kf_ok k = true.
Proof.
  destruct e; cbn [kf_ev kf_ok]; try exact (fun H => H).
  - destruct (kf_q k); cbn [kf_ok]; [discriminate|]. intros H. repeat (apply andb_true_iff in H as [H _]). exact H.
  - intros H. apply andb_true_iff in H. tauto.
Qed.
Lemma kf_fold_ok_mono : forall evs k, kf_ok (fold_left kf_ev evs k) = true -> kf_ok k = true.
Proof. induction evs as [|e evs IH]; intros k H; [exact H|]. apply (kf_ev_ok_mono k e). apply IH. exact H. Qed.

Lemma k13_ev_ok_mono sel k e : k3_ok (k13_ev sel k e) = true -> k3_ok k = true.
Proof.
  destruct e; cbn [k13_ev k3_ok]; try exact (fun H => H);
    try (destruct (sel _); [apply pkt_ok_mono | exact (fun H => H)]).
Qed.
Lemma k13_fold_ok_mono sel : forall evs k, k3_ok (fold_left (k13_ev sel) evs k) = true -> k3_ok k = true.
Proof. induction evs as [|e evs IH]; intros k H; [exact H|]. apply (k13_ev_ok_mono sel k e). apply IH. exact H. Qed.

Lemma J_ev kF sync kT kH e : J kF sync kT kH -> kf_ok (kf_ev kF e) = true ->
  J (kf_ev kF e) (sync_ev sync e) (k13_ev tx_sel kT e) (k13_ev handed_sel kH e).
Proof.
  intros (Hn & Hok & Hos & Hs) Hf. unfold J.
  destruct e as [cn p|tag mid q rc| | | | | | |cn| |cn p| |b]; cbn [kf_ev sync_ev k13_ev tx_sel handed_sel kf_q kf_open] in *;
    try (split; [exact Hn | split; [exact Hok | split; [exact Hos | exact Hs]]]).
  - (* Tx *)
    destruct (kf_q kF) as [|p' q'] eqn:Eq; cbn [kf_ok kf_q kf_open] in *; [discriminate|].
    apply andb_true_iff in Hf as [Hf Hp]. apply andb_true_iff in Hf as [Hf _]. apply andb_true_iff in Hf as [Hf _].
    apply andb_true_iff in Hf as [_ Hop]. apply pkt_eqb_eq in Hp. subst p'.
    pose proof (Hos Hop) as Hsy. destruct (Hs Hsy) as [Hfe Hvo].
    split; [rewrite pkt_next; exact Hn|]. split.
    + intros H. specialize (Hvo H). cbn [vflush fold_left] in Hvo. exact (vflush_ok_mono _ _ Hvo).
    + split; [exact Hos|]. intros _. split; [exact Hfe | exact Hvo].
  - (* Ret *)
    change (mkK13 (tag + 1) (k3_bound kT) (k3_old kT) (k3_new kT) (k3_seen kT) (k3_ok kT)) with (setn kT (tag + 1)).
    change (mkK13 (tag + 1) (k3_bound kH) (k3_old kH) (k3_new kH) (k3_seen kH) (k3_ok kH)) with (setn kH (tag + 1)).
    split; [reflexivity|]. split; [exact Hok|]. split; [exact Hos|]. intros Hsy. destruct (Hs Hsy) as [(E1 & E2 & E3 & E4 & E5) Hvo].
    rewrite vflush_setn. split; [repeat split; assumption | exact Hvo].
  - (* Reconn *)
    split; [exact Hn|]. split; [exact Hok|]. split; discriminate.
  - (* SockOpened *)
    split; [exact Hn|]. split; [exact Hok|]. split; [reflexivity|]. intros _. cbn [vflush fold_left].
    split; [|exact Hok]. unfold feq. cbn. rewrite Hn. repeat split.
  - (* SockLost *)
    split; [exact Hn|]. split; [exact Hok|]. split; [discriminate | exact Hs].
  - (* Handed *)
    split; [rewrite pkt_next; exact Hn|]. split; [intros H; apply Hok; exact (pkt_ok_mono _ _ H)|].
    split; [exact Hos|]. intros Hsy. destruct (Hs Hsy) as [Hfe Hvo].
    unfold vflush. rewrite fold_left_app. cbn [fold_left]. fold (vflush kT (kf_q kF)).
    apply pkt_feq; assumption.
Qed.

Lemma J_evs : forall evs kF sync kT kH, J kF sync kT kH -> kf_ok (fold_left kf_ev evs kF) = true ->
  J (fold_left kf_ev evs kF) (fold_left sync_ev evs sync)
    (fold_left (k13_ev tx_sel) evs kT) (fold_left (k13_ev handed_sel) evs kH).
Proof.
  induction evs as [|e evs IH]; intros kF sync kT kH HJ Hf; [exact HJ|]. cbn [fold_left] in *.
  apply IH; [|exact Hf]. apply J_ev; [exact HJ|]. exact (kf_fold_ok_mono _ _ Hf).
Qed.

Lemma kf_op_ok k evs : kf_ok (kf_op k evs) = true -> kf_ok (fold_left kf_ev evs k) = true.
Proof. unfold kf_op. cbn [kf_ok]. intros H. apply andb_true_iff in H. tauto. Qed.

Lemma kf_ops_ok_mono : forall tr k, kf_ok (fold_left kf_op tr k) = true -> kf_ok k = true.
Proof.
  induction tr as [|evs tr IH]; intros k H; [exact H|]. cbn [fold_left] in H.
  apply IH in H. apply kf_op_ok in H. exact (kf_fold_ok_mono _ _ H).
Qed.

Lemma J_op kF sync kT kH evs : J kF sync kT kH -> kf_ok (kf_op kF evs) = true ->
  J (kf_op kF evs) (fold_left sync_ev evs sync)
    (fold_left (k13_ev tx_sel) evs kT) (fold_left (k13_ev handed_sel) evs kH).
Proof.
  intros HJ Hf. pose proof (J_evs evs kF sync kT kH HJ (kf_op_ok _ _ Hf)) as H.
  unfold J in *. unfold kf_op. cbn [kf_q kf_open]. exact H.
Qed.

Lemma transfer_from : forall tr kF sync kT kH, J kF sync kT kH ->
  kf_ok (fold_left kf_op tr kF) = true ->
  k3_ok (fold_left (fun k evs => fold_left (k13_ev handed_sel) evs k) tr kH) = true ->
  k3_ok (fold_left (fun k evs => fold_left (k13_ev tx_sel) evs k) tr kT) = true.
Proof.
  induction tr as [|evs tr IH]; intros kF sync kT kH HJ Hf Hh; cbn [fold_left] in *.
  - destruct HJ as (_ & Hok & _). exact (Hok Hh).
  - eapply IH; [|exact Hf|exact Hh]. apply J_op; [exact HJ|]. exact (kf_ops_ok_mono _ _ Hf).
Qed.

Theorem c13_transfer_proved : C13_transfer_stmt.
Proof.
  intros c tr Hf Hh. unfold c13_tx_ok, c13_handed_ok, c13_gen_ok, fifo_ok in *.
  apply (transfer_from tr kf_init false k13_init k13_init); [|exact Hf|exact Hh].
  unfold J. cbn. split; [reflexivity|]. split; [exact (fun H => H)|]. split; discriminate.
Qed.

Print Assumptions c13_transfer_proved.
