(* C01 on the second-generation Session model: a QoS>0 message is owned until its final
   acknowledgement and completes exactly once - in particular NOT when reconnect() drops its queued,
   unwritten PUBLISH, and its MQTTMessageInfo never turns into "connection lost"; on an established
   connection every owned message has been handed to the connection (and written, unless the
   transport refuses writes) or the window is full.
   Proof of [C01_stmt] by a relational invariant between the model state and the checker state. *)
From PahoV Require Import Base.Prelude Codec.Mid Codec.MidProofs Session2.Model Session2.Check
  Session2.Lemmas Session2.Inv Session2.Statements Session2.C12Proofs.
From Coq Require Import Sorting.Sorted.

(* ---------------------------------------------------------------- list helpers of the checker *)
Lemma zin_In x l : zin x l = true <-> In x l.
Proof.
  induction l as [|y l IH]; cbn [zin In]; [split; [discriminate|tauto]|].
  rewrite orb_true_iff, IH. split; intros [H|H]; auto; left; lia.
Qed.

Lemma zin_of_notIn x l : ~ In x l -> zin x l = false.
Proof. intros H. destruct (zin x l) eqn:E; [|reflexivity]. apply zin_In in E. contradiction. Qed.

Lemma zadd_In x y l : In x (zadd y l) <-> x = y \/ In x l.
Proof.
  unfold zadd. destruct (zin y l) eqn:E.
  - apply zin_In in E. split; [auto|]. intros [->|H]; assumption.
  - rewrite in_app_iff. cbn [In]. split; intros [H|H]; auto.
    + destruct H as [H|[]]; auto.
Qed.

Definition zadds (ts l : list Z) : list Z := fold_left (fun l t => zadd t l) ts l.

Lemma zadds_In x ts : forall l, In x (zadds ts l) <-> In x l \/ In x ts.
Proof.
  unfold zadds. induction ts as [|t ts IH]; intros l; cbn [fold_left In]; [tauto|].
  rewrite IH, zadd_In. split; intros H; intuition auto.
Qed.

Lemma zadds_app a b l : zadds (a ++ b) l = zadds b (zadds a l).
Proof. unfold zadds. apply fold_left_app. Qed.

Lemma NoDup_app_l {A} (l1 l2 : list A) : NoDup (l1 ++ l2) -> NoDup l1.
Proof.
  induction l1 as [|x l1 IH]; cbn [app]; intros H; [constructor|].
  inversion H as [|? ? Hx Hn]; subst. constructor; [|apply IH; assumption].
  intros Hin. apply Hx. apply in_or_app. left. assumption.
Qed.

Definition lof (m : omsg) : lmsg := mkL (o_tag m) (o_mid m) (o_qos m).

Lemma tags_lof l : tags l = map l_tag (map lof l).
Proof. unfold tags. rewrite map_map. reflexivity. Qed.

Lemma lhas_tag_In t l : lhas_tag t l = true <-> In t (map l_tag l).
Proof.
  unfold lhas_tag. rewrite existsb_exists, in_map_iff. split.
  - intros (x & H1 & H2). exists x. split; [lia|assumption].
  - intros (x & H1 & H2). exists x. split; [assumption|lia].
Qed.

Lemma lrem_tag_notin t l : ~ In t (map l_tag l) -> lrem_tag t l = l.
Proof.
  induction l as [|x l IH]; cbn [lrem_tag map In]; [reflexivity|]. intros H.
  destruct (l_tag x =? t) eqn:E; [exfalso; apply H; left; lia|]. f_equal. apply IH. tauto.
Qed.

Lemma lrem_tag_split t l1 x l2 : ~ In t (map l_tag l1) -> ~ In t (map l_tag l2) -> l_tag x = t ->
  lrem_tag t (l1 ++ x :: l2) = l1 ++ l2.
Proof.
  intros H1 H2 Hx. induction l1 as [|y l1 IH]; cbn [lrem_tag app].
  - replace (l_tag x =? t) with true by lia. apply lrem_tag_notin. assumption.
  - cbn [map In] in H1. destruct (l_tag y =? t) eqn:E; [exfalso; apply H1; left; lia|].
    f_equal. apply IH. tauto.
Qed.

(* ---------------------------------------------------------------- the checker state, field by field *)
Definition set_q0 (k : k01) (v : list Z) : k01 :=
  mkK01 (k1_live k) v (k1_done k) (k1_onconn k) (k1_wr k) (k1_est k) (k1_blk k) (k1_ok k).
Definition set_on (k : k01) (v : list Z) : k01 :=
  mkK01 (k1_live k) (k1_q0 k) (k1_done k) v (k1_wr k) (k1_est k) (k1_blk k) (k1_ok k).
Definition set_wr (k : k01) (v : list Z) : k01 :=
  mkK01 (k1_live k) (k1_q0 k) (k1_done k) (k1_onconn k) v (k1_est k) (k1_blk k) (k1_ok k).

Lemma set_wr_same k : set_wr k (k1_wr k) = k.
Proof. destruct k; reflexivity. Qed.
Lemma set_on_same k : set_on k (k1_onconn k) = k.
Proof. destruct k; reflexivity. Qed.

(* window-relevant tags / QoS 0 tags of a list of queue entries *)
Definition qtag (x : qpkt) : list Z := match ptag (q_pkt x) with Some t => [t] | None => [] end.
Definition qtags (q : list qpkt) : list Z := flat_map qtag q.

Lemma qtags_app a b : qtags (a ++ b) = qtags a ++ qtags b.
Proof. unfold qtags. apply flat_map_app. Qed.

Definition q0known (k : k01) (q : list qpkt) : Prop := forall t, In t (q0tags q) -> zin t (k1_q0 k) = true.

Lemma q0known_app k a b : q0known k (a ++ b) <-> q0known k a /\ q0known k b.
Proof.
  unfold q0known. rewrite q0tags_app. split.
  - intros H. split; intros t Ht; apply H; apply in_or_app; [left|right]; exact Ht.
  - intros [H1 H2] t Ht. apply in_app_or in Ht as [Ht|Ht]; [apply H1 | apply H2]; exact Ht.
Qed.

(* one written packet *)
Lemma tx_written_fold cn x k : q0known k [x] ->
  fold_left k01_ev (Tx cn (q_pkt x) :: written_evs x) k = set_wr k (zadds (qtag x) (k1_wr k)).
Proof.
  intros Hq. unfold written_evs, qtag, ptag. destruct (q_pkt x) as [|m qs d t|m t|m|m|m] eqn:Ex;
    cbn [fold_left k01_ev zadds]; try (symmetry; apply set_wr_same).
  - destruct (qs =? 0) eqn:E0; cbn [fold_left k01_ev zadds].
    + assert (Hin : zin t (k1_q0 k) = true).
      { apply Hq. unfold q0tags. cbn [flat_map]. unfold q0tag. rewrite Ex, E0. left. reflexivity. }
      rewrite Hin. cbv iota. rewrite Hin. symmetry. apply set_wr_same.
    + reflexivity.
  - reflexivity.
Qed.

Lemma set_wr_wr k v w : set_wr (set_wr k v) w = set_wr k w.
Proof. reflexivity. Qed.

(* writing the queue: the written tags are recorded, QoS 0 completions are not C01's business *)
Lemma flush_fold cn : forall q k, q0known k q ->
  fold_left k01_ev (flush_evs cn q) k = set_wr k (zadds (qtags q) (k1_wr k)).
Proof.
  induction q as [|x q IH]; intros k Hq; [symmetry; apply set_wr_same|].
  change (x :: q) with ([x] ++ q) in Hq. apply q0known_app in Hq as [Hq1 Hq2].
  cbn [flush_evs]. change (Tx cn (q_pkt x) :: written_evs x ++ flush_evs cn q)
    with ((Tx cn (q_pkt x) :: written_evs x) ++ flush_evs cn q).
  rewrite fold_left_app, (tx_written_fold cn x k Hq1), IH by exact Hq2.
  cbn [k1_wr set_wr]. unfold qtags. cbn [flat_map]. fold (qtags q). rewrite zadds_app. reflexivity.
Qed.

Lemma flush_completed cn : forall q t, In t (completed_tags (flush_evs cn q)) -> In t (q0tags q).
Proof.
  induction q as [|x q IH]; intros t Ht; [destruct Ht|]. cbn [flush_evs completed_tags flat_map] in Ht.
  fold (completed_tags (written_evs x ++ flush_evs cn q)) in Ht.
  unfold completed_tags in Ht. rewrite flat_map_app in Ht. fold (completed_tags (written_evs x)) in Ht.
  fold (completed_tags (flush_evs cn q)) in Ht. cbn [app] in Ht.
  unfold q0tags. cbn [flat_map]. apply in_or_app. apply in_app_or in Ht as [Ht|Ht]; [left | right; apply IH; exact Ht].
  unfold written_evs, q0tag in *. destruct (q_pkt x) as [|m qs d t'| | | |]; try destruct Ht.
  destruct (qs =? 0); [|destruct Ht]. cbn in Ht. destruct Ht as [<-|[<-|[]]]; left; reflexivity.
Qed.

(* handing over packets that occupy a window slot (no QoS 0 PUBLISH among them) *)
Lemma handed_fold cn x k : noq0 x ->
  k01_ev k (Handed cn (q_pkt x)) = set_on k (zadds (qtag x) (k1_onconn k)).
Proof.
  unfold noq0, qtag, ptag. destruct (q_pkt x) as [|m qs d t|m t|m|m|m]; cbn [k01_ev zadds fold_left];
    try (intros _; symmetry; apply set_on_same).
  - intros ->. reflexivity.
  - intros _. reflexivity.
Qed.

Lemma noq0_known k x : noq0 x -> q0known k [x].
Proof. intros H t Ht. unfold q0tags in Ht. cbn [flat_map] in Ht. rewrite (noq0_q0tag x H) in Ht. destruct Ht. Qed.

Lemma hand_all_fold cn can q : (can = true -> q = []) -> forall H k, Forall noq0 H ->
  fold_left k01_ev (snd (hand_all cn can q H)) k =
  set_on (set_wr k (if can then zadds (qtags H) (k1_wr k) else k1_wr k)) (zadds (qtags H) (k1_onconn k)).
Proof.
  intros Hq. destruct can.
  - rewrite (Hq eq_refl). induction H as [|x H IH]; intros k HH.
    + cbn. destruct k; reflexivity.
    + inversion HH as [|? ? Hx HH']; subst. rewrite hand_all_can in *. cbn [snd flat_map] in *.
      change (Handed cn (q_pkt x) :: flush_evs cn [x]) with ([Handed cn (q_pkt x)] ++ flush_evs cn [x]).
      rewrite <- app_assoc, fold_left_app. cbn [fold_left]. rewrite (handed_fold cn x k Hx).
      rewrite fold_left_app, flush_fold by (apply noq0_known; exact Hx).
      rewrite IH by exact HH'. cbn [k1_wr k1_onconn set_wr set_on].
      unfold qtags. cbn [flat_map]. fold (qtags H). rewrite app_nil_r, !zadds_app. reflexivity.
  - intros H k HH. rewrite hand_all_blocked. cbn [snd]. revert k. induction HH as [|x H Hx _ IH]; intros k.
    + cbn. destruct k; reflexivity.
    + cbn [map fold_left]. rewrite (handed_fold cn x k Hx), IH. cbn [k1_wr k1_onconn set_wr set_on].
      unfold qtags. cbn [flat_map]. fold (qtags H). rewrite zadds_app. reflexivity.
Qed.

Lemma hand_all_completed cn can q H : (can = true -> q = []) -> Forall noq0 H ->
  completed_tags (snd (hand_all cn can q H)) = [].
Proof.
  intros Hq HH. destruct can.
  - rewrite (Hq eq_refl), hand_all_can. cbn [snd]. induction HH as [|x H Hx _ IH]; [reflexivity|].
    cbn [flat_map flush_evs]. rewrite (noq0_written x Hx). cbn [app completed_tags flat_map]. exact IH.
  - rewrite hand_all_blocked. cbn [snd]. clear. induction H as [|x H IH]; [reflexivity|]. exact IH.
Qed.

(* ---------------------------------------------------------------- the relational invariant *)
(* [E]: tags of messages that have just entered a wait state and whose packet is about to be handed
   over; [L]: the stored messages the checker knows as live (they differ from [out s] only inside
   publish(), between the hand-over and the return) *)
Record Rx (E : list Z) (L : list omsg) (s : sess) (k : k01) : Prop := mkRx {
  x_ok : k1_ok k = true;
  x_live : k1_live k = map lof L;
  x_done : forall t, In t (k1_done k) -> t < ntag s /\ ~ In t (tags (out s));
  x_q0 : forall t, In t (k1_q0 k) -> t < ntag s /\ ~ In t (tags (out s));
  x_q0q : q0known k (outq s);
  x_est : k1_est k = true -> cack s = true;
  x_blk : sock s = true -> k1_blk k = blocked s;
  x_conn : sock s = true -> forall m, In m (out s) -> is_wait m = true ->
           In (o_tag m) (k1_onconn k) \/ In (o_tag m) E;
  x_wr : sock s = true -> forall m, In m (out s) -> is_wait m = true ->
         In (o_tag m) (k1_wr k) \/ In (o_tag m) (qtags (outq s)) \/ In (o_tag m) E
}.

Definition R (s : sess) (k : k01) : Prop := Rx [] (out s) s k.

Lemma r_conn s k : R s k -> sock s = true -> forall m, In m (out s) -> is_wait m = true -> In (o_tag m) (k1_onconn k).
Proof. intros H Hs m Hm Hw. destruct (x_conn _ _ _ _ H Hs m Hm Hw) as [H1|[]]. exact H1. Qed.
Lemma r_wr s k : R s k -> sock s = true -> forall m, In m (out s) -> is_wait m = true ->
  In (o_tag m) (k1_wr k) \/ In (o_tag m) (qtags (outq s)).
Proof. intros H Hs m Hm Hw. destruct (x_wr _ _ _ _ H Hs m Hm Hw) as [H1|[H1|[]]]; [left|right]; exact H1. Qed.

(* handing over the packets of the messages in [E] completes the relation *)
Lemma Rx_hand_all E L s k H :
  Rx E L s k -> (can_write s = true -> outq s = []) -> Forall noq0 H -> incl E (qtags H) ->
  Rx [] L (with_q s (fst (hand_all (conn s) (can_write s) (outq s) H)))
     (fold_left k01_ev (snd (hand_all (conn s) (can_write s) (outq s) H)) k).
Proof.
  intros [Xok Xl Xd Xq0 Xq0q Xe Xb Xc Xw] Hi HH HE.
  rewrite (hand_all_fold _ _ _ Hi H k HH), (hand_all_fst _ _ _ _ Hi).
  constructor; cbn [k1_ok k1_live k1_done k1_q0 k1_est k1_blk k1_onconn k1_wr set_on set_wr
                    out ntag cack sock blocked outq with_q]; try assumption.
  - destruct (can_write s); [intros t []|]. apply q0known_app. split; [exact Xq0q|].
    intros t Ht. rewrite (noq0_q0tags H HH) in Ht. destruct Ht.
  - intros Hs m Hm Hw. left. apply zadds_In. destruct (Xc Hs m Hm Hw) as [H1|H1]; [left; exact H1 | right; apply HE; exact H1].
  - intros Hs m Hm Hw. destruct (can_write s) eqn:Ec.
    + left. apply zadds_In. rewrite (Hi eq_refl) in Xw. destruct (Xw Hs m Hm Hw) as [H1|[[]|H1]]; [left; exact H1 | right; apply HE; exact H1].
    + destruct (Xw Hs m Hm Hw) as [H1|[H1|H1]]; [left; exact H1 | |]; right; left; rewrite qtags_app; apply in_or_app;
        [left; exact H1 | right; apply HE; exact H1].
Qed.

Definition ok1_of (k : k01) (evs : list event) : bool :=
  forallb (fun t =>
     zin t (k1_q0 (fold_left k01_ev evs k))
     || existsb (fun m => (l_tag m =? t) && existsb (final_ack_of m) evs) (k1_live k))
   (completed_tags evs).

Definition ok2_of (n : Z) (k : k01) : bool :=
  negb (k1_est k) ||
  forallb (fun m => (zin (l_tag m) (k1_onconn k) && (k1_blk k || zin (l_tag m) (k1_wr k))) ||
                    ((n >? 0) && (zlen (filter (fun t => lhas_tag t (k1_live k)) (k1_onconn k)) >=? n)))
          (k1_live k).

Lemma k01_op_eq n k evs :
  k01_op n k evs =
  let k' := fold_left k01_ev evs k in
  mkK01 (k1_live k') (k1_q0 k') (k1_done k') (k1_onconn k') (k1_wr k') (k1_est k') (k1_blk k')
        (k1_ok k' && ok1_of k evs && ok2_of n k').
Proof. reflexivity. Qed.

(* (ok2): on an established connection everything owned has been handed over (and written unless blocked)
   or the window is full *)
Lemma R_ok2 c s k : Inv c s -> R s k -> ok2_of (c_max c) k = true.
Proof.
  intros I HR. pose proof HR as [Rok Rl Rd Rq0 Rq0q Re Rb _ _]. unfold ok2_of.
  destruct (k1_est k) eqn:Eest; [|reflexivity]. cbn [negb orb].
  pose proof (Re eq_refl) as Hck. pose proof (inv_cack _ _ I Hck) as Hs.
  destruct (inv_shape _ _ I) as (C & U & Q & Sh).
  pose proof (sh_sockU _ _ _ _ _ Sh Hs) as HU. subst U.
  pose proof (sh_out _ _ _ _ _ Sh) as So. cbn [app] in So.
  pose proof (sh_est _ _ _ _ _ Sh Hck) as HCw.
  assert (HC : forall m, In m C -> In (o_tag m) (k1_onconn k)).
  { intros m Hm. apply (r_conn _ _ HR Hs); [rewrite So; apply in_or_app; left; assumption|].
    exact (proj1 (Forall_forall _ _) HCw m Hm). }
  assert (HW : forall m, In m C -> k1_blk k = false -> In (o_tag m) (k1_wr k)).
  { intros m Hm Hb. rewrite (Rb Hs) in Hb.
    assert (Hq : outq s = []) by (apply (inv_qidle _ _ I); unfold can_write; rewrite Hs, Hb; reflexivity).
    destruct (r_wr _ _ HR Hs m) as [H|H]; [rewrite So; apply in_or_app; left; assumption | exact (proj1 (Forall_forall _ _) HCw m Hm) | exact H |].
    rewrite Hq in H. destruct H. }
  rewrite Rl. apply forallb_forall. intros x Hx. apply in_map_iff in Hx as (m & <- & Hm).
  rewrite So in Hm. apply in_app_or in Hm as [Hm|Hm].
  - cbn [lof l_tag]. replace (zin (o_tag m) (k1_onconn k)) with true by (symmetry; apply zin_In; apply HC; assumption).
    destruct (k1_blk k) eqn:Eb; [reflexivity|].
    replace (zin (o_tag m) (k1_wr k)) with true by (symmetry; apply zin_In; apply HW; [assumption|reflexivity]).
    reflexivity.
  - apply orb_true_iff. right.
    destruct (sh_full _ _ _ _ _ Sh) as [Hpos Hlen]; [intros ->; destruct Hm|].
    assert (Hnd : NoDup (tags C)).
    { pose proof (SSorted_NoDup _ (inv_sorted _ _ I)) as H. rewrite So, tags_app in H.
      eapply NoDup_app_l. exact H. }
    assert (Hincl : incl (tags C) (filter (fun t => lhas_tag t (map lof (out s))) (k1_onconn k))).
    { intros t Ht. unfold tags in Ht. apply in_map_iff in Ht as (y & <- & Hy).
      apply filter_In. split; [apply HC; assumption|].
      apply lhas_tag_In. rewrite <- tags_lof. unfold tags. apply in_map. rewrite So. apply in_or_app. left. assumption. }
    pose proof (NoDup_incl_length Hnd Hincl) as Hle.
    unfold tags in Hle. rewrite map_length in Hle. unfold zlen. lia.
Qed.

(* what every operation has to establish *)
Definition Good (s' : sess) (k : k01) (evs : list event) : Prop :=
  R s' (fold_left k01_ev evs k) /\ ok1_of k evs = true.

(* the QoS 0 set only grows *)
Lemma q0_mono_ev k e t : zin t (k1_q0 k) = true -> zin t (k1_q0 (k01_ev k e)) = true.
Proof.
  intros H. destruct e as [cn p| | | | | |p| | | |cn p| |]; cbn [k01_ev]; try exact H.
  - destruct p as [|m q d t0|m t0|m|m|m]; try exact H. destruct (q =? 0); exact H.
  - destruct ((q >? 0) && ((rc =? 0) || (rc =? 4))); exact H.
  - destruct (zin tag (k1_q0 k)); exact H.
  - destruct (zin tag (k1_q0 k)); exact H.
  - destruct p; exact H.
  - destruct p as [|m q d t0|m t0|m|m|m]; try exact H. destruct (q =? 0); [|exact H].
    cbn [k1_q0]. apply zin_In, zadd_In. right. apply zin_In. exact H.
  - destruct (zin tag (k1_q0 k)); exact H.
Qed.
Lemma q0_mono : forall evs k t, zin t (k1_q0 k) = true -> zin t (k1_q0 (fold_left k01_ev evs k)) = true.
Proof. induction evs as [|e evs IH]; intros k t H; [exact H|]. cbn [fold_left]. apply IH, q0_mono_ev, H. Qed.

(* completions that belong to QoS 0 publishes only *)
Lemma ok1_q0 k evs : (forall t, In t (completed_tags evs) -> zin t (k1_q0 (fold_left k01_ev evs k)) = true) ->
  ok1_of k evs = true.
Proof. intros H. unfold ok1_of. apply forallb_forall. intros t Ht. rewrite (H t Ht). reflexivity. Qed.
