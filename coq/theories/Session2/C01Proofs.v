(* C01 on the second-generation Session model.  Operation-by-operation preservation for the two-mode operations is in
   LC01.v; here the operations on a dead socket (Fail.v) are added and the relation is lifted over every conforming
   history, hard write failures included (Full.v).  The theorem for histories without hard failures is kept as a
   corollary. *)
From PahoV Require Import Base.Prelude Codec.Mid Codec.MidProofs Session2.Model Session2.Check Session2.Statements
  Session2.Bridge Session2.Fail Session2.LLemmas Session2.LInv Session2.Inv Session2.Full Session2.LC12 Session2.LC01.
From PahoV Require Session2.Legacy.

Lemma R_init c : LC01.R (init c) k01_init.
Proof. unfold LC01.R. constructor; cbn; try reflexivity; try discriminate; try (intros; contradiction). intros t []. Qed.

Section Owned3.
Variable c : cfg.
Hypothesis Hcfg : cfg_ok c = true.
Notation opf := (k01_op (c_max c)).

(* from the per-event relation and (ok1) to the checker's per-operation state *)
Lemma good_R s' k evs : Inv c s' -> Good s' k evs -> LC01.R s' (opf k evs).
Proof.
  intros I' [HR' Hok1]. pose proof (R_ok2 c _ _ I' HR') as Hok2.
  rewrite k01_op_eq. cbv zeta. rewrite Hok1, Hok2, !andb_true_r.
  destruct HR' as [Rok Rl Rd Rq0 Rq0q Re Rb Rc Rw]. unfold LC01.R. constructor; cbn; assumption.
Qed.

(* the loss of the connection at the end of an operation, judged as an operation of its own *)
Lemma completed_app a b : completed_tags (a ++ b) = completed_tags a ++ completed_tags b.
Proof. unfold completed_tags. apply flat_map_app. Qed.

Lemma forallb_eq {A} (f g : A -> bool) l : (forall x, f x = g x) -> forallb f l = forallb g l.
Proof. intros H. induction l as [|x l IH]; [reflexivity|]. cbn [forallb]. rewrite H, IH. reflexivity. Qed.

Lemma split01 s1 k ev1 : LC01.R s1 (opf k ev1) -> opf k (ev1 ++ [SockLost]) = opf (opf k ev1) [SockLost].
Proof.
  intros HR. pose proof (x_ok _ _ _ _ HR) as Hok. rewrite k01_op_eq in Hok. cbv zeta in Hok. cbn [k1_ok] in Hok.
  apply andb_true_iff in Hok as [Hok H3]. apply andb_true_iff in Hok as [H1 H2].
  assert (E1 : ok1_of k (ev1 ++ [SockLost]) = ok1_of k ev1).
  { unfold ok1_of. rewrite completed_app. cbn [completed_tags flat_map]. rewrite app_nil_r, fold_left_app.
    cbn [fold_left k01_ev k1_q0]. apply forallb_eq. intros t. f_equal.
    induction (k1_live k) as [|m l IH]; [reflexivity|]. cbn [existsb]. rewrite IH, existsb_app. cbn [existsb final_ack_of].
    rewrite orb_false_r. reflexivity. }
  rewrite (k01_op_eq _ k (ev1 ++ [SockLost])), (k01_op_eq _ (opf k ev1) [SockLost]). cbv zeta.
  rewrite fold_left_app, E1, H2. rewrite (k01_op_eq _ k ev1). cbv zeta.
  cbn [fold_left k01_ev k1_live k1_q0 k1_done k1_onconn k1_wr k1_est k1_blk k1_ok].
  rewrite H1, H2, H3. cbn [andb].
  unfold ok1_of, ok2_of. cbn [completed_tags flat_map forallb k1_est negb orb andb]. reflexivity.
Qed.

(* a relation established for a state without a socket only constrains the checker's message sets *)
Lemma R_closed01 s0 k0 s' k' : LC01.R s0 k0 -> sock s' = false -> cack s' = false ->
  k1_ok k' = k1_ok k0 -> k1_live k' = k1_live k0 -> k1_done k' = k1_done k0 -> k1_q0 k' = k1_q0 k0 -> k1_est k' = false ->
  map lof (out s') = map lof (out s0) -> ntag s' = ntag s0 ->
  (forall t, In t (q0tags (outq s')) -> In t (q0tags (outq s0))) -> LC01.R s' k'.
Proof.
  intros [Xok Xl Xd Xq0 Xq0q Xe Xb Xc Xw] Hs Hck E1 E2 E3 E4 E5 Eo En Eq.
  assert (Et : tags (out s') = tags (out s0)) by (rewrite !tags_lof, Eo; reflexivity).
  unfold LC01.R. constructor.
  - rewrite E1. exact Xok.
  - rewrite E2, Xl, Eo. reflexivity.
  - intros t Ht. rewrite E3 in Ht. rewrite En, Et. exact (Xd t Ht).
  - intros t Ht. rewrite E4 in Ht. rewrite En, Et. exact (Xq0 t Ht).
  - intros t Ht. rewrite E4. apply Xq0q. apply Eq. exact Ht.
  - rewrite E5. discriminate.
  - rewrite Hs. discriminate.
  - rewrite Hs. discriminate.
  - rewrite Hs. discriminate.
Qed.

Lemma R01_sf s b k : LC01.R s k -> LC01.R (set_failing s b) k.
Proof. intros H. unfold LC01.R in *. apply (Rx_ext [] (out s) s); try reflexivity. exact H. Qed.

Lemma lof_cl1 m : lof (cl1 m) = lof m.
Proof. unfold lof. rewrite cl1_tag, cl1_mid. unfold cl1. destruct (o_st m); try reflexivity. destruct (o_qos m =? 2); reflexivity. Qed.

(* publish(qos=0) on a dead socket: the two-mode operation (the packet is queued), then the loss; only the result
   code differs, and the checker does not look at the result code of a QoS 0 publish *)
Lemma o1_pub0 s k : Inv c s -> dead s -> LC01.R s k ->
  LC01.R (fst (do_publish c s 0)) (opf k (snd (do_publish c s 0))).
Proof.
  intros I Hd HR. pose proof Hd as (Hs & _ & _).
  pose proof (LC01.R_step c s (Legacy.OPublish 0) k Hcfg I eq_refl HR) as HL. cbn [Legacy.step] in HL.
  pose proof (LInv.inv_step c Hcfg s (Legacy.OPublish 0) I eq_refl) as IL. cbn [Legacy.step] in IL.
  assert (E : snd (Legacy.do_publish c s 0) =
              [Handed (conn s) (PPublish (mid_next (last_mid s)) 0 false (ntag s)); Ret (ntag s) (mid_next (last_mid s)) 0 0]).
  { unfold Legacy.do_publish. cbv zeta. cbn [Z.eqb]. rewrite Hs.
    set (s1 := mkS _ _ _ _ _ _ _ _ _ _ _ _).
    assert (Hc1 : Legacy.can_write s1 = false) by (destruct Hd as (_ & _ & Hb); unfold Legacy.can_write; cbn; rewrite Hb; reflexivity).
    rewrite (legacy_send_blocked s1 _ Hc1). reflexivity. }
  rewrite E in HL.
  assert (Hsb : sock (fst (Legacy.do_publish c s 0)) = true) by (rewrite legacy_publish_sock; exact Hs).
  pose proof (LC01.R_step c _ Legacy.OConnLost _ Hcfg IL eq_refl HL) as HL2. cbn [Legacy.step] in HL2. rewrite Hsb in HL2.
  cbn [fst snd] in HL2. rewrite <- (split01 _ _ _ HL) in HL2.
  rewrite (publish0_dead c s Hd). cbn [fst snd].
  assert (Ek : opf k [Handed (conn s) (PPublish (mid_next (last_mid s)) 0 false (ntag s)); SockLost;
                      Ret (ntag s) (mid_next (last_mid s)) 0 7] =
               opf k ([Handed (conn s) (PPublish (mid_next (last_mid s)) 0 false (ntag s)); Ret (ntag s) (mid_next (last_mid s)) 0 0] ++ [SockLost]))
    by reflexivity.
  rewrite Ek. exact HL2.
Qed.

(* publish(qos>0) on a dead socket: the PUBLISH is handed over, the write fails, the message leaves the window
   again.  For the checker: the loss, then a publish() without a socket; the hand-over only adds the tag to the
   set of messages handed to the connection that has just ended. *)
Lemma o1_pubw s q k : Inv c s -> dead s -> pub_wrote c s q = true -> conf_op c s (OPublish q) = true -> LC01.R s k ->
  LC01.R (fst (do_publish c s q)) (opf k (snd (do_publish c s q))).
Proof.
  intros I Hd Hw Hconf HR. pose proof Hd as (Hs & _ & _).
  assert (Hq0 : (q =? 0) = false) by (unfold pub_wrote in Hw; destruct (q =? 0); [discriminate|reflexivity]).
  assert (Hqpos : (q >? 0) = true) by (cbn [conf_op] in Hconf; lia).
  (* the loss *)
  pose proof (LC01.R_step c s Legacy.OConnLost k Hcfg I eq_refl HR) as H1. cbn [Legacy.step] in H1. rewrite Hs in H1. cbn [fst snd] in H1.
  (* publish() without a socket *)
  pose proof (LC01.R_step c (lost s) (Legacy.OPublish q) _ Hcfg (inv_lost c s I) Hconf H1) as H2. cbn [Legacy.step] in H2.
  destruct (legacy_publish_offline_wrote c (lost s) q eq_refl Hw) as (so & Eo & Eout & En & Eq & Hso). rewrite Eo in H2. cbn [fst snd] in H2.
  rewrite (publish_dead_wrote c s q Hd Hw), Eo. cbn [fst snd].
  pose proof (LInv.inv_step c Hcfg (lost s) (Legacy.OPublish q) (inv_lost c s I) Hconf) as Io. cbn [Legacy.step] in Io. rewrite Eo in Io. cbn [fst] in Io.
  assert (Hcko : cack so = false).
  { destruct (cack so) eqn:E; [|reflexivity]. pose proof (inv_cack _ _ Io E). congruence. }
  assert (Hk : forall f : k01 -> bool, True) by (intros; exact Logic.I).
  eapply (R_closed01 so _ _ _ H2); try assumption.
  all: try (rewrite !k01_op_eq; cbv zeta; cbn [lost with_sock ntag last_mid fold_left k01_ev]; rewrite ?Hq0, ?Hqpos;
            cbn; rewrite ?andb_true_r; reflexivity).
  - cbn [out with_q]. reflexivity.
  - cbn [ntag with_q]. reflexivity.
  - intros t Ht. cbn [outq with_q] in Ht. rewrite Eq. cbn [outq lost with_sock].
    rewrite q0tags_app in Ht. apply in_app_or in Ht as [Ht|Ht]; [exact Ht|]. exfalso. cbn in Ht. rewrite Hq0 in Ht. exact Ht.
Qed.

Lemma o1_connack s r k : Inv c s -> dead s -> cack s = false -> LC01.R s k ->
  LC01.R (fst (do_rx c s (IConnack 0) r)) (opf k (snd (do_rx c s (IConnack 0) r))).
Proof.
  intros I Hd Hck HR. pose proof Hd as (Hs & _ & _).
  assert (Hconf : Legacy.conf_op c s (Legacy.ORx (IConnack 0) r) = true) by (cbn [Legacy.conf_op]; rewrite Hs, Hck; reflexivity).
  pose proof (LC01.R_step c s (Legacy.ORx (IConnack 0) r) k Hcfg I Hconf HR) as HL. cbn [Legacy.step] in HL.
  destruct (connack_dead_cases c s r Hd) as [E|[(sd & E & Hsd & Eo & Eq & En & _)|(sd & l1 & m & l2 & x & rest & E & Hsd & So & Eo & Eq & En & Ex & _)]].
  - rewrite E. exact HL.
  - rewrite E. cbn [fst snd].
    assert (Hckd : cack sd = false).
    { revert E. unfold do_rx. rewrite Hs. cbn [negb Z.eqb].
      destruct (connack_loop (conn s) (tm s) (outq s) (out s)) as [[[o q'] ev] a]. destruct a; cbn [settle]; intros E; inversion E; subst; [discriminate|reflexivity]. }
    eapply (R_closed01 s k _ _ HR); try reflexivity; try assumption.
    + rewrite k01_op_eq. cbv zeta. cbn [fold_left k01_ev k1_ok k1_est]. unfold ok1_of. cbn [completed_tags flat_map forallb]. unfold ok2_of. cbn [k1_est negb orb]. rewrite !andb_true_r. reflexivity.
    + rewrite Eo. reflexivity.
    + intros t Ht. rewrite Eq in Ht. exact Ht.
  - rewrite E. cbn [fst snd].
    assert (Hckd : cack sd = false).
    { revert E. unfold do_rx. rewrite Hs. cbn [negb Z.eqb].
      destruct (connack_loop (conn s) (tm s) (outq s) (out s)) as [[[o q'] ev] a]. destruct a; cbn [settle]; intros E; inversion E; subst; [discriminate|reflexivity]. }
    assert (Hm : In m (out s)) by (rewrite So; apply in_or_app; right; left; reflexivity).
    pose proof (proj1 (Forall_forall _ _) (inv_qos _ _ I) m Hm) as Hqo.
    pose proof (noq0_cl_pk m Hqo) as Hn. rewrite Ex in Hn. apply Forall_inv in Hn.
    assert (Hfields : forall P : k01 -> Prop,
              P (let k' := fold_left k01_ev [Inp (IConnack 0); Handed (conn s) (q_pkt x); SockLost] k in k') ->
              P (fold_left k01_ev [Inp (IConnack 0); Handed (conn s) (q_pkt x); SockLost] k)) by (intros P H; exact H).
    (* the hand-over of a QoS>0 PUBLISH / PUBREL only touches the set of tags handed to this connection *)
    assert (Hh : forall k0, k1_ok (k01_ev k0 (Handed (conn s) (q_pkt x))) = k1_ok k0 /\ k1_live (k01_ev k0 (Handed (conn s) (q_pkt x))) = k1_live k0 /\
                           k1_done (k01_ev k0 (Handed (conn s) (q_pkt x))) = k1_done k0 /\ k1_q0 (k01_ev k0 (Handed (conn s) (q_pkt x))) = k1_q0 k0 /\
                           k1_est (k01_ev k0 (Handed (conn s) (q_pkt x))) = k1_est k0).
    { intros k0. unfold noq0 in Hn. cbn [k01_ev]. destruct (q_pkt x) as [|mi qs d t|mi t|mi|mi|mi]; try (repeat split; reflexivity).
      rewrite Hn. repeat split; reflexivity. }
    eapply (R_closed01 s k _ _ HR); try assumption.
    + rewrite k01_op_eq. cbv zeta. cbn [fold_left]. cbn [k1_ok]. unfold ok1_of. cbn [completed_tags flat_map forallb]. unfold ok2_of.
      cbn [k01_ev k1_est negb orb k1_ok]. rewrite !andb_true_r.
      destruct (Hh (k01_ev k (Inp (IConnack 0)))) as (A & _). exact A.
    + rewrite k01_op_eq. cbv zeta. cbn [fold_left k1_live]. cbn [k01_ev k1_live].
      destruct (Hh (k01_ev k (Inp (IConnack 0)))) as (_ & A & _). exact A.
    + rewrite k01_op_eq. cbv zeta. cbn [fold_left k1_done]. cbn [k01_ev k1_done].
      destruct (Hh (k01_ev k (Inp (IConnack 0)))) as (_ & _ & A & _). exact A.
    + rewrite k01_op_eq. cbv zeta. cbn [fold_left k1_q0]. cbn [k01_ev k1_q0].
      destruct (Hh (k01_ev k (Inp (IConnack 0)))) as (_ & _ & _ & A & _). exact A.
    + rewrite k01_op_eq. cbv zeta. cbn [fold_left k1_est]. reflexivity.
    + rewrite Eo, So, !map_app. cbn [map]. rewrite lof_cl1. reflexivity.
    + intros t Ht. rewrite Eq, q0tags_app in Ht. apply in_app_or in Ht as [Ht|Ht]; [exact Ht|]. exfalso.
      cbn [q0tags flat_map] in Ht. rewrite (noq0_q0tag x Hn) in Ht. exact Ht.
Qed.

End Owned3.

(* EVERY conforming history, hard write failures included *)
Theorem c01_proved : C01_stmt.
Proof.
  intros c ops Hcfg Hc. unfold c01_ok, optrace.
  destruct (lift_full c Hcfg k01 (k01_op (c_max c)) LC01.R (split01 c)
              (fun s o k Hi Hcf HR => LC01.R_step c s o k Hcfg Hi Hcf HR) R01_sf
              (o1_pub0 c Hcfg) (o1_pubw c Hcfg) (o1_connack c Hcfg) ops (init c) k01_init (inv3_init c) Hc (R_init c))
    as (s' & H).
  exact (x_ok _ _ _ _ H).
Qed.

Print Assumptions c01_proved.
