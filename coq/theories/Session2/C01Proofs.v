(* C01 on the second-generation Session model.  Operation-by-operation preservation for the two-mode operations is in
   LC01.v; lifted here to the model's runs for histories without hard write failures (Calm.v). *)
From PahoV Require Import Base.Prelude Codec.Mid Codec.MidProofs Session2.Model Session2.Check Session2.Statements
  Session2.Bridge Session2.Calm Session2.LLemmas Session2.LInv Session2.LC12 Session2.LC01.
From PahoV Require Session2.Legacy.

Lemma R_init c : LC01.R (init c) k01_init.
Proof. unfold LC01.R. constructor; cbn; try reflexivity; try discriminate; try (intros; contradiction). intros t []. Qed.

Theorem c01_calm_proved : C01_calm_stmt.
Proof.
  intros c ops Hcfg Hc Hn. unfold c01_ok, optrace.
  destruct (lift_calm c (LInv.Inv c) (LInv.inv_step c Hcfg) k01 (k01_op (c_max c)) LC01.R
              (fun s o k Hi Hcf HR => LC01.R_step c s o k Hcfg Hi Hcf HR) ops (init c) k01_init (LInv.inv_init c) eq_refl Hn Hc (R_init c))
    as (s' & H).
  exact (x_ok _ _ _ _ H).
Qed.

Print Assumptions c01_calm_proved.
