(* STRONG form of LInv.v: the queue clause [inv_q] holds unconditionally.  It is preserved by the two-mode operations,
   hence along every history in which no write fails hard; LC02.v (C02) is proved against it. *)
(* The structural invariant of the second-generation Session model and its preservation by every
   operation in which no write fails hard (the operations of Session2/Legacy.v; the failing cases and the
   theorem for the model's own [step] are in Session2/Inv.v).  [InvM] is the invariant of the message stores (as in
   Session/Inv.v), [Inv] adds the output queue: on a transport that accepts writes nothing is left in
   the queue, and every QoS>0 PUBLISH / PUBREL in the queue belongs to a stored message that awaits
   exactly the acknowledgement of that packet. *)
From PahoV Require Import Base.Prelude Codec.Mid Codec.MidProofs Session2.Model Session2.Legacy Session2.LLemmas.
From Coq Require Import Sorting.Sorted.

Definition qos_okb (m : omsg) : bool :=
  if o_qos m =? 1 then
    match o_st m with MsPublish | MsWaitPuback | MsQueued => true | _ => false end
  else (o_qos m =? 2) && match o_st m with MsWaitPuback => false | _ => true end.

(* out = C ++ U ++ Q : C counted in _inflight_messages (in the window), U stored while offline
   (state publish, not counted), Q queued behind the window *)
Record shape (c : cfg) (s : sess) (C U Q : list omsg) : Prop := mkShape {
  sh_out : out s = C ++ U ++ Q;
  sh_infl : inflight s = Z.of_nat (length C);
  sh_C : Forall (fun m => is_queued m = false) C;
  sh_U : Forall (fun m => o_st m = MsPublish) U;
  sh_Q : Forall (fun m => is_queued m = true) Q;
  sh_max : 0 < c_max c -> Z.of_nat (length C) <= c_max c;
  sh_full : Q <> [] -> 0 < c_max c /\ Z.of_nat (length C) = c_max c;
  sh_sockU : sock s = true -> U = [];
  sh_est : cack s = true -> Forall (fun m => is_wait m = true) C
}.

Record InvM (c : cfg) (s : sess) : Prop := mkInvM {
  im_shape : exists C U Q, shape c s C U Q;
  im_nodup : NoDup (mids (out s));
  im_sorted : StronglySorted Z.lt (tags (out s));
  im_tags : Forall (fun m => 0 <= o_tag m < ntag s) (out s);
  im_qos : Forall (fun m => qos_okb m = true) (out s);
  im_cack : cack s = true -> sock s = true;
  im_lastmid : 0 <= last_mid s <= 65535;
  im_ntag : 0 <= ntag s
}.

(* a queued packet that occupies a window slot belongs to a stored message in the matching wait state *)
Definition qpkt_ok (l : list omsg) (x : qpkt) : Prop :=
  match q_pkt x with
  | PPublish mid q dup tag =>
      q <> 0 -> exists m, In m l /\ o_mid m = mid /\ o_tag m = tag /\ o_qos m = q /\ o_dup m = dup /\ o_st m = wait_of q
  | PPubrel mid tag =>
      exists m, In m l /\ o_mid m = mid /\ o_tag m = tag /\ o_st m = MsWaitPubcomp
  | _ => True
  end.

Record Inv (c : cfg) (s : sess) : Prop := mkInv {
  inv_m : InvM c s;
  inv_qidle : can_write s = true -> outq s = [];
  inv_q : Forall (qpkt_ok (out s)) (outq s)
}.

Lemma inv_shape c s : Inv c s -> exists C U Q, shape c s C U Q.
Proof. intros I. exact (im_shape _ _ (inv_m _ _ I)). Qed.
Lemma inv_nodup c s : Inv c s -> NoDup (mids (out s)).
Proof. intros I. exact (im_nodup _ _ (inv_m _ _ I)). Qed.
Lemma inv_sorted c s : Inv c s -> StronglySorted Z.lt (tags (out s)).
Proof. intros I. exact (im_sorted _ _ (inv_m _ _ I)). Qed.
Lemma inv_tags c s : Inv c s -> Forall (fun m => 0 <= o_tag m < ntag s) (out s).
Proof. intros I. exact (im_tags _ _ (inv_m _ _ I)). Qed.
Lemma inv_qos c s : Inv c s -> Forall (fun m => qos_okb m = true) (out s).
Proof. intros I. exact (im_qos _ _ (inv_m _ _ I)). Qed.
Lemma inv_cack c s : Inv c s -> cack s = true -> sock s = true.
Proof. intros I. exact (im_cack _ _ (inv_m _ _ I)). Qed.
Lemma inv_lastmid c s : Inv c s -> 0 <= last_mid s <= 65535.
Proof. intros I. exact (im_lastmid _ _ (inv_m _ _ I)). Qed.
Lemma inv_ntag c s : Inv c s -> 0 <= ntag s.
Proof. intros I. exact (im_ntag _ _ (inv_m _ _ I)). Qed.

(* ---------------------------------------------------------------- generic list facts *)
Lemma Forall_firstn {A} (P : A -> Prop) n l : Forall P l -> Forall P (firstn n l).
Proof. intros H. rewrite <- (firstn_skipn n l) in H. apply Forall_app in H. tauto. Qed.
Lemma Forall_skipn {A} (P : A -> Prop) n l : Forall P l -> Forall P (skipn n l).
Proof. intros H. rewrite <- (firstn_skipn n l) in H. apply Forall_app in H. tauto. Qed.

Lemma SSorted_remove (l1 : list Z) x l2 :
  StronglySorted Z.lt (l1 ++ x :: l2) -> StronglySorted Z.lt (l1 ++ l2).
Proof.
  induction l1 as [|y l1 IH]; cbn [app]; intros H.
  - inversion H; assumption.
  - inversion H as [|? ? Hs Hf]; subst. constructor; [apply IH; assumption|].
    apply Forall_app in Hf as [Hf1 Hf2]. inversion Hf2; subst. apply Forall_app. split; assumption.
Qed.

Lemma SSorted_snoc (l : list Z) x :
  StronglySorted Z.lt l -> Forall (fun y => y < x) l -> StronglySorted Z.lt (l ++ [x]).
Proof.
  induction l as [|y l IH]; cbn [app]; intros Hs Hf.
  - constructor; constructor.
  - inversion Hs; subst. inversion Hf; subst. constructor; [apply IH; assumption|].
    apply Forall_app. split; [assumption | constructor; [assumption|constructor]].
Qed.

Lemma NoDup_app_snoc (l : list Z) x : NoDup l -> ~ In x l -> NoDup (l ++ [x]).
Proof.
  intros Hn Hx. apply NoDup_rev in Hn. rewrite <- (rev_involutive (l ++ [x])).
  apply NoDup_rev. rewrite rev_app_distr. cbn. constructor; [|assumption].
  intros H. apply Hx. apply in_rev. assumption.
Qed.

Lemma mids_app l1 l2 : mids (l1 ++ l2) = mids l1 ++ mids l2.
Proof. apply map_app. Qed.
Lemma tags_app l1 l2 : tags (l1 ++ l2) = tags l1 ++ tags l2.
Proof. apply map_app. Qed.

Lemma map_ext_mid (f : omsg -> omsg) l : (forall m, o_mid (f m) = o_mid m) -> mids (map f l) = mids l.
Proof. intros H. unfold mids. rewrite map_map. apply map_ext. exact H. Qed.
Lemma map_ext_tag (f : omsg -> omsg) l : (forall m, o_tag (f m) = o_tag m) -> tags (map f l) = tags l.
Proof. intros H. unfold tags. rewrite map_map. apply map_ext. exact H. Qed.

Lemma Forall_map_iff {A B} (f : A -> B) (P : B -> Prop) l : Forall P (map f l) <-> Forall (fun x => P (f x)) l.
Proof. apply Forall_map. Qed.

Lemma NoDup_mids_remove l1 m l2 : NoDup (mids (l1 ++ m :: l2)) ->
  NoDup (mids (l1 ++ l2)) /\ ~ In (o_mid m) (mids l1).
Proof.
  unfold mids. rewrite !map_app. cbn [map]. intros H. split.
  - eapply NoDup_remove_1; exact H.
  - apply NoDup_remove_2 in H. intros H1. apply H. apply in_or_app. left. exact H1.
Qed.
Lemma SSorted_tags_remove l1 m l2 : StronglySorted Z.lt (tags (l1 ++ m :: l2)) ->
  StronglySorted Z.lt (tags (l1 ++ l2)).
Proof. unfold tags. rewrite !map_app. cbn [map]. apply SSorted_remove. Qed.
Lemma Forall_remove {A} (P : A -> Prop) l1 x l2 : Forall P (l1 ++ x :: l2) -> Forall P (l1 ++ l2).
Proof. intros H. apply Forall_app in H as [H1 H2]. inversion H2; subst. apply Forall_app. split; assumption. Qed.

(* ---------------------------------------------------------------- per-message facts *)
Lemma toQ_mid m : o_mid (toQ m) = o_mid m. Proof. reflexivity. Qed.
Lemma toQ_tag m : o_tag (toQ m) = o_tag m. Proof. reflexivity. Qed.
Lemma cl1_mid m : o_mid (cl1 m) = o_mid m.
Proof. unfold cl1. destruct (o_st m); try reflexivity. destruct (o_qos m =? 2); reflexivity. Qed.
Lemma cl1_tag m : o_tag (cl1 m) = o_tag m.
Proof. unfold cl1. destruct (o_st m); try reflexivity. destruct (o_qos m =? 2); reflexivity. Qed.
Lemma rel1_mid m : o_mid (rel1 m) = o_mid m. Proof. reflexivity. Qed.
Lemma rel1_tag m : o_tag (rel1 m) = o_tag m. Proof. reflexivity. Qed.

Ltac msg_crush :=
  let mid := fresh "mid" in let q := fresh "q" in let st := fresh "st" in
  let d := fresh "d" in let t := fresh "t" in
  match goal with m : omsg |- _ => destruct m as [mid q st d t] end;
  unfold qos_okb, reset1, toQ, cl1, rel1, wait_of, is_queued, is_wait, set_st, set_st_dup in *; cbn in *;
  destruct (q =? 1) eqn:?; destruct (q =? 2) eqn:?; destruct st; cbn in *;
  repeat match goal with H : (_ =? _) = _ |- _ => rewrite H in * end; cbn in *;
  intros; try reflexivity; try discriminate; try lia.

Lemma qos_ok_reset1 cl m : qos_okb m = true -> qos_okb (reset1 cl m) = true.
Proof. destruct cl; msg_crush. Qed.
Lemma qos_ok_toQ m : qos_okb m = true -> qos_okb (toQ m) = true.
Proof. msg_crush. Qed.
Lemma qos_ok_cl1 m : qos_okb m = true -> qos_okb (cl1 m) = true.
Proof. msg_crush. Qed.
Lemma qos_ok_rel1 m : qos_okb m = true -> qos_okb (rel1 m) = true.
Proof. msg_crush. Qed.
Lemma cl1_nq m : is_queued m = false -> is_queued (cl1 m) = false.
Proof. msg_crush. Qed.
Lemma cl1_wait m : qos_okb m = true -> is_queued m = false -> is_wait (cl1 m) = true.
Proof. msg_crush. Qed.
Lemma rel1_wait m : is_wait (rel1 m) = true.
Proof. msg_crush. Qed.
Lemma wait_nq m : is_wait m = true -> is_queued m = false.
Proof. msg_crush. Qed.

(* a message in a wait state lies in the counted part *)
Lemma wait_in_C c s C U Q m : shape c s C U Q -> In m (out s) -> is_wait m = true -> In m C.
Proof.
  intros Sh Hin Hw. rewrite (sh_out _ _ _ _ _ Sh) in Hin.
  apply in_app_or in Hin as [H|H]; [assumption|]. exfalso.
  apply in_app_or in H as [H|H].
  - pose proof (proj1 (Forall_forall _ _) (sh_U _ _ _ _ _ Sh) m H) as E. unfold is_wait in Hw. rewrite E in Hw. discriminate.
  - pose proof (proj1 (Forall_forall _ _) (sh_Q _ _ _ _ _ Sh) m H) as E. apply wait_nq in Hw. congruence.
Qed.

Lemma window_free_Q_nil c s C U Q : 0 <= c_max c -> shape c s C U Q ->
  window_free c (inflight s) = true -> Q = [].
Proof.
  intros Hc Sh W. destruct Q as [|q Q]; [reflexivity|]. exfalso.
  destruct (sh_full _ _ _ _ _ Sh ltac:(discriminate)) as [H1 H2].
  unfold window_free in W. rewrite (sh_infl _ _ _ _ _ Sh) in W. lia.
Qed.

Lemma notfree_full c s C U Q : 0 <= c_max c -> shape c s C U Q ->
  window_free c (inflight s) = false -> 0 < c_max c /\ Z.of_nat (length C) = c_max c.
Proof.
  intros Hc Sh W. unfold window_free in W. rewrite (sh_infl _ _ _ _ _ Sh) in W.
  assert (0 < c_max c) by lia. split; [assumption|]. pose proof (sh_max _ _ _ _ _ Sh H). lia.
Qed.

(* ---------------------------------------------------------------- the queue: send, extensionality *)
Lemma send_fst s x : fst (send s x) = with_q s (fst (pq (conn s) (can_write s) (outq s) x)).
Proof. unfold send. destruct (pq (conn s) (can_write s) (outq s) x). reflexivity. Qed.

Lemma pq_fst cn can q x : fst (pq cn can q x) = if can then [] else q ++ [x].
Proof. unfold pq, lw. destruct can; reflexivity. Qed.

Lemma send_outq s x : outq (fst (send s x)) = if can_write s then [] else outq s ++ [x].
Proof. rewrite send_fst, pq_fst. reflexivity. Qed.

(* the message-store invariant does not look at the queue *)
Lemma shape_ext c s s' C U Q :
  out s' = out s -> inflight s' = inflight s -> sock s' = sock s -> cack s' = cack s ->
  shape c s C U Q -> shape c s' C U Q.
Proof.
  intros E1 E2 E3 E4 [So Si SC SU SQ Sm Sf Ss Se].
  constructor; rewrite ?E1, ?E2, ?E3, ?E4; assumption.
Qed.

Lemma invm_ext c s s' :
  out s' = out s -> inflight s' = inflight s -> last_mid s' = last_mid s -> sock s' = sock s ->
  cack s' = cack s -> ntag s' = ntag s -> InvM c s -> InvM c s'.
Proof.
  intros E1 E2 E3 E4 E5 E6 [[C [U [Q Sh]]] Hnd Hso Htg Hqo Hca Hlm Hnt].
  constructor; rewrite ?E1, ?E2, ?E3, ?E4, ?E5, ?E6; try assumption.
  exists C, U, Q. eapply shape_ext; eassumption.
Qed.

Lemma invm_with_q c s q : InvM c s -> InvM c (with_q s q).
Proof. apply invm_ext; reflexivity. Qed.

Lemma invm_send c s x : InvM c s -> InvM c (fst (send s x)).
Proof. rewrite send_fst. apply invm_with_q. Qed.

(* witnesses of [qpkt_ok] are in a wait state: it is enough that the wait-state messages survive *)
Lemma wait_of_wait m q : o_st m = wait_of q -> is_wait m = true.
Proof. unfold is_wait, wait_of. intros ->. destruct (q =? 1); reflexivity. Qed.

Lemma qpkt_ok_mono l l' x :
  (forall m, In m l -> is_wait m = true -> In m l') -> qpkt_ok l x -> qpkt_ok l' x.
Proof.
  intros H. unfold qpkt_ok. destruct (q_pkt x) as [|mid q dup tag|mid tag|mid|mid|mid]; try exact (fun a => a).
  - intros Hx Hq. destruct (Hx Hq) as (m & Hin & H1 & H2 & H3 & H4 & H5).
    exists m. split; [apply H; [exact Hin | eapply wait_of_wait; exact H5]|]. tauto.
  - intros (m & Hin & H1 & H2 & H3). exists m. split; [apply H; [exact Hin | unfold is_wait; rewrite H3; reflexivity]|]. tauto.
Qed.

Lemma Forall_qpkt_ok_mono l l' q :
  (forall m, In m l -> is_wait m = true -> In m l') -> Forall (qpkt_ok l) q -> Forall (qpkt_ok l') q.
Proof. intros H. apply Forall_impl. intros x. apply qpkt_ok_mono. exact H. Qed.

(* packets that do not occupy a window slot *)
Definition plain (x : qpkt) : Prop :=
  match q_pkt x with
  | PPublish _ q _ _ => q = 0
  | PPubrel _ _ => False
  | _ => True
  end.
Lemma qpkt_ok_plain l x : plain x -> qpkt_ok l x.
Proof.
  unfold plain, qpkt_ok. destruct (q_pkt x); try (intros; exact I); try contradiction.
  all: try (intros -> H; exfalso; apply H; reflexivity).
Qed.

(* the queue part of the invariant after one hand-over *)
Lemma invq_send (s : sess) x l' :
  (can_write s = true -> outq s = []) ->
  Forall (qpkt_ok l') (outq s) -> qpkt_ok l' x ->
  (can_write s = true -> outq (fst (send s x)) = []) /\ Forall (qpkt_ok l') (outq (fst (send s x))).
Proof.
  intros Hi Hq Hx. rewrite send_outq. destruct (can_write s).
  - split; [reflexivity | constructor].
  - split; [discriminate|]. apply Forall_app. split; [exact Hq | constructor; [exact Hx | constructor]].
Qed.

Lemma send_out s x : out (fst (send s x)) = out s.
Proof. rewrite send_fst. reflexivity. Qed.
Lemma send_can s x : can_write (fst (send s x)) = can_write s.
Proof. rewrite send_fst. reflexivity. Qed.

(* one hand-over of a packet that needs no witness keeps the invariant *)
Lemma inv_send_plain c s x : Inv c s -> plain x -> Inv c (fst (send s x)).
Proof.
  intros [Im Hi Hq] Hx.
  destruct (invq_send s x (out s) Hi Hq (qpkt_ok_plain _ _ Hx)) as [H1 H2].
  constructor; [apply invm_send; exact Im | rewrite send_can; exact H1 | rewrite send_out; exact H2].
Qed.

(* no packet in the queue refers to the message with this id *)
Definition q_free (mid : Z) (q : list qpkt) : Prop := q_has_pub mid q = false /\ q_has_rel mid q = false.

Lemma q_has_pub_false mid q x m qs d t : q_has_pub mid q = false -> In x q -> q_pkt x = PPublish m qs d t -> qs <> 0 -> m <> mid.
Proof.
  unfold q_has_pub. intros H Hin E Hq Hm. subst m.
  assert (existsb (fun x0 => match q_pkt x0 with PPublish m qs0 _ _ => negb (qs0 =? 0) && (m =? mid) | _ => false end) q = true).
  { apply existsb_exists. exists x. split; [exact Hin|]. rewrite E. lia. }
  congruence.
Qed.

Lemma q_has_rel_false mid q x m t : q_has_rel mid q = false -> In x q -> q_pkt x = PPubrel m t -> m <> mid.
Proof.
  unfold q_has_rel. intros H Hin E Hm. subst m.
  assert (existsb (fun x0 => match q_pkt x0 with PPubrel m _ => m =? mid | _ => false end) q = true).
  { apply existsb_exists. exists x. split; [exact Hin|]. rewrite E. lia. }
  congruence.
Qed.

Lemma q_has_pub_true mid q : q_has_pub mid q = true ->
  exists x qs d t, In x q /\ q_pkt x = PPublish mid qs d t /\ qs <> 0.
Proof.
  unfold q_has_pub. intros H. apply existsb_exists in H as (x & Hin & Hx).
  destruct (q_pkt x) as [|m qs d t| | | |] eqn:E; try discriminate.
  exists x, qs, d, t. split; [exact Hin|]. assert (m = mid) by lia. subst m. split; [exact E | lia].
Qed.

Lemma q_has_rel_true mid q : q_has_rel mid q = true -> exists x t, In x q /\ q_pkt x = PPubrel mid t.
Proof.
  unfold q_has_rel. intros H. apply existsb_exists in H as (x & Hin & Hx).
  destruct (q_pkt x) as [| |m t| | |] eqn:E; try discriminate.
  exists x, t. split; [exact Hin|]. assert (m = mid) by lia. subst m. exact E.
Qed.

(* two stored messages with the same id are the same message *)
Lemma NoDup_mids_eq l m m' : NoDup (mids l) -> In m l -> In m' l -> o_mid m = o_mid m' -> m = m'.
Proof.
  induction l as [|x l IH]; intros Hnd H1 H2 E; [destruct H1|].
  cbn [mids map] in Hnd. inversion Hnd as [|? ? Hx Hnd']; subst.
  destruct H1 as [->|H1], H2 as [->|H2].
  - reflexivity.
  - exfalso. apply Hx. rewrite E. apply in_map. exact H2.
  - exfalso. apply Hx. rewrite <- E. apply in_map. exact H1.
  - apply IH; assumption.
Qed.

(* a packet that refers to the stored message with this id *)
Definition refers (mid : Z) (x : qpkt) : Prop :=
  match q_pkt x with
  | PPublish m q _ _ => q <> 0 /\ m = mid
  | PPubrel m _ => m = mid
  | _ => False
  end.

Lemma q_free_refers mid q x : q_free mid q -> In x q -> ~ refers mid x.
Proof.
  intros [H1 H2] Hin. unfold refers. destruct (q_pkt x) as [|m qs d t|m t|m|m|m] eqn:E.
  - intros [].
  - intros [Hq Hm]. exact (q_has_pub_false _ _ _ _ _ _ _ H1 Hin E Hq Hm).
  - intros Hm. exact (q_has_rel_false _ _ _ _ _ H2 Hin E Hm).
  - intros [].
  - intros [].
  - intros [].
Qed.

Lemma qpkt_ok_except mid l l' x : ~ refers mid x ->
  (forall m, In m l -> is_wait m = true -> o_mid m <> mid -> In m l') -> qpkt_ok l x -> qpkt_ok l' x.
Proof.
  unfold refers, qpkt_ok. intros Hn H.
  destruct (q_pkt x) as [|m q dup tag|m tag|m|m|m]; try exact (fun a => a).
  - intros Hx Hq. destruct (Hx Hq) as (w & Hin & H1 & H2 & H3 & H4 & H5).
    exists w. split; [|tauto]. apply H; [exact Hin | eapply wait_of_wait; exact H5|].
    intros E. apply Hn. split; [exact Hq | congruence].
  - intros (w & Hin & H1 & H2 & H3). exists w. split; [|tauto].
    apply H; [exact Hin | unfold is_wait; rewrite H3; reflexivity|]. intros E. apply Hn. congruence.
Qed.

Lemma with_q_same s : with_q s (outq s) = s.
Proof. destruct s; reflexivity. Qed.

(* what hand_all leaves in the queue, under the idle-queue invariant *)
Lemma hand_all_fst cn can q H : (can = true -> q = []) ->
  fst (hand_all cn can q H) = if can then [] else q ++ H.
Proof.
  intros Hq. destruct can.
  - rewrite (Hq eq_refl), hand_all_can. reflexivity.
  - rewrite hand_all_blocked. reflexivity.
Qed.

(* ---------------------------------------------------------------- preservation, op by op *)
Section Preserve.
Variable c : cfg.
Hypothesis Hcfg : cfg_ok c = true.

Lemma max_nonneg : 0 <= c_max c.
Proof. unfold cfg_ok in Hcfg. lia. Qed.

Lemma invm_init : InvM c (init c).
Proof.
  constructor; cbn; try constructor; try lia; try discriminate.
  exists [], [], []. constructor; cbn; try constructor; try lia; try discriminate; try reflexivity.
  all: exfalso; apply H; reflexivity.
Qed.

Lemma inv_init : Inv c (init c).
Proof. constructor; [apply invm_init | reflexivity | constructor]. Qed.

(* ---- publish() ---- *)
Definition pub_s1 (s : sess) : sess :=
  mkS (out s) (inm s) (inflight s) (mid_next (last_mid s)) (sock s) (first s) (cack s) (conn s) (ntag s + 1) (outq s) (blocked s) (failing s).
Definition pub_new (s : sess) (q : Z) (st : mstate) : omsg := mkO (mid_next (last_mid s)) q st false (ntag s).

Lemma publish_fst s q : fst (do_publish c s q) =
  if q =? 0 then
    if sock s then fst (send (pub_s1 s) (mkQ (PPublish (mid_next (last_mid s)) 0 false (ntag s)) true)) else pub_s1 s
  else if (c_maxq c >? 0) && (Z.of_nat (length (out s)) >=? c_maxq c) then pub_s1 s
  else if has_mid (mid_next (last_mid s)) (out s) then pub_s1 s
  else if window_free c (inflight s) then
    if sock s then
      fst (send (with_out (pub_s1 s) (out s ++ [pub_new s q (wait_of q)]) (inflight s + 1))
                (mkQ (PPublish (mid_next (last_mid s)) q false (ntag s)) true))
    else with_out (pub_s1 s) (out s ++ [pub_new s q MsPublish]) (inflight s)
  else with_out (pub_s1 s) (out s ++ [pub_new s q MsQueued]) (inflight s).
Proof.
  unfold do_publish, pub_s1, pub_new. cbv zeta.
  destruct (q =? 0).
  { destruct (sock s); [|reflexivity]. destruct (send _ _). reflexivity. }
  destruct ((c_maxq c >? 0) && (Z.of_nat (length (out s)) >=? c_maxq c)); [reflexivity|].
  destruct (has_mid (mid_next (last_mid s)) (out s)); [reflexivity|].
  destruct (window_free c (inflight s)); [|reflexivity].
  destruct (sock s); [|reflexivity]. destruct (send _ _). reflexivity.
Qed.

Lemma invm_publish s q : InvM c s -> conf_op c s (OPublish q) = true -> InvM c (fst (do_publish c s q)).
Proof.
  intros I Hq. cbn [conf_op] in Hq. destruct I as [[C [U [Q Sh]]] Hnd Hso Htg Hqo Hca Hlm Hnt].
  pose proof max_nonneg as Hmax.
  pose proof (mid_next_range (last_mid s) Hlm) as Hmid.
  assert (Htg' : Forall (fun m => 0 <= o_tag m < ntag s + 1) (out s)).
  { eapply Forall_impl; [|exact Htg]. cbn. intros; lia. }
  (* the cases that only advance last_mid / ntag *)
  assert (Hsame : InvM c (pub_s1 s)).
  { constructor; cbn; try assumption; try lia.
    exists C, U, Q. destruct Sh. constructor; cbn in *; assumption. }
  rewrite publish_fst. destruct (q =? 0) eqn:Eq0.
  { destruct (sock s); [apply invm_send|]; exact Hsame. }
  destruct ((c_maxq c >? 0) && (Z.of_nat (length (out s)) >=? c_maxq c)); [exact Hsame|].
  destruct (has_mid (mid_next (last_mid s)) (out s)) eqn:Hhas; [exact Hsame|].
  assert (Hfresh : ~ In (mid_next (last_mid s)) (mids (out s))).
  { intros H. apply has_mid_true in H. congruence. }
  assert (Hqok : forall st, (st = wait_of q \/ st = MsPublish \/ st = MsQueued) ->
                 qos_okb (pub_new s q st) = true).
  { intros st Hst. unfold qos_okb, wait_of, pub_new in *. cbn. destruct (q =? 1) eqn:E1.
    - destruct Hst as [-> | [-> | ->]]; reflexivity.
    - assert (q = 2) by lia. subst q. destruct Hst as [-> | [-> | ->]]; reflexivity. }
  (* common obligations for out s ++ [new] *)
  assert (Hcommon : forall st infl', (st = wait_of q \/ st = MsPublish \/ st = MsQueued) ->
            (exists C' U' Q', shape c (with_out (pub_s1 s) (out s ++ [pub_new s q st]) infl') C' U' Q') ->
            InvM c (with_out (pub_s1 s) (out s ++ [pub_new s q st]) infl')).
  { intros st infl' Hst Hsh. constructor; cbn; try assumption; try lia.
    - rewrite mids_app. cbn. apply NoDup_app_snoc; [exact Hnd | exact Hfresh].
    - rewrite tags_app. cbn. apply SSorted_snoc; [assumption|].
      unfold tags. apply Forall_map. eapply Forall_impl; [|exact Htg]. cbn. intros; lia.
    - apply Forall_app. split; [assumption|]. constructor; [cbn; lia|constructor].
    - apply Forall_app. split; [assumption|]. constructor; [apply Hqok; assumption|constructor]. }
  destruct (window_free c (inflight s)) eqn:W.
  - assert (Q = []) by (eapply window_free_Q_nil; eassumption). subst Q.
    destruct (sock s) eqn:Hs.
    + apply invm_send.
      assert (U = []) by (apply (sh_sockU _ _ _ _ _ Sh); assumption). subst U.
      apply Hcommon; [left; reflexivity|].
      exists (C ++ [pub_new s q (wait_of q)]), [], [].
      destruct Sh as [So Si SC SU SQ Sm Sf Ss Se]. cbn in *. rewrite app_nil_r in So.
      constructor; cbn; rewrite ?app_nil_r.
      * rewrite So. reflexivity.
      * rewrite app_length. cbn. lia.
      * apply Forall_app. split; [assumption|]. constructor; [|constructor].
        unfold is_queued, wait_of. cbn. destruct (q =? 1); reflexivity.
      * constructor.
      * constructor.
      * intros H. rewrite app_length. cbn. unfold window_free in W. rewrite Si in W. lia.
      * intros H; contradiction.
      * reflexivity.
      * intros H. apply Forall_app. split; [apply Se; assumption|]. constructor; [|constructor].
        unfold is_wait, wait_of. cbn. destruct (q =? 1); reflexivity.
    + apply Hcommon; [right; left; reflexivity|].
      exists C, (U ++ [pub_new s q MsPublish]), [].
      destruct Sh as [So Si SC SU SQ Sm Sf Ss Se]. cbn in *.
      constructor; cbn; rewrite ?app_nil_r in *; try assumption.
      * rewrite So. rewrite app_assoc. reflexivity.
      * apply Forall_app. split; [assumption|]. constructor; [reflexivity|constructor].
      * intros H; congruence.
  - apply Hcommon; [right; right; reflexivity|].
    destruct (notfree_full _ _ _ _ _ Hmax Sh W) as [Hpos Hfull].
    exists C, U, (Q ++ [pub_new s q MsQueued]).
    destruct Sh as [So Si SC SU SQ Sm Sf Ss Se]. cbn in *.
    constructor; cbn; try assumption.
    + rewrite So. rewrite <- !app_assoc. reflexivity.
    + apply Forall_app. split; [assumption|]. constructor; [reflexivity|constructor].
    + intros _. split; assumption.
Qed.

Lemma inv_publish s q : Inv c s -> conf_op c s (OPublish q) = true -> Inv c (fst (do_publish c s q)).
Proof.
  intros I Hconf. pose proof (invm_publish s q (inv_m _ _ I) Hconf) as Im'.
  destruct I as [Im Hi Hq].
  (* the queue part: the stored messages only grow at the tail, the queue grows by at most one packet *)
  assert (Hgrow : forall st infl,
            (can_write (with_out (pub_s1 s) (out s ++ [pub_new s q st]) infl) = true ->
             outq (with_out (pub_s1 s) (out s ++ [pub_new s q st]) infl) = []) /\
            Forall (qpkt_ok (out (with_out (pub_s1 s) (out s ++ [pub_new s q st]) infl)))
                   (outq (with_out (pub_s1 s) (out s ++ [pub_new s q st]) infl))).
  { intros st infl. split; [exact Hi|]. cbn [out with_out outq pub_s1].
    eapply Forall_qpkt_ok_mono; [|exact Hq]. intros m Hm _. apply in_or_app. left. exact Hm. }
  assert (Hs1 : (can_write (pub_s1 s) = true -> outq (pub_s1 s) = []) /\
                Forall (qpkt_ok (out (pub_s1 s))) (outq (pub_s1 s))) by (split; assumption).
  constructor; [exact Im'| |]; clear Im'; rewrite publish_fst.
  - destruct (q =? 0).
    { destruct (sock s); [|exact (proj1 Hs1)]. rewrite send_can.
      apply (invq_send (pub_s1 s) _ (out s) Hi Hq). apply qpkt_ok_plain. reflexivity. }
    destruct ((c_maxq c >? 0) && (Z.of_nat (length (out s)) >=? c_maxq c)); [exact (proj1 Hs1)|].
    destruct (has_mid (mid_next (last_mid s)) (out s)); [exact (proj1 Hs1)|].
    destruct (window_free c (inflight s)); [|exact (proj1 (Hgrow _ _))].
    destruct (sock s); [|exact (proj1 (Hgrow _ _))].
    rewrite send_can. destruct (Hgrow (wait_of q) (inflight s + 1)) as [G1 G2].
    eapply (invq_send _ _ _ G1 G2). unfold qpkt_ok. cbn [q_pkt]. intros _.
    exists (pub_new s q (wait_of q)). split; [apply in_or_app; right; left; reflexivity|].
    repeat split; reflexivity.
  - destruct (q =? 0).
    { destruct (sock s); [|exact (proj2 Hs1)]. rewrite send_out.
      apply (invq_send (pub_s1 s) _ (out s) Hi Hq). apply qpkt_ok_plain. reflexivity. }
    destruct ((c_maxq c >? 0) && (Z.of_nat (length (out s)) >=? c_maxq c)); [exact (proj2 Hs1)|].
    destruct (has_mid (mid_next (last_mid s)) (out s)); [exact (proj2 Hs1)|].
    destruct (window_free c (inflight s)); [|exact (proj2 (Hgrow _ _))].
    destruct (sock s); [|exact (proj2 (Hgrow _ _))].
    rewrite send_out. destruct (Hgrow (wait_of q) (inflight s + 1)) as [G1 G2].
    eapply (invq_send _ _ _ G1 G2). unfold qpkt_ok. cbn [q_pkt]. intros _.
    exists (pub_new s q (wait_of q)). split; [apply in_or_app; right; left; reflexivity|].
    repeat split; reflexivity.
Qed.

(* ---- reconnect() ---- *)
Lemma invm_reconnect s ok : InvM c s -> InvM c (fst (do_reconnect c s ok)).
Proof.
  intros I. destruct I as [[C [U [Q Sh]]] Hnd Hso Htg Hqo Hca Hlm Hnt].
  pose proof max_nonneg as Hmax.
  unfold do_reconnect.
  destruct (reset_out_char c (clean_now c s) Hmax (out s) 0 ltac:(lia)) as (j & Hj & E & Hfull & Hle).
  rewrite E. clear E.
  set (o' := map (reset1 (clean_now c s)) (firstn j (out s)) ++ map toQ (skipn j (out s))).
  assert (Hm : mids o' = mids (out s)).
  { unfold o'. rewrite mids_app, !map_ext_mid by (intros; auto using reset1_mid, toQ_mid).
    rewrite <- mids_app, firstn_skipn. reflexivity. }
  assert (Ht : tags o' = tags (out s)).
  { unfold o'. rewrite tags_app, !map_ext_tag by (intros; auto using reset1_tag, toQ_tag).
    rewrite <- tags_app, firstn_skipn. reflexivity. }
  assert (Htg' : Forall (fun m => 0 <= o_tag m < ntag s) o').
  { unfold o'. apply Forall_app. split; apply Forall_map.
    - eapply Forall_impl; [|apply Forall_firstn; exact Htg]. cbn. intros a. rewrite reset1_tag. auto.
    - eapply Forall_impl; [|apply Forall_skipn; exact Htg]. cbn. auto. }
  assert (Hqo' : Forall (fun m => qos_okb m = true) o').
  { unfold o'. apply Forall_app. split; apply Forall_map.
    - eapply Forall_impl; [|apply Forall_firstn; exact Hqo]. cbn. intros a. apply qos_ok_reset1.
    - eapply Forall_impl; [|apply Forall_skipn; exact Hqo]. cbn. intros a. apply qos_ok_toQ. }
  assert (Hlen : length (map (reset1 (clean_now c s)) (firstn j (out s))) = j).
  { rewrite map_length, firstn_length. lia. }
  assert (Hsh : forall sk fk cn it,
     exists C' U' Q', shape c (mkS o' it (0 + Z.of_nat j) (last_mid s) sk fk false cn (ntag s) [] false false) C' U' Q').
  { intros. exists (map (reset1 (clean_now c s)) (firstn j (out s))), [], (map toQ (skipn j (out s))).
    constructor; cbn.
    - reflexivity.
    - rewrite Hlen. lia.
    - apply Forall_map. apply Forall_forall. intros; apply reset1_nq.
    - constructor.
    - apply Forall_map. apply Forall_forall. intros; reflexivity.
    - intros H. rewrite Hlen. specialize (Hle H). lia.
    - intros H. rewrite Hlen.
      assert (j < length (out s))%nat.
      { destruct (Nat.eq_dec j (length (out s))) as [->|]; [|lia].
        rewrite skipn_all in H. exfalso. apply H. reflexivity. }
      destruct (Hfull H0). specialize (Hle H1). lia.
    - reflexivity.
    - discriminate. }
  destruct ok; cbn [fst]; constructor; cbn -[mids tags]; rewrite ?Hm, ?Ht; try assumption; try discriminate; try lia; apply Hsh.
Qed.

Lemma reconnect_outq s ok : outq (fst (do_reconnect c s ok)) = [].
Proof.
  unfold do_reconnect. destruct (reset_out_list c (clean_now c s) 0 (out s)). destruct ok; reflexivity.
Qed.

Lemma inv_reconnect s ok : Inv c s -> Inv c (fst (do_reconnect c s ok)).
Proof.
  intros I. constructor; [apply invm_reconnect; exact (inv_m _ _ I)| |]; rewrite reconnect_outq;
    [reflexivity | constructor].
Qed.

(* ---- connection loss ---- *)
Lemma shape_sock_false s C U Q fk q b :
  shape c s C U Q ->
  shape c (mkS (out s) (inm s) (inflight s) (last_mid s) false fk false (conn s) (ntag s) q b (failing s)) C U Q.
Proof.
  intros [So Si SC SU SQ Sm Sf Ss Se]. constructor; cbn; try assumption; discriminate.
Qed.

Lemma inv_connlost s : Inv c s -> Inv c (fst (step c s OConnLost)).
Proof.
  intros I. cbn [step]. destruct (sock s) eqn:Hs; cbn [fst]; [|assumption].
  destruct I as [[[C [U [Q Sh]]] Hnd Hso Htg Hqo Hca Hlm Hnt] Hi Hq].
  unfold with_sock. rewrite andb_false_r.
  constructor; [|cbn; discriminate | exact Hq].
  constructor; cbn; try assumption; try discriminate.
  exists C, U, Q. apply shape_sock_false. assumption.
Qed.

(* ---- the final acknowledgement of a stored message: explicit result ---- *)
Lemma on_publish_char s m : InvM c s -> sock s = true -> cack s = true ->
  In m (out s) -> is_wait m = true ->
  exists C1 C2 Q j n,
    out s = (C1 ++ m :: C2) ++ Q /\
    Forall (fun x => is_wait x = true) (C1 ++ C2) /\
    Forall (fun x => is_queued x = true) Q /\
    (j <= length Q)%nat /\
    n = Z.of_nat (length (C1 ++ C2)) + Z.of_nat j /\
    (0 < c_max c -> n <= c_max c) /\
    (skipn j Q <> [] -> 0 < c_max c /\ n = c_max c) /\
    do_on_publish c s m =
      (with_q (with_out s ((C1 ++ C2) ++ map rel1 (firstn j Q) ++ skipn j Q) n)
              (fst (hand_all (conn s) (can_write s) (outq s) (map rel_pk (firstn j Q)))),
       CbPublish (o_mid m) (o_tag m) :: Published (o_tag m) ::
       snd (hand_all (conn s) (can_write s) (outq s) (map rel_pk (firstn j Q)))).
Proof.
  intros I Hs Hck Hin Hw. destruct I as [[C [U [Q Sh]]] Hnd Hso Htg Hqo Hca Hlm Hnt].
  pose proof max_nonneg as Hmax.
  pose proof (wait_in_C _ _ _ _ _ _ Sh Hin Hw) as HinC.
  destruct Sh as [So Si SC SU SQ Sm Sf Ss Se].
  assert (U = []) by (apply Ss; assumption). subst U. cbn [app] in So.
  apply in_split in HinC as (C1 & C2 & ->).
  assert (So' : out s = C1 ++ m :: (C2 ++ Q)).
  { rewrite So. rewrite <- app_assoc. reflexivity. }
  assert (Has : C1 ++ C2 ++ Q = (C1 ++ C2) ++ Q) by apply app_assoc.
  rewrite So' in Hnd. destruct (NoDup_mids_remove _ _ _ Hnd) as [Hnd' Hn1].
  assert (Hrm : remove_mid (o_mid m) (out s) = (C1 ++ C2) ++ Q).
  { rewrite So', <- Has. apply remove_mid_split; [assumption|reflexivity]. }
  assert (Hlen : Z.of_nat (length (C1 ++ m :: C2)) = Z.of_nat (length (C1 ++ C2)) + 1).
  { rewrite !app_length. cbn [length]. lia. }
  assert (SC' : Forall (fun x => is_queued x = false) (C1 ++ C2)) by (eapply Forall_remove; exact SC).
  assert (Se' : Forall (fun x => is_wait x = true) (C1 ++ C2)) by (eapply Forall_remove; exact (Se Hck)).
  exists C1, C2, Q.
  unfold do_on_publish. rewrite Hrm. rewrite Si, Hlen.
  replace (Z.of_nat (length (C1 ++ C2)) + 1 - 1) with (Z.of_nat (length (C1 ++ C2))) by lia.
  destruct (c_max c >? 0) eqn:Emax.
  - rewrite (update_inflight_C c (conn s) (can_write s) (C1 ++ C2) Q _ _ SC').
    assert (Hk : Z.of_nat (length (C1 ++ C2)) <= c_max c).
    { specialize (Sm ltac:(lia)). lia. }
    destruct (update_inflight_Q c (conn s) (can_write s) Q _ (outq s) SQ Hk) as (j & Hj & E & Hle & Hfull).
    rewrite E. exists j, (Z.of_nat (length (C1 ++ C2)) + Z.of_nat j).
    split; [exact So|]. split; [exact Se'|]. split; [exact SQ|]. split; [exact Hj|]. split; [reflexivity|].
    split; [intros _; exact Hle|]. split; [|reflexivity].
    intros Hne. split; [lia|]. apply Hfull.
    destruct (Nat.eq_dec j (length Q)) as [->|]; [|lia]. rewrite skipn_all in Hne. exfalso; apply Hne; reflexivity.
  - assert (Q = []).
    { destruct Q; [reflexivity|]. destruct (Sf ltac:(discriminate)). lia. }
    subst Q. exists O, (Z.of_nat (length (C1 ++ C2))).
    split; [exact So|]. split; [exact Se'|]. split; [exact SQ|]. split; [cbn; lia|]. split; [cbn; lia|].
    split; [intros; lia|]. split; [intros Hne; exfalso; apply Hne; reflexivity|].
    cbn [firstn skipn map app hand_all fst snd]. rewrite !app_nil_r.
    reflexivity.
Qed.

(* removing the acknowledged message and refilling the window *)
Lemma inv_on_publish s m : Inv c s -> sock s = true -> cack s = true ->
  In m (out s) -> is_wait m = true -> q_free (o_mid m) (outq s) -> Inv c (fst (do_on_publish c s m)).
Proof.
  intros I Hs Hck Hin Hw Hfree.
  destruct (on_publish_char s m (inv_m _ _ I) Hs Hck Hin Hw)
    as (C1 & C2 & Q & j & n & So & Se' & SQ & Hj & Hn & Hle & Hfull & E).
  rewrite E. cbn [fst]. clear E.
  destruct I as [[_ Hnd Hso Htg Hqo Hca Hlm Hnt] Hi Hq].
  set (o' := (C1 ++ C2) ++ map rel1 (firstn j Q) ++ skipn j Q).
  assert (Hsub : forall (P : omsg -> Prop), Forall P (out s) -> Forall P ((C1 ++ C2) ++ Q)).
  { intros P H. rewrite So in H. apply Forall_app in H as [H1 H2]. apply Forall_remove in H1.
    apply Forall_app. split; assumption. }
  assert (Hm : mids o' = mids ((C1 ++ C2) ++ Q)).
  { unfold o'. rewrite !mids_app. rewrite map_ext_mid by (intros; apply rel1_mid).
    rewrite <- (mids_app (firstn j Q)), firstn_skipn. reflexivity. }
  assert (Ht : tags o' = tags ((C1 ++ C2) ++ Q)).
  { unfold o'. rewrite !tags_app. rewrite map_ext_tag by (intros; apply rel1_tag).
    rewrite <- (tags_app (firstn j Q)), firstn_skipn. reflexivity. }
  assert (Hnd' : NoDup (mids ((C1 ++ C2) ++ Q))).
  { rewrite So, <- app_assoc in Hnd. cbn [app] in Hnd. apply NoDup_mids_remove in Hnd as [H _].
    rewrite app_assoc in H. exact H. }
  assert (Hso' : StronglySorted Z.lt (tags ((C1 ++ C2) ++ Q))).
  { rewrite So, <- app_assoc in Hso. cbn [app] in Hso. apply SSorted_tags_remove in Hso.
    rewrite app_assoc in Hso. exact Hso. }
  assert (SC' : Forall (fun x => is_queued x = false) (C1 ++ C2)).
  { eapply Forall_impl; [|exact Se']. cbn. intros a. apply wait_nq. }
  assert (Hlenj : length (firstn j Q) = j) by (rewrite firstn_length; lia).
  constructor.
  - apply invm_with_q. constructor; cbn -[mids tags]; fold o'; rewrite ?Hm, ?Ht; try assumption.
    + exists ((C1 ++ C2) ++ map rel1 (firstn j Q)), [], (skipn j Q).
      constructor; cbn.
      * unfold o'. rewrite <- !app_assoc. reflexivity.
      * rewrite (app_length (C1 ++ C2)), map_length, Hlenj. lia.
      * apply Forall_app. split; [assumption|]. apply Forall_map. apply Forall_forall. intros x _.
        apply wait_nq. apply rel1_wait.
      * constructor.
      * apply Forall_skipn. assumption.
      * intros H. rewrite (app_length (C1 ++ C2)), map_length, Hlenj. specialize (Hle H). lia.
      * intros H. destruct (Hfull H) as [H1 H2]. split; [exact H1|].
        rewrite (app_length (C1 ++ C2)), map_length, Hlenj. lia.
      * reflexivity.
      * intros _. apply Forall_app. split; [assumption|]. apply Forall_map. apply Forall_forall. intros x _. apply rel1_wait.
    + unfold o'. pose proof (Hsub _ Htg) as H. apply Forall_app in H as [H1 H2].
      apply Forall_app. split; [exact H1|]. apply Forall_app. split.
      * apply Forall_map. apply Forall_firstn. exact H2.
      * apply Forall_skipn. exact H2.
    + unfold o'. pose proof (Hsub _ Hqo) as H. apply Forall_app in H as [H1 H2].
      apply Forall_app. split; [exact H1|]. apply Forall_app. split.
      * apply Forall_map. eapply Forall_impl; [|apply Forall_firstn; exact H2]. cbn. intros a. apply qos_ok_rel1.
      * apply Forall_skipn. exact H2.
  - change (can_write (with_q (with_out s o' n) (fst (hand_all (conn s) (can_write s) (outq s) (map rel_pk (firstn j Q))))))
      with (can_write s).
    intros Hc. cbn [outq with_q]. rewrite (hand_all_fst _ _ _ _ Hi), Hc. reflexivity.
  - cbn [out outq with_q with_out]. fold o'. rewrite (hand_all_fst _ _ _ _ Hi).
    destruct (can_write s); [constructor|]. apply Forall_app. split.
    + apply Forall_forall. intros x Hx.
      apply (qpkt_ok_except (o_mid m) (out s)); [exact (q_free_refers _ _ _ Hfree Hx)| |exact (proj1 (Forall_forall _ _) Hq x Hx)].
      intros w Hwin Hww Hne. rewrite So in Hwin. unfold o'.
      apply in_app_or in Hwin as [Hwin|Hwin].
      * apply in_or_app. left. apply in_app_or in Hwin as [Hwin|[Hwin|Hwin]].
        -- apply in_or_app. left. exact Hwin.
        -- subst w. exfalso. apply Hne. reflexivity.
        -- apply in_or_app. right. exact Hwin.
      * exfalso. pose proof (proj1 (Forall_forall _ _) SQ w Hwin) as Hqw. cbn beta in Hqw.
        apply wait_nq in Hww. congruence.
    + apply Forall_map. apply Forall_forall. intros x Hx.
      unfold qpkt_ok, rel_pk, pub_pkt. cbn [q_pkt]. intros _.
      exists (rel1 x). split.
      * unfold o'. apply in_or_app. right. apply in_or_app. left. apply in_map. exact Hx.
      * repeat split; reflexivity.
Qed.

(* ---- the accepting CONNACK: explicit result ---- *)
Definition connack_s1 (s : sess) : sess :=
  mkS (out s) (inm s) (inflight s) (last_mid s) (sock s) false true (conn s) (ntag s) (outq s) (blocked s) (failing s).

Lemma connack_char s r : Inv c s -> sock s = true ->
  exists C Q,
    out s = C ++ Q /\ shape c s C [] Q /\
    do_rx c s (IConnack 0) r =
      (with_q (with_out (connack_s1 s) (map cl1 C ++ Q) (inflight s))
              (fst (hand_all (conn s) (can_write s) (outq s) (flat_map cl_pk C))),
       Inp (IConnack 0) :: snd (hand_all (conn s) (can_write s) (outq s) (flat_map cl_pk C))).
Proof.
  intros I Hs. destruct (inv_shape _ _ I) as (C & U & Q & Sh).
  pose proof (sh_sockU _ _ _ _ _ Sh Hs) as HU. subst U.
  pose proof (sh_out _ _ _ _ _ Sh) as So. cbn [app] in So.
  exists C, Q. split; [exact So|]. split; [exact Sh|].
  assert (E : connack_loop (conn s) (can_write s) (outq s) (out s) =
              (map cl1 C ++ Q, fst (hand_all (conn s) (can_write s) (outq s) (flat_map cl_pk C)),
               snd (hand_all (conn s) (can_write s) (outq s) (flat_map cl_pk C)))).
  { rewrite So. apply connack_loop_char;
      [exact (sh_C _ _ _ _ _ Sh) | exact (sh_Q _ _ _ _ _ Sh) | exact (inv_qidle _ _ I)]. }
  unfold do_rx. replace (negb (sock s)) with false by (rewrite Hs; reflexivity).
  change (0 =? 0) with true. cbv iota zeta. rewrite E. reflexivity.
Qed.

Lemma cl1_wait_id m : is_wait m = true -> cl1 m = m.
Proof. unfold is_wait, cl1. destruct (o_st m); try discriminate; reflexivity. Qed.

Lemma cl_pk_ok m l : In (cl1 m) l -> Forall (qpkt_ok l) (cl_pk m).
Proof.
  intros Hin. unfold cl_pk, cl1 in *. destruct (o_st m) eqn:Est; try constructor.
  - unfold qpkt_ok, pub_pkt. cbn [q_pkt]. intros _. exists (set_st m (wait_of (o_qos m))).
    split; [exact Hin|]. repeat split; reflexivity.
  - constructor.
  - destruct (o_qos m =? 2); [|constructor]. constructor; [|constructor].
    unfold qpkt_ok, rel_pkt. cbn [q_pkt]. exists (set_st m MsWaitPubcomp).
    split; [exact Hin|]. repeat split; reflexivity.
Qed.

Lemma inv_connack s rc r : Inv c s -> sock s = true -> Inv c (fst (do_rx c s (IConnack rc) r)).
Proof.
  intros I Hs. destruct (rc =? 0) eqn:Erc.
  2:{ unfold do_rx. rewrite Hs. cbn [negb]. rewrite Erc. cbn [fst].
      destruct I as [[[C [U [Q Sh]]] Hnd Hso Htg Hqo Hca Hlm Hnt] Hi Hq].
      unfold with_sock. cbn. constructor; [|cbn; discriminate | exact Hq].
      constructor; cbn; try assumption; try discriminate.
      exists C, U, Q. apply (shape_sock_false s C U Q false _ _ Sh). }
  assert (rc = 0) by lia. subst rc.
  destruct (connack_char s r I Hs) as (C & Q & So & Sh & E). rewrite E. cbn [fst]. clear E.
  destruct I as [[_ Hnd Hso Htg Hqo Hca Hlm Hnt] Hi Hq].
  destruct Sh as [_ Si SC SU SQ Sm Sf Ss Se].
  assert (Hm : mids (map cl1 C ++ Q) = mids (C ++ Q)).
  { rewrite !mids_app. rewrite map_ext_mid by apply cl1_mid. reflexivity. }
  assert (Ht : tags (map cl1 C ++ Q) = tags (C ++ Q)).
  { rewrite !tags_app. rewrite map_ext_tag by apply cl1_tag. reflexivity. }
  rewrite So in Hnd, Hso, Htg, Hqo. apply Forall_app in Htg as [Htg1 Htg2]. apply Forall_app in Hqo as [Hqo1 Hqo2].
  constructor.
  - apply invm_with_q. constructor; cbn -[mids tags]; rewrite ?Hm, ?Ht; try assumption; try (intros _; assumption).
    + exists (map cl1 C), [], Q. constructor; cbn; try assumption; try reflexivity.
      * rewrite map_length. assumption.
      * apply Forall_map. eapply Forall_impl; [|exact SC]. cbn. intros a. apply cl1_nq.
      * rewrite map_length. assumption.
      * rewrite map_length. assumption.
      * intros _. apply Forall_map. apply Forall_forall. intros x Hx.
        apply cl1_wait; [exact (proj1 (Forall_forall _ _) Hqo1 x Hx) | exact (proj1 (Forall_forall _ _) SC x Hx)].
    + apply Forall_app. split; [|assumption]. apply Forall_map. eapply Forall_impl; [|exact Htg1]. cbn. intros a. rewrite cl1_tag. auto.
    + apply Forall_app. split; [|assumption]. apply Forall_map. eapply Forall_impl; [|exact Hqo1]. cbn. intros a. apply qos_ok_cl1.
  - change (can_write (with_q (with_out (connack_s1 s) (map cl1 C ++ Q) (inflight s))
                              (fst (hand_all (conn s) (can_write s) (outq s) (flat_map cl_pk C)))))
      with (can_write s).
    intros Hc. cbn [outq with_q]. rewrite (hand_all_fst _ _ _ _ Hi), Hc. reflexivity.
  - cbn [out outq with_q with_out]. rewrite (hand_all_fst _ _ _ _ Hi).
    destruct (can_write s); [constructor|]. apply Forall_app. split.
    + eapply Forall_qpkt_ok_mono; [|exact Hq]. intros w Hwin Hww. rewrite So in Hwin.
      apply in_app_or in Hwin as [Hwin|Hwin].
      * apply in_or_app. left. rewrite <- (cl1_wait_id w Hww). apply in_map. exact Hwin.
      * apply in_or_app. right. exact Hwin.
    + apply Forall_flat_map. apply Forall_forall. intros x Hx. apply cl_pk_ok.
      apply in_or_app. left. apply in_map. exact Hx.
Qed.

Lemma invm_with_inm s i : InvM c s -> InvM c (with_inm s i).
Proof. apply invm_ext; reflexivity. Qed.

Lemma inv_with_inm s i : Inv c s -> Inv c (with_inm s i).
Proof. intros [Im Hi Hq]. constructor; [apply invm_with_inm; exact Im | exact Hi | exact Hq]. Qed.

(* what conformance says about the queue when a final acknowledgement arrives *)
Lemma conf_free s m : Inv c s -> In m (out s) ->
  (o_st m = MsWaitPuback /\ q_has_pub (o_mid m) (outq s) = false) \/
  (o_st m = MsWaitPubcomp /\ q_has_rel (o_mid m) (outq s) = false) ->
  q_free (o_mid m) (outq s).
Proof.
  intros I Hin H. pose proof (inv_nodup _ _ I) as Hnd. pose proof (inv_q _ _ I) as Hq.
  destruct H as [[Hst Hp]|[Hst Hr]]; split; try assumption.
  - destruct (q_has_rel (o_mid m) (outq s)) eqn:E; [|reflexivity]. exfalso.
    apply q_has_rel_true in E as (x & t & Hx & Ex).
    pose proof (proj1 (Forall_forall _ _) Hq x Hx) as Hok. unfold qpkt_ok in Hok. rewrite Ex in Hok.
    destruct Hok as (w & Hw & H1 & H2 & H3).
    assert (w = m) by (eapply NoDup_mids_eq; eassumption). subst w. congruence.
  - destruct (q_has_pub (o_mid m) (outq s)) eqn:E; [|reflexivity]. exfalso.
    apply q_has_pub_true in E as (x & qs & d & t & Hx & Ex & Hqs).
    pose proof (proj1 (Forall_forall _ _) Hq x Hx) as Hok. unfold qpkt_ok in Hok. rewrite Ex in Hok.
    destruct (Hok Hqs) as (w & Hw & H1 & H2 & H3 & H4 & H5).
    assert (w = m) by (eapply NoDup_mids_eq; eassumption). subst w.
    rewrite Hst in H5. unfold wait_of in H5. destruct (qs =? 1); discriminate.
Qed.

Lemma update_mid_other mid f : forall l w, In w l -> o_mid w <> mid -> In w (update_mid mid f l).
Proof.
  induction l as [|x l IH]; intros w Hin Hne; [destruct Hin|]. cbn [update_mid].
  destruct (o_mid x =? mid) eqn:E.
  - destruct Hin as [->|Hin]; [exfalso; lia | right; exact Hin].
  - destruct Hin as [->|Hin]; [left; reflexivity | right; apply IH; assumption].
Qed.

Lemma update_mid_hit mid f : forall l m, find_mid mid l = Some m -> In (f m) (update_mid mid f l).
Proof.
  induction l as [|x l IH]; intros m Hf; cbn [find_mid update_mid] in *; [discriminate|].
  destruct (o_mid x =? mid).
  - inversion Hf; subst. left. reflexivity.
  - right. apply IH. exact Hf.
Qed.

(* ---- PUBREC ---- *)
Lemma inv_pubrec s mid m : Inv c s -> sock s = true -> find_mid mid (out s) = Some m ->
  o_qos m = 2 ->
  (o_st m = MsWaitPubrec /\ q_has_pub mid (outq s) = false) \/ o_st m = MsWaitPubcomp ->
  Inv c (fst (send (with_out s (update_mid mid (fun m0 => set_st m0 MsWaitPubcomp) (out s)) (inflight s))
                   (mkQ (PPubrel mid (o_tag m)) false))).
Proof.
  intros I Hs Ef Hq2 Hst.
  pose proof (find_mid_In _ _ _ Ef) as [Hin Hmid].
  assert (Hw : is_wait m = true) by (unfold is_wait; destruct Hst as [[-> _]| ->]; reflexivity).
  set (o' := update_mid mid (fun m0 => set_st m0 MsWaitPubcomp) (out s)).
  set (m' := set_st m MsWaitPubcomp).
  assert (Hm'in : In m' o') by (exact (update_mid_hit mid (fun m0 => set_st m0 MsWaitPubcomp) (out s) m Ef)).
  (* no PUBLISH of this message is queued *)
  assert (Hnopub : forall x qs d t, In x (outq s) -> q_pkt x = PPublish mid qs d t -> qs <> 0 -> False).
  { intros x qs d t Hx Ex Hqs. destruct Hst as [[Hst Hp]|Hst].
    - exact (q_has_pub_false _ _ _ _ _ _ _ Hp Hx Ex Hqs eq_refl).
    - pose proof (proj1 (Forall_forall _ _) (inv_q _ _ I) x Hx) as Hok. unfold qpkt_ok in Hok. rewrite Ex in Hok.
      destruct (Hok Hqs) as (w & Hwi & H1 & H2 & H3 & H4 & H5).
      assert (w = m) by (eapply NoDup_mids_eq; [exact (inv_nodup _ _ I) | exact Hwi | exact Hin | congruence]). subst w.
      rewrite Hst in H5. unfold wait_of in H5. destruct (qs =? 1); discriminate. }
  assert (Hqold : Forall (qpkt_ok o') (outq s)).
  { apply Forall_forall. intros x Hx.
    pose proof (proj1 (Forall_forall _ _) (inv_q _ _ I) x Hx) as Hok. unfold qpkt_ok in *.
    destruct (q_pkt x) as [|mi qs d t|mi t|mi|mi|mi] eqn:Ex; try exact Logic.I.
    - intros Hqs. destruct (Hok Hqs) as (w & Hwi & H1 & H2 & H3 & H4 & H5).
      exists w. split; [|tauto]. apply update_mid_other; [exact Hwi|].
      intros E. apply (Hnopub x qs d t Hx); [|exact Hqs]. rewrite Ex. congruence.
    - destruct Hok as (w & Hwi & H1 & H2 & H3).
      destruct (Z.eq_dec (o_mid w) mid) as [E|E].
      + assert (w = m) by (eapply NoDup_mids_eq; [exact (inv_nodup _ _ I) | exact Hwi | exact Hin | congruence]). subst w.
        exists m'. split; [exact Hm'in|]. unfold m'. cbn. tauto.
      + exists w. split; [apply update_mid_other; assumption | tauto]. }
  (* the message-store part: as in the model without a queue *)
  assert (Im' : InvM c (with_out s o' (inflight s))).
  { destruct I as [[[C [U [Q Sh]]] Hnd Hso Htg Hqo Hca Hlm Hnt] _ _].
    pose proof (wait_in_C _ _ _ _ _ _ Sh Hin Hw) as HinC.
    destruct Sh as [So Si SC SU SQ Sm Sf Ss Se].
    apply in_split in HinC as (C1 & C2 & ->).
    assert (So' : out s = C1 ++ m :: (C2 ++ U ++ Q)) by (rewrite So, <- app_assoc; reflexivity).
    pose proof Hnd as Hnd0. rewrite So' in Hnd0. destruct (NoDup_mids_remove _ _ _ Hnd0) as [_ Hn1].
    assert (Hup : o' = (C1 ++ m' :: C2) ++ U ++ Q).
    { unfold o'. rewrite So'. rewrite <- Hmid. rewrite update_mid_split; [|exact Hn1|reflexivity]. rewrite <- app_assoc. reflexivity. }
    rewrite Hup.
    assert (Hm : mids ((C1 ++ m' :: C2) ++ U ++ Q) = mids (out s)).
    { rewrite So. unfold mids. rewrite !map_app. reflexivity. }
    assert (Ht : tags ((C1 ++ m' :: C2) ++ U ++ Q) = tags (out s)).
    { rewrite So. unfold tags. rewrite !map_app. reflexivity. }
    assert (Hrep : forall (P : omsg -> Prop), P m' -> Forall P (out s) -> Forall P ((C1 ++ m' :: C2) ++ U ++ Q)).
    { intros P Hp H. rewrite So in H. apply Forall_app in H as [H1 H2]. apply Forall_app. split; [|assumption].
      apply Forall_app in H1 as [H3 H4]. inversion H4; subst. apply Forall_app. split; [assumption|]. constructor; assumption. }
    constructor; cbn -[mids tags]; rewrite ?Hm, ?Ht; try assumption.
    + exists (C1 ++ m' :: C2), U, Q. constructor; cbn; try assumption.
      * reflexivity.
      * rewrite Si. rewrite !app_length. reflexivity.
      * apply Forall_app in SC as [H3 H4]. inversion H4; subst. apply Forall_app. split; [assumption|]. constructor; [reflexivity|assumption].
      * intros H. specialize (Sm H). rewrite !app_length in *. cbn [length] in *. lia.
      * intros H. specialize (Sf H). rewrite !app_length in *. cbn [length] in *. lia.
      * intros H. specialize (Se H). apply Forall_app in Se as [H3 H4]. inversion H4; subst.
        apply Forall_app. split; [assumption|]. constructor; [reflexivity|assumption].
    + apply Hrep; [|assumption]. unfold m'. cbn. exact (proj1 (Forall_forall _ _) Htg m Hin).
    + apply Hrep; [|assumption]. unfold m', qos_okb. cbn. rewrite Hq2. reflexivity. }
  assert (Hx : qpkt_ok o' (mkQ (PPubrel mid (o_tag m)) false)).
  { unfold qpkt_ok. cbn [q_pkt]. exists m'. split; [exact Hm'in|]. unfold m'. cbn. tauto. }
  destruct (invq_send (with_out s o' (inflight s)) (mkQ (PPubrel mid (o_tag m)) false) o'
              (inv_qidle _ _ I) Hqold Hx) as [H1 H2].
  constructor; [apply invm_send; exact Im' | rewrite send_can; exact H1 | rewrite send_out; exact H2].
Qed.

(* ---- one inbound packet ---- *)
Lemma inv_rx s p r : Inv c s -> conf_op c s (ORx p r) = true -> Inv c (fst (do_rx c s p r)).
Proof.
  intros I Hconf. cbn [conf_op] in Hconf.
  destruct (sock s) eqn:Hs; [|unfold do_rx; rewrite Hs; cbn [negb fst]; exact I].
  cbn [negb] in Hconf.
  destruct p as [rc|mid|mid|mid|mid|q mid tag].
  - (* CONNACK *) apply inv_connack; assumption.
  - (* PUBACK *)
    unfold do_rx. rewrite Hs. cbn [negb].
    destruct (find_mid mid (out s)) as [m|] eqn:Ef; [|cbn [fst]; exact I].
    pose proof (find_mid_In _ _ _ Ef) as [Hin Hmid]. subst mid.
    apply andb_true_iff in Hconf as [Hck Hconf]. apply andb_true_iff in Hconf as [Hconf Hnq].
    apply andb_true_iff in Hconf as [Hq Hst].
    assert (Hst' : o_st m = MsWaitPuback) by (destruct (o_st m); try discriminate; reflexivity).
    pose proof (inv_on_publish s m I Hs Hck Hin) as H.
    destruct (do_on_publish c s m) as [s' ev] eqn:Ed. cbn [fst] in *.
    apply H; [unfold is_wait; rewrite Hst'; reflexivity|].
    apply conf_free; [exact I | exact Hin|]. left. split; [exact Hst'|]. destruct (q_has_pub (o_mid m) (outq s)); [discriminate|reflexivity].
  - (* PUBREC *)
    unfold do_rx. rewrite Hs. cbn [negb].
    destruct (find_mid mid (out s)) as [m|] eqn:Ef; [|cbn [fst]; exact I].
    apply andb_true_iff in Hconf as [Hck Hconf]. apply andb_true_iff in Hconf as [Hq Hst].
    pose proof (inv_pubrec s mid m I Hs Ef ltac:(lia)) as H.
    destruct (send _ _) as [s' ev]. cbn [fst] in *. apply H.
    destruct (o_st m); try discriminate; [left; split; [reflexivity|] | right; reflexivity].
    destruct (q_has_pub mid (outq s)); [discriminate|reflexivity].
  - (* PUBCOMP *)
    unfold do_rx. rewrite Hs. cbn [negb].
    destruct (find_mid mid (out s)) as [m|] eqn:Ef; [|cbn [fst]; exact I].
    pose proof (find_mid_In _ _ _ Ef) as [Hin Hmid]. subst mid.
    apply andb_true_iff in Hconf as [Hck Hconf]. apply andb_true_iff in Hconf as [Hconf Hnq].
    apply andb_true_iff in Hconf as [Hq Hst].
    assert (Hst' : o_st m = MsWaitPubcomp) by (destruct (o_st m); try discriminate; reflexivity).
    pose proof (inv_on_publish s m I Hs Hck Hin) as H.
    destruct (do_on_publish c s m) as [s' ev] eqn:Ed. cbn [fst] in *.
    apply H; [unfold is_wait; rewrite Hst'; reflexivity|].
    apply conf_free; [exact I | exact Hin|]. right. split; [exact Hst'|]. destruct (q_has_rel (o_mid m) (outq s)); [discriminate|reflexivity].
  - (* PUBREL *)
    unfold do_rx. rewrite Hs. cbn [negb].
    destruct (in_find mid (inm s)) as [tag|].
    + destruct (deliver c mid 2 tag r) as [ev pr]. destruct pr; [|destruct (c_manual c)]; cbn [fst];
        try (apply inv_with_inm; exact I).
      pose proof (inv_send_plain c (with_inm s (in_remove mid (inm s))) (mkQ (PPubcomp mid) false)
                    (inv_with_inm _ _ I) Logic.I) as H.
      destruct (send _ _). exact H.
    + destruct (c_manual c); cbn [fst]; [exact I|].
      pose proof (inv_send_plain c s (mkQ (PPubcomp mid) false) I Logic.I) as H. destruct (send _ _). exact H.
  - (* PUBLISH *)
    unfold do_rx. rewrite Hs. cbn [negb].
    destruct (q =? 0).
    + destruct (deliver c 0 0 tag r) as [ev pr]. cbn [fst]. exact I.
    + destruct (q =? 1).
      * destruct (deliver c mid 1 tag r) as [ev pr]. destruct pr; [|destruct (c_manual c)]; cbn [fst]; try exact I.
        pose proof (inv_send_plain c s (mkQ (PPuback mid) false) I Logic.I) as H. destruct (send _ _). exact H.
      * pose proof (inv_send_plain c s (mkQ (PPubrec mid) false) I Logic.I) as H. destruct (send _ _).
        cbn [fst] in *. apply inv_with_inm. exact H.
Qed.

Lemma inv_ack s mid q : Inv c s -> Inv c (fst (do_ack c s mid q)).
Proof.
  intros I. unfold do_ack. destruct (c_manual c); [|exact I].
  destruct (q =? 1); [apply inv_send_plain; [exact I | exact Logic.I]|].
  destruct (q =? 2); [apply inv_send_plain; [exact I | exact Logic.I] | exact I].
Qed.

Lemma inv_block s b : Inv c s -> Inv c (fst (do_block s b)).
Proof.
  intros [Im Hi Hq]. unfold do_block. destruct (sock s) eqn:Hs; [|constructor; assumption].
  destruct b; cbn [fst lw].
  - constructor; [revert Im; apply invm_ext; reflexivity | | exact Hq].
    unfold can_write. cbn. rewrite andb_false_r. discriminate.
  - constructor; [revert Im; apply invm_ext; reflexivity | reflexivity | constructor].
Qed.

Theorem inv_step s o : Inv c s -> conf_op c s o = true -> Inv c (fst (step c s o)).
Proof.
  intros I Hc. destruct o as [q|ok| |p r|mid q|b]; cbn [step].
  - apply inv_publish; assumption.
  - apply inv_reconnect; assumption.
  - apply (inv_connlost s I).
  - apply inv_rx; assumption.
  - apply inv_ack; assumption.
  - apply inv_block; assumption.
Qed.

End Preserve.
