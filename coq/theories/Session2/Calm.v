(* Histories without a hard write failure ([OTransport TFail] does not occur): every operation is one of the two-mode
   operations of Session2/Legacy.v (Bridge.v), so a relation that the two-mode operations preserve holds along the
   whole run of the model.  This is how the theorems proved operation by operation for the two-mode operations
   (L*.v) become theorems about the model's own [run] - for these histories; the operations on a dead socket are
   added in the property files themselves where they are proved. *)
From PahoV Require Import Base.Prelude Codec.Mid Session2.Model Session2.Check Session2.Statements Session2.Bridge.
From PahoV Require Session2.Legacy.

Lemma settle_failing s q a : failing (settle s q a) = failing s.
Proof. destruct a; reflexivity. Qed.
Lemma send_failing s x : failing (fst (send s x)) = failing s.
Proof.
  unfold send. destruct (sock s); [|reflexivity].
  destruct (pq (conn s) (tm s) true (outq s) x) as [[q' ev] a]. cbn [fst]. apply settle_failing.
Qed.

(* only the transport operation [TFail] makes a socket dead *)
Lemma failing_step c s o : failing s = false -> is_tfail o = false -> failing (fst (step c s o)) = false.
Proof.
  intros Hf Ho. destruct o as [q|ok| |p r|mid q|m]; cbn [step].
  - unfold do_publish. cbv zeta. destruct (q =? 0).
    + destruct (sock s); [|exact Hf].
      match goal with |- context [send ?s0 ?x0] => pose proof (send_failing s0 x0) as H; destruct (send s0 x0) end. cbn [fst] in *. rewrite H. exact Hf.
    + destruct ((c_maxq c >? 0) && (Z.of_nat (length (out s)) >=? c_maxq c)); [exact Hf|].
      destruct (has_mid (mid_next (last_mid s)) (out s)); [exact Hf|].
      destruct (window_free c (inflight s)); [|exact Hf]. destruct (sock s); [|exact Hf].
      match goal with |- context [send ?s0 ?x0] => pose proof (send_failing s0 x0) as H; destruct (send s0 x0) as [s2 ev] end.
      cbn [fst] in *. destruct (sock s2); cbn [fst failing with_out]; rewrite H; exact Hf.
  - unfold do_reconnect. destruct (reset_out_list c (clean_now c s) 0 (out s)). destruct ok; reflexivity.
  - destruct (sock s); exact Hf.
  - unfold do_rx. destruct (sock s); cbn [negb]; [|exact Hf].
    destruct p as [rc|mid|mid|mid|mid|q mid tag].
    + destruct (rc =? 0); [|exact Hf].
      destruct (connack_loop (conn s) (tm s) (outq s) (out s)) as [[[o q'] ev] a]. cbn [fst]. rewrite settle_failing. exact Hf.
    + destruct (find_mid mid (out s)) as [m|]; [|exact Hf]. unfold do_on_publish. destruct (c_max c >? 0); [|exact Hf].
      destruct (update_inflight c (conn s) (tm s) (inflight s - 1) (outq s) (remove_mid (o_mid m) (out s))) as [[[[o' n] q'] ev] a].
      cbn [fst]. rewrite settle_failing. exact Hf.
    + destruct (find_mid mid (out s)) as [m|]; [|exact Hf].
      match goal with |- context [send ?s0 ?x0] => pose proof (send_failing s0 x0) as H; destruct (send s0 x0) end. cbn [fst] in *. rewrite H. exact Hf.
    + destruct (find_mid mid (out s)) as [m|]; [|exact Hf]. unfold do_on_publish. destruct (c_max c >? 0); [|exact Hf].
      destruct (update_inflight c (conn s) (tm s) (inflight s - 1) (outq s) (remove_mid (o_mid m) (out s))) as [[[[o' n] q'] ev] a].
      cbn [fst]. rewrite settle_failing. exact Hf.
    + destruct (in_find mid (inm s)) as [tag|].
      * destruct (deliver c mid 2 tag r) as [ev pr]. destruct pr; [exact Hf|]. destruct (c_manual c); [exact Hf|].
        match goal with |- context [send ?s0 ?x0] => pose proof (send_failing s0 x0) as H; destruct (send s0 x0) end. cbn [fst] in *. rewrite H. exact Hf.
      * destruct (c_manual c); [exact Hf|].
        match goal with |- context [send ?s0 ?x0] => pose proof (send_failing s0 x0) as H; destruct (send s0 x0) end. cbn [fst] in *. rewrite H. exact Hf.
    + destruct (q =? 0); [destruct (deliver c 0 0 tag r); exact Hf|].
      destruct (q =? 1).
      * destruct (deliver c mid 1 tag r) as [ev pr]. destruct pr; [exact Hf|]. destruct (c_manual c); [exact Hf|].
        match goal with |- context [send ?s0 ?x0] => pose proof (send_failing s0 x0) as H; destruct (send s0 x0) end. cbn [fst] in *. rewrite H. exact Hf.
      * match goal with |- context [send ?s0 ?x0] => pose proof (send_failing s0 x0) as H; destruct (send s0 x0) end. cbn [fst failing with_inm] in *. rewrite H. exact Hf.
  - unfold do_ack. destruct (c_manual c); [|exact Hf].
    destruct (q =? 1); [rewrite send_failing; exact Hf|]. destruct (q =? 2); [rewrite send_failing; exact Hf | exact Hf].
  - unfold do_transport. destruct (sock s); [|exact Hf]. destruct m; [| reflexivity | discriminate].
    destruct (lw (conn s) TAccept true (outq s)) as [[q' ev] a]. cbn [fst]. rewrite settle_failing. reflexivity.
Qed.

Lemma calm_nofail s o : failing s = false -> is_tfail o = false -> calm s o.
Proof.
  intros Hf Ho. split; [intros _; exact Hf|]. intros ->. discriminate.
Qed.

Section Lift.
Variable c : cfg.
(* [I]: an invariant of the two-mode operations; [R]: a relation between model state and checker state that they preserve *)
Variable I : sess -> Prop.
Hypothesis Istep : forall s o, I s -> Legacy.conf_op c s o = true -> I (fst (Legacy.step c s o)).
Variables (K : Type) (opf : K -> list event -> K) (R : sess -> K -> Prop).
Hypothesis Rstep : forall s o k, I s -> Legacy.conf_op c s o = true -> R s k ->
  R (fst (Legacy.step c s o)) (opf k (snd (Legacy.step c s o))).

Lemma lift_calm : forall ops s k, I s -> failing s = false -> no_fail ops = true ->
  conforming_from c s ops = true -> R s k ->
  exists s', R s' (fold_left opf (map snd (run_steps c s ops)) k).
Proof.
  induction ops as [|o ops IH]; intros s k Hi Hf Hn Hc HR; cbn [run_steps conforming_from no_fail forallb] in *.
  - exists s. exact HR.
  - apply andb_true_iff in Hc as [Hc1 Hc2]. apply andb_true_iff in Hn as [Hn1 Hn2]. apply negb_true_iff in Hn1.
    pose proof (failing_step c s o Hf Hn1) as Hf'.
    rewrite (conf_bridge c s o) in Hc1.
    pose proof (step_bridge c s o (calm_nofail s o Hf Hn1)) as E.
    pose proof (Istep s (leg o) Hi Hc1) as Hi'. pose proof (Rstep s (leg o) k Hi Hc1 HR) as HR'.
    rewrite <- E in Hi', HR'. rewrite E in Hc2 |- *. rewrite <- E in *.
    destruct (step c s o) as [s1 e1]. cbn [fst snd map fold_left] in *.
    exact (IH s1 _ Hi' Hf' Hn2 Hc2 HR').
Qed.
End Lift.
