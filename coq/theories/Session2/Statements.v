(* The theorem statements of the Session properties on the second-generation model (output queue,
   transport that may refuse writes), fixed here so that proof files cannot quietly weaken them.
   [optrace c ops] is the op-structured trace of the model run; [conforming] is the
   broker-conformance predicate of Session2/Model.v (an acknowledgement can only arrive for a packet
   that was WRITTEN); the checkers are in Session2/Check.v. *)
From PahoV Require Import Base.Prelude Session2.Model Session2.Check.

(* histories in which no write fails hard: the operation [OTransport TFail] (the peer vanishes; the next write
   raises OSError) does not occur.  Every statement below quantifies over ALL conforming histories, those with hard
   write failures included; [no_fail] is only used to exhibit such a history (Props/S2.v). *)
Definition is_tfail (o : op) : bool := match o with OTransport TFail => true | _ => false end.
Definition no_fail (ops : list op) : bool := forallb (fun o => negb (is_tfail o)) ops.

Definition C01_stmt : Prop := forall c ops,
  cfg_ok c = true -> conforming c ops = true -> c01_ok c (optrace c ops) = true.

Definition C02_stmt : Prop := forall c ops,
  cfg_ok c = true -> conforming c ops = true -> c02_ok c (optrace c ops) = true.

Definition C03_stmt : Prop := forall c ops,
  c03_ok c (optrace c ops) = true.     (* arbitrary histories: no conformance hypothesis *)

(* window bound on the packets WRITTEN on the current connection ... *)
Definition C12_window_stmt : Prop := forall c ops,
  cfg_ok c = true -> conforming c ops = true -> c12_window_ok c (optrace c ops) = true.

(* ... and the stronger bound on the packets HANDED to it *)
Definition C12_handed_stmt : Prop := forall c ops,
  cfg_ok c = true -> conforming c ops = true -> c12_handed_ok c (optrace c ops) = true.

Definition C12_queue_stmt : Prop := forall c ops,
  cfg_ok c = true -> conforming c ops = true -> c12_queue_ok c (optrace c ops) = true.

(* publish() order of the hand-overs and of the writes, per connection *)
Definition C13_handed_stmt : Prop := forall c ops,
  cfg_ok c = true -> conforming c ops = true -> c13_handed_ok c (optrace c ops) = true.

Definition C13_tx_stmt : Prop := forall c ops,
  cfg_ok c = true -> conforming c ops = true -> c13_tx_ok c (optrace c ops) = true.

(* the output queue is a FIFO: per connection the written packets are a prefix of the handed packets;
   nothing stays queued on an open socket that accepts writes.  Arbitrary histories. *)
Definition FIFO_stmt : Prop := forall c ops,
  fifo_ok (optrace c ops) = true.

(* a fact about traces, not about the model: on ANY trace that obeys the queue discipline, publish()
   order of the hand-overs implies publish() order of the writes (this is how C13 is transferred from
   [Handed] to [Tx]; it applies equally to traces recorded from the implementation) *)
Definition C13_transfer_stmt : Prop := forall c tr,
  fifo_ok tr = true -> c13_handed_ok c tr = true -> c13_tx_ok c tr = true.
